package main

import (
	"fmt"
	"sort"
	"strings"
	"sync"
	"time"

	"github.com/sheerbytes/sheerbytes/internal/peers"
	"github.com/sheerbytes/sheerbytes/pkg/protocol"
	"github.com/sheerbytes/sheerbytes/verifharness/internal/hx"
)

// C11 (and the hub half of C10): the signaling hub under interleavings of its
// lock-delimited phases.  Every operation of a history runs on a REAL peers.Hub;
// remove / CloseSession / Broadcast run in their own goroutines and are parked
// at verifhook points so that the harness chooses the interleaving.  Writer
// goroutines deliver through a gate controlled by the harness (each take from
// the channel becomes a `Pop` of the model).  Panics are recovered and counted.

type hubConn struct {
	id, peer, sess int
	remove         func()
	taken          []int // message ids the writer took out of the channel, in order
	gate           chan struct{}
	open           bool // gate permanently open
	holding        bool
	added          bool
	rmStarted      bool
	replaced       bool
	closedBySess   bool
}

type hubRun struct {
	hub      *peers.Hub
	st       *stepper
	mu       sync.Mutex
	conns    map[int]*hubConn
	entered  chan int // conn id: its writer has taken a message and waits at the gate
	ops      []string // model ops, as Coq terms
	outs     []string // expected outs, as Coq terms
	names    []string // human-readable history
	nextConn int
	nextMsg  int
	nextBid  int
	msgSess  map[int]int
	msgFrom  map[int]int // author conn id (0 = server)
	panics   []string
	viol     [][2]string
	wedged   string // operation that never came back: the hub is deadlocked
	// messages put into each connection's channel so far (from the routing state right
	// before each send): settle waits until the writers have taken every one of them
	// out of the channel AND entered the send callback, instead of guessing from timing
	delivered map[int]int
}

const hubOpTimeout = 30 * time.Second

// guarded runs one call into the hub on its own goroutine and waits for it, so
// that a panic inside the hub is recorded and a call that never comes back (a
// lock left held) is reported as a deadlock instead of hanging the harness.
func (r *hubRun) guarded(name string, f func()) bool {
	if r.wedged != "" {
		return false
	}
	done := make(chan any, 1)
	go func() {
		defer func() { done <- recover() }()
		f()
	}()
	select {
	case p := <-done:
		if p != nil {
			r.panics = append(r.panics, fmt.Sprintf("%s: %v", name, p))
		}
		return true
	case <-time.After(hubOpTimeout):
		r.wedged = name
		return false
	}
}

func sname(s int) string { return fmt.Sprintf("s%d", s) }
func pname(p int) string { return fmt.Sprintf("p%d", p) }
func cname(c int) string { return fmt.Sprintf("c%d", c) }

func cnum(s string) int {
	var n int
	fmt.Sscanf(s[1:], "%d", &n)
	return n
}

func natList(xs []int) string {
	if len(xs) == 0 {
		return "[]"
	}
	parts := make([]string, len(xs))
	for i, x := range xs {
		parts[i] = fmt.Sprint(x)
	}
	return "[" + strings.Join(parts, "; ") + "]%nat"
}

func (r *hubRun) record(op, out, name string) {
	r.ops = append(r.ops, op)
	r.outs = append(r.outs, out)
	r.names = append(r.names, name)
}

// drainEntered turns writer takes observed so far into Pop ops.
func (r *hubRun) drainEntered(wait time.Duration) {
	deadline := time.After(wait)
	for {
		select {
		case c := <-r.entered:
			r.record(fmt.Sprintf("Hub.Pop %d", c), "Hub.OUnit", fmt.Sprintf("pop(%s)", cname(c)))
		case <-deadline:
			return
		}
	}
}

// settle waits until every writer is either holding a message at its gate or has
// an empty channel (or is gone), recording the takes.
func (r *hubRun) settle() {
	for i := 0; i < 2000; i++ {
		r.drainEntered(0)
		stable := true
		r.mu.Lock()
		for _, c := range r.conns {
			if !c.added {
				continue
			}
			n := r.hub.VerifChanLen(sname(c.sess), cname(c.id))
			if n < 0 {
				n = 0
			}
			// parked at its (closed, token-less) gate with a message in hand: stable.
			// Holding while the gate is open or a permit is pending is a transient state.
			if c.holding && !c.open && len(c.gate) == 0 {
				continue
			}
			// otherwise the writer must have taken everything that was put into its
			// channel and be back waiting on the (empty) channel
			if c.holding || n > 0 || len(c.taken)+n < r.delivered[c.id] {
				stable = false
			}
		}
		r.mu.Unlock()
		if stable {
			r.drainEntered(200 * time.Microsecond)
			return
		}
		time.Sleep(50 * time.Microsecond)
	}
}

func (r *hubRun) add(sess, peer int) int {
	r.nextConn++
	id := r.nextConn
	c := &hubConn{id: id, peer: peer, sess: sess, gate: make(chan struct{}, 1024), added: true}
	r.mu.Lock()
	// a connection with the same peer id in the same session is replaced
	for _, o := range r.conns {
		if o.sess == sess && o.peer == peer && o.added && !o.rmStarted && !o.replaced && !o.closedBySess {
			o.replaced = true
		}
	}
	r.conns[id] = c
	r.mu.Unlock()
	send := func(env protocol.Envelope) error {
		var m int
		fmt.Sscanf(env.MsgID, "m%d", &m)
		r.mu.Lock()
		c.taken = append(c.taken, m)
		c.holding = true
		open := c.open
		r.mu.Unlock()
		r.entered <- id
		if !open {
			<-c.gate
		}
		r.mu.Lock()
		c.holding = false
		r.mu.Unlock()
		return nil
	}
	c.remove = r.hub.Add(sname(sess), peers.Peer{PeerID: pname(peer), Role: "receiver", ConnID: cname(id)}, send, func() {})
	r.record(fmt.Sprintf("Hub.Add %d %d %d", sess, peer, id), "Hub.OUnit", fmt.Sprintf("add(%s,%s)=%s", sname(sess), pname(peer), cname(id)))
	return id
}

func (r *hubRun) openGate(c *hubConn) {
	r.mu.Lock()
	c.open = true
	r.mu.Unlock()
	for i := 0; i < 600; i++ {
		select {
		case c.gate <- struct{}{}:
		default:
		}
	}
}

func (r *hubRun) newMsg(sess, from int) protocol.Envelope {
	r.nextMsg++
	r.msgSess[r.nextMsg] = sess
	r.msgFrom[r.nextMsg] = from
	return protocol.Envelope{V: 1, Type: "x", MsgID: fmt.Sprintf("m%d", r.nextMsg), SessionID: sname(sess)}
}

type hubTask struct {
	kind string // remove | closesession | broadcast
	t    *task
	conn int
	sess int
	bid  int
	msg  int
	name string
}

// advance resumes a parked task by one phase and records the model op that the
// resumed phase performs.
func (r *hubRun) advance(ht *hubTask) {
	cur := ht.t.cur
	if cur == nil {
		return
	}
	switch cur.name {
	case "hub.remove.unlinked":
		// next phase closes the channel; let the writer drain so that remove does not wait
		r.openGate(r.conns[ht.conn])
		ht.t.step()
		r.record(fmt.Sprintf("Hub.Rm2 %d", ht.conn), "Hub.OUnit", fmt.Sprintf("remove2(%s)", cname(ht.conn)))
	case "hub.remove.closed":
		ht.t.step()
		r.record(fmt.Sprintf("Hub.Rm3 %d", ht.conn), "Hub.OUnit", fmt.Sprintf("remove3(%s)", cname(ht.conn)))
	case "hub.closesession.detached":
		ht.t.step()
	case "hub.closesession.close":
		c := cnum(cur.args[0].(string))
		r.openGate(r.conns[c])
		ht.t.step()
		r.record(fmt.Sprintf("Hub.Cs2 %d %d", ht.sess, c), "Hub.OUnit", fmt.Sprintf("closesession2(%s,%s)", sname(ht.sess), cname(c)))
	default:
		ht.t.step()
	}
	if ht.t.panicked != nil {
		r.panics = append(r.panics, fmt.Sprintf("%s: %v", ht.name, ht.t.panicked))
		ht.t.panicked = nil
	}
	r.settle()
}

func (r *hubRun) startRemove(c int) *hubTask {
	conn := r.conns[c]
	conn.rmStarted = true
	ht := &hubTask{kind: "remove", conn: c, name: fmt.Sprintf("remove(%s)", cname(c))}
	ht.t = r.st.spawn(ht.name, conn.remove)
	unlinked := ht.t.cur != nil
	r.record(fmt.Sprintf("Hub.Rm1 %d", c), fmt.Sprintf("Hub.OBool %s", hx.B(unlinked)), fmt.Sprintf("remove1(%s)", cname(c)))
	if !unlinked {
		// remove() returned at once (replaced or session gone): nobody closes the
		// channel any more on this path; release its writer so it does not linger
		r.openGate(conn)
	}
	r.settle()
	return ht
}

func (r *hubRun) startCloseSession(sess int) *hubTask {
	ht := &hubTask{kind: "closesession", sess: sess, name: fmt.Sprintf("closesession(%s)", sname(sess))}
	// the snapshot CloseSession takes is the content of the session map right before
	before := r.hub.VerifState().Sessions[sname(sess)]
	ht.t = r.st.spawn(ht.name, func() { r.hub.CloseSession(sname(sess)) })
	ids := make([]int, len(before))
	for i, s := range before {
		ids[i] = cnum(s)
	}
	sort.Ints(ids)
	r.record(fmt.Sprintf("Hub.Cs1 %d", sess), fmt.Sprintf("Hub.OList %s", natList(ids)), ht.name+"1")
	r.mu.Lock()
	for _, id := range ids {
		r.conns[id].closedBySess = true
	}
	r.mu.Unlock()
	if ht.t.cur != nil && ht.t.cur.name == "hub.closesession.detached" {
		ht.t.step() // to the first per-connection close (or the end)
	}
	r.settle()
	return ht
}

// broadcast is one atomic step of the fixed hub (the sends happen under the read
// lock); what it sent to is derived from the routing maps right before the call.
func (r *hubRun) broadcast(sess int, except int, from int) {
	env := r.newMsg(sess, from)
	before := r.hub.VerifState()
	var todo []int
	exConn := ""
	if except >= 0 {
		exConn = before.ByPeer[sname(sess)][pname(except)]
	}
	for _, s := range before.Sessions[sname(sess)] {
		if s != exConn {
			todo = append(todo, cnum(s))
		}
	}
	sort.Ints(todo)
	full := map[int]bool{}
	for _, c := range todo {
		if r.hub.VerifChanLen(sname(sess), cname(c)) >= 256 {
			full[c] = true
		}
	}
	ex := "None"
	name := fmt.Sprintf("broadcast(%s,m%d)", sname(sess), r.nextMsg)
	func() {
		defer func() {
			if p := recover(); p != nil {
				r.panics = append(r.panics, fmt.Sprintf("%s: %v", name, p))
			}
		}()
		if except >= 0 {
			ex = fmt.Sprintf("(Some %d%%nat)", except)
			name = fmt.Sprintf("broadcastexcept(%s,%s,m%d)", sname(sess), pname(except), r.nextMsg)
			r.hub.BroadcastExcept(sname(sess), pname(except), env)
		} else {
			r.hub.Broadcast(sname(sess), env)
		}
	}()
	r.mu.Lock()
	for _, c := range todo {
		if full[c] {
			continue // a full channel drops the message
		}
		r.delivered[c]++
	}
	r.mu.Unlock()
	r.record(fmt.Sprintf("Hub.Bcast %d %s %d", sess, ex, r.nextMsg), fmt.Sprintf("Hub.OList %s", natList(todo)), name)
	r.settle()
}

func (r *hubRun) sendTo(sess, peer, from int) {
	env := r.newMsg(sess, from)
	ok := false
	target := r.hub.VerifState().ByPeer[sname(sess)][pname(peer)]
	func() {
		defer func() {
			if p := recover(); p != nil {
				r.panics = append(r.panics, fmt.Sprintf("sendto: %v", p))
			}
		}()
		ok = r.hub.SendTo(sname(sess), pname(peer), env)
	}()
	if ok && target != "" {
		r.mu.Lock()
		r.delivered[cnum(target)]++
		r.mu.Unlock()
	}
	r.record(fmt.Sprintf("Hub.SendTo %d %d %d", sess, peer, r.nextMsg), fmt.Sprintf("Hub.OBool %s", hx.B(ok)), fmt.Sprintf("sendto(%s,%s,m%d)=%v", sname(sess), pname(peer), r.nextMsg, ok))
	r.settle()
}

func (r *hubRun) list(sess int) {
	l := r.hub.List(sname(sess))
	// compare as the sorted list of conn ids currently attached (peer ids are derivable)
	st := r.hub.VerifState()
	ids := []int{}
	for _, s := range st.Sessions[sname(sess)] {
		ids = append(ids, cnum(s))
	}
	sort.Ints(ids)
	if len(l) != len(ids) {
		r.viol = append(r.viol, [2]string{"list", fmt.Sprintf("List(%s) returned %d peers, the session map has %d", sname(sess), len(l), len(ids))})
	}
	r.record(fmt.Sprintf("Hub.ListOp %d", sess), fmt.Sprintf("Hub.OList %s", natList(ids)), fmt.Sprintf("list(%s)", sname(sess)))
}

func (r *hubRun) permit(c int) {
	conn := r.conns[c]
	if conn == nil || conn.open {
		return
	}
	select {
	case conn.gate <- struct{}{}:
	default:
	}
	r.settle()
}

package main

import (
	"fmt"
	"sort"
	"strings"
	"time"

	"github.com/sheerbytes/sheerbytes/internal/scheduler"
	"github.com/sheerbytes/sheerbytes/verifharness/internal/hx"
)

// C17 (files): the REAL scheduler.HybridScheduler, call by call.
//
//  1. random call sequences (Add with arbitrary meta, UpdateRemaining, Remove,
//     SetParallelFiles, Next with a harness-controlled clock) - every call, its
//     result and the class counts of Snapshot() go to Model/Sched.v (cases S);
//  2. the sender's usage pattern (Add all pending; Next + Add-as-started while
//     fewer than `streams` files are active; Remove of an active file in a
//     random order) with the property's own oracle evaluated on what the real
//     scheduler returned: every file handed out exactly once, only manifest
//     files, a refusal only while something is active, everything begun at the end.

var c17base = time.Unix(1_000_000_000, 0)

func c17time(t int64) time.Time { return c17base.Add(time.Duration(t)) }

func c17key(k int) scheduler.FileKey {
	// order-preserving names: RelPath order = numeric order of k
	return scheduler.FileKey{StreamID: uint64(1000 + k), RelPath: fmt.Sprintf("d/f%04d.bin", k)}
}

type c17frac struct {
	num, den int64
	f        float64
}

var c17fracs = []c17frac{{0, 1, 0}, {1, 4, 0.25}, {1, 2, 0.5}, {1, 8, 0.125}, {3, 4, 0.75}, {1, 1, 1}, {2, 1, 2}, {-1, 1, -1}}

type c17scfg struct {
	parallel     int
	smallT, medT int64
	frac         c17frac
	aging        int64 // ns
}

func (c c17scfg) policy() scheduler.PolicyConfig {
	return scheduler.PolicyConfig{ParallelFiles: c.parallel, SmallThreshold: c.smallT, MediumThreshold: c.medT, SmallSlotFrac: c.frac.f, AgingAfter: time.Duration(c.aging)}
}

func (c c17scfg) coq() string {
	return fmt.Sprintf("(Sched.mkCfg %s %s %s %s %s %s)", hx.Z(int64(c.parallel)), hx.Z(c.smallT), hx.Z(c.medT), hx.Z(c.frac.num), hx.Z(c.frac.den), hx.Z(c.aging))
}

func c17randCfg(rng *hx.Rand) c17scfg {
	return c17scfg{
		parallel: rng.Pick(0, 1, 1, 2, 3, 4, 8, 16, -2),
		smallT:   int64(rng.Pick(0, 10, 100, 1000, -5)),
		medT:     int64(rng.Pick(0, 50, 1000, 5000, 1)),
		frac:     c17fracs[rng.Intn(len(c17fracs))],
		aging:    int64(rng.Pick(0, 1000, 1_000_000, 5_000_000_000, -1)),
	}
}

func c17snap(s *scheduler.HybridScheduler) string {
	m := s.Snapshot().(map[string]any)
	g := func(k string) int64 { return int64(m[k].(int)) }
	return hx.List([]string{hx.Z(g("queued_small")), hx.Z(g("queued_medium")), hx.Z(g("queued_large")),
		hx.Z(g("active_small")), hx.Z(g("active_medium")), hx.Z(g("active_large"))})
}

func c17optT(set bool, t int64) string {
	if !set {
		return "None"
	}
	return "(Some " + hx.Z(t) + ")"
}

// relpath -> model key
func c17keyNum(k scheduler.FileKey) int64 {
	var n int64
	fmt.Sscanf(k.RelPath, "d/f%04d.bin", &n)
	return n
}

func c17nextOut(k scheduler.FileKey, ok bool) string {
	if !ok {
		return "(Sched.ONext None)"
	}
	return "(Sched.ONext (Some " + hx.Z(c17keyNum(k)) + "))"
}

func runC17sched(cfg config, rep *hx.Report) {
	cf := &hx.CasesFile{Dir: cfg.out, Name: "C17s", Module: "C17", Imports: []string{"Model.Sched", "Corr.C17"}, PerShard: 120}
	rng := hx.NewRand(cfg.seed).Fork(17)
	nRandom, nUsage := 140, 160
	if cfg.tier == "thorough" {
		nRandom, nUsage = 2500, 2500
	}
	id := 500000
	sizesPool := []int64{0, 1, 5, 9, 10, 11, 49, 50, 51, 99, 100, 101, 999, 1000, 1001, 4999, 5000, 5001, 70000, 4 << 20, 4<<20 + 1, 64 << 20, 64<<20 + 1, 1 << 33}

	// ---- 1. random call sequences ----
	for h := 0; h < nRandom; h++ {
		c := c17randCfg(rng)
		s := scheduler.NewHybridScheduler(c.policy())
		var tr []string
		clock := int64(rng.Intn(1000))
		nkeys := 1 + rng.Intn(7)
		steps := 5 + rng.Intn(40)
		nexts := 0
		for i := 0; i < steps; i++ {
			k := rng.Intn(nkeys)
			var op, out string
			switch x := rng.Intn(20); {
			case x < 7:
				size := sizesPool[rng.Intn(len(sizesPool))]
				rem := size
				switch rng.Intn(5) {
				case 0:
					rem = -1
				case 1:
					rem = 0
				case 2:
					rem = sizesPool[rng.Intn(len(sizesPool))]
				}
				started := rng.Intn(4) == 0
				hasLast := rng.Intn(3) == 0
				last := clock - int64(rng.Pick(0, 1, 999, 1001, 2_000_000, 6_000_000_000))
				meta := scheduler.FileMeta{RelPath: c17key(k).RelPath, Size: size, Remaining: rem, AddedAt: c17time(clock)}
				if rng.Intn(6) == 0 {
					meta.RelPath = "" // Add fills it in from the key
				}
				if started {
					meta.StartedAt = c17time(clock)
				}
				if hasLast {
					meta.LastScheduledAt = c17time(last)
				}
				s.Add(c17key(k), meta)
				op = fmt.Sprintf("(Sched.Add %s %s %s %s %s)", hx.Z(int64(k)), hx.Z(size), hx.Z(rem), hx.B(started), c17optT(hasLast, last))
				out = "Sched.OUnit"
			case x < 9:
				rem := sizesPool[rng.Intn(len(sizesPool))]
				if rng.Intn(4) == 0 {
					rem = -3
				}
				s.UpdateRemaining(c17key(k), rem)
				op = fmt.Sprintf("(Sched.Update %s %s)", hx.Z(int64(k)), hx.Z(rem))
				out = "Sched.OUnit"
			case x < 11:
				s.Remove(c17key(k))
				op = fmt.Sprintf("(Sched.Remove %s)", hx.Z(int64(k)))
				out = "Sched.OUnit"
			case x < 12:
				n := rng.Pick(-1, 0, 1, 2, 5, 16)
				s.SetParallelFiles(n)
				op = fmt.Sprintf("(Sched.SetParallel %s)", hx.Z(int64(n)))
				out = "Sched.OUnit"
			default:
				clock += int64(rng.Pick(0, 1, 500, 1000, 1001, 1_000_001, 3_000_000_000, 5_000_000_001))
				key, ok := s.Next(c17time(clock))
				op = fmt.Sprintf("(Sched.Next %s 0%%nat)", hx.Z(clock))
				out = c17nextOut(key, ok)
				nexts++
				if ok {
					rep.Count("sched:next-some")
				} else {
					rep.Count("sched:next-none")
				}
			}
			tr = append(tr, fmt.Sprintf("(%s, %s, %s)", op, out, c17snap(s)))
			rep.Evaluations++
		}
		id++
		cf.Add(fmt.Sprintf("C17.S %d %s %s", id, c.coq(), hx.List(tr)))
		rep.CaseIndex[fmt.Sprint(id)] = map[string]any{"kind": "scheduler-random", "cfg": fmt.Sprintf("%+v", c), "trace": tr}
		rep.Count("sched:random-sequence")
		if nexts > 0 {
			rep.Nontrivial(fmt.Sprintf("sr%d", h))
		}
		rep.TracesValidated++
	}

	// ---- 2. the sender's usage pattern, with the property oracle ----
	for h := 0; h < nUsage; h++ {
		c := c17randCfg(rng)
		if c.parallel < 1 {
			c.parallel = 1 + rng.Intn(4)
		}
		streams := c.parallel // the sender passes parallelStreams as ParallelFiles
		s := scheduler.NewHybridScheduler(c.policy())
		nfiles := rng.Intn(9)
		sizes := map[int]int64{}
		var tr []string
		clock := int64(0)
		for k := 0; k < nfiles; k++ {
			size := sizesPool[rng.Intn(len(sizesPool)-1)]
			if h%3 == 0 { // all in one class: exercises the small-slot quota / the weighted pick alone
				size = []int64{7, 700, 70000}[h/3%3] + int64(k)
			}
			sizes[k] = size
			s.Add(c17key(k), scheduler.FileMeta{RelPath: c17key(k).RelPath, Size: size, Remaining: size, AddedAt: c17time(0)})
			tr = append(tr, fmt.Sprintf("(Sched.Add %s %s %s false None, Sched.OUnit, %s)", hx.Z(int64(k)), hx.Z(size), hx.Z(size), c17snap(s)))
		}
		begun := map[int]int{}
		var active []int
		var order []string
		violated := false
		fail := func(sig, what string) {
			if !violated {
				violated = true
				rep.Violate("files:"+sig, fmt.Sprintf("%s (cfg %+v, sizes %v, history %v)", what, c, sizes, order),
					map[string]any{"cfg": fmt.Sprintf("%+v", c), "streams": streams, "sizes": fmt.Sprint(sizes), "history": order, "seed": cfg.seed, "usage_history": h})
			}
		}
		// every refusal is followed by a completion, so a run takes at most 3 moves per
		// file (begin, refusal, completion): the bound below is never the reason a run stops
		mustDone := false
		for step := 0; step < 4*nfiles+8; step++ {
			doNext := rng.Intn(3) > 0
			if len(active) == 0 {
				doNext = true
			} else if len(active) >= streams || mustDone {
				doNext = false
			}
			mustDone = false
			if doNext {
				clock += int64(rng.Pick(1, 1000, 1_000_000, 6_000_000_000))
				key, ok := s.Next(c17time(clock))
				tr = append(tr, fmt.Sprintf("(Sched.Next %s 0%%nat, %s, %s)", hx.Z(clock), c17nextOut(key, ok), c17snap(s)))
				rep.Evaluations++
				if !ok {
					order = append(order, "next=none")
					if len(begun) < nfiles && len(active) == 0 {
						fail("starved", fmt.Sprintf("Next refused although %d file(s) were never begun and nothing is active", nfiles-len(begun)))
						break
					}
					if len(begun) == nfiles && len(active) == 0 {
						break
					}
					mustDone = true
					continue
				}
				k := int(c17keyNum(key))
				order = append(order, fmt.Sprintf("next=%d", k))
				if _, known := sizes[k]; !known || key != c17key(k) {
					fail("unknown-file", fmt.Sprintf("Next returned %+v which is not a file of the manifest", key))
					break
				}
				begun[k]++
				if begun[k] > 1 {
					fail("begun-twice", fmt.Sprintf("file %d handed out a second time", k))
				}
				// activateNext: re-add as started
				clock++
				s.Add(key, scheduler.FileMeta{RelPath: key.RelPath, Size: sizes[k], Remaining: sizes[k], AddedAt: c17time(0), StartedAt: c17time(clock), LastScheduledAt: c17time(clock)})
				tr = append(tr, fmt.Sprintf("(Sched.Add %s %s %s true (Some %s), Sched.OUnit, %s)", hx.Z(int64(k)), hx.Z(sizes[k]), hx.Z(sizes[k]), hx.Z(clock), c17snap(s)))
				active = append(active, k)
			} else {
				i := rng.Intn(len(active))
				k := active[i]
				active = append(active[:i], active[i+1:]...)
				s.Remove(c17key(k))
				tr = append(tr, fmt.Sprintf("(Sched.Remove %s, Sched.OUnit, %s)", hx.Z(int64(k)), c17snap(s)))
				order = append(order, fmt.Sprintf("done=%d", k))
				rep.Evaluations++
			}
			if len(begun) == nfiles && len(active) == 0 {
				break
			}
		}
		if !violated && (len(begun) != nfiles || len(active) != 0) {
			var missing []int
			for k := range sizes {
				if begun[k] == 0 {
					missing = append(missing, k)
				}
			}
			sort.Ints(missing)
			fail("not-all-begun", fmt.Sprintf("usage run ended with files %v never begun (active %v)", missing, active))
		}
		id++
		cf.Add(fmt.Sprintf("C17.S %d %s %s", id, c.coq(), hx.List(tr)))
		rep.CaseIndex[fmt.Sprint(id)] = map[string]any{"kind": "scheduler-usage", "cfg": fmt.Sprintf("%+v", c), "sizes": fmt.Sprint(sizes), "history": order}
		rep.Count("sched:usage-run")
		if nfiles > 1 {
			rep.Nontrivial("su" + strings.Join(order, ","))
		}
		rep.TracesValidated++
		if h%53 == 0 {
			rep.Sample(map[string]any{"kind": "scheduler-usage", "cfg": fmt.Sprintf("%+v", c), "sizes": fmt.Sprint(sizes), "history": order})
		}
	}
	cf.Close()
}

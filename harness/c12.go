package main

import (
	"fmt"
	"sort"
	"strings"
	"time"

	"github.com/sheerbytes/sheerbytes/internal/app"
	"github.com/sheerbytes/sheerbytes/verifharness/internal/hx"
)

// C12: admission control of the host.  Histories of join / accept / kick /
// leave / transfer-end / clock / cleanup events are applied to a REAL
// SnapshotSender whose transfer function is a stub that blocks until the
// harness ends it; queue, slot set, statuses, launches (with the liveness of the
// context they were launched with) are recorded after every event, checked
// against the property directly, and emitted as cases for Model/Admit.v.

type c12ev struct {
	kind string // join accept kick leave end tick cleanup
	p    int
	tid  int
	ok   bool
	d    int
}

func (e c12ev) coq() string {
	switch e.kind {
	case "join":
		return fmt.Sprintf("Admit.Join %d", e.p)
	case "accept":
		return fmt.Sprintf("Admit.AcceptEnq %d", e.p)
	case "kick":
		return "Admit.Kick"
	case "leave":
		return fmt.Sprintf("Admit.Leave %d", e.p)
	case "end":
		return fmt.Sprintf("Admit.End %d %s", e.tid, hx.B(e.ok))
	case "tick":
		return fmt.Sprintf("Admit.Tick %d", e.d)
	}
	return "Admit.Cleanup"
}

func (e c12ev) String() string {
	switch e.kind {
	case "join", "accept", "leave":
		return fmt.Sprintf("%s(%c)", e.kind, 'a'+e.p)
	case "end":
		return fmt.Sprintf("end(t%d,%v)", e.tid, e.ok)
	case "tick":
		return fmt.Sprintf("tick(%ds)", e.d)
	}
	return e.kind
}

var c12status = map[string]int{"": 0, "JOINED": 1, "QUEUED": 2, "TRANSFERRING": 3, "DONE": 4, "FAILED": 5}

func peerName(p int) string { return string(rune('a' + p)) }

type c12result struct {
	obs        []string
	violations [][2]string // signature, what
	trivial    bool
}

// runHistory applies evs to a fresh real sender; np peers, max receivers, ttl seconds.
// transfers whose runTransfer tail was never reached (each costs a 2 s wait): the
// run stops generating histories after a few of them
var c12lostTails int

func c12runHistory(evs []c12ev, np, max, ttl int) c12result {
	v := app.VerifNewSender(max, time.Duration(ttl)*time.Second)
	defer v.Close()
	var res c12result
	running := map[int]bool{}
	ended := map[int]bool{}
	launched := 0
	reannounced := false // a join/accept arrived for a peer that still had a running transfer
	peerOfTid := map[int]int{}
	addViol := func(sig, what string) { res.violations = append(res.violations, [2]string{sig, what}) }
	prev := v.Snapshot()
	var waiting []string
	clock := 0                    // seconds, advanced by tick events (the harness's own clock)
	lastHeard := map[string]int{} // receiver -> clock of its last join / accept
	for i, e := range evs {
		p := peerName(e.p)
		executed := true
		switch e.kind {
		case "tick":
			clock += e.d
		case "join", "accept":
			lastHeard[p] = clock
		}
		switch e.kind {
		case "join", "accept":
			for tid := range running {
				if peerOfTid[tid] == e.p && !(e.kind == "accept" && prev.Status[p] == "TRANSFERRING") {
					reannounced = true
				}
			}
		}
		switch e.kind {
		case "join":
			v.Join(p)
		case "accept":
			v.AcceptEnqueue(p)
		case "kick":
			v.Kick()
		case "leave":
			v.Leave(p)
		case "end":
			executed = running[e.tid]
			if running[e.tid] {
				lostBefore := v.LostTails()
				v.End(e.tid, e.ok)
				if v.LostTails() > lostBefore {
					c12lostTails++
					addViol("transfer-tail-skipped", fmt.Sprintf("step %d (%v): the transfer function returned but runTransfer never reached its end (slot hand-over / re-dispatch) within 2 s", i, e))
				}
				delete(running, e.tid)
				ended[e.tid] = true
			}
		case "tick":
			v.Tick(time.Duration(e.d) * time.Second)
		case "cleanup":
			v.Cleanup()
		}
		snap := v.Snapshot()
		// observation for the model
		q := make([]string, len(snap.Queue))
		for k, name := range snap.Queue {
			q[k] = fmt.Sprint(int(name[0] - 'a'))
		}
		act := map[string]bool{}
		for _, a := range snap.Active {
			act[a] = true
		}
		pp := make([]string, np)
		for k := 0; k < np; k++ {
			pp[k] = fmt.Sprintf("(%d, %s)", c12status[snap.Status[peerName(k)]], hx.B(act[peerName(k)]))
		}
		tt := make([]string, len(snap.Starts))
		dd := make([]string, len(snap.Starts))
		for k, s := range snap.Starts {
			tt[k] = fmt.Sprintf("(%d, %s)", int(s.Peer[0]-'a'), hx.B(s.CtxDead))
			dd[k] = hx.B(snap.CtxDead[s.Tid])
		}
		qs := "[]"
		if len(q) > 0 {
			qs = "[" + strings.Join(q, "; ") + "]%nat"
		}
		ts := "[]"
		if len(tt) > 0 {
			ts = "[" + strings.Join(tt, "; ") + "]%nat"
		}
		res.obs = append(res.obs, fmt.Sprintf("(%s, %s, %s, %s)", qs, hx.List(pp), ts, hx.List(dd)))

		// ---- property oracle on the implementation's observables ----
		class := func(base string) string {
			if reannounced {
				return base + ":reannounce-while-running"
			}
			return base
		}
		newLaunches := snap.Starts[launched:]
		for _, s := range newLaunches {
			running[s.Tid] = true
			peerOfTid[s.Tid] = int(s.Peer[0] - 'a')
			if s.CtxDead {
				addViol(class("start-with-cancelled-context"), fmt.Sprintf("step %d (%v): transfer t%d for %s was started with an already-cancelled context", i, e, s.Tid, s.Peer))
			}
		}
		// FIFO against the harness's own record of the accept order (not the
		// implementation's queue): a launched receiver must be the earliest waiting one
		// that is startable.
		if e.kind == "accept" && prev.Status[p] != "TRANSFERRING" {
			found := false
			for _, w := range waiting {
				if w == p {
					found = true
				}
			}
			if !found {
				waiting = append(waiting, p)
			}
		}
		if e.kind == "leave" {
			waiting = removeStr(waiting, p)
		}
		for _, s := range newLaunches {
			for _, w := range waiting {
				if w == s.Peer {
					break
				}
				st := prev.Status[w]
				if st != "" && st != "TRANSFERRING" && inList(snap.Queue, w) {
					addViol(class("fifo"), fmt.Sprintf("step %d (%v): %s started ahead of %s which accepted earlier", i, e, s.Peer, w))
					break
				}
			}
			if !inList(waiting, s.Peer) {
				addViol(class("fifo"), fmt.Sprintf("step %d (%v): %s started although it was not waiting", i, e, s.Peer))
			}
			waiting = removeStr(waiting, s.Peer)
		}
		// receivers dropped from the queue without being started (no state / cleanup):
		// the idle cleanup may only drop a waiting receiver that has not been heard of
		// (joined / accepted) for longer than the TTL
		{
			var keep []string
			for _, w := range waiting {
				if inList(snap.Queue, w) {
					keep = append(keep, w)
				} else if e.kind == "accept" && w == p {
					// a receiver that accepts is from then on waiting (or started): whoever it is,
					// also one the host had forgotten (idle cleanup) or never saw join
					addViol(class("accepted-receiver-not-queued"), fmt.Sprintf("step %d (%v): %s accepted but is neither queued nor started", i, e, p))
				} else if e.kind == "cleanup" && clock-lastHeard[w] <= ttl && !reannounced {
					addViol("waiting-receiver-dropped", fmt.Sprintf("step %d (cleanup at t=%ds): %s accepted at t=%ds (TTL %ds) and was waiting for a slot, but the idle cleanup dropped it", i, clock, w, lastHeard[w], ttl))
				}
			}
			waiting = keep
		}
		// the waiting line itself, after every event: those who wait, in the order
		// in which they accepted (the harness's own record), whatever happened in
		// between (somebody ahead left, accepted again, a slot freed)
		{
			var line []string
			for _, q := range snap.Queue {
				if inList(waiting, q) {
					line = append(line, q)
				}
			}
			if strings.Join(line, ",") != strings.Join(waiting, ",") {
				addViol(class("fifo"), fmt.Sprintf("step %d (%v): the waiting line is %v, the order of acceptance is %v", i, e, line, waiting))
			}
		}
		launched = len(snap.Starts)
		live := 0
		for tid := range running {
			if !snap.CtxDead[tid] {
				live++
			}
		}
		if live > max {
			addViol(class("bound-running"), fmt.Sprintf("step %d (%v): %d live transfers run at once, max-receivers is %d", i, e, live, max))
		}
		if len(snap.Active) > max {
			addViol(class("bound-slots"), fmt.Sprintf("step %d (%v): %d slots, max %d", i, e, len(snap.Active), max))
		}
		for _, name := range snap.Queue {
			if act[name] {
				addViol(class("queued-and-active"), fmt.Sprintf("step %d (%v): %s is queued and holds a slot at the same time", i, e, name))
			}
		}
		seenQ := map[string]bool{}
		for _, name := range snap.Queue {
			if seenQ[name] {
				addViol(class("queue-duplicate"), fmt.Sprintf("step %d: %s queued twice", i, name))
			}
			seenQ[name] = true
		}
		if executed && (e.kind == "kick" || e.kind == "leave" || e.kind == "end") && len(snap.Queue) > 0 && len(snap.Active) < max {
			// a queued peer whose status is TRANSFERRING or who has no state is skipped, not started
			startable := false
			for _, name := range snap.Queue {
				if st := snap.Status[name]; st != "" && st != "TRANSFERRING" {
					startable = true
				}
			}
			if startable {
				addViol(class("not-work-conserving"), fmt.Sprintf("step %d (%v): a receiver waits while only %d of %d slots are in use", i, e, len(snap.Active), max))
			}
		}
		if e.kind == "leave" {
			if seenQ[p] || act[p] {
				addViol(class("leave-not-cleared"), fmt.Sprintf("step %d: %s left but is still queued/active", i, p))
			}
			for tid := range running {
				if peerOfTid[tid] == e.p && !snap.CtxDead[tid] {
					addViol(class("leave-not-cancelled"), fmt.Sprintf("step %d: %s left but its transfer t%d was not cancelled", i, p, tid))
				}
			}
		}
		prev = snap
	}
	res.trivial = launched == 0
	return res
}

func runC12(cfg config) *hx.Report {
	rep := hx.NewReport("C12")
	rep.Rule = "event histories (join, accept-enqueue, kick, leave, transfer end ok/fail, clock tick, cleanup) over up to 4 receivers for max-receivers 1..3: exhaustive up to a length bound over 2 receivers, plus random mostly-valid histories of length <= 40; non-trivial = at least one transfer was launched; distinct by (max, history)"
	cf := &hx.CasesFile{Dir: cfg.out, Name: "C12", Module: "C12", Imports: []string{"Model.Admit", "Corr.C12"}, PerShard: 400}
	rng := hx.NewRand(cfg.seed)
	id := 0
	const ttl = 600
	emit := func(evs []c12ev, np, max int, kind string) {
		if c12lostTails >= 3 {
			if c12lostTails == 3 {
				c12lostTails++
				rep.Notes = append(rep.Notes, "stopped generating histories after three transfers whose tail was never reached")
			}
			return
		}
		res := c12runHistory(evs, np, max, ttl)
		id++
		items := make([]string, len(evs))
		names := make([]string, len(evs))
		for i, e := range evs {
			items[i] = e.coq()
			names[i] = e.String()
		}
		cf.Add(fmt.Sprintf("C12.Hst %d %d %d %d%%nat %s %s", id, max, ttl, np, hx.List(items), hx.List(res.obs)))
		rep.CaseIndex[fmt.Sprint(id)] = map[string]any{"max": max, "history": names}
		rep.Evaluations++
		rep.TracesValidated++
		rep.Count(kind)
		if !res.trivial {
			rep.Nontrivial(fmt.Sprintf("%d|%v", max, names))
		}
		seen := map[string]bool{}
		for _, vi := range res.violations {
			if seen[vi[0]] {
				continue
			}
			seen[vi[0]] = true
			rep.Violate(vi[0], fmt.Sprintf("max=%d history=%v: %s", max, names, vi[1]), map[string]any{"max": max, "history": names})
		}
		if id%173 == 0 {
			rep.Sample(map[string]any{"max": max, "history": names, "final": res.obs[len(res.obs)-1]})
		}
	}

	// directed: the idle cleanup against receivers that wait for a slot (no receiver id is
	// ever re-announced here, so nothing of this is covered by the reannounce finding)
	{
		E := func(kind string, p, tid int, ok bool, d int) c12ev {
			return c12ev{kind: kind, p: p, tid: tid, ok: ok, d: d}
		}
		for _, gap := range []int{0, 300, 540, 599} { // seconds between b's join and its accept (TTL 600)
			for _, wait := range []int{1, 120, 590} { // seconds b then waits before the cleanup tick
				evs := []c12ev{E("join", 0, 0, false, 0), E("accept", 0, 0, false, 0), E("kick", 0, 0, false, 0),
					E("join", 1, 0, false, 0), E("tick", 0, 0, false, gap), E("accept", 1, 0, false, 0), E("kick", 0, 0, false, 0),
					E("tick", 0, 0, false, wait), E("cleanup", 0, 0, false, 0), E("end", 0, 1, true, 0), E("kick", 0, 0, false, 0)}
				emit(evs, 2, 1, "directed:cleanup-vs-waiting")
				// two waiters, two slots taken
				evs2 := []c12ev{E("join", 0, 0, false, 0), E("accept", 0, 0, false, 0), E("join", 1, 0, false, 0), E("accept", 1, 0, false, 0), E("kick", 0, 0, false, 0),
					E("join", 2, 0, false, 0), E("join", 3, 0, false, 0), E("tick", 0, 0, false, gap), E("accept", 3, 0, false, 0), E("accept", 2, 0, false, 0),
					E("tick", 0, 0, false, wait), E("cleanup", 0, 0, false, 0), E("end", 0, 2, false, 0), E("end", 0, 1, true, 0), E("kick", 0, 0, false, 0)}
				emit(evs2, 4, 2, "directed:cleanup-vs-waiting")
			}
		}
	}
	// exhaustive short histories over two receivers
	depth := 4
	if cfg.tier == "thorough" {
		depth = 5
	}
	var rec func(prefix []c12ev, launchedUpper int, max int)
	rec = func(prefix []c12ev, launchedUpper int, max int) {
		if len(prefix) > 0 {
			emit(prefix, 2, max, "exhaustive")
		}
		if len(prefix) == depth {
			return
		}
		alphabet := []c12ev{{kind: "join", p: 0}, {kind: "join", p: 1}, {kind: "accept", p: 0}, {kind: "accept", p: 1},
			{kind: "kick"}, {kind: "leave", p: 0}, {kind: "leave", p: 1}}
		for tid := 1; tid <= launchedUpper; tid++ {
			alphabet = append(alphabet, c12ev{kind: "end", tid: tid, ok: true}, c12ev{kind: "end", tid: tid, ok: false})
		}
		for _, e := range alphabet {
			up := launchedUpper
			if e.kind == "kick" || e.kind == "leave" || e.kind == "end" {
				up++ // may launch (an upper bound on the number of transfer ids that can exist)
			}
			if up > 2 {
				up = 2
			}
			rec(append(append([]c12ev{}, prefix...), e), up, max)
		}
	}
	for max := 1; max <= 2; max++ {
		rec(nil, 0, max)
	}
	// random, mostly valid histories
	nRand := 700
	if cfg.tier == "thorough" {
		nRand = 8000
	}
	for h := 0; h < nRand; h++ {
		np := 2 + rng.Intn(3)
		max := 1 + rng.Intn(3)
		n := 5 + rng.Intn(36)
		var evs []c12ev
		launchedGuess := 0
		for len(evs) < n {
			switch r := rng.Intn(20); {
			case r < 6: // a receiver arrives the normal way
				p := rng.Intn(np)
				evs = append(evs, c12ev{kind: "join", p: p}, c12ev{kind: "accept", p: p}, c12ev{kind: "kick"})
				launchedGuess++
			case r < 10 && launchedGuess > 0:
				evs = append(evs, c12ev{kind: "end", tid: 1 + rng.Intn(launchedGuess+1), ok: rng.Intn(4) > 0})
				launchedGuess++
			case r < 12:
				evs = append(evs, c12ev{kind: "leave", p: rng.Intn(np)})
				launchedGuess++
			case r < 13:
				evs = append(evs, c12ev{kind: "join", p: rng.Intn(np)})
			case r < 15:
				evs = append(evs, c12ev{kind: "accept", p: rng.Intn(np)})
			case r < 16:
				evs = append(evs, c12ev{kind: "kick"})
			case r < 17:
				evs = append(evs, c12ev{kind: "tick", d: rng.Pick(1, 30, 599, 601, 5000)})
			case r < 18:
				evs = append(evs, c12ev{kind: "cleanup"})
			default:
				p := rng.Intn(np)
				evs = append(evs, c12ev{kind: "accept", p: p})
			}
		}
		emit(evs, np, max, "random")
	}
	cf.Close()
	keys := make([]string, 0)
	for k := range rep.Distribution {
		keys = append(keys, k)
	}
	sort.Strings(keys)
	return rep
}

func init() { runners["C12"] = runC12 }

func inList(l []string, x string) bool {
	for _, y := range l {
		if y == x {
			return true
		}
	}
	return false
}

func removeStr(l []string, x string) []string {
	var out []string
	for _, y := range l {
		if y != x {
			out = append(out, y)
		}
	}
	return out
}

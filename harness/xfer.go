package main

import (
	"context"
	"crypto/sha256"
	"encoding/hex"
	"fmt"
	"io/fs"
	"net"
	"os"
	"path/filepath"
	"sort"
	"strings"
	"time"

	"github.com/sheerbytes/sheerbytes/internal/transfer"
	"github.com/sheerbytes/sheerbytes/pkg/manifest"
	"github.com/sheerbytes/sheerbytes/verifharness/internal/hx"
	"github.com/sheerbytes/sheerbytes/verifharness/internal/memnet"
)

// tconn adapts memnet.Conn to transfer.Conn.
type tconn struct{ c *memnet.Conn }

func (t tconn) OpenStream(ctx context.Context) (transfer.Stream, error) {
	s, err := t.c.OpenStream(ctx)
	if err != nil {
		return nil, err
	}
	return s, nil
}
func (t tconn) AcceptStream(ctx context.Context) (transfer.Stream, error) {
	s, err := t.c.AcceptStream(ctx)
	if err != nil {
		return nil, err
	}
	return s, nil
}
func (t tconn) RemoteAddr() net.Addr { return t.c.RemoteAddr() }
func (t tconn) Close() error         { return t.c.Close() }

// ---- trees ----

type treeFile struct {
	rel  string
	data []byte
}

type treeSpec struct {
	files []treeFile
	dirs  []string // empty directories
}

func (t treeSpec) materialise(root string) error {
	if err := os.MkdirAll(root, 0755); err != nil {
		return err
	}
	for _, d := range t.dirs {
		if err := os.MkdirAll(filepath.Join(root, filepath.FromSlash(d)), 0755); err != nil {
			return err
		}
	}
	for _, f := range t.files {
		p := filepath.Join(root, filepath.FromSlash(f.rel))
		if err := os.MkdirAll(filepath.Dir(p), 0755); err != nil {
			return err
		}
		if err := os.WriteFile(p, f.data, 0644); err != nil {
			return err
		}
	}
	return nil
}

// genTree: file sizes around multiples of the chunk size, empty files, nesting, odd names, empty dirs.
func genTree(r *hx.Rand, cs int, maxFiles int) treeSpec {
	var t treeSpec
	n := r.Intn(maxFiles + 1)
	names := []string{"a", "b.txt", "data.bin", "sp ace", "ünï", "x.y.z", "-dash", "UPPER", "0", "f_1", "1_a", "tab\there"}
	dirs := []string{"", "", "d1", "d1/d2", "deep/er/still", "d1/sp dir", "é"}
	used := map[string]bool{}
	for i := 0; i < n; i++ {
		d := dirs[r.Intn(len(dirs))]
		nm := names[r.Intn(len(names))]
		rel := nm
		if d != "" {
			rel = d + "/" + nm
		}
		if used[rel] {
			rel = fmt.Sprintf("%s_%d", rel, i)
		}
		// a file must not collide with a directory prefix
		bad := false
		for u := range used {
			if strings.HasPrefix(u, rel+"/") || strings.HasPrefix(rel, u+"/") {
				bad = true
			}
		}
		if bad {
			continue
		}
		used[rel] = true
		var size int
		switch r.Intn(8) {
		case 0:
			size = 0
		case 1:
			size = 1
		case 2:
			size = cs*(1+r.Intn(4)) - 1
		case 3:
			size = cs * (1 + r.Intn(4))
		case 4:
			size = cs*(1+r.Intn(4)) + 1
		case 5:
			size = r.Intn(cs + 1)
		default:
			size = r.Intn(6*cs + 2)
		}
		data := r.Bytes(size)
		if size >= cs && r.Intn(4) == 0 {
			// runs of zero bytes that cover whole chunks (sparse images, padded archives)
			k := r.Intn(size / cs)
			m := 1 + r.Intn(size/cs-k)
			for j := k * cs; j < (k+m)*cs && j < size; j++ {
				data[j] = 0
			}
		}
		t.files = append(t.files, treeFile{rel, data})
	}
	// empty directories in awkward places: a name that is a proper prefix of its
	// next sibling's (file or directory, empty or not), inside a populated
	// directory, sorting first / last, next to a zero-length file of a similar name
	free := func(x string) bool {
		if used[x] {
			return false
		}
		for u := range used {
			if strings.HasPrefix(u, x+"/") || strings.HasPrefix(x, u+"/") {
				return false
			}
		}
		for _, d := range t.dirs {
			if d == x || strings.HasPrefix(x, d+"/") {
				return false
			}
		}
		return true
	}
	if r.Intn(3) == 0 {
		base := []string{"build", "d1/cache", "pkg/test", "z", "!first", "~last", "d1/d2/leaf"}[r.Intn(7)]
		sib := base + []string{".sh", "s", "-old", "0", " "}[r.Intn(5)]
		if free(base) && free(sib) {
			t.dirs = append(t.dirs, base)
			switch r.Intn(3) {
			case 0:
				used[sib] = true
				t.files = append(t.files, treeFile{sib, r.Bytes(r.Intn(2 * cs))})
			case 1:
				t.dirs = append(t.dirs, sib) // an empty sibling directory
			default:
				used[sib+"/inner.bin"] = true
				t.files = append(t.files, treeFile{sib + "/inner.bin", r.Bytes(r.Intn(cs + 1))})
			}
		}
	}
	// now and then a file with many chunks: bitmaps longer than a machine word, many
	// frames per stream (the small trees above never leave the single-byte bitmap regime)
	if cs <= 64 && len(t.files) < maxFiles && r.Intn(4) == 0 && !used["many-chunks.bin"] {
		used["many-chunks.bin"] = true
		t.files = append(t.files, treeFile{"many-chunks.bin", r.Bytes(cs*(57+r.Intn(100)) + r.Intn(cs))})
	}
	if r.Intn(3) == 0 {
		t.dirs = append(t.dirs, "emptydir")
	}
	if r.Intn(5) == 0 {
		t.dirs = append(t.dirs, "e1/e2")
	}
	return t
}

// digestTree returns path -> "d" | sha256 of content, skipping the resume metadata directory.
func digestTree(root string) (map[string]string, error) {
	out := map[string]string{}
	err := filepath.WalkDir(root, func(p string, d fs.DirEntry, err error) error {
		if err != nil {
			return err
		}
		rel, _ := filepath.Rel(root, p)
		if rel == "." {
			return nil
		}
		rel = filepath.ToSlash(rel)
		if d.IsDir() {
			if d.Name() == ".thruflux_resumedata" {
				return filepath.SkipDir
			}
			out[rel] = "d"
			return nil
		}
		b, err := os.ReadFile(p)
		if err != nil {
			return err
		}
		h := sha256.Sum256(b)
		out[rel] = fmt.Sprintf("%d:%s", len(b), hex.EncodeToString(h[:8]))
		return nil
	})
	return out, err
}

func diffTrees(src, dst map[string]string) []string {
	var d []string
	for k, v := range src {
		if w, ok := dst[k]; !ok {
			d = append(d, "missing "+k)
		} else if w != v {
			d = append(d, fmt.Sprintf("differs %s (src %s, got %s)", k, v, w))
		}
	}
	for k := range dst {
		if _, ok := src[k]; !ok {
			d = append(d, "extra "+k)
		}
	}
	sort.Strings(d)
	return d
}

// ---- one transfer between the real endpoints ----

type xferCfg struct {
	chunkSize                    int
	streams                      int
	resume                       bool
	quicLike                     bool // stream visibility as in QUIC
	conns                        int  // number of connections (NewMultiConn when > 1)
	rootDir                      bool // receiver creates <out>/<manifest root> (NoRootDir = false)
	timeout                      time.Duration
	sendOpts                     func(*transfer.Options)
	recvOpts                     func(*transfer.Options)
	onConns                      func(sender, receiver *memnet.Conn) // install fault plans
	cancelSender, cancelReceiver func(cancel context.CancelFunc)     // optional: get the cancel functions
}

type xferResult struct {
	sendErr, recvErr   error
	sendDone, recvDone bool // returned within the timeout
	dur                time.Duration
	manifest           manifest.Manifest
}

func runXfer(srcDir, outDir string, c xferCfg) xferResult {
	nconn := c.conns
	if nconn < 1 {
		nconn = 1
	}
	var as, bs []*memnet.Conn
	var sc, rc []transfer.Conn
	for i := 0; i < nconn; i++ {
		a, b := memnet.Pair(memnet.Mode{VisibleAtOpen: !c.quicLike, BufferLimit: 1 << 16})
		if c.onConns != nil && i == 0 {
			c.onConns(a, b)
		}
		as, bs = append(as, a), append(bs, b)
		sc, rc = append(sc, tconn{a}), append(rc, tconn{b})
	}
	sconn, rconn := sc[0], rc[0]
	if nconn > 1 {
		sconn, _ = transfer.NewMultiConn(sc)
		rconn, _ = transfer.NewMultiConn(rc)
	}
	return runXferOn(srcDir, outDir, sconn, rconn, c,
		func(sender bool, graceful bool) {
			for i := range as {
				if sender {
					as[i].Close()
				} else {
					bs[i].Close()
				}
			}
		},
		func() {
			for i := range as {
				as[i].Fail(memnet.ErrAbrupt, memnet.ErrAbrupt)
			}
		})
}

// runXferOn runs the real sender on sconn and the real receiver on rconn.
// closeSide(sender, _) is what the application does when that side has returned
// (it closes its connection); kill tears everything down after the watchdog.
func runXferOn(srcDir, outDir string, sconn, rconn transfer.Conn, c xferCfg, closeSide func(sender, graceful bool), kill func()) xferResult {
	var res xferResult
	m, err := manifest.Scan(srcDir)
	if err != nil {
		res.sendErr = err
		return res
	}
	res.manifest = m
	if c.timeout == 0 {
		c.timeout = 10 * time.Second
	}
	sctx, scancel := context.WithCancel(context.Background())
	rctx, rcancel := context.WithCancel(context.Background())
	defer scancel()
	defer rcancel()
	if c.cancelSender != nil {
		c.cancelSender(scancel)
	}
	if c.cancelReceiver != nil {
		c.cancelReceiver(rcancel)
	}
	so := transfer.Options{ChunkSize: uint32(c.chunkSize), ParallelFiles: c.streams, Resume: c.resume, HashAlg: "crc32c"}
	ro := transfer.Options{Resume: c.resume, NoRootDir: !c.rootDir, HashAlg: "crc32c", ParallelFiles: c.streams}
	if c.sendOpts != nil {
		c.sendOpts(&so)
	}
	if c.recvOpts != nil {
		c.recvOpts(&ro)
	}
	sdone := make(chan error, 1)
	rdone := make(chan error, 1)
	t0 := time.Now()
	go func() { sdone <- transfer.SendManifestMultiStream(sctx, sconn, srcDir, m, so) }()
	go func() {
		_, err := transfer.RecvManifestMultiStream(rctx, rconn, outDir, ro)
		rdone <- err
	}()
	timer := time.After(c.timeout)
	for !(res.sendDone && res.recvDone) {
		select {
		case err := <-sdone:
			res.sendErr, res.sendDone = err, true
			if err != nil {
				closeSide(true, false) // a failed sender closes its connection; a successful one lets the receiver drain
			}
		case err := <-rdone:
			res.recvErr, res.recvDone = err, true
			if err != nil {
				closeSide(false, false)
			}
		case <-timer:
			res.dur = time.Since(t0)
			scancel()
			rcancel()
			kill()
			drain := time.After(2 * time.Second)
			for !(res.sendDone && res.recvDone) {
				select {
				case <-sdone:
					res.sendDone = true
				case <-rdone:
					res.recvDone = true
				case <-drain:
					return xferResult{sendErr: res.sendErr, recvErr: res.recvErr, dur: res.dur, manifest: m}
				}
			}
			return xferResult{sendErr: res.sendErr, recvErr: res.recvErr, dur: res.dur, manifest: m}
		}
	}
	res.dur = time.Since(t0)
	closeSide(true, true)
	return res
}

func scanManifest(src string) (manifest.Manifest, error) { return manifest.Scan(src) }

package main

import (
	"fmt"
	"os"
	"path/filepath"
	"regexp"
	"sort"
	"strings"

	"github.com/sheerbytes/sheerbytes/verifharness/internal/hx"
)

// C08, call order: an INDEPENDENT second reading of the skeletons that
// tools/gotrans generated from the current source (coq/Gen/AuthOrder.v).  The
// Coq side proves that the verified checker accepts them; this side explores
// the paths of the same skeletons (exact set of authenticated variables per
// path, loops to a fixpoint) and, when a transfer call is reachable with a
// connection that did not pass authenticateTransport, reports the path.  It
// turns a broken order proof into a concrete path through the source.  The
// path is a STATIC witness (a path of the skeleton), not an executed run.

type c08node struct {
	op         string // PSkip PSeq PAssign PUse PAuth PIf PLoop PBreak PExit
	a, b       *c08node
	x, fn      string
	code, role string
	atoms      [][2]string
}

type c08lexer struct {
	toks []string
	pos  int
}

func c08lex(s string) []string {
	var out []string
	for i := 0; i < len(s); {
		c := s[i]
		switch {
		case c == ' ' || c == '\n' || c == '\t':
			i++
		case strings.ContainsRune("()[];", rune(c)):
			out = append(out, string(c))
			i++
		case c == '"':
			j := i + 1
			var sb strings.Builder
			for j < len(s) {
				if s[j] == '"' {
					if j+1 < len(s) && s[j+1] == '"' {
						sb.WriteByte('"')
						j += 2
						continue
					}
					break
				}
				sb.WriteByte(s[j])
				j++
			}
			out = append(out, "\""+sb.String())
			i = j + 1
		default:
			j := i
			for j < len(s) && !strings.ContainsRune(" \n\t()[];\"", rune(s[j])) {
				j++
			}
			out = append(out, s[i:j])
			i = j
		}
	}
	return out
}

func (l *c08lexer) next() string {
	if l.pos >= len(l.toks) {
		panic("C08 order: unexpected end of skeleton")
	}
	t := l.toks[l.pos]
	l.pos++
	return t
}

func (l *c08lexer) str() string {
	t := l.next()
	if !strings.HasPrefix(t, "\"") {
		panic("C08 order: string expected, got " + t)
	}
	return t[1:]
}

func (l *c08lexer) atoms() [][2]string {
	if l.next() != "[" {
		panic("C08 order: [ expected")
	}
	var out [][2]string
	for {
		t := l.next()
		if t == "]" {
			return out
		}
		if t == ";" {
			continue
		}
		out = append(out, [2]string{t, l.str()})
	}
}

func (l *c08lexer) node() *c08node {
	t := l.next()
	paren := t == "("
	if paren {
		t = l.next()
	}
	n := &c08node{op: t}
	switch t {
	case "PSkip", "PBreak", "PExit":
	case "PSeq", "PIf":
		n.a = l.node()
		n.b = l.node()
	case "PLoop":
		n.a = l.node()
	case "PAssign":
		n.x = l.str()
		n.atoms = l.atoms()
	case "PUse":
		n.fn = l.str()
		n.atoms = l.atoms()
	case "PAuth":
		n.x, n.code, n.role = l.str(), l.str(), l.str()
		n.a = l.node()
	default:
		panic("C08 order: unknown constructor " + t)
	}
	if paren && l.next() != ")" {
		panic("C08 order: ) expected")
	}
	return n
}

var c08sinks = map[string]bool{"SendManifestMultiStream": true, "RecvManifestMultiStream": true, "NewMultiConn": true,
	"sendDumbData": true, "sendDumbDataMulti": true, "recvDumbDiscard": true, "recvDumbDiscardMulti": true,
	"SendManifest": true, "RecvManifest": true, "return": true}
var c08srcs = map[string]bool{"dialExtraConns": true, "acceptExtraConns": true}

type c08pstate struct {
	auth  map[string]bool
	trace []string
}

func (s c08pstate) key() string {
	var ks []string
	for k := range s.auth {
		ks = append(ks, k)
	}
	sort.Strings(ks)
	return strings.Join(ks, ",")
}

func (s c08pstate) with(step string, f func(map[string]bool)) c08pstate {
	a := map[string]bool{}
	for k := range s.auth {
		a[k] = true
	}
	if f != nil {
		f(a)
	}
	return c08pstate{a, append(append([]string(nil), s.trace...), step)}
}

func c08dedup(ss []c08pstate) []c08pstate {
	seen := map[string]bool{}
	var out []c08pstate
	for _, s := range ss {
		if k := s.key(); !seen[k] {
			seen[k] = true
			out = append(out, s)
		}
	}
	return out
}

type c08explorer struct {
	code, role string
	viol       [][2]string // sink, path
	paths      []string
}

func c08atomsStr(as [][2]string) string {
	var p []string
	for _, a := range as {
		switch a[0] {
		case "AVar":
			p = append(p, a[1])
		case "ASrc":
			p = append(p, a[1]+"(..)")
		default:
			p = append(p, "<result of "+a[1]+">")
		}
	}
	return strings.Join(p, ", ")
}

func (e *c08explorer) authd(s c08pstate, as [][2]string) (bool, string) {
	for _, a := range as {
		switch a[0] {
		case "AVar":
			if !s.auth[a[1]] {
				return false, a[1]
			}
		case "ASrc":
			if !c08srcs[a[1]] {
				return false, a[1]
			}
		default:
			return false, "<result of " + a[1] + ">"
		}
	}
	return true, ""
}

func (e *c08explorer) run(n *c08node, in []c08pstate) (norm, brk []c08pstate) {
	in = c08dedup(in)
	if len(in) == 0 {
		return nil, nil
	}
	switch n.op {
	case "PSkip":
		return in, nil
	case "PBreak":
		return nil, in
	case "PExit":
		return nil, nil
	case "PSeq":
		n1, b1 := e.run(n.a, in)
		n2, b2 := e.run(n.b, n1)
		return n2, c08dedup(append(b1, b2...))
	case "PIf":
		n1, b1 := e.run(n.a, in)
		n2, b2 := e.run(n.b, in)
		return c08dedup(append(n1, n2...)), c08dedup(append(b1, b2...))
	case "PAssign":
		for _, s := range in {
			ok, _ := e.authd(s, n.atoms)
			norm = append(norm, s.with(fmt.Sprintf("%s := {%s}", n.x, c08atomsStr(n.atoms)), func(a map[string]bool) {
				if ok {
					a[n.x] = true
				} else {
					delete(a, n.x)
				}
			}))
		}
		return c08dedup(norm), nil
	case "PUse":
		for _, s := range in {
			step := fmt.Sprintf("%s(%s)", n.fn, c08atomsStr(n.atoms))
			if ok, culprit := e.authd(s, n.atoms); c08sinks[n.fn] && !ok {
				if len(e.viol) < 3 {
					e.viol = append(e.viol, [2]string{n.fn, strings.Join(append(append([]string(nil), s.trace...), step+"   <-- "+culprit+" has not passed authenticateTransport on this path"), " ; ")})
				}
				continue
			}
			norm = append(norm, s.with(step, nil))
		}
		return c08dedup(norm), nil
	case "PAuth":
		good := n.code == e.code && n.role == e.role
		var failIn []c08pstate
		for _, s := range in {
			norm = append(norm, s.with(fmt.Sprintf("authenticateTransport(%s, %s, %s) = nil", n.x, n.code, n.role), func(a map[string]bool) {
				if good {
					a[n.x] = true
				}
			}))
			failIn = append(failIn, s.with(fmt.Sprintf("authenticateTransport(%s, ..) = error", n.x), nil))
		}
		fn, fb := e.run(n.a, failIn)
		return c08dedup(append(norm, fn...)), fb
	case "PLoop":
		seen := map[string]bool{}
		var all, work []c08pstate
		add := func(ss []c08pstate) {
			for _, s := range ss {
				if k := s.key(); !seen[k] {
					seen[k] = true
					all = append(all, s)
					work = append(work, s)
				}
			}
		}
		add(in)
		for len(work) > 0 {
			w := work
			work = nil
			bn, bb := e.run(n.a, w)
			add(bn)
			add(bb)
		}
		return all, nil
	}
	panic("C08 order: unknown op " + n.op)
}

var c08defRe = regexp.MustCompile(`(?s)Definition (sk_\w+) : prog :=\s*(.*?)\.\n`)

// c08orderOracle explores the generated skeletons; returns how many it read.
func c08orderOracle(rep *hx.Report) int {
	dir := os.Getenv("VERIF_DIR")
	if dir == "" {
		return 0
	}
	b, err := os.ReadFile(filepath.Join(dir, "coq", "Gen", "AuthOrder.v"))
	if err != nil {
		rep.Notes = append(rep.Notes, "call-order oracle: cannot read Gen/AuthOrder.v: "+err.Error())
		return 0
	}
	n := 0
	for _, m := range c08defRe.FindAllStringSubmatch(string(b), -1) {
		name, body := m[1], m[2]
		ex := &c08explorer{code: "s.joinCode", role: "authRoleSender"}
		if strings.Contains(name, "receiver") {
			ex.code, ex.role = "r.joinCode", "authRoleReceive"
		}
		func() {
			defer func() {
				if r := recover(); r != nil {
					rep.Notes = append(rep.Notes, fmt.Sprintf("call-order oracle: %s: %v", name, r))
				}
			}()
			lx := &c08lexer{toks: c08lex(body)}
			root := lx.node()
			ex.run(root, []c08pstate{{auth: map[string]bool{}}})
			n++
			rep.Evaluations++
			rep.Count("order-skeleton")
			for _, v := range ex.viol {
				rep.Violate("order:"+name+":"+v[0],
					fmt.Sprintf("%s: the transfer call %s is reachable with a connection that has not passed authenticateTransport (static path through the skeleton generated from the source, not an executed run)", name, v[0]),
					map[string]any{"kind": "call-order", "skeleton": name, "path": v[1]})
			}
		}()
	}
	return n
}

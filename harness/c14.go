package main

import (
	"bufio"
	crand "crypto/rand"
	"encoding/hex"
	"encoding/json"
	"fmt"
	"io"
	"net/http"
	"net/url"
	"os"
	"os/exec"
	"path/filepath"
	"sort"
	"strings"
	"sync"
	"time"

	"github.com/gorilla/websocket"
	"github.com/sheerbytes/sheerbytes/internal/session"
	"github.com/sheerbytes/sheerbytes/verifharness/internal/hx"
)

// C14: join codes live exactly as long as their session; server limits hold.
//
//  A. in-process session.Store: histories of Create/GetByJoinCode/Delete/Count
//     with crypto/rand scripted (so that code collisions and the retry loop
//     happen), short ttl + real sleeps, every observation and the final maps
//     compared with Model/Session.v; oracle: lookup succeeds iff created, not
//     deleted, not expired; codes of stored sessions pairwise distinct; the two
//     maps are a bijection.
//  B. the real thruserv binary (VERIF_C14=1 control surface of
//     cmd/thruserv/export_verif_c14.go) under a grid of small limits/lifetimes:
//     sequential scripts of creates, joins, closes, expiries vs Model/Limits.v;
//     oracle: limits never exceeded (store.Count, hub receivers, connLimiter and
//     the client-side counts), 0 = unlimited, a code admits iff its session is
//     live in the property's reading.
//  C. forced schedules: K concurrent requests held at the hook point between a
//     limit check and its act, then released; host reconnect; join completing
//     after the session ended.
//  D. token buckets (inequality against the exact model bound), message size.

// ---------- scripted crypto/rand ----------

type c14reader struct {
	mu    sync.Mutex
	queue []byte
	fb    *hx.Rand
	reads int
}

func (r *c14reader) Read(p []byte) (int, error) {
	r.mu.Lock()
	defer r.mu.Unlock()
	r.reads++
	for i := range p {
		if len(r.queue) > 0 {
			p[i] = r.queue[0]
			r.queue = r.queue[1:]
		} else {
			p[i] = byte(r.fb.U64())
		}
	}
	return len(p), nil
}

const c14chars = "ABCDEFGHJKLMNPQRSTUVWXYZ23456789"

// code bytes for candidate k (base 32, 8 digits) and the string the store derives from them
func c14codeBytes(k int) ([]byte, string) {
	b := make([]byte, 8)
	s := make([]byte, 8)
	for i := 7; i >= 0; i-- {
		b[i] = byte(k % 32)
		s[i] = c14chars[k%32]
		k /= 32
	}
	return b, string(s)
}

func c14idBytes(k int) ([]byte, string) {
	b := make([]byte, 16)
	for i := 15; i >= 8; i-- {
		b[i] = byte(k)
		k >>= 8
	}
	return b, hex.EncodeToString(b)
}

type c14names struct {
	m map[string]int
}

func (n *c14names) of(s string) int {
	if v, ok := n.m[s]; ok {
		return v
	}
	v := len(n.m) + 1
	n.m[s] = v
	return v
}

func c14optZ(ok bool, v int64) string { return hx.OptZ(ok, v) }

func c14sessTerm(id, code int, created int64, hasExp bool, exp int64) string {
	return fmt.Sprintf("(mkSession %d %d %s %s)", id, code, hx.Z(created), c14optZ(hasExp, exp))
}

type c14live struct {
	id, code string
	created  time.Duration
	hasExp   bool
	exp      time.Duration
	deleted  bool
	lazyGone bool
	idReused bool
}

// one Store history; returns false when a clock reading straddled an expiry (the script is then discarded)
func c14storeScript(rep *hx.Report, cf *hx.CasesFile, rng *hx.Rand, caseID int, ttl time.Duration, idReuse bool) bool {
	rd := &c14reader{fb: rng.Fork(uint64(caseID))}
	old := crand.Reader
	crand.Reader = rd
	defer func() { crand.Reader = old }()

	st := session.NewStore(ttl)
	start := time.Now()
	ids := &c14names{m: map[string]int{}}
	codes := &c14names{m: map[string]int{}}
	var all []*c14live
	var ops, obs, names []string
	nextID := 1
	codePool := 3 + rng.Intn(3)
	nextFreshCode := 1000
	sessTerm := func(s session.Session) string {
		hasExp := !s.ExpiresAt.IsZero()
		var e int64
		if hasExp {
			e = int64(s.ExpiresAt.Sub(start))
		}
		return c14sessTerm(ids.of(s.ID), codes.of(s.JoinCode), int64(s.CreatedAt.Sub(start)), hasExp, e)
	}
	fresh := true // ids never repeated so far
	viol := func(sig, what string) {
		rep.Violate(sig, what, map[string]any{"kind": "store", "ttl_ns": int64(ttl), "history": append([]string{}, names...)})
	}
	checkMaps := func() {
		ss, bc := st.VerifDump()
		if !fresh {
			return
		}
		seen := map[string]string{}
		for _, s := range ss {
			if o, dup := seen[s.JoinCode]; dup {
				viol("codes-not-distinct", fmt.Sprintf("sessions %s and %s are both stored under join code %s", o, s.ID, s.JoinCode))
			}
			seen[s.JoinCode] = s.ID
		}
		if len(bc) != len(ss) {
			viol("store-maps-inconsistent", fmt.Sprintf("%d sessions but %d join-code entries", len(ss), len(bc)))
		}
		for _, e := range bc {
			if seen[e[0]] != e[1] {
				viol("store-maps-inconsistent", fmt.Sprintf("byCode[%s]=%s but no such session carries that code", e[0], e[1]))
			}
		}
		if st.Count() != len(ss) {
			viol("store-count", fmt.Sprintf("Count()=%d with %d sessions stored", st.Count(), len(ss)))
		}
	}
	steps := 6 + rng.Intn(14)
	ticks := 0
	nontrivial := false
	for i := 0; i < steps; i++ {
		r := rng.Intn(100)
		switch {
		case r < 35 || len(all) == 0:
			// Create: id, first candidate (often from a small pool so that it collides), further candidates, the last one fresh
			var idb []byte
			var idstr string
			if idReuse && len(all) > 0 && rng.Intn(3) == 0 {
				idb, idstr = c14idBytes(1 + rng.Intn(nextID-1))
			} else {
				idb, idstr = c14idBytes(nextID)
				nextID++
			}
			for _, l := range all {
				if l.id == idstr {
					fresh = false
					l.idReused = true
				}
			}
			rd.mu.Lock()
			rd.queue = append([]byte{}, idb...)
			var cands []int
			nc := 1 + rng.Intn(4)
			for k := 0; k < nc; k++ {
				cands = append(cands, rng.Intn(codePool))
			}
			nextFreshCode++
			cands = append(cands, nextFreshCode)
			var candTerms []string
			for _, k := range cands {
				b, str := c14codeBytes(k)
				rd.queue = append(rd.queue, b...)
				candTerms = append(candTerms, fmt.Sprint(codes.of(str)))
			}
			rd.reads = 0
			rd.mu.Unlock()
			storedBefore, _ := st.VerifDump()
			s := st.Create()
			rd.mu.Lock()
			reads := rd.reads
			rd.queue = nil
			rd.mu.Unlock()
			if reads > 2 {
				nontrivial = true
				rep.Count("store-create-retry")
			}
			hasExp := !s.ExpiresAt.IsZero()
			l := &c14live{id: s.ID, code: s.JoinCode, created: s.CreatedAt.Sub(start), hasExp: hasExp, exp: s.ExpiresAt.Sub(start)}
			ops = append(ops, fmt.Sprintf("(OCreate %s %d %s %s)", hx.Z(int64(l.created)), ids.of(idstr), candTerms[0], hx.List(candTerms[1:])))
			obs = append(obs, fmt.Sprintf("(ObsCreated %s)", sessTerm(s)))
			names = append(names, fmt.Sprintf("create(id=%d, candidates=%v)=%s", ids.of(idstr), cands, s.JoinCode))
			for _, o := range storedBefore {
				if o.JoinCode == s.JoinCode && o.ID != s.ID {
					viol("codes-not-distinct", fmt.Sprintf("Create returned join code %s which stored session %s already has", s.JoinCode, o.ID))
				}
			}
			if (ttl > 0) != hasExp {
				viol("store-expiry-field", fmt.Sprintf("ttl=%v but ExpiresAt zero=%v", ttl, !hasExp))
			}
			if hasExp && s.ExpiresAt.Sub(s.CreatedAt) != ttl {
				viol("store-expiry-field", fmt.Sprintf("ExpiresAt-CreatedAt=%v, ttl=%v", s.ExpiresAt.Sub(s.CreatedAt), ttl))
			}
			for _, o := range all {
				if o.id == s.ID {
					o.deleted = true // overwritten (only with deliberately repeated ids)
				}
			}
			all = append(all, l)
			rep.Count("store-create")
		case r < 75:
			// Get: a code that was handed out (live, deleted or expired), or one never used
			var code string
			if rng.Intn(5) == 0 {
				_, code = c14codeBytes(500 + rng.Intn(codePool))
			} else {
				code = all[rng.Intn(len(all))].code
			}
			before := time.Since(start)
			s, found := st.GetByJoinCode(code)
			after := time.Since(start)
			// the property's verdict from the history
			var want *c14live
			ambiguous := false
			for _, l := range all {
				if l.code != code || l.deleted {
					continue
				}
				if l.hasExp && before <= l.exp && l.exp <= after {
					ambiguous = true
				}
				if !l.hasExp || after < l.exp {
					want = l
				}
			}
			if ambiguous {
				return false
			}
			ops = append(ops, fmt.Sprintf("(OGet %d %s)", codes.of(code), hx.Z(int64(before))))
			names = append(names, fmt.Sprintf("get(%s)@%v=%v", code, before.Round(time.Millisecond), found))
			if found {
				obs = append(obs, fmt.Sprintf("(ObsGet (Some %s))", sessTerm(s)))
			} else {
				obs = append(obs, "(ObsGet None)")
			}
			if fresh {
				switch {
				case found && want == nil:
					viol("admits-after-end:store", fmt.Sprintf("GetByJoinCode(%s) found session %s although every session with that code was deleted or had expired", code, s.ID))
				case !found && want != nil:
					viol("refuses-live:store", fmt.Sprintf("GetByJoinCode(%s) failed although session %s is live (created, not deleted, not expired)", code, want.id))
				case found && (s.ID != want.id || s.JoinCode != code):
					viol("wrong-session:store", fmt.Sprintf("GetByJoinCode(%s) returned session %s/%s, expected %s", code, s.ID, s.JoinCode, want.id))
				}
			}
			if found {
				nontrivial = true
			}
			rep.Count("store-get")
		case r < 88:
			var id string
			if rng.Intn(5) == 0 {
				_, id = c14idBytes(900 + rng.Intn(5))
			} else {
				id = all[rng.Intn(len(all))].id
			}
			st.Delete(id)
			for _, l := range all {
				if l.id == id {
					l.deleted = true
				}
			}
			ops = append(ops, fmt.Sprintf("(ODelete %d)", ids.of(id)))
			obs = append(obs, "ObsUnit")
			names = append(names, fmt.Sprintf("delete(%d)", ids.of(id)))
			rep.Count("store-delete")
		case r < 94:
			n := st.Count()
			ops = append(ops, "OCount")
			obs = append(obs, fmt.Sprintf("(ObsCount %d)", n))
			names = append(names, fmt.Sprintf("count=%d", n))
		default:
			if ttl > 0 && ttl < time.Second && ticks < 2 {
				ticks++
				time.Sleep(ttl + 2*time.Millisecond)
				names = append(names, "sleep(ttl)")
				rep.Count("store-sleep-past-expiry")
			}
		}
		checkMaps()
	}
	ss, bc := st.VerifDump()
	var dump, cds []string
	for _, s := range ss {
		dump = append(dump, sessTerm(s))
	}
	for _, e := range bc {
		cds = append(cds, fmt.Sprintf("(%d, %d)", codes.of(e[0]), ids.of(e[1])))
	}
	cf.Add(fmt.Sprintf("StoreCase %d %s %s %s %s %s", caseID, hx.Z(int64(ttl)), hx.List(ops), hx.List(obs), hx.List(dump), hx.List(cds)))
	rep.CaseIndex[fmt.Sprint(caseID)] = map[string]any{"kind": "store", "ttl_ns": int64(ttl), "history": names}
	rep.Evaluations++
	rep.TracesValidated++
	if nontrivial {
		rep.Nontrivial("store:" + strings.Join(ops, ";"))
	}
	if caseID <= 2 {
		rep.Sample(map[string]any{"kind": "store", "ttl": ttl.String(), "history": names})
	}
	return true
}

// ---------- the thruserv binary ----------

type c14srv struct {
	cmd     *exec.Cmd
	port    int
	mu      sync.Mutex
	expired map[string]bool
}

func c14start(bin string, args ...string) (*c14srv, error) {
	port := freePort()
	a := append([]string{"--port", fmt.Sprint(port)}, args...)
	cmd := exec.Command(bin, a...)
	cmd.Env = append(os.Environ(), "VERIF_C14=1")
	cmd.Stderr = io.Discard
	out, err := cmd.StdoutPipe()
	if err != nil {
		return nil, err
	}
	if err := cmd.Start(); err != nil {
		return nil, err
	}
	sp := &c14srv{cmd: cmd, port: port, expired: map[string]bool{}}
	go func() {
		sc := bufio.NewScanner(out)
		for sc.Scan() {
			line := sc.Text()
			if strings.HasPrefix(line, "session expired session_id=") {
				f := strings.Fields(strings.TrimPrefix(line, "session expired session_id="))
				if len(f) > 0 {
					sp.mu.Lock()
					sp.expired[f[0]] = true
					sp.mu.Unlock()
				}
			}
		}
	}()
	for i := 0; i < 400; i++ {
		resp, err := http.Get(fmt.Sprintf("http://127.0.0.1:%d/health", port))
		if err == nil {
			resp.Body.Close()
			return sp, nil
		}
		time.Sleep(10 * time.Millisecond)
	}
	sp.stop()
	return nil, fmt.Errorf("thruserv did not come up on port %d", port)
}

func (s *c14srv) stop() {
	if s.cmd.Process != nil {
		s.cmd.Process.Kill()
		s.cmd.Wait()
	}
}

type c14stat struct {
	Hits      map[string]int `json:"hits"`
	Waiting   map[string]int `json:"waiting"`
	Sessions  int            `json:"sessions"`
	Inuse     int            `json:"inuse"`
	Receivers int            `json:"receivers"`
	Senders   int            `json:"senders"`
}

var c14http = &http.Client{Timeout: 20 * time.Second, Transport: &http.Transport{MaxIdleConnsPerHost: 64}}

func (s *c14srv) stat(sid string) c14stat {
	var st c14stat
	st.Sessions = -1
	resp, err := c14http.Get(fmt.Sprintf("http://127.0.0.1:%d/verif/c14/stat?session=%s", s.port, url.QueryEscape(sid)))
	if err != nil {
		return st
	}
	defer resp.Body.Close()
	json.NewDecoder(resp.Body).Decode(&st)
	return st
}

func (s *c14srv) ctl(path string) {
	resp, err := c14http.Get(fmt.Sprintf("http://127.0.0.1:%d/verif/c14/%s", s.port, path))
	if err == nil {
		resp.Body.Close()
	}
}

func (s *c14srv) arm(name string, n int, match string) {
	s.ctl(fmt.Sprintf("arm?name=%s&n=%d&match=%s", url.QueryEscape(name), n, url.QueryEscape(match)))
}
func (s *c14srv) release(name string) { s.ctl("release?name=" + url.QueryEscape(name)) }

func (s *c14srv) waitFor(cond func(c14stat) bool, timeout time.Duration) bool {
	dl := time.Now().Add(timeout)
	for {
		if cond(s.stat("")) {
			return true
		}
		if time.Now().After(dl) {
			return false
		}
		time.Sleep(2 * time.Millisecond)
	}
}

func (s *c14srv) waitExpired(sid string, timeout time.Duration) bool {
	dl := time.Now().Add(timeout)
	for {
		s.mu.Lock()
		ok := s.expired[sid]
		s.mu.Unlock()
		if ok {
			return true
		}
		if time.Now().After(dl) {
			return false
		}
		time.Sleep(5 * time.Millisecond)
	}
}

type c14created struct {
	ID, Code string
	HasExp   bool
	Status   int
	Before   time.Duration
	After    time.Duration
}

func (s *c14srv) create(start time.Time) c14created {
	var c c14created
	c.Before = time.Since(start)
	resp, err := c14http.Post(fmt.Sprintf("http://127.0.0.1:%d/session", s.port), "application/json", nil)
	if err != nil {
		c.Status = -1
		return c
	}
	defer resp.Body.Close()
	b, _ := io.ReadAll(resp.Body)
	c.After = time.Since(start)
	c.Status = resp.StatusCode
	var out struct {
		SessionID string `json:"session_id"`
		JoinCode  string `json:"join_code"`
		ExpiresAt string `json:"expires_at"`
	}
	if resp.StatusCode == http.StatusCreated && json.Unmarshal(b, &out) == nil {
		c.ID, c.Code, c.HasExp = out.SessionID, out.JoinCode, out.ExpiresAt != ""
	}
	return c
}

type c14conn struct {
	ws      *websocket.Conn
	gotList chan struct{} // closed when the first server frame (peer_list) arrived: hub.Add has happened
	dead    chan struct{} // closed when the read loop ended
	mu      sync.Mutex
	texts   [][]byte
	at      []time.Time // arrival time of each entry of texts
}

func (c *c14conn) isDead() bool {
	select {
	case <-c.dead:
		return true
	default:
		return false
	}
}

func (c *c14conn) nTexts() int {
	c.mu.Lock()
	defer c.mu.Unlock()
	return len(c.texts)
}

// dial returns the HTTP status (101 on success) and the connection
func (s *c14srv) dial(code, peer, role string) (*c14conn, int) {
	u := fmt.Sprintf("ws://127.0.0.1:%d/ws?join_code=%s&peer_id=%s&role=%s", s.port, url.QueryEscape(code), url.QueryEscape(peer), url.QueryEscape(role))
	d := websocket.Dialer{HandshakeTimeout: 30 * time.Second}
	ws, resp, err := d.Dial(u, nil)
	status := -1
	if resp != nil {
		status = resp.StatusCode
	}
	if err != nil {
		return nil, status
	}
	ws.SetReadLimit(1 << 22)
	c := &c14conn{ws: ws, gotList: make(chan struct{}), dead: make(chan struct{})}
	go func() {
		first := true
		for {
			_, data, err := ws.ReadMessage()
			if err != nil {
				close(c.dead)
				if first {
					close(c.gotList)
				}
				return
			}
			if first {
				first = false
				close(c.gotList)
			} else {
				c.mu.Lock()
				c.texts = append(c.texts, data)
				c.at = append(c.at, time.Now())
				c.mu.Unlock()
			}
		}
	}()
	select {
	case <-c.gotList:
	case <-time.After(10 * time.Second):
	}
	return c, status
}

type c14cfg struct {
	maxSessions, maxReceivers, maxConns int
	ttl                                 time.Duration
}

func (c c14cfg) args() []string {
	return []string{"--max-sessions", fmt.Sprint(c.maxSessions), "--max-receivers-per-sender", fmt.Sprint(c.maxReceivers),
		"--max-ws-connections", fmt.Sprint(c.maxConns), "--session-timeout", c.ttl.String(),
		"--ws-connects-per-min", "0", "--ws-msgs-per-sec", "0", "--session-creates-per-min", "0"}
}

func (c c14cfg) coq() string {
	return fmt.Sprintf("(mkCfg %d %d %d %s)", c.maxSessions, c.maxReceivers, c.maxConns, hx.Z(int64(c.ttl)))
}

func (c c14cfg) String() string {
	return fmt.Sprintf("max-sessions=%d max-receivers-per-sender=%d max-ws-connections=%d session-timeout=%v", c.maxSessions, c.maxReceivers, c.maxConns, c.ttl)
}

// bookkeeping of one server run: the schedule as Coq terms, the projected observations, and the property's own view
type c14run struct {
	rep     *hx.Report
	srv     *c14srv
	cfg     c14cfg
	start   time.Time
	ops     []string
	obs     []string
	names   []string
	ids     *c14names
	codes   *c14names
	nextH   int
	sess    []*c14sess
	conns   []*c14cl
	trivial bool
}

type c14sess struct {
	c14created
	ended       bool // by the property's reading: host gone or lifetime over
	endedWhy    string
	senderClose bool // some sender-role connection of it has closed
	timerSeen   bool
	hostPeer    string // the host: the peer id of the first sender-role connection of the session
}

type c14cl struct {
	h     int
	conn  *c14conn
	sess  int
	peer  string
	role  string
	open  bool
	inHub bool
}

func newC14run(rep *hx.Report, srv *c14srv, cfg c14cfg) *c14run {
	return &c14run{rep: rep, srv: srv, cfg: cfg, start: time.Now(), ids: &c14names{m: map[string]int{}}, codes: &c14names{m: map[string]int{}}, nextH: 1, trivial: true}
}

func (r *c14run) replay() map[string]any {
	return map[string]any{"kind": "server", "config": r.cfg.String(), "schedule": append([]string{}, r.names...)}
}

func (r *c14run) viol(sig, what string) { r.rep.Violate(sig, what, r.replay()) }

func (r *c14run) proj(status, id, code int, exp bool) string {
	return fmt.Sprintf("(%d, %d, %d, %s)", status, id, code, hx.B(exp))
}

func roleCoq(role string) string {
	if role == "sender" {
		return "Sender"
	}
	return "Receiver"
}

// limits as the property states them, read off the server's own counters and the client side
func (r *c14run) checkLimits() {
	st := r.srv.stat("")
	if st.Sessions >= 0 && r.cfg.maxSessions > 0 && st.Sessions > r.cfg.maxSessions {
		r.viol("limit-exceeded:max-sessions", fmt.Sprintf("%d sessions stored with --max-sessions %d", st.Sessions, r.cfg.maxSessions))
	}
	if r.cfg.maxConns > 0 && st.Inuse > r.cfg.maxConns {
		r.viol("limit-exceeded:max-ws-connections", fmt.Sprintf("%d connections in use with --max-ws-connections %d", st.Inuse, r.cfg.maxConns))
	}
	open := 0
	for _, c := range r.conns {
		if c.open && !c.conn.isDead() {
			open++
		}
	}
	if r.cfg.maxConns > 0 && open > r.cfg.maxConns {
		r.viol("limit-exceeded:max-ws-connections", fmt.Sprintf("%d WebSocket connections open with --max-ws-connections %d", open, r.cfg.maxConns))
	}
	if r.cfg.maxReceivers > 0 {
		for i, s := range r.sess {
			if s.ID == "" {
				continue
			}
			n := r.srv.stat(s.ID).Receivers
			if n > r.cfg.maxReceivers {
				r.viol("limit-exceeded:max-receivers-per-sender", fmt.Sprintf("%d receivers connected in session s%d with --max-receivers-per-sender %d", n, i, r.cfg.maxReceivers))
			}
		}
	}
}

// sequential POST /session
func (r *c14run) create() *c14sess {
	h := r.nextH
	r.nextH++
	c := r.srv.create(r.start)
	s := &c14sess{c14created: c}
	switch c.Status {
	case http.StatusCreated:
		id, code := r.ids.of(c.ID), r.codes.of(c.Code)
		r.ops = append(r.ops, fmt.Sprintf("(SCreateSeq %d %s %d %d)", h, hx.Z(int64(c.Before)), id, code))
		r.obs = append(r.obs, r.proj(201, id, code, c.HasExp))
		r.names = append(r.names, fmt.Sprintf("create=201 s%d", len(r.sess)))
		for i, o := range r.sess {
			if o.ID != "" && !o.ended && o.Code == c.Code {
				r.viol("codes-not-distinct", fmt.Sprintf("new session got join code %s of live session s%d", c.Code, i))
			}
		}
		if (r.cfg.ttl > 0) != c.HasExp {
			r.viol("expiry-field", fmt.Sprintf("session-timeout=%v but expires_at present=%v", r.cfg.ttl, c.HasExp))
		}
		r.sess = append(r.sess, s)
	case http.StatusTooManyRequests:
		r.ops = append(r.ops, fmt.Sprintf("(SCreateSeq %d %s 0 0)", h, hx.Z(int64(c.Before))))
		r.obs = append(r.obs, r.proj(429, 0, 0, false))
		r.names = append(r.names, "create=429")
		if r.cfg.maxSessions == 0 {
			r.viol("zero-not-unlimited:max-sessions", "POST /session refused with 429 although --max-sessions 0 (no limit) and the create rate limit is off")
		}
		r.rep.Count("create-refused")
		return nil
	default:
		r.viol("create-session", fmt.Sprintf("POST /session: unexpected status %d", c.Status))
		return nil
	}
	r.rep.Count("create")
	r.checkLimits()
	return s
}

// the time a lookup is given in the model: consistent with where the real one fell relative to the expiry
func (r *c14run) lookupTime(s *c14sess, before, after time.Duration, status int) (now time.Duration, decisive, fresh bool) {
	if r.cfg.ttl <= 0 {
		return before, true, true
	}
	switch {
	case after < s.Before+r.cfg.ttl:
		return before, true, true
	case before > s.After+r.cfg.ttl:
		return before, true, false
	case status == http.StatusNotFound:
		return s.Before + r.cfg.ttl + 1, false, false
	default:
		return s.Before, false, true
	}
}

// sequential GET /ws
func (r *c14run) join(si int, peer, role string) *c14cl {
	s := r.sess[si]
	h := r.nextH
	r.nextH++
	before := time.Since(r.start)
	conn, status := r.srv.dial(s.Code, peer, role)
	after := time.Since(r.start)
	now, decisive, fresh := r.lookupTime(s, before, after, status)
	r.ops = append(r.ops, fmt.Sprintf("(SJoin %d %d %d %s %s)", h, r.codes.of(s.Code), c14peerNum(peer), roleCoq(role), hx.Z(int64(now))))
	r.names = append(r.names, fmt.Sprintf("join(s%d,%s,%s)=%d", si, peer, role, status))
	if !decisive {
		r.rep.Count("join-timing-ambiguous")
	}
	// the property's verdict
	live := !s.ended && (fresh || !decisive)
	if decisive && !fresh && !s.ended {
		s.ended, s.endedWhy = true, "lifetime expired"
	}
	hostOpen := false
	for _, c := range r.conns {
		if c.sess == si && c.role == "sender" && c.peer == s.hostPeer && c.open && !c.conn.isDead() {
			hostOpen = true
		}
	}
	switch status {
	case http.StatusSwitchingProtocols:
		r.obs = append(r.obs, r.proj(101, 0, 0, false))
		if decisive && !live {
			r.viol("admits-after-end", fmt.Sprintf("join code of s%d admitted %s after the session ended (%s)", si, peer, s.endedWhy))
		}
		cl := &c14cl{h: h, conn: conn, sess: si, peer: peer, role: role, open: true, inHub: true}
		if role == "sender" && s.hostPeer == "" {
			s.hostPeer = peer
		}
		for _, o := range r.conns {
			if o.sess == si && o.peer == peer && o.inHub {
				o.inHub = false // replaced (last write wins); its socket stays open
			}
		}
		r.conns = append(r.conns, cl)
		r.trivial = false
		r.rep.Count("join-admitted")
		r.checkLimits()
		return cl
	case http.StatusNotFound:
		r.obs = append(r.obs, r.proj(404, 0, 0, false))
		if decisive && live {
			if hostOpen && s.senderClose {
				r.viol("host-reconnect", fmt.Sprintf("join code of s%d refused (404) although its host is connected and the lifetime has not expired: the session was deleted when a replaced/second sender-role socket closed", si))
			} else {
				r.viol("refuses-live", fmt.Sprintf("join code of s%d refused (404) although the session is live (host not disconnected, lifetime not expired)", si))
			}
		}
		r.rep.Count("join-404")
	case http.StatusTooManyRequests:
		r.obs = append(r.obs, r.proj(429, 0, 0, false))
		if r.cfg.maxConns == 0 && (r.cfg.maxReceivers == 0 || role == "sender") {
			r.viol("zero-not-unlimited:ws", fmt.Sprintf("join refused with 429 although the applicable limits are 0 (no limit): %s", r.cfg))
		}
		r.rep.Count("join-429")
	default:
		r.obs = append(r.obs, r.proj(status, 0, 0, false))
		r.viol("join", fmt.Sprintf("GET /ws: unexpected status %d", status))
	}
	return nil
}

func c14peerNum(p string) int {
	n := 0
	fmt.Sscanf(strings.TrimLeft(p, "pxh"), "%d", &n)
	switch p[0] {
	case 'x':
		return 100 + n
	case 'h':
		return 200 + n
	}
	return n
}

// close a client socket and wait for the handler to finish its cleanup
func (r *c14run) closeConn(cl *c14cl) {
	if !cl.open {
		return
	}
	cl.open = false
	cl.conn.ws.Close()
	r.ops = append(r.ops, fmt.Sprintf("(SRaw (WClose %d))", cl.h))
	r.obs = append(r.obs, r.proj(1, 0, 0, false))
	r.names = append(r.names, fmt.Sprintf("close(%s of s%d, %s)", cl.peer, cl.sess, cl.role))
	if cl.role == "sender" {
		s := r.sess[cl.sess]
		s.senderClose = true
		// the session lives as long as its HOST is connected: another peer that merely calls
		// itself a sender does not keep it alive (nor may its leaving end it)
		other := false
		for _, o := range r.conns {
			if o != cl && o.sess == cl.sess && o.role == "sender" && o.peer == s.hostPeer && o.open && !o.conn.isDead() {
				other = true
			}
		}
		if cl.peer == s.hostPeer && !other && !s.ended {
			s.ended, s.endedWhy = true, "host disconnected"
		}
	}
	cl.inHub = false
}

func c14pname(i int) string { return fmt.Sprintf("p%d", i) }

func c14servTerm(caseID int, cfg c14cfg, r *c14run, st c14stat) string {
	nin := st.Inuse
	if cfg.maxConns == 0 {
		nin = 0 // the limiter is not consulted at all
	}
	return fmt.Sprintf("ServCase %d %s %s %s %s %s", caseID, cfg.coq(), hx.List(r.ops), hx.List(r.obs), hx.Z(int64(st.Sessions)), hx.Z(int64(nin)))
}

// one sequential script against one server
func c14serverScript(rep *hx.Report, bin string, cfg c14cfg, rng *hx.Rand, caseID int, steps int) (string, map[string]any) {
	srv, err := c14start(bin, cfg.args()...)
	if err != nil {
		rep.Violate("server-start", err.Error(), nil)
		return "", nil
	}
	defer srv.stop()
	r := newC14run(rep, srv, cfg)
	closed := 0 // /ws requests that are finished (refused, or closed): each ends in exactly one serv.ws.exit
	sync := func() {
		srv.waitFor(func(st c14stat) bool { return st.Hits["serv.ws.exit"] >= closed }, 15*time.Second)
	}
	short := cfg.ttl > 0 && cfg.ttl < 10*time.Second
	// drain: sessions whose lifetime is (all=true) or may soon be (older than 30% of it) over are followed
	// to their expiry timer before anything else happens, so that no step straddles an expiry
	drain := func(all bool) {
		if !short {
			return
		}
		for si, s := range r.sess {
			if s.timerSeen || s.senderClose {
				continue // expired already / timer cancelled when a sender-role socket closed
			}
			if !all && time.Since(r.start)-s.After < cfg.ttl*3/10 {
				continue
			}
			if !srv.waitExpired(s.ID, cfg.ttl+20*time.Second) {
				r.viol("expiry-timer-missing", fmt.Sprintf("session s%d was not expired by its timer within %v after its lifetime of %v", si, 20*time.Second, cfg.ttl))
				s.timerSeen = true
				continue
			}
			s.timerSeen = true
			if !s.ended {
				s.ended, s.endedWhy = true, "lifetime expired"
			}
			r.ops = append(r.ops, fmt.Sprintf("(SRaw (Expire %d))", r.ids.of(s.ID)))
			r.obs = append(r.obs, r.proj(1, 0, 0, false))
			r.names = append(r.names, fmt.Sprintf("timer(s%d)", si))
			// hub.CloseSession closed every connection registered in the hub for it
			for _, c := range r.conns {
				if c.sess == si && c.open && c.inHub {
					select {
					case <-c.conn.dead:
					case <-time.After(10 * time.Second):
						r.viol("expiry-leaves-peer", fmt.Sprintf("%s stayed connected to s%d after the session's lifetime expired", c.peer, si))
					}
					r.closeConn(c)
					closed++
				}
			}
			sync()
			r.checkLimits()
			rep.Count("expiry")
		}
	}
	expiries := 0
	for st := 0; st < steps; st++ {
		drain(false)
		k := rng.Intn(100)
		switch {
		case k < 22 || len(r.sess) == 0:
			r.create()
		case k < 64:
			si := rng.Intn(len(r.sess))
			role, peer := "receiver", c14pname(rng.Intn(5))
			if rng.Intn(4) == 0 {
				// the host of a session always uses the same peer id: a second sender-role socket is a reconnect
				role, peer = "sender", fmt.Sprintf("h%d", si)
				if rng.Intn(6) == 0 && r.sess[si].hostPeer != "" {
					peer = fmt.Sprintf("x%d", rng.Intn(3)) // somebody else who calls itself a sender
				}
			}
			if r.join(si, peer, role) == nil {
				closed++
			}
			sync()
		case k < 88:
			var open []*c14cl
			for _, c := range r.conns {
				if c.open {
					open = append(open, c)
				}
			}
			if len(open) == 0 {
				continue
			}
			r.closeConn(open[rng.Intn(len(open))])
			closed++
			sync()
			r.checkLimits()
		default:
			if short && expiries < 2 {
				expiries++
				drain(true)
			}
		}
	}
	sync()
	fin := srv.stat("")
	for _, c := range r.conns {
		if c.open {
			c.conn.ws.Close()
		}
	}
	if !r.trivial {
		rep.Nontrivial("serv:" + cfg.String() + strings.Join(r.names, ";"))
	}
	return c14servTerm(caseID, cfg, r, fin), r.replay()
}

// ---------- forced schedules ----------

// K concurrent POST /session held between the limit check and store.Create
func c14burstSessions(rep *hx.Report, bin string, cfg c14cfg, k int, caseID int) (string, map[string]any) {
	srv, err := c14start(bin, cfg.args()...)
	if err != nil {
		rep.Violate("server-start", err.Error(), nil)
		return "", nil
	}
	defer srv.stop()
	r := newC14run(rep, srv, cfg)
	// fill up to one below the limit sequentially so that the burst starts from a non-trivial state
	for i := 0; i+1 < cfg.maxSessions; i++ {
		r.create()
	}
	name := "serv.session.checked"
	srv.arm(name, k, "")
	res := make([]c14created, k)
	var wg sync.WaitGroup
	for i := 0; i < k; i++ {
		wg.Add(1)
		go func(i int) {
			defer wg.Done()
			res[i] = srv.create(r.start)
		}(i)
	}
	held := srv.waitFor(func(st c14stat) bool { return st.Waiting[name] >= k }, 20*time.Second)
	nheld := srv.stat("").Waiting[name]
	srv.release(name)
	wg.Wait()
	r.names = append(r.names, fmt.Sprintf("%d concurrent POST /session, %d of them held between `store.Count() >= maxSessions` and `store.Create()`, then released", k, nheld))
	_ = held
	h0 := r.nextH
	// schedule: the held handlers all did their check before any of them created
	for i := 0; i < k; i++ {
		if res[i].Status == http.StatusCreated {
			r.ops = append(r.ops, fmt.Sprintf("(SRaw (SCheck %d))", h0+i))
			r.obs = append(r.obs, r.proj(0, 0, 0, false))
		}
	}
	created := 0
	for i := 0; i < k; i++ {
		switch res[i].Status {
		case http.StatusCreated:
			created++
			id, code := r.ids.of(res[i].ID), r.codes.of(res[i].Code)
			r.ops = append(r.ops, fmt.Sprintf("(SRaw (SCreate %d %s %d %d []))", h0+i, hx.Z(int64(res[i].Before)), id, code))
			r.obs = append(r.obs, r.proj(201, id, code, res[i].HasExp))
		}
	}
	for i := 0; i < k; i++ {
		if res[i].Status == http.StatusTooManyRequests {
			r.ops = append(r.ops, fmt.Sprintf("(SRaw (SCheck %d))", h0+i))
			r.obs = append(r.obs, r.proj(429, 0, 0, false))
		} else if res[i].Status != http.StatusCreated {
			r.viol("create-session", fmt.Sprintf("POST /session: unexpected status %d", res[i].Status))
		}
	}
	st := srv.stat("")
	if cfg.maxSessions > 0 && st.Sessions > cfg.maxSessions {
		r.viol("concurrent-check-act:max-sessions", fmt.Sprintf("%d sessions exist with --max-sessions %d after %d concurrent creates all passed the check before any of them created", st.Sessions, cfg.maxSessions, k))
	}
	// every created code must be live and distinct
	seen := map[string]bool{}
	for i := 0; i < k; i++ {
		if res[i].Status == http.StatusCreated {
			if seen[res[i].Code] {
				r.viol("codes-not-distinct", "two concurrently created sessions share a join code")
			}
			seen[res[i].Code] = true
		}
	}
	rep.Count("burst-sessions")
	rep.Nontrivial(fmt.Sprintf("burst-sessions:%s:%d", cfg, k))
	st.Inuse = -1
	return fmt.Sprintf("ServCase %d %s %s %s %s (-1)", caseID, cfg.coq(), hx.List(r.ops), hx.List(r.obs), hx.Z(int64(st.Sessions))), r.replay()
}

// K concurrent receivers held between the receiver count and the upgrade / hub.Add
func c14burstReceivers(rep *hx.Report, bin string, cfg c14cfg, k int, caseID int) (string, map[string]any) {
	srv, err := c14start(bin, cfg.args()...)
	if err != nil {
		rep.Violate("server-start", err.Error(), nil)
		return "", nil
	}
	defer srv.stop()
	r := newC14run(rep, srv, cfg)
	s := r.create()
	if s == nil {
		return "", nil
	}
	host := r.join(0, "h0", "sender")
	if host == nil {
		return "", nil
	}
	for i := 0; i+1 < cfg.maxReceivers; i++ {
		r.join(0, c14pname(i), "receiver")
	}
	name := "serv.ws.checked"
	srv.arm(name, k, "")
	type res struct {
		conn   *c14conn
		status int
		before time.Duration
	}
	out := make([]res, k)
	var wg sync.WaitGroup
	for i := 0; i < k; i++ {
		wg.Add(1)
		go func(i int) {
			defer wg.Done()
			out[i].before = time.Since(r.start)
			out[i].conn, out[i].status = srv.dial(s.Code, fmt.Sprintf("x%d", i), "receiver")
		}(i)
	}
	srv.waitFor(func(st c14stat) bool { return st.Waiting[name] >= k }, 20*time.Second)
	nheld := srv.stat("").Waiting[name]
	srv.release(name)
	wg.Wait()
	r.names = append(r.names, fmt.Sprintf("%d concurrent receivers join s0, %d of them held between the receiver count and the upgrade/hub.Add, then released", k, nheld))
	h0 := r.nextH
	code := r.codes.of(s.Code)
	admitted := 0
	for phase := 0; phase < 2; phase++ {
		for i := 0; i < k; i++ {
			ok := out[i].status == http.StatusSwitchingProtocols
			if phase == 0 && ok {
				// lookup, acquire, check: all before anybody's hub.Add
				r.ops = append(r.ops, fmt.Sprintf("(SRaw (WLookup %d %d %d Receiver %s))", h0+i, code, 100+i, hx.Z(int64(out[i].before))),
					fmt.Sprintf("(SRaw (WAcquire %d))", h0+i), fmt.Sprintf("(SRaw (WCheck %d))", h0+i))
				r.obs = append(r.obs, r.proj(0, 0, 0, false), r.proj(0, 0, 0, false), r.proj(0, 0, 0, false))
			}
			if phase == 1 && ok {
				admitted++
				r.ops = append(r.ops, fmt.Sprintf("(SRaw (WAdd %d))", h0+i))
				r.obs = append(r.obs, r.proj(101, 0, 0, false))
			}
		}
	}
	for i := 0; i < k; i++ {
		if out[i].status == http.StatusTooManyRequests {
			r.ops = append(r.ops, fmt.Sprintf("(SJoin %d %d %d Receiver %s)", h0+i, code, 100+i, hx.Z(int64(out[i].before))))
			r.obs = append(r.obs, r.proj(429, 0, 0, false))
		} else if out[i].status != http.StatusSwitchingProtocols {
			r.viol("join", fmt.Sprintf("GET /ws: unexpected status %d", out[i].status))
		}
	}
	st := srv.stat(s.ID)
	if cfg.maxReceivers > 0 && st.Receivers > cfg.maxReceivers {
		r.viol("concurrent-check-act:max-receivers-per-sender", fmt.Sprintf("%d receivers are connected to one host with --max-receivers-per-sender %d after %d concurrent joins all passed the count before any of them was added", st.Receivers, cfg.maxReceivers, k))
	}
	if cfg.maxConns > 0 && st.Inuse > cfg.maxConns {
		r.viol("limit-exceeded:max-ws-connections", fmt.Sprintf("%d connections in use with --max-ws-connections %d", st.Inuse, cfg.maxConns))
	}
	for i := range out {
		if out[i].conn != nil {
			out[i].conn.ws.Close()
		}
	}
	for _, c := range r.conns {
		c.conn.ws.Close()
	}
	rep.Count("burst-receivers")
	rep.Nontrivial(fmt.Sprintf("burst-receivers:%s:%d", cfg, k))
	return c14servTerm(caseID, cfg, r, st), r.replay()
}

// K concurrent joins against --max-ws-connections C: Acquire is atomic, so exactly min(K, C) get through
func c14burstConns(rep *hx.Report, bin string, cfg c14cfg, k int, caseID int) (string, map[string]any) {
	srv, err := c14start(bin, cfg.args()...)
	if err != nil {
		rep.Violate("server-start", err.Error(), nil)
		return "", nil
	}
	defer srv.stop()
	r := newC14run(rep, srv, cfg)
	s := r.create()
	if s == nil {
		return "", nil
	}
	name := "serv.ws.checked"
	srv.arm(name, k, "")
	type res struct {
		conn   *c14conn
		status int
		before time.Duration
	}
	out := make([]res, k)
	var wg sync.WaitGroup
	for i := 0; i < k; i++ {
		wg.Add(1)
		go func(i int) {
			defer wg.Done()
			out[i].before = time.Since(r.start)
			out[i].conn, out[i].status = srv.dial(s.Code, fmt.Sprintf("x%d", i), "receiver")
		}(i)
	}
	want := k
	if cfg.maxConns > 0 && cfg.maxConns < k {
		want = cfg.maxConns
	}
	// all K are in flight: `want` of them hold a slot and stand before the upgrade, the others were refused
	srv.waitFor(func(st c14stat) bool { return st.Waiting[name] >= want && st.Hits["serv.ws.exit"] >= k-want }, 20*time.Second)
	mid := srv.stat("")
	if cfg.maxConns > 0 && mid.Inuse > cfg.maxConns {
		r.viol("limit-exceeded:max-ws-connections", fmt.Sprintf("%d connections in use with --max-ws-connections %d during a burst of %d joins", mid.Inuse, cfg.maxConns, k))
	}
	srv.release(name)
	wg.Wait()
	r.names = append(r.names, fmt.Sprintf("%d concurrent joins of s0 against the connection limit", k))
	h0 := r.nextH
	code := r.codes.of(s.Code)
	admitted := 0
	for i := 0; i < k; i++ {
		if out[i].status == http.StatusSwitchingProtocols {
			admitted++
			r.ops = append(r.ops, fmt.Sprintf("(SRaw (WLookup %d %d %d Receiver %s))", h0+i, code, 100+i, hx.Z(int64(out[i].before))), fmt.Sprintf("(SRaw (WAcquire %d))", h0+i))
			r.obs = append(r.obs, r.proj(0, 0, 0, false), r.proj(0, 0, 0, false))
		}
	}
	for i := 0; i < k; i++ {
		if out[i].status == http.StatusTooManyRequests {
			r.ops = append(r.ops, fmt.Sprintf("(SJoin %d %d %d Receiver %s)", h0+i, code, 100+i, hx.Z(int64(out[i].before))))
			r.obs = append(r.obs, r.proj(429, 0, 0, false))
			if cfg.maxConns == 0 && cfg.maxReceivers == 0 {
				r.viol("zero-not-unlimited:ws", "join refused with 429 although --max-ws-connections 0 and --max-receivers-per-sender 0")
			}
		} else if out[i].status != http.StatusSwitchingProtocols {
			r.viol("join", fmt.Sprintf("GET /ws: unexpected status %d", out[i].status))
		}
	}
	for i := 0; i < k; i++ {
		if out[i].status == http.StatusSwitchingProtocols {
			r.ops = append(r.ops, fmt.Sprintf("(SRaw (WCheck %d))", h0+i), fmt.Sprintf("(SRaw (WAdd %d))", h0+i))
			r.obs = append(r.obs, r.proj(0, 0, 0, false), r.proj(101, 0, 0, false))
		}
	}
	if cfg.maxConns > 0 && admitted > cfg.maxConns {
		r.viol("limit-exceeded:max-ws-connections", fmt.Sprintf("%d of %d concurrent joins were upgraded with --max-ws-connections %d", admitted, k, cfg.maxConns))
	}
	if admitted < want {
		r.viol("limit-too-strict:max-ws-connections", fmt.Sprintf("only %d of %d concurrent joins were admitted although %d slots were free", admitted, k, want))
	}
	st := srv.stat(s.ID)
	for i := range out {
		if out[i].conn != nil {
			out[i].conn.ws.Close()
		}
	}
	// all slots come back
	if cfg.maxConns > 0 {
		if !srv.waitFor(func(st c14stat) bool { return st.Inuse == 0 }, 10*time.Second) {
			r.viol("slot-leak:max-ws-connections", fmt.Sprintf("wsConnLimiter.inUse=%d after every connection was closed", srv.stat("").Inuse))
		}
	}
	rep.Count("burst-conns")
	rep.Nontrivial(fmt.Sprintf("burst-conns:%s:%d", cfg, k))
	return c14servTerm(caseID, cfg, r, st), r.replay()
}

// the host reconnects under its peer id; the stale socket's handler then exits
func c14hostReconnect(rep *hx.Report, bin string, cfg c14cfg, samePeer bool, caseID int) (string, map[string]any) {
	srv, err := c14start(bin, cfg.args()...)
	if err != nil {
		rep.Violate("server-start", err.Error(), nil)
		return "", nil
	}
	defer srv.stop()
	r := newC14run(rep, srv, cfg)
	if r.create() == nil {
		return "", nil
	}
	c1 := r.join(0, "h0", "sender")
	second := "h0"
	if !samePeer {
		second = "h1"
	}
	c2 := r.join(0, second, "sender")
	if c1 == nil || c2 == nil {
		return "", nil
	}
	r.closeConn(c1)
	srv.waitFor(func(st c14stat) bool { return st.Hits["serv.ws.exit"] >= 1 }, 15*time.Second)
	if j := r.join(0, "p1", "receiver"); j != nil {
		r.trivial = false
	}
	st := srv.stat("")
	for _, c := range r.conns {
		c.conn.ws.Close()
	}
	rep.Count("host-reconnect-replay")
	rep.Nontrivial(fmt.Sprintf("host-reconnect:%v", samePeer))
	return c14servTerm(caseID, cfg, r, st), r.replay()
}

// a join that passed the lookup is held; the host leaves (session deleted); the join then completes
func c14joinAfterEnd(rep *hx.Report, bin string, cfg c14cfg, caseID int) (string, map[string]any) {
	srv, err := c14start(bin, cfg.args()...)
	if err != nil {
		rep.Violate("server-start", err.Error(), nil)
		return "", nil
	}
	defer srv.stop()
	r := newC14run(rep, srv, cfg)
	s := r.create()
	if s == nil {
		return "", nil
	}
	host := r.join(0, "h0", "sender")
	if host == nil {
		return "", nil
	}
	name := "serv.ws.looked"
	srv.arm(name, 1, "x0")
	var late *c14conn
	status := 0
	before := time.Since(r.start)
	done := make(chan struct{})
	go func() {
		late, status = srv.dial(s.Code, "x0", "receiver")
		close(done)
	}()
	held := srv.waitFor(func(st c14stat) bool { return st.Waiting[name] >= 1 }, 20*time.Second)
	h := r.nextH
	r.nextH++
	r.ops = append(r.ops, fmt.Sprintf("(SRaw (WLookup %d %d 100 Receiver %s))", h, r.codes.of(s.Code), hx.Z(int64(before))))
	r.obs = append(r.obs, r.proj(0, 0, 0, false))
	r.names = append(r.names, fmt.Sprintf("x0 starts joining s0 and is held right after store.GetByJoinCode succeeded (held=%v)", held))
	r.closeConn(host)
	srv.waitFor(func(st c14stat) bool { return st.Hits["serv.ws.exit"] >= 1 }, 15*time.Second)
	gone := srv.stat("").Sessions == 0
	srv.release(name)
	<-done
	r.names = append(r.names, fmt.Sprintf("x0 released: status %d", status))
	if status == http.StatusSwitchingProtocols {
		r.ops = append(r.ops, fmt.Sprintf("(SRaw (WAcquire %d))", h), fmt.Sprintf("(SRaw (WCheck %d))", h), fmt.Sprintf("(SRaw (WAdd %d))", h))
		r.obs = append(r.obs, r.proj(0, 0, 0, false), r.proj(0, 0, 0, false), r.proj(101, 0, 0, false))
		if held && gone {
			r.viol("concurrent-check-act:session-liveness", "a receiver whose join had passed the join-code lookup was upgraded and registered in the hub after the host had disconnected and the session had been deleted")
		}
	} else {
		r.viol("join", fmt.Sprintf("held join ended with status %d", status))
	}
	st := srv.stat("")
	if late != nil {
		late.ws.Close()
	}
	rep.Count("join-after-end-replay")
	rep.Nontrivial("join-after-end")
	return c14servTerm(caseID, cfg, r, st), r.replay()
}

// ---------- rates and message size ----------

func c14paddedEnvelope(id string, total int) []byte {
	head := fmt.Sprintf(`{"v":1,"type":"offer","msg_id":"%s","payload":"`, id)
	tail := `"}`
	n := total - len(head) - len(tail)
	if n < 0 {
		n = 0
	}
	return []byte(head + strings.Repeat("a", n) + tail)
}

// message size: a frame of exactly `size` bytes from the host to one receiver
func c14msgSize(rep *hx.Report, bin string, maxBytes int, sizes []int, baseID int) (outs []c14out) {
	srv, err := c14start(bin, "--max-message-bytes", fmt.Sprint(maxBytes), "--max-sessions", "0", "--max-receivers-per-sender", "0", "--max-ws-connections", "0",
		"--ws-connects-per-min", "0", "--ws-msgs-per-sec", "0", "--session-creates-per-min", "0")
	if err != nil {
		rep.Violate("server-start", err.Error(), nil)
		return
	}
	defer srv.stop()
	start := time.Now()
	for _, size := range sizes {
		s := srv.create(start)
		if s.Status != http.StatusCreated {
			rep.Violate("create-session", fmt.Sprintf("status %d", s.Status), nil)
			return
		}
		host, st1 := srv.dial(s.Code, "h0", "sender")
		rc, st2 := srv.dial(s.Code, "p0", "receiver")
		if host == nil || rc == nil {
			rep.Violate("join", fmt.Sprintf("status %d/%d", st1, st2), nil)
			return
		}
		// the host first sees peer_joined(p0); wait for it so that the count below is only our frame
		time.Sleep(30 * time.Millisecond)
		base := rc.nTexts()
		msg := c14paddedEnvelope("big", size)
		host.ws.WriteMessage(websocket.TextMessage, msg)
		// a small marker afterwards: when it (or the close) arrives the big one was decided
		host.ws.WriteMessage(websocket.TextMessage, c14paddedEnvelope("mark", 60))
		relayed := false
		dl := time.Now().Add(10 * time.Second)
		for time.Now().Before(dl) {
			rc.mu.Lock()
			var gotBig, gotMark bool
			for _, t := range rc.texts[base:] {
				if strings.Contains(string(t[:min(len(t), 200)]), `"msg_id":"big"`) {
					gotBig = true
				}
				if strings.Contains(string(t[:min(len(t), 200)]), `"msg_id":"mark"`) {
					gotMark = true
				}
			}
			rc.mu.Unlock()
			if gotBig {
				relayed = true
				break
			}
			if gotMark || host.isDead() {
				// give a relayed big frame (sent before the marker / the close) time to arrive
				time.Sleep(50 * time.Millisecond)
				rc.mu.Lock()
				for _, t := range rc.texts[base:] {
					if strings.Contains(string(t[:min(len(t), 200)]), `"msg_id":"big"`) {
						relayed = true
					}
				}
				rc.mu.Unlock()
				break
			}
			time.Sleep(3 * time.Millisecond)
		}
		id := baseID + len(outs)
		replay := map[string]any{"kind": "message-size", "max_message_bytes": maxBytes, "frame_bytes": size, "relayed": relayed}
		outs = append(outs, c14out{fmt.Sprintf("MsgCase %d %d %d %s", id, maxBytes, size, hx.B(relayed)), id, replay})
		rep.Count("message-size")
		if maxBytes > 0 && size > maxBytes && relayed {
			rep.Violate("limit-exceeded:max-message-bytes", fmt.Sprintf("a %d-byte frame was relayed with --max-message-bytes %d", size, maxBytes), replay)
		}
		if maxBytes > 0 && size <= maxBytes && !relayed {
			rep.Violate("limit-too-strict:max-message-bytes", fmt.Sprintf("a %d-byte frame was dropped with --max-message-bytes %d", size, maxBytes), replay)
		}
		if maxBytes == 0 && !relayed {
			rep.Violate("zero-not-unlimited:max-message-bytes", fmt.Sprintf("a %d-byte frame was dropped (connection closed) with --max-message-bytes 0, which the property reads as 'no limit'; the read loop falls back to 64 KiB", size), replay)
		}
		rep.Nontrivial(fmt.Sprintf("msg:%d:%d", maxBytes, size))
		host.ws.Close()
		rc.ws.Close()
	}
	return outs
}

// token buckets: count what gets through in a measured window and compare with burst + rate*window
func c14rates(rep *hx.Report, bin string, kind string, perUnit, burst, n int, id int) (outs []c14out) {
	args := []string{"--max-sessions", "0", "--max-receivers-per-sender", "0", "--max-ws-connections", "0", "--session-timeout", "0",
		"--ws-connects-per-min", "0", "--ws-msgs-per-sec", "0", "--session-creates-per-min", "0"}
	set := func(flag string, v int) {
		for i := range args {
			if args[i] == flag {
				args[i+1] = fmt.Sprint(v)
				return
			}
		}
		args = append(args, flag, fmt.Sprint(v))
	}
	var rateD int64
	switch kind {
	case "session-creates", "session-creates-idle":
		set("--session-creates-per-min", perUnit)
		set("--session-creates-burst", burst)
		rateD = int64(60 * time.Second)
	case "ws-connects":
		set("--ws-connects-per-min", perUnit)
		set("--ws-connects-burst", burst)
		rateD = int64(60 * time.Second)
	case "ws-msgs":
		set("--ws-msgs-per-sec", perUnit)
		set("--ws-msgs-burst", burst)
		rateD = int64(time.Second)
	}
	srv, err := c14start(bin, args...)
	if err != nil {
		rep.Violate("server-start", err.Error(), nil)
		return
	}
	defer srv.stop()
	start := time.Now()
	allowed := 0
	var window time.Duration
	switch kind {
	case "session-creates":
		t0 := time.Now() // the bucket of this IP is created (full) at the first request, after t0
		for i := 0; i < n; i++ {
			if srv.create(start).Status == http.StatusCreated {
				allowed++
			}
		}
		window = time.Since(t0)
	case "session-creates-idle":
		// drain the bucket, stay idle long enough that an uncapped bucket would refill far beyond its
		// burst, then measure a second window: it starts from a state the bucket can be in (<= burst)
		for i := 0; i < burst+3; i++ {
			srv.create(start)
		}
		time.Sleep(time.Duration(float64(burst+6) / float64(perUnit) * float64(rateD)))
		t0 := time.Now()
		for i := 0; i < n; i++ {
			if srv.create(start).Status == http.StatusCreated {
				allowed++
			}
		}
		window = time.Since(t0)
	case "ws-connects":
		s := srv.create(start)
		t0 := time.Now()
		var cs []*c14conn
		for i := 0; i < n; i++ {
			c, st := srv.dial(s.Code, fmt.Sprintf("p%d", i), "receiver")
			if st == http.StatusSwitchingProtocols {
				allowed++
				cs = append(cs, c)
			}
		}
		window = time.Since(t0)
		for _, c := range cs {
			c.ws.Close()
		}
	case "ws-msgs":
		s := srv.create(start)
		t0 := time.Now() // the per-connection bucket is created (full) inside the handler, after t0
		host, _ := srv.dial(s.Code, "h0", "sender")
		rc, _ := srv.dial(s.Code, "p0", "receiver")
		if host == nil || rc == nil {
			rep.Violate("join", "rate run: cannot connect", nil)
			return
		}
		base := rc.nTexts()
		for i := 0; i < n; i++ {
			if host.ws.WriteMessage(websocket.TextMessage, c14paddedEnvelope(fmt.Sprintf("m%d", i), 60)) != nil {
				break
			}
		}
		// over the limit the server closes the connection; otherwise wait until all n arrived
		dl := time.Now().Add(10 * time.Second)
		for time.Now().Before(dl) && !host.isDead() && rc.nTexts()-base < n {
			time.Sleep(3 * time.Millisecond)
		}
		time.Sleep(80 * time.Millisecond) // frames relayed before the close are still in flight
		window = time.Millisecond         // the window ends when the last relayed frame arrived
		rc.mu.Lock()
		for i, t := range rc.texts[base:] {
			if strings.Contains(string(t), `"type":"offer"`) {
				allowed++
				if w := rc.at[base+i].Sub(t0); w > window {
					window = w
				}
			}
		}
		rc.mu.Unlock()
		host.ws.Close()
		rc.ws.Close()
	}
	replay := map[string]any{"kind": "rate", "limiter": kind, "rate": perUnit, "burst": burst, "requests": n, "allowed": allowed, "window_ns": int64(window)}
	outs = append(outs, c14out{fmt.Sprintf("BucketCase %d %d %d %d %d %d", id, perUnit, rateD, burst, int64(window), allowed), id, replay})
	rep.Count("rate:" + kind)
	b := burst
	if b < 1 {
		b = 1
	}
	if perUnit > 0 {
		bound := float64(b) + float64(perUnit)*float64(window)/float64(rateD)
		if float64(allowed) > bound+1e-6 {
			rep.Violate("rate-exceeded:"+kind, fmt.Sprintf("%d requests allowed within %v with rate %d and burst %d (bound %.3f)", allowed, window, perUnit, burst, bound), replay)
		}
		if allowed < min(n, b) {
			rep.Violate("rate-too-strict:"+kind, fmt.Sprintf("only %d of %d requests allowed with burst %d", allowed, n, burst), replay)
		}
	} else if allowed != n {
		rep.Violate("zero-not-unlimited:"+kind, fmt.Sprintf("%d of %d requests allowed although the rate is 0 (no limit)", allowed, n), replay)
	}
	rep.Nontrivial(fmt.Sprintf("rate:%s:%d:%d", kind, perUnit, burst))
	return outs
}

// ---------- driver ----------

type c14out struct {
	term   string
	id     int
	replay map[string]any
}

func c14one(term string, replay map[string]any) []c14out {
	if term == "" {
		return nil
	}
	var id int
	fmt.Sscanf(term, "ServCase %d", &id)
	return []c14out{{term, id, replay}}
}

func runC14(cfg config) *hx.Report {
	rep := hx.NewReport("C14")
	rep.Rule = "A: histories on a real session.Store with scripted crypto/rand (non-trivial = a lookup succeeded or the collision-retry loop ran); B: sequential scripts of creates/joins/closes/expiries against the real thruserv binary under small limits and lifetimes (non-trivial = at least one peer was admitted); C: bursts held at the verifhook points between a limit check and its act, host reconnect, join finishing after the session ended; D: token-bucket windows and frame sizes. Distinct by history/config"
	cf := &hx.CasesFile{Dir: cfg.out, Name: "C14", Module: "C14", Imports: []string{"Model.Session", "Model.Limits", "Corr.C14"}, PerShard: 40}
	rng := hx.NewRand(cfg.seed)
	thorough := cfg.tier == "thorough"
	caseID := 0

	// ---- A: Store, in process (sequential: crypto/rand.Reader is process-global) ----
	nStore := 70
	if thorough {
		nStore = 2000
	}
	ttls := []time.Duration{0, 15 * time.Millisecond, time.Hour, 15 * time.Millisecond, -time.Second}
	for i := 0; i < nStore; i++ {
		ttl := ttls[rng.Intn(len(ttls))]
		for try := 0; try < 4; try++ {
			caseID++
			if c14storeScript(rep, cf, rng, caseID, ttl, i%10 == 9) {
				break
			}
			rep.Count("store-script-discarded-ambiguous-clock")
		}
	}

	// ---- B/C/D: the binary ----
	bin := filepath.Join(cfg.out, "thruserv")
	if err := buildBinary("cmd/thruserv", bin); err != nil {
		rep.Violate("build", err.Error(), nil)
		cf.Close()
		return rep
	}
	type job func(rep *hx.Report) []c14out
	var jobs []job
	caseID = 100000
	next := func(n int) int { id := caseID + 1; caseID += n; return id }
	hour := time.Hour

	// corpus: the forced schedules (a failure that gets fixed stays here and is reported again if it returns)
	{
		id1, id2, id3, id4, id5, id6, id7, id8, id9, id10 := next(1), next(1), next(1), next(1), next(1), next(1), next(1), next(1), next(1), next(1)
		c2 := c14cfg{2 + rng.Intn(2), 0, 0, hour}
		k2 := 2 + rng.Intn(4)
		c4 := c14cfg{0, 2 + rng.Intn(2), 8, hour}
		k4 := 2 + rng.Intn(3)
		c6 := c14cfg{0, 0, 1 + rng.Intn(4), hour}
		k6 := 3 + rng.Intn(6)
		jobs = append(jobs,
			func(rep *hx.Report) []c14out { return c14one(c14burstSessions(rep, bin, c14cfg{1, 0, 0, 0}, 3, id1)) },
			func(rep *hx.Report) []c14out { return c14one(c14burstSessions(rep, bin, c2, k2, id2)) },
			func(rep *hx.Report) []c14out { return c14one(c14burstReceivers(rep, bin, c14cfg{0, 1, 0, 0}, 3, id3)) },
			func(rep *hx.Report) []c14out { return c14one(c14burstReceivers(rep, bin, c4, k4, id4)) },
			func(rep *hx.Report) []c14out { return c14one(c14burstConns(rep, bin, c14cfg{0, 0, 2, 0}, 6, id5)) },
			func(rep *hx.Report) []c14out { return c14one(c14burstConns(rep, bin, c6, k6, id6)) },
			func(rep *hx.Report) []c14out { return c14one(c14burstConns(rep, bin, c14cfg{0, 0, 0, 0}, 12, id7)) },
			func(rep *hx.Report) []c14out {
				return c14one(c14hostReconnect(rep, bin, c14cfg{0, 0, 0, hour}, true, id8))
			},
			func(rep *hx.Report) []c14out { return c14one(c14joinAfterEnd(rep, bin, c14cfg{0, 0, 0, hour}, id9)) },
			// the host leaves while somebody else who calls itself a sender is attached: the code must die
			func(rep *hx.Report) []c14out {
				return c14one(c14hostReconnect(rep, bin, c14cfg{0, 0, 0, hour}, false, id10))
			},
		)
	}
	// sequential scripts over the configuration grid
	nScripts := 22
	steps := 18
	if thorough {
		nScripts = 400
		steps = 40
	}
	limVals := []int{0, 1, 2, 3}
	ttlVals := []time.Duration{0, 3 * time.Second, 24 * time.Hour, 3 * time.Second}
	for i := 0; i < nScripts; i++ {
		c := c14cfg{limVals[rng.Intn(4)], limVals[rng.Intn(3)], []int{0, 2, 3, 5}[rng.Intn(4)], ttlVals[rng.Intn(len(ttlVals))]}
		if i == 0 {
			c = c14cfg{0, 0, 0, 0} // everything unlimited
		}
		sub := rng.Fork(uint64(1000 + i))
		id := next(1)
		jobs = append(jobs, func(rep *hx.Report) []c14out { return c14one(c14serverScript(rep, bin, c, sub, id, steps)) })
	}
	// rates and sizes
	addMsg := func(max int, sizes ...int) {
		id := next(len(sizes))
		jobs = append(jobs, func(rep *hx.Report) []c14out { return c14msgSize(rep, bin, max, sizes, id) })
	}
	addRate := func(kind string, rate, burst, n int) {
		id := next(1)
		jobs = append(jobs, func(rep *hx.Report) []c14out { return c14rates(rep, bin, kind, rate, burst, n, id) })
	}
	addMsg(0, 60000, 70000)
	addMsg(300, 299, 300, 301, 5000)
	addRate("session-creates", 60, 3, 12)
	addRate("session-creates", 0, 1, 25)
	addRate("ws-connects", 120, 2, 8)
	addRate("ws-connects", 0, 1, 15)
	addRate("ws-msgs", 2, 4, 30)
	addRate("session-creates-idle", 1200, 2, 10)
	addRate("ws-msgs", 0, 1, 150)
	if thorough {
		addMsg(65536, 65536, 65537)
		addMsg(1, 61)
		addRate("ws-msgs", 50, 100, 400)
		addRate("session-creates", 600, 0, 20)
		addRate("ws-connects", 30, 10, 25)
	}

	// every job has its own report; they are merged in job order, so the output does not depend on scheduling
	subs := make([]*hx.Report, len(jobs))
	outs := make([][]c14out, len(jobs))
	sem := make(chan struct{}, 8)
	var wg sync.WaitGroup
	for i := range jobs {
		subs[i] = hx.NewReport("C14")
		wg.Add(1)
		go func(i int) {
			defer wg.Done()
			sem <- struct{}{}
			defer func() { <-sem }()
			outs[i] = jobs[i](subs[i])
		}(i)
	}
	wg.Wait()
	for i := range jobs {
		for k, v := range subs[i].Distribution {
			if !strings.HasPrefix(k, "violation:") {
				rep.Distribution[k] += v
			}
		}
		rep.DistinctNontrivial += subs[i].DistinctNontrivial
		for _, v := range subs[i].Violations {
			rep.Violate(v.Signature, v.What, v.Replay)
		}
		for _, o := range outs[i] {
			cf.Add(o.term)
			rep.CaseIndex[fmt.Sprint(o.id)] = o.replay
			rep.Evaluations++
			rep.TracesValidated++
			if i%5 == 0 {
				rep.Sample(o.replay)
			}
		}
	}
	cf.Close()
	sort.SliceStable(rep.Violations, func(i, j int) bool { return rep.Violations[i].Signature < rep.Violations[j].Signature })
	return rep
}

func init() { runners["C14"] = runC14 }

package main

import (
	"bytes"
	"encoding/binary"
	"encoding/hex"
	"fmt"
	"hash/crc32"
	"os"
	"path/filepath"
	"runtime"
	"sort"
	"strings"
	"sync"
	"time"

	"github.com/sheerbytes/sheerbytes/internal/transfer"
	"github.com/sheerbytes/sheerbytes/internal/verifhook"
	"github.com/sheerbytes/sheerbytes/verifharness/internal/hx"
	"github.com/sheerbytes/sheerbytes/verifharness/internal/memnet"
)

// C06: stale, foreign or damaged resume state is never trusted.
//
// Part A (inputs): the real LoadSidecar / Sidecar.Flush /
// LoadOrCreateSidecarWithFallback on every truncation and every single-bit flip
// of valid sidecars, on garbage, on CRC-valid crafted files (padding bits, wrong
// chunk count, wrong bitmap length, trailing bytes, short fields) and on every
// combination of mismatching identity fields.  Every call is also a
// correspondence case for Model/Sidecar.v.
// Part B (histories): one file is fetched AGAIN by the real sender and receiver
// over the in-memory transport from a prepared output directory = {metadata
// state} x {data file state} x {schedule}.  Oracle: if the receiver reports
// success the tree equals the source.  Runs in which every frame is delivered
// before finalisation are also correspondence cases for Model/Resume.v (which
// chunks the sender sent, what was re-sent, the final file byte for byte).

// ---------- sidecar values ----------

type c06sc struct {
	cs    uint32
	size  int64
	total uint32
	id    string
	bm    []byte
}

var c06crcTable = crc32.MakeTable(crc32.Castagnoli)

// c06body is the harness's own writer of the file format (independent of Flush);
// idLen/bmLen < 0 = the true lengths.
func c06body(s c06sc, idLen, bmLen int) []byte {
	var b bytes.Buffer
	b.WriteString("SBM2")
	binary.Write(&b, binary.BigEndian, uint16(1))
	binary.Write(&b, binary.BigEndian, s.cs)
	binary.Write(&b, binary.BigEndian, uint64(s.size))
	binary.Write(&b, binary.BigEndian, s.total)
	if idLen < 0 {
		idLen = len(s.id)
	}
	binary.Write(&b, binary.BigEndian, uint16(idLen))
	b.WriteString(s.id)
	if bmLen < 0 {
		bmLen = len(s.bm)
	}
	binary.Write(&b, binary.BigEndian, uint32(bmLen))
	b.Write(s.bm)
	return b.Bytes()
}

func c06withCRC(body []byte) []byte {
	out := append([]byte{}, body...)
	var c [4]byte
	binary.BigEndian.PutUint32(c[:], crc32.Checksum(body, c06crcTable))
	return append(out, c[:]...)
}

func c06serialise(s c06sc) []byte { return c06withCRC(c06body(s, -1, -1)) }

func c06expectedTotal(size int64, cs uint32) uint32 {
	if cs == 0 {
		return 0
	}
	t := uint32((size + int64(cs) - 1) / int64(cs))
	if t == 0 {
		t = 1
	}
	return t
}

func (s c06sc) term() string {
	return fmt.Sprintf("(C06.SC %d %s %d %s %s)", s.cs, hx.Z(s.size), s.total, hx.Str(s.id), hx.Bytes(s.bm))
}

func c06opt(b []byte, present bool) string {
	if !present {
		return "None"
	}
	return "(Some " + hx.Bytes(b) + ")"
}

func c06view(sc *transfer.Sidecar) c06sc {
	return c06sc{cs: sc.ChunkSize, size: sc.FileSize, total: sc.TotalChunks, id: sc.FileID, bm: sc.MarshalBitmap()}
}

func c06popcount(b []byte) int {
	n := 0
	for _, v := range b {
		for v != 0 {
			v &= v - 1
			n++
		}
	}
	return n
}

func c06marked(bm []byte, total uint32) int {
	n := 0
	for i := uint32(0); i < total && int(i/8) < len(bm); i++ {
		if bm[i/8]&(1<<(i%8)) != 0 {
			n++
		}
	}
	return n
}

type c06ctx struct {
	rep  *hx.Report
	cf   *hx.CasesFile
	dir  string
	id   int
	tier string
}

func (c *c06ctx) nextID(index any) int {
	c.id++
	c.rep.CaseIndex[fmt.Sprint(c.id)] = index
	return c.id
}

// loadBytes runs the real LoadSidecar on a file holding b, emits the L case and
// checks what every accepted file must satisfy.
func (c *c06ctx) loadBytes(b []byte, kind string) (c06sc, bool) {
	p := filepath.Join(c.dir, "probe.sbxmap")
	if err := os.WriteFile(p, b, 0644); err != nil {
		panic(err)
	}
	var m0, m1 runtime.MemStats
	runtime.ReadMemStats(&m0)
	sc, err := transfer.LoadSidecar(p)
	runtime.ReadMemStats(&m1)
	if d := m1.TotalAlloc - m0.TotalAlloc; d > 8<<20 {
		// fixed by 4252d4e: length fields were believed before the checksum was compared
		c.rep.Violate("damaged-metadata-huge-allocation", fmt.Sprintf("LoadSidecar allocated %d MiB while reading a %d-byte file (%s)", d>>20, len(b), kind), map[string]any{"fn": "LoadSidecar", "kind": kind, "bytes_hex": hex.EncodeToString(b)})
	}
	c.rep.Evaluations++
	c.rep.Count("load:" + kind)
	id := c.nextID(map[string]any{"fn": "LoadSidecar", "kind": kind, "bytes_hex": hex.EncodeToString(b)})
	if err != nil {
		c.cf.Add(fmt.Sprintf("C06.L %d %s None", id, hx.Bytes(b)))
		return c06sc{}, false
	}
	v := c06view(sc)
	c.cf.Add(fmt.Sprintf("C06.L %d %s (Some %s)", id, hx.Bytes(b), v.term()))
	// whatever is accepted must be self-consistent: nothing in it may lower the
	// receiver's count of missing chunks below the number of unmarked chunks
	replay := map[string]any{"fn": "LoadSidecar", "kind": kind, "bytes_hex": hex.EncodeToString(b)}
	if v.cs == 0 || v.total != c06expectedTotal(v.size, v.cs) {
		c.rep.Violate("loaded-inconsistent:chunk-count", fmt.Sprintf("LoadSidecar accepts metadata whose chunk count %d does not follow from size %d / chunk size %d (%s)", v.total, v.size, v.cs, kind), replay)
	} else if len(v.bm) != int((v.total+7)/8) {
		c.rep.Violate("loaded-inconsistent:bitmap-length", fmt.Sprintf("LoadSidecar accepts a %d-byte bitmap for %d chunks (%s)", len(v.bm), v.total, kind), replay)
	} else if c06popcount(v.bm) != c06marked(v.bm, v.total) {
		c.rep.Violate("loaded-inconsistent:padding-bits", fmt.Sprintf("LoadSidecar accepts a bitmap with bits set beyond chunk %d: CountSet=%d but only %d chunks are marked (%s)", v.total, c06popcount(v.bm), c06marked(v.bm, v.total), kind), replay)
	}
	return v, true
}

// locCase runs the real LoadOrCreateSidecarWithFallback with files prepared at
// both paths.
func (c *c06ctx) locCase(primary, fallback []byte, hasP, hasF bool, id string, size int64, cs uint32, kind string, wantFresh bool) {
	d := filepath.Join(c.dir, "loc")
	os.RemoveAll(d)
	pp := filepath.Join(d, "p", ".thruflux_resumedata", "x.sbxmap")
	fp := filepath.Join(d, "f", ".thruflux_resumedata", "x.sbxmap")
	os.MkdirAll(filepath.Dir(pp), 0755)
	os.MkdirAll(filepath.Dir(fp), 0755)
	if hasP {
		os.WriteFile(pp, primary, 0644)
	}
	if hasF {
		os.WriteFile(fp, fallback, 0644)
	}
	sc, err := transfer.LoadOrCreateSidecarWithFallback(pp, fp, id, size, cs)
	c.rep.Evaluations++
	c.rep.Count("load-or-create:" + kind)
	cid := c.nextID(map[string]any{"fn": "LoadOrCreateSidecarWithFallback", "kind": kind, "primary_hex": hex.EncodeToString(primary), "fallback_hex": hex.EncodeToString(fallback), "id": id, "size": size, "cs": cs})
	head := fmt.Sprintf("C06.LC %d %s %s %s %s %d", cid, c06opt(primary, hasP), c06opt(fallback, hasF), hx.Str(id), hx.Z(size), cs)
	if err != nil {
		c.cf.Add(head + " None")
		return
	}
	v := c06view(sc)
	pa, perr := os.ReadFile(pp)
	fa, ferr := os.ReadFile(fp)
	c.cf.Add(fmt.Sprintf("%s (Some (%s, %s, %s))", head, v.term(), c06opt(pa, perr == nil), c06opt(fa, ferr == nil)))
	replay := map[string]any{"fn": "LoadOrCreateSidecarWithFallback", "kind": kind, "primary_hex": hex.EncodeToString(primary), "fallback_hex": hex.EncodeToString(fallback), "id": id, "size": size, "cs": cs}
	if v.cs != cs || v.size != size || v.id != id {
		c.rep.Violate("foreign-identity-returned:"+kind, fmt.Sprintf("LoadOrCreateSidecarWithFallback(id=%q size=%d cs=%d) returned metadata of (id=%q size=%d cs=%d)", id, size, cs, v.id, v.size, v.cs), replay)
	}
	if wantFresh && c06popcount(v.bm) != 0 {
		c.rep.Violate("untrusted-metadata-used:"+kind, fmt.Sprintf("LoadOrCreateSidecarWithFallback trusted %s metadata: %d chunks marked complete", kind, c06popcount(v.bm)), replay)
	}
}

func c06tryLoad(b []byte) (c06sc, bool) {
	f, err := os.CreateTemp("", "c06try")
	if err != nil {
		return c06sc{}, false
	}
	defer os.Remove(f.Name())
	f.Write(b)
	f.Close()
	sc, err := transfer.LoadSidecar(f.Name())
	if err != nil {
		return c06sc{}, false
	}
	return c06view(sc), true
}

func c06randID(r *hx.Rand) string {
	switch r.Intn(6) {
	case 0:
		return "a"
	case 1:
		return string(r.Bytes(1 + r.Intn(5))) // arbitrary bytes
	case 2:
		return strings.Repeat("k", 20+r.Intn(20))
	default:
		return hex.EncodeToString(r.Bytes(8)) // what manifest.computeID produces
	}
}

// a valid sidecar written by the real code (CreateSidecar, MarkComplete, Flush)
func (c *c06ctx) genValid(r *hx.Rand, total int) (c06sc, []byte) {
	cs := uint32(r.Pick(1, 3, 4, 16, 64, 4096, 1<<20))
	size := int64(total-1)*int64(cs) + 1 + int64(r.Intn(int(cs)))
	if r.Intn(4) == 0 {
		size = int64(total) * int64(cs)
	}
	id := c06randID(r)
	p := filepath.Join(c.dir, "valid.sbxmap")
	os.Remove(p)
	sc, err := transfer.CreateSidecar(p, id, size, cs)
	if err != nil {
		panic(err)
	}
	marks := 0
	for i := 0; i < total; i++ {
		if r.Intn(3) != 0 {
			sc.MarkComplete(uint32(i))
			marks++
		}
	}
	if marks == 0 {
		sc.MarkComplete(uint32(r.Intn(total)))
	}
	if err := sc.Flush(); err != nil {
		panic(err)
	}
	b, _ := os.ReadFile(p)
	return c06view(sc), b
}

func (c *c06ctx) partA(r *hx.Rand) {
	nValid, flipAll := 10, 3
	if c.tier == "thorough" {
		nValid, flipAll = 40, 40
	}
	totals := []int{1, 2, 3, 7, 8, 9, 16, 17, 24, 33}
	for k := 0; k < nValid; k++ {
		total := totals[k%len(totals)]
		if k >= len(totals) {
			total = 1 + r.Intn(70)
		}
		v, b := c.genValid(r, total)
		// Flush wrote what the model's serialise says, and what the harness's own writer says
		fid := c.nextID(map[string]any{"fn": "Flush", "sidecar": fmt.Sprintf("%+v", v)})
		c.cf.Add(fmt.Sprintf("C06.F %d %s %s", fid, v.term(), hx.Bytes(b)))
		c.rep.Evaluations++
		if !bytes.Equal(b, c06serialise(v)) {
			c.rep.Notes = append(c.rep.Notes, "harness writer disagrees with Flush")
			c.rep.Violate("harness-writer-differs", "the harness's own sidecar writer disagrees with Sidecar.Flush", map[string]any{"sidecar": fmt.Sprintf("%+v", v)})
		}
		got, ok := c.loadBytes(b, "valid")
		if !ok || got.cs != v.cs || got.size != v.size || got.total != v.total || got.id != v.id || !bytes.Equal(got.bm, v.bm) {
			c.rep.Violate("roundtrip-lost", fmt.Sprintf("LoadSidecar does not return what Flush wrote: %+v", v), map[string]any{"bytes_hex": hex.EncodeToString(b)})
		}
		c.rep.Nontrivial(fmt.Sprintf("valid/%d/%x", total, v.bm))
		// every strict prefix
		for n := 0; n < len(b); n++ {
			if _, ok := c.loadBytes(b[:n], "truncated"); ok {
				c.rep.Violate("truncated-accepted", fmt.Sprintf("a %d-byte prefix of a %d-byte sidecar is accepted", n, len(b)), map[string]any{"bytes_hex": hex.EncodeToString(b), "prefix": n})
			}
		}
		// single-bit flips: all of them for the first sidecars, the id-length and
		// bitmap-length fields plus a random sample for the others
		idLenOff, bmLenOff := 22, 24+len(v.id)
		for bit := 0; bit < 8*len(b); bit++ {
			byteOff := bit / 8
			inLenFields := (byteOff >= idLenOff && byteOff < idLenOff+2) || (byteOff >= bmLenOff && byteOff < bmLenOff+4)
			if k >= flipAll && !inLenFields && r.Intn(8) != 0 {
				continue
			}
			fb := append([]byte{}, b...)
			fb[byteOff] ^= 1 << (bit % 8)
			got, ok := c.loadBytes(fb, "bitflip")
			replay := map[string]any{"bytes_hex": hex.EncodeToString(b), "flipped_bit": bit}
			if ok && len(got.id) == len(v.id) {
				c.rep.Violate("bitflip-accepted", fmt.Sprintf("sidecar with bit %d flipped is accepted with an id of the same length", bit), replay)
			}
			if ok {
				c.rep.Count("bitflip-parsed-as-foreign")
			}
			// end to end: with the identity of the undamaged file the damaged one must never be trusted
			if ok || bit%16 == 0 {
				c.locCase(fb, nil, true, false, v.id, v.size, v.cs, "bitflip", true)
			}
		}
		// identity mismatches: every non-empty subset of (chunk size, file size, id)
		for m := 1; m < 8; m++ {
			id, size, cs := v.id, v.size, v.cs
			if m&1 != 0 {
				cs = cs + 1
			}
			if m&2 != 0 {
				size = size + 1
			}
			if m&4 != 0 {
				id = id + "x"
			}
			kind := fmt.Sprintf("foreign-%d%d%d", m&1, (m>>1)&1, (m>>2)&1)
			switch r.Intn(3) {
			case 0:
				c.locCase(b, nil, true, false, id, size, cs, kind, true)
			case 1:
				c.locCase(nil, b, false, true, id, size, cs, kind, true)
			default:
				c.locCase(b, b, true, true, id, size, cs, kind, true)
			}
		}
		// matching identity: primary, fallback, unreadable primary + good fallback
		c.locCase(b, nil, true, false, v.id, v.size, v.cs, "match-primary", false)
		c.locCase(nil, b, false, true, v.id, v.size, v.cs, "match-fallback", false)
		c.locCase(b[:len(b)/2], b, true, true, v.id, v.size, v.cs, "torn-primary-good-fallback", false)
		other := v
		other.id = v.id + "y"
		c.locCase(c06serialise(other), b, true, true, v.id, v.size, v.cs, "foreign-primary-good-fallback", false)
		c.locCase(nil, nil, false, false, v.id, v.size, v.cs, "none", true)
		c.locCase(b, nil, true, false, v.id, v.size, 0, "chunk-size-0", false)
		// crafted, CRC-valid
		c.crafted(r, v)
	}
	// garbage
	nG := 150
	if c.tier == "thorough" {
		nG = 1500
	}
	for i := 0; i < nG; i++ {
		var b []byte
		switch r.Intn(4) {
		case 0:
			b = r.Bytes(r.Intn(80))
		case 1:
			b = c06garbageLayout(r, i%8 == 1)
		case 2:
			b = c06withCRC(c06garbageLayout(r, i%8 == 2))
		default:
			// a well-formed layout with random field values
			s := c06sc{cs: uint32(r.Intn(5)), size: int64(r.Intn(40)), total: uint32(r.Intn(12)), id: string(r.Bytes(r.Intn(4))), bm: r.Bytes(r.Intn(3))}
			b = c06serialise(s)
		}
		if v, ok := c.loadBytes(b, "garbage"); ok {
			c.rep.Count("garbage-accepted-consistent")
			c.locCase(b, nil, true, false, v.id+"z", v.size, v.cs, "garbage-foreign", true)
		}
	}
}

// c06garbageLayout: magic and version right, everything after it random, with
// the two length fields mostly small so that the parse gets past them.
func c06garbageLayout(r *hx.Rand, huge bool) []byte {
	b := append([]byte("SBM2\x00\x01"), r.Bytes(16)...)
	idl := r.Intn(6)
	b = append(b, 0, byte(idl))
	b = append(b, r.Bytes(idl)...)
	var l [4]byte
	bl := uint32(r.Intn(40))
	if huge {
		bl = uint32(r.U64())
	}
	binary.BigEndian.PutUint32(l[:], bl)
	b = append(b, l[:]...)
	return append(b, r.Bytes(r.Intn(50))...)
}

// CRC-valid files the implementation itself never writes
func (c *c06ctx) crafted(r *hx.Rand, v c06sc) {
	// padding bits set beyond the chunk count
	if v.total%8 != 0 {
		p := v
		p.bm = append([]byte{}, v.bm...)
		p.bm[len(p.bm)-1] |= byte(0xFF << (v.total % 8))
		b := c06serialise(p)
		c.loadBytes(b, "crafted-padding")
		c.locCase(b, nil, true, false, v.id, v.size, v.cs, "crafted-padding", false)
		q := v
		q.bm = make([]byte, len(v.bm))
		q.bm[len(q.bm)-1] = byte(1 << (7 - r.Intn(int(8-v.total%8))))
		c.loadBytes(c06serialise(q), "crafted-padding")
	}
	// chunk count that does not follow from the sizes (same bitmap length, other bitmap length)
	for _, t := range []uint32{v.total + 1, v.total - 1, ((v.total + 7) / 8) * 8, v.total + 8, 0} {
		if t == v.total {
			continue
		}
		p := v
		p.total = t
		p.bm = make([]byte, (t+7)/8)
		copy(p.bm, v.bm)
		for i := range p.bm {
			p.bm[i] = 0xFF
		}
		if t%8 != 0 && len(p.bm) > 0 {
			p.bm[len(p.bm)-1] = byte(0xFF >> (8 - t%8))
		}
		c.loadBytes(c06serialise(p), "crafted-chunk-count")
	}
	// bitmap length field disagreeing with the chunk count
	p := v
	p.bm = append(append([]byte{}, v.bm...), 0)
	c.loadBytes(c06serialise(p), "crafted-bitmap-length")
	if len(v.bm) > 1 {
		p.bm = v.bm[:len(v.bm)-1]
		c.loadBytes(c06serialise(p), "crafted-bitmap-length")
	}
	// length fields larger than what follows (short reads), smaller (shifted parse)
	c.loadBytes(c06withCRC(c06body(v, len(v.id)+1+r.Intn(300), -1)), "crafted-id-length")
	if len(v.id) > 0 {
		c.loadBytes(c06withCRC(c06body(v, len(v.id)-1, -1)), "crafted-id-length")
	}
	c.loadBytes(c06withCRC(c06body(v, -1, len(v.bm)+1+r.Intn(1000))), "crafted-bitmap-length")
	// trailing bytes after a complete sidecar, checksum over either extent
	full := c06serialise(v)
	c.loadBytes(append(append([]byte{}, full...), r.Bytes(1+r.Intn(6))...), "crafted-trailing")
	c.loadBytes(c06withCRC(append(append([]byte{}, full...), r.Bytes(4)...)), "crafted-trailing")
	c.loadBytes(append(append([]byte{}, full...), full[len(full)-4:]...), "crafted-trailing")
	// chunk size 0, sizes beyond int64, other version / magic
	z := v
	z.cs = 0
	c.loadBytes(c06serialise(z), "crafted-chunk-size-0")
	n := v
	n.size = -1 - int64(r.Intn(1000))
	c.loadBytes(c06serialise(n), "crafted-negative-size")
	ver := c06body(v, -1, -1)
	ver[5] = 2
	c.loadBytes(c06withCRC(ver), "crafted-version")
	mg := c06body(v, -1, -1)
	mg[3] = '1'
	c.loadBytes(c06withCRC(mg), "crafted-magic")
}

// ---------- Part B: resumed transfers ----------

type c06scen struct {
	Seed    uint64 `json:"seed"`
	CS      int    `json:"chunk_size"`
	Size    int    `json:"size"`
	Marks   string `json:"marks"` // one char per chunk, 1 = recorded complete
	Meta    string `json:"metadata"`
	Data    string `json:"data_file"`
	Mode    string `json:"schedule"`
	Streams int    `json:"streams"`
	Alg     string `json:"hash"`
	Tail    int    `json:"verify_tail"` // Options.ResumeVerifyTail of the sender (the CLI default is 1)
	Verify  string `json:"verify_mode"` // Options.ResumeVerify: "" (= last), "last", "all", "none"
}

func (s c06scen) String() string {
	return fmt.Sprintf("seed=%d cs=%d size=%d marks=%s metadata=%s data=%s schedule=%s streams=%d hash=%s tail=%d verify=%q", s.Seed, s.CS, s.Size, s.Marks, s.Meta, s.Data, s.Mode, s.Streams, s.Alg, s.Tail, s.Verify)
}

var c06fixedTime = time.Unix(1700000000, 0)

type c06hooks struct {
	mu                  sync.Mutex
	sent                []uint32
	written             []uint32        // chunk indices the receiver wrote, in order
	verdict             map[uint32]bool // chunk -> mismatch
	verifyDone          chan struct{}
	fileEnd             chan struct{}
	lastSend            time.Time
	finalized           bool
	verifyGate          chan struct{} // closed to let the verification hash start (late-verify)
	once1, once2, once3 sync.Once
	syncMode            bool
	planSeen            bool
	planLate            bool
	resentMarked        chan struct{}
}

func (h *c06hooks) handler(name string, args ...any) {
	switch name {
	case "send.chunk":
		h.mu.Lock()
		if !h.planSeen {
			h.planLate = true // the 300 ms grace period ended before the receiver's answer arrived
		}
		h.sent = append(h.sent, args[1].(uint32))
		h.lastSend = time.Now()
		h.mu.Unlock()
	case "send.verify.before":
		if h.verifyGate != nil {
			select {
			case <-h.verifyGate:
			case <-time.After(3 * time.Second):
			}
		}
	case "send.verify.done":
		h.mu.Lock()
		h.verdict[args[1].(uint32)] = args[2].(bool)
		h.mu.Unlock()
		h.once1.Do(func() { close(h.verifyDone) })
	case "send.fileend":
		if h.syncMode {
			// FileEnd travels on the control stream and may overtake a data frame: in the
			// in-order schedule it is announced only after the re-sent chunk was written
			h.mu.Lock()
			wait := false
			for _, mism := range h.verdict {
				if mism {
					wait = true
				}
			}
			h.mu.Unlock()
			if wait {
				select {
				case <-h.resentMarked:
				case <-time.After(3 * time.Second):
				}
			}
		}
		h.once2.Do(func() { close(h.fileEnd) })
	case "recv.chunk.written":
		h.mu.Lock()
		h.written = append(h.written, args[1].(uint32))
		h.mu.Unlock()
	case "recv.chunk.marked":
		h.mu.Lock()
		c := args[1].(uint32)
		hit := h.verdict[c]
		h.mu.Unlock()
		if hit {
			h.once3.Do(func() { close(h.resentMarked) })
		}
	case "recv.finalize":
		h.mu.Lock()
		h.finalized = true
		h.mu.Unlock()
	}
}

type c06result struct {
	res      xferResult
	final    []byte
	finalOK  bool
	sent     []uint32
	written  []uint32
	resent   int64 // -1 none
	skipped  int64 // receiver's skipped count, -1 = not reported
	src      []byte
	fileB    []byte
	hasFile  bool
	primB    []byte
	hasPrim  bool
	fallB    []byte
	hasFall  bool
	id       string
	highest  int // highest marked chunk, -1 none
	trusted  bool
	note     string
	planLate bool
}

func c06marksOf(s string) []bool {
	m := make([]bool, len(s))
	for i := range s {
		m[i] = s[i] == '1'
	}
	return m
}

func c06runScenario(base string, sc c06scen) c06result {
	var out c06result
	r := hx.NewRand(sc.Seed)
	dir := filepath.Join(base, fmt.Sprintf("s%d", sc.Seed))
	os.RemoveAll(dir)
	defer os.RemoveAll(dir)
	src := filepath.Join(dir, "src", "root")
	od := filepath.Join(dir, "out")
	os.MkdirAll(src, 0755)
	os.MkdirAll(od, 0755)
	data := r.Bytes(sc.Size)
	out.src = data
	sp := filepath.Join(src, "f.bin")
	os.WriteFile(sp, data, 0644)
	os.Chtimes(sp, c06fixedTime, c06fixedTime)
	m, err := scanManifest(src)
	if err != nil || len(m.Items) != 1 {
		panic(fmt.Sprint("scan: ", err))
	}
	id := m.Items[0].ID
	out.id = id
	cs := sc.CS
	total := (sc.Size + cs - 1) / cs
	marks := c06marksOf(sc.Marks)
	out.highest = -1
	for i, b := range marks {
		if b {
			out.highest = i
		}
	}
	chunk := func(i int) (int, int) {
		lo, hi := i*cs, (i+1)*cs
		if hi > sc.Size {
			hi = sc.Size
		}
		return lo, hi
	}
	// ---- the data file earlier runs left ----
	file := r.Bytes(sc.Size) // unmarked chunks hold whatever
	for i, b := range marks {
		if b {
			lo, hi := chunk(i)
			copy(file[lo:hi], data[lo:hi])
		}
	}
	hasFile := true
	damage := func(i int) {
		lo, hi := chunk(i)
		file[lo+r.Intn(hi-lo)] ^= byte(1 + r.Intn(255))
	}
	switch sc.Data {
	case "intact":
	case "deleted":
		hasFile = false
	case "shortened":
		file = file[:r.Intn(sc.Size)]
	case "shortened-by-1":
		file = file[:sc.Size-1]
	case "longer":
		file = append(file, r.Bytes(1+r.Intn(cs))...)
	case "last-damaged":
		if out.highest >= 0 {
			damage(out.highest)
		}
	case "last-torn": // power loss: the tail of the last recorded chunk never reached the disk
		if out.highest >= 0 {
			lo, hi := chunk(out.highest)
			for j := lo + (hi-lo)/2; j < hi; j++ {
				file[j] = 0
			}
			if bytes.Equal(file[lo:hi], data[lo:hi]) {
				file[hi-1] ^= 0x55
			}
		}
	case "middle-damaged":
		var cands []int
		for i, b := range marks {
			if b && i != out.highest {
				cands = append(cands, i)
			}
		}
		if len(cands) > 0 {
			damage(cands[r.Intn(len(cands))])
		}
	default:
		panic("data state " + sc.Data)
	}
	if hasFile {
		os.WriteFile(filepath.Join(od, "f.bin"), file, 0644)
	}
	out.fileB, out.hasFile = file, hasFile
	// ---- the metadata earlier runs left ----
	bm := make([]byte, (total+7)/8)
	for i, b := range marks {
		if b {
			bm[i/8] |= 1 << (i % 8)
		}
	}
	valid := c06sc{cs: uint32(cs), size: int64(sc.Size), total: uint32(total), id: id, bm: bm}
	vb := c06serialise(valid)
	primary := filepath.Join(od, ".thruflux_resumedata", id+".sbxmap")
	fallback := filepath.Join(od, m.Root, ".thruflux_resumedata", id+".sbxmap")
	put := func(p string, b []byte) {
		os.MkdirAll(filepath.Dir(p), 0755)
		os.WriteFile(p, b, 0644)
	}
	out.trusted = false
	switch sc.Meta {
	case "valid":
		put(primary, vb)
		out.trusted = true
	case "valid-fallback":
		put(fallback, vb)
		out.trusted = true
	case "torn-primary-valid-fallback":
		put(primary, vb[:r.Intn(len(vb))])
		put(fallback, vb)
		out.trusted = true
	case "missing":
	case "truncated":
		put(primary, vb[:r.Intn(len(vb))])
	case "bitflip":
		fb := append([]byte{}, vb...)
		bit := r.Intn(8 * len(fb))
		fb[bit/8] ^= 1 << (bit % 8)
		put(primary, fb)
	case "garbage":
		put(primary, r.Bytes(1+r.Intn(60)))
	case "other-chunk-size":
		o := valid
		o.cs = uint32(cs + 1 + r.Intn(3))
		o.total = c06expectedTotal(o.size, o.cs)
		o.bm = bytes.Repeat([]byte{0xFF}, int((o.total+7)/8))
		if o.total%8 != 0 {
			o.bm[len(o.bm)-1] = byte(0xFF >> (8 - o.total%8))
		}
		put(primary, c06serialise(o))
	case "other-size":
		o := valid
		o.size = int64(sc.Size + 1 + r.Intn(2*cs))
		o.total = c06expectedTotal(o.size, o.cs)
		o.bm = bytes.Repeat([]byte{0xFF}, int((o.total+7)/8))
		if o.total%8 != 0 {
			o.bm[len(o.bm)-1] = byte(0xFF >> (8 - o.total%8))
		}
		put(primary, c06serialise(o))
	case "other-id": // the source file was modified since (the id covers size and mtime)
		o := valid
		o.id = hex.EncodeToString(r.Bytes(8))
		put(primary, c06serialise(o))
	case "crafted-padding": // CRC-valid, bits set beyond the chunk count
		o := valid
		o.bm = append([]byte{}, bm...)
		if total%8 != 0 {
			o.bm[len(o.bm)-1] |= byte(0xFF << (total % 8))
		} else {
			out.trusted = true // no padding bits exist: this is genuine metadata
		}
		put(primary, c06serialise(o))
	case "crafted-chunk-count": // CRC-valid, chunk count rounded up to the byte: the extra bits count as complete chunks
		o := valid
		o.total = uint32((total + 7) / 8 * 8)
		if int(o.total) == total {
			o.total += 8
		}
		o.bm = bytes.Repeat([]byte{0xFF}, int((o.total+7)/8))
		for i := 0; i < total; i++ {
			if !marks[i] {
				o.bm[i/8] &^= 1 << (i % 8)
			}
		}
		put(primary, c06serialise(o))
	default:
		panic("metadata state " + sc.Meta)
	}
	if b, err := os.ReadFile(primary); err == nil {
		out.primB, out.hasPrim = b, true
	}
	if b, err := os.ReadFile(fallback); err == nil {
		out.fallB, out.hasFall = b, true
	}
	// ---- run ----
	h := &c06hooks{verdict: map[uint32]bool{}, verifyDone: make(chan struct{}), fileEnd: make(chan struct{}), resentMarked: make(chan struct{}), syncMode: sc.Mode == "sync"}
	if sc.Mode == "late-verify" {
		h.verifyGate = make(chan struct{})
	}
	verifhook.Set(h.handler)
	defer verifhook.Set(nil)
	var skipped sync.Map
	var held []*memnet.Stream
	var heldMu sync.Mutex
	stop := make(chan struct{})
	cfg := xferCfg{chunkSize: cs, streams: sc.Streams, resume: true, timeout: 8 * time.Second,
		sendOpts: func(o *transfer.Options) {
			o.HashAlg = sc.Alg
			o.ResumeVerifyTail = uint32(sc.Tail)
			o.ResumeVerify = sc.Verify
			o.ResumeStatsFn = func(rel string, sk, tot, verified uint32, size int64, c uint32) {
				h.mu.Lock()
				h.planSeen = true
				h.mu.Unlock()
			}
			if sc.Mode == "sync" {
				// applyResumeInfo calls this before the file becomes ready: waiting here for the
				// verification verdict makes the re-send (if any) the first frame of the file
				o.ResumeStatsFn = func(rel string, sk, tot, verified uint32, size int64, c uint32) {
					h.mu.Lock()
					h.planSeen = true
					h.mu.Unlock()
					if verified < tot && sc.Alg != "none" {
						select {
						case <-h.verifyDone:
						case <-time.After(3 * time.Second):
						}
					}
				}
			}
		},
		recvOpts: func(o *transfer.Options) {
			o.HashAlg = sc.Alg
			o.ResumeStatsFn = func(rel string, sk, tot, verified uint32, size int64, c uint32) {
				skipped.Store(rel, sk)
			}
		},
	}
	if sc.Mode == "late-data" {
		// the network delays every data stream: nothing the sender writes on them is seen
		// by the receiver until the sender has announced the end of the file (+150 ms)
		cfg.onConns = func(a, b *memnet.Conn) {
			a.OnOpen = func(s *memnet.Stream) {
				if s.StreamID() == 0 {
					return
				}
				for _, rs := range b.Streams() {
					if rs.StreamID() == s.StreamID() {
						rs.HoldIncoming(true)
						heldMu.Lock()
						held = append(held, rs)
						heldMu.Unlock()
					}
				}
			}
		}
		go func() {
			select {
			case <-h.fileEnd:
				select {
				case <-time.After(150 * time.Millisecond):
				case <-stop:
				}
			case <-time.After(1500 * time.Millisecond):
			case <-stop:
			}
			heldMu.Lock()
			for _, s := range held {
				s.HoldIncoming(false)
			}
			heldMu.Unlock()
		}()
	}
	if sc.Mode == "late-verify" {
		// the sender's verification hash is slow: it completes only after the sender has
		// been idle for 100 ms (every other chunk is out)
		go func() {
			deadline := time.After(1500 * time.Millisecond)
			for {
				select {
				case <-stop:
					close(h.verifyGate)
					return
				case <-deadline:
					close(h.verifyGate)
					return
				case <-time.After(20 * time.Millisecond):
				}
				h.mu.Lock()
				idle := !h.lastSend.IsZero() && time.Since(h.lastSend) > 100*time.Millisecond
				none := h.lastSend.IsZero()
				h.mu.Unlock()
				_ = none
				if idle {
					close(h.verifyGate)
					return
				}
			}
		}()
	}
	out.res = runXfer(src, od, cfg)
	close(stop)
	if b, err := os.ReadFile(filepath.Join(od, "f.bin")); err == nil {
		out.final, out.finalOK = b, true
	}
	h.mu.Lock()
	all := append([]uint32{}, h.sent...)
	out.written = append([]uint32{}, h.written...)
	out.resent = -1
	for c, mism := range h.verdict {
		if mism {
			out.resent = int64(c)
		}
	}
	h.mu.Unlock()
	if out.resent >= 0 {
		// "re-sent" means a frame for that chunk was actually written after the verdict -
		// a mismatch verdict that is never followed by the frame is not a re-send
		found := false
		for i, c := range all {
			if int64(c) == out.resent {
				all = append(all[:i], all[i+1:]...)
				found = true
				break
			}
		}
		if !found {
			out.resent = -1
		}
	}
	sort.Slice(all, func(i, j int) bool { return all[i] < all[j] })
	out.sent = all
	h.mu.Lock()
	out.planLate = h.planLate
	h.mu.Unlock()
	out.skipped = -1
	if v, ok := skipped.Load("f.bin"); ok {
		out.skipped = int64(v.(uint32))
	}
	return out
}

func c06u32list(xs []uint32) string {
	it := make([]string, len(xs))
	for i, x := range xs {
		it[i] = fmt.Sprint(x)
	}
	return hx.List(it)
}

func (c *c06ctx) scenario(base string, sc c06scen) {
	o := c06runScenario(base, sc)
	c.rep.Evaluations++
	c.rep.Count("resume:" + sc.Meta + "/" + sc.Data)
	c.rep.Count("schedule:" + sc.Mode)
	replay := map[string]any{"scenario": sc, "how": "harness C06 runs this scenario: source file = PRNG(seed) bytes, prior data file and metadata as named, then one transfer of the tree between the real endpoints"}
	marks := c06marksOf(sc.Marks)
	nMarked := 0
	for _, b := range marks {
		if b {
			nMarked++
		}
	}
	if nMarked > 0 && nMarked < len(marks) {
		c.rep.Nontrivial(fmt.Sprintf("%s/%s/%s/%d/%s", sc.Meta, sc.Data, sc.Mode, sc.CS, sc.Marks))
	}
	// outside the property: a chunk other than the last recorded one was damaged
	// under metadata that is genuine (nothing can notice), or hashing is switched off
	noVerify := sc.Alg == "none" || sc.Verify == "none"
	outside := o.trusted && (sc.Data == "middle-damaged" || ((sc.Data == "last-damaged" || sc.Data == "last-torn") && noVerify))
	if !o.res.sendDone || !o.res.recvDone {
		c.rep.Violate("hang:"+sc.Mode, fmt.Sprintf("resumed transfer did not finish (%s): sender=%v receiver=%v", sc, o.res.sendErr, o.res.recvErr), replay)
		return
	}
	if o.res.recvErr != nil || o.res.sendErr != nil {
		c.rep.Count("failed-loudly")
		// loud failure is allowed by the property; it is unexpected for these scenarios, so say so
		c.rep.Notes = append(c.rep.Notes, fmt.Sprintf("loud failure: %s: sender=%v receiver=%v", sc, o.res.sendErr, o.res.recvErr))
	}
	if o.res.recvErr == nil && !outside {
		if !o.finalOK || !bytes.Equal(o.final, o.src) {
			// which chunks are wrong
			var wrong []int
			total := len(marks)
			for i := 0; i < total; i++ {
				lo, hi := i*sc.CS, (i+1)*sc.CS
				if hi > sc.Size {
					hi = sc.Size
				}
				if !o.finalOK || hi > len(o.final) || !bytes.Equal(o.final[lo:hi], o.src[lo:hi]) {
					wrong = append(wrong, i)
				}
			}
			sig := fmt.Sprintf("silent-wrong-tree:%s/%s/%s", sc.Meta, sc.Data, sc.Mode)
			lastDamaged := sc.Data == "last-damaged" || sc.Data == "last-torn"
			if o.trusted && lastDamaged && len(wrong) == 1 && wrong[0] == o.highest && o.resent == int64(o.highest) {
				// the damage was detected and the chunk was sent again, but the receiver had
				// finalised the file before that frame reached it
				sig = "silent-wrong-tree:late-resend:" + sc.Mode
			}
			c.rep.Violate(sig, fmt.Sprintf("receiver reported success (sender: %v) but chunks %v of the file differ from the source (%s; re-sent chunk: %d)", o.res.sendErr, wrong, sc, o.resent), replay)
		}
	}
	if outside {
		c.rep.Count("outside-property:" + sc.Data + "/" + sc.Alg)
	}
	// the damaged last chunk must be detected (re-sent) whenever the metadata was genuine
	if o.trusted && (sc.Data == "last-damaged" || sc.Data == "last-torn") && !noVerify && o.res.sendErr == nil && o.res.recvErr == nil && !o.planLate && o.resent != int64(o.highest) {
		c.rep.Violate("damage-not-detected:"+sc.Mode, fmt.Sprintf("last recorded chunk %d is damaged on disk but was not sent again (%s)", o.highest, sc), replay)
	}
	// correspondence with Model/Resume.v
	if o.planLate {
		c.rep.Count("plan-arrived-after-grace-period")
	}
	if sc.Mode == "sync" && !o.planLate && sc.Streams == 1 && (sc.Alg == "crc32c" || sc.Alg == "none") && o.res.sendErr == nil && o.res.recvErr == nil && o.finalOK && o.skipped >= 0 && len(o.src) <= 600 {
		alg := 1
		if sc.Alg == "none" {
			alg = 0
		}
		id := c.nextID(replay)
		rs := "None"
		if o.resent >= 0 {
			rs = fmt.Sprintf("(Some %d)", o.resent)
		}
		c.cf.Add(fmt.Sprintf("C06.X %d %s %d %d %d %s %s %s %s %d %s %s %s %s %d %s", id, hx.Str(o.id), sc.Size, sc.CS, alg,
			c06opt(o.fileB, o.hasFile), c06opt(o.primB, o.hasPrim), c06opt(o.fallB, o.hasFall), hx.Bytes(o.src), sc.Tail, hx.B(sc.Verify == "none"),
			c06u32list(o.sent), rs, hx.Bytes(o.final), o.skipped, c06u32list(o.written)))
		c.rep.TracesValidated++
	}
	c.rep.Sample(map[string]any{"scenario": sc.String(), "sent": o.sent, "resent": o.resent, "receiver_skipped": o.skipped, "sender_err": fmt.Sprint(o.res.sendErr), "receiver_err": fmt.Sprint(o.res.recvErr)})
}

func c06marks(r *hx.Rand, total int, kind int) string {
	b := make([]byte, total)
	for i := range b {
		b[i] = '0'
	}
	switch kind {
	case 0: // all
		for i := range b {
			b[i] = '1'
		}
	case 1: // prefix
		n := 1 + r.Intn(total)
		for i := 0; i < n; i++ {
			b[i] = '1'
		}
	case 2: // none
	default:
		for i := range b {
			if r.Intn(2) == 0 {
				b[i] = '1'
			}
		}
		if total > 0 && !strings.Contains(string(b), "1") {
			b[r.Intn(total)] = '1'
		}
	}
	return string(b)
}

func (c *c06ctx) partB(r *hx.Rand, base string) {
	metas := []string{"valid", "valid", "valid-fallback", "torn-primary-valid-fallback", "missing", "truncated", "bitflip", "garbage", "other-chunk-size", "other-size", "other-id", "crafted-padding", "crafted-chunk-count"}
	datas := []string{"intact", "deleted", "shortened", "shortened-by-1", "longer", "last-damaged", "last-torn", "middle-damaged"}
	seed := func() uint64 { return r.U64() % 1000000 }
	mk := func(cs, total int, marks, meta, data, mode string, streams int, alg string) c06scen {
		size := (total-1)*cs + 1 + r.Intn(cs)
		// the sender's verification settings: mostly the CLI defaults (tail 1, mode last)
		tail := r.Pick(0, 1, 1, 1, 2, 5)
		verify := []string{"", "", "last", "all", "none"}[r.Intn(5)]
		return c06scen{Seed: seed(), CS: cs, Size: size, Marks: marks, Meta: meta, Data: data, Mode: mode, Streams: streams, Alg: alg, Tail: tail, Verify: verify}
	}
	// ---- corpus: old failures first (they must stay repaired) ----
	all := func(n int) string { return strings.Repeat("1", n) }
	corpus := []c06scen{
		// 3f16f06: data file deleted / shortened / never complete while the metadata says "all there"
		mk(16, 5, all(5), "valid", "deleted", "sync", 1, "crc32c"),
		mk(16, 5, all(5), "valid", "shortened", "sync", 1, "crc32c"),
		mk(3, 9, all(9), "valid", "shortened-by-1", "sync", 1, "crc32c"),
		mk(16, 4, "1100", "valid", "deleted", "free", 2, "crc32c"),
		mk(16, 4, all(4), "valid-fallback", "deleted", "sync", 1, "crc32c"),
		mk(16, 4, all(4), "valid", "longer", "sync", 1, "crc32c"),
		// crafted metadata whose popcount exceeds the marked chunks: with the data streams
		// delayed the receiver used to finalise a file it had not received
		mk(16, 3, "100", "crafted-padding", "intact", "late-data", 1, "crc32c"),
		mk(16, 3, "000", "crafted-padding", "intact", "late-data", 1, "crc32c"),
		mk(16, 3, "110", "crafted-chunk-count", "intact", "late-data", 1, "crc32c"),
		mk(16, 3, "100", "crafted-padding", "intact", "sync", 1, "crc32c"),
		mk(16, 11, "10000000000", "crafted-chunk-count", "intact", "free", 3, "crc32c"),
		// the last recorded chunk is damaged: detected and repaired when frames arrive in order ...
		mk(16, 4, all(4), "valid", "last-damaged", "sync", 1, "crc32c"),
		mk(16, 6, "111000", "valid", "last-torn", "sync", 1, "crc32c"),
		// ... and the open finding: the re-sent chunk arrives after the file was finalised
		mk(16, 4, all(4), "valid", "last-damaged", "late-data", 1, "crc32c"),
		mk(16, 6, "110100", "valid", "last-torn", "late-verify", 1, "crc32c"),
	}
	for _, sc := range corpus {
		c.rep.Count("corpus")
		c.scenario(base, sc)
	}
	// ---- the matrix ----
	n := 2
	if c.tier == "thorough" {
		n = 12
	}
	for rep := 0; rep < n; rep++ {
		for _, meta := range metas {
			for _, data := range datas {
				cs := r.Pick(3, 16, 64)
				total := 1 + r.Intn(9)
				if r.Intn(5) == 0 {
					// bitmaps of 8 bytes and more (the word-sized paths of the bitmap code): 57 chunks and up
					cs, total = 3, r.Pick(57, 64, 65, 100, 129, 190)
				}
				if data == "middle-damaged" && total < 2 {
					total = 2 + r.Intn(6)
				}
				kind := r.Intn(5)
				if data == "middle-damaged" {
					kind = 0
				}
				marks := c06marks(r, total, kind)
				mode, streams := "sync", 1
				switch r.Intn(4) {
				case 0:
					mode, streams = "free", 1+r.Intn(4)
				}
				alg := "crc32c"
				switch r.Intn(12) {
				case 0:
					alg = "xxhash64"
				case 1:
					alg = "none"
				}
				c.scenario(base, mk(cs, total, marks, meta, data, mode, streams, alg))
			}
		}
	}
	// ---- adversarial schedules on states that must still come out right, and on the finding ----
	late := 10
	if c.tier == "thorough" {
		late = 60
	}
	for i := 0; i < late; i++ {
		meta := metas[r.Intn(len(metas))]
		data := datas[r.Intn(len(datas))]
		total := 2 + r.Intn(6)
		mode := "late-data"
		if r.Bool() {
			mode = "late-verify"
		}
		c.scenario(base, mk(r.Pick(3, 16), total, c06marks(r, total, r.Intn(5)), meta, data, mode, 1+r.Intn(2), "crc32c"))
	}
}

func runC06(cfg config) *hx.Report {
	rep := hx.NewReport("C06")
	rep.Rule = "Part A: real LoadSidecar on every strict prefix and single-bit flip of valid sidecars written by the real Flush (chunk counts 1..70, ids of 1..40 arbitrary bytes), on random and structured garbage and on CRC-valid crafted files (padding bits, chunk count, bitmap length, id length, trailing bytes, chunk size 0, negative size, version, magic); real LoadOrCreateSidecarWithFallback on all 7 identity mismatches x {primary, fallback, both}. Part B: one file fetched again by the real sender and receiver from {13 metadata states} x {8 data-file states} x {in-order, free-running 1-4 streams, data streams delayed, verification hash delayed}. Oracle: receiver success => tree identical; damaged last recorded chunk => sent again. Plus directed histories: interrupted resumable fetch, data file removed or cut, interrupted fetch WITHOUT resume, resumed fetch. Non-trivial = a sidecar/scenario marking some but not all chunks; distinct by (state, chunk size, bitmap)"
	base, _ := os.MkdirTemp("", "c06")
	defer os.RemoveAll(base)
	c := &c06ctx{rep: rep, dir: base, tier: cfg.tier,
		cf: &hx.CasesFile{Dir: cfg.out, Name: "C06", Module: "C06", Imports: []string{"Lib.Bytes", "Model.Sidecar", "Model.Resume", "Corr.C06"}, PerShard: 160}}
	rng := hx.NewRand(cfg.seed)
	t0 := time.Now()
	c.partB(rng.Fork(2), base)
	t1 := time.Now()
	c.partA(rng.Fork(1))
	rep.Notes = append(rep.Notes, fmt.Sprintf("timing: transfers %.1fs, sidecar inputs %.1fs", t1.Sub(t0).Seconds(), time.Since(t1).Seconds()))
	c.cf.Close()
	runC06plain(cfg, rep)
	return rep
}

func init() { runners["C06"] = runC06 }

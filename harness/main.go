// Command harness drives the real Thruflux code (built from /repo's working
// tree with -tags verif) for one property and writes
//   <out>/report.json    what was run, the property oracle's verdicts, samples
//   <out>/cases_*.v      the same inputs + observed outputs as Coq terms, for
//                        the model-vs-implementation correspondence in coqc
package main

import (
	"flag"
	"fmt"
	"os"

	"github.com/sheerbytes/sheerbytes/verifharness/internal/hx"
)

type config struct {
	seed   uint64
	tier   string
	out    string
	replay string
}

var runners = map[string]func(config) *hx.Report{}

func main() {
	var cfg config
	flag.Uint64Var(&cfg.seed, "seed", 1, "PRNG seed")
	flag.StringVar(&cfg.tier, "tier", "quick", "quick|thorough")
	flag.StringVar(&cfg.out, "out", "", "output directory")
	flag.StringVar(&cfg.replay, "replay", "", "replay file (json) to re-run instead of generating")
	flag.Parse()
	if flag.NArg() != 1 || cfg.out == "" {
		fmt.Fprintln(os.Stderr, "usage: harness -out DIR [-seed N] [-tier quick|thorough] <property>")
		os.Exit(2)
	}
	run, ok := runners[flag.Arg(0)]
	if !ok {
		fmt.Fprintf(os.Stderr, "no runner for %s\n", flag.Arg(0))
		os.Exit(2)
	}
	if err := os.MkdirAll(cfg.out, 0755); err != nil {
		panic(err)
	}
	rep := run(cfg)
	rep.Write(cfg.out)
}

func init() {
	runners["C19"] = runC19
}

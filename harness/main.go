// Command harness drives the real Thruflux code (built from /repo's working
// tree with -tags verif) for one property and writes
//   <out>/report.json    what was run, the property oracle's verdicts, samples
//   <out>/cases_*.v      the same inputs + observed outputs as Coq terms, for
//                        the model-vs-implementation correspondence in coqc
package main

import (
	"flag"
	"fmt"
	"os"
	"runtime"
	"strings"
	"time"

	"github.com/sheerbytes/sheerbytes/verifharness/internal/hx"
)

type config struct {
	seed   uint64
	tier   string
	out    string
	replay string
}

var runners = map[string]func(config) *hx.Report{}

func main() {
	var cfg config
	flag.Uint64Var(&cfg.seed, "seed", 1, "PRNG seed")
	flag.StringVar(&cfg.tier, "tier", "quick", "quick|thorough")
	flag.StringVar(&cfg.out, "out", "", "output directory")
	var deadline int
	flag.IntVar(&deadline, "deadline", 0, "seconds after which a run that has not finished is reported as hung (0 = none)")
	flag.StringVar(&cfg.replay, "replay", "", "replay file (json) to re-run instead of generating")
	flag.Parse()
	if flag.NArg() != 1 || cfg.out == "" {
		fmt.Fprintln(os.Stderr, "usage: harness -out DIR [-seed N] [-tier quick|thorough] <property>")
		os.Exit(2)
	}
	run, ok := runners[flag.Arg(0)]
	if !ok {
		fmt.Fprintf(os.Stderr, "no runner for %s\n", flag.Arg(0))
		os.Exit(2)
	}
	if err := os.MkdirAll(cfg.out, 0755); err != nil {
		panic(err)
	}
	// Global deadline: a run that does not come back (the code under test is
	// wedged: a lock held for ever, a goroutine waiting for something that never
	// comes) is reported as a violation with the stuck goroutines as the replay,
	// instead of being killed from outside without a verdict.
	if deadline > 0 {
		go func() {
			time.Sleep(time.Duration(deadline) * time.Second)
			buf := make([]byte, 1<<20)
			buf = buf[:runtime.Stack(buf, true)]
			var stuck []string
			for _, g := range strings.Split(string(buf), "\n\n") {
				if strings.Contains(g, "sheerbytes/internal/") || strings.Contains(g, "sheerbytes/pkg/") || strings.Contains(g, "sheerbytes/cmd/") {
					if len(g) > 1500 {
						g = g[:1500]
					}
					stuck = append(stuck, g)
				}
				if len(stuck) >= 12 {
					break
				}
			}
			rep := hx.Current
			if rep == nil {
				rep = hx.NewReport(flag.Arg(0))
			}
			func() {
				defer func() { recover() }()
				rep.Violate("hang:harness-deadline", fmt.Sprintf("the run did not finish within %d s; %d goroutine(s) are stuck inside the repository's code", deadline, len(stuck)),
					map[string]any{"seed": cfg.seed, "tier": cfg.tier, "stuck_goroutines": stuck})
			}()
			rep.CaseIndex = nil
			rep.Write(cfg.out)
			os.Exit(3)
		}()
	}
	rep := run(cfg)
	rep.Write(cfg.out)
}

func init() {
	runners["C19"] = runC19
}

package main

import (
	"bytes"
	"context"
	"crypto/hmac"
	"crypto/sha256"
	"fmt"
	"io"
	"log/slog"
	"net"
	"sort"
	"strings"
	"sync"
	"time"

	"github.com/quic-go/quic-go"
	"github.com/sheerbytes/sheerbytes/internal/app"
	"github.com/sheerbytes/sheerbytes/internal/quictransport"
	"github.com/sheerbytes/sheerbytes/internal/transfer"
	"github.com/sheerbytes/sheerbytes/internal/transferquic"
	"github.com/sheerbytes/sheerbytes/verifharness/internal/hx"
)

// C08: transport authentication.  The REAL authenticateTransport runs at the
// honest end(s) of REAL loopback QUIC connections (real TLS 1.3 exporter).
//
//   * two honest ends, all pairs of a code set, both dial orientations;
//   * two honest ends with an in-flight fault on either message: every single
//     bit flip, every truncation, field replacements, trailing bytes (a
//     decorating Conn alters the bytes the victim reads);
//   * scripted attacker as rogue dialer / rogue listener (garbage, own code,
//     reflection of the victim's proof, role-swapped reflection, key guesses
//     without the code) and as a relay between two TLS sessions (verbatim
//     forwarding, and a proof that is valid for the other session);
//   * the real acceptExtraConns / dialExtraConns against an unauthenticated and
//     against a legitimate peer: only authenticated connections are returned.
//
// Every honest decision is (a) judged by the property oracle below, which only
// uses the scenario (who holds which code, which session, what was altered),
// and (b) emitted as a case for the concrete layer of Model/Auth.v with HMAC
// as a logged oracle (the table is computed here with crypto/hmac, not with
// the application's functions).

const (
	c08Sender   = 1
	c08Receiver = 2
)

type c08fault struct {
	kind string // none flip trunc replace extend
	i    int
	bs   []byte
}

func (f c08fault) coq() string {
	switch f.kind {
	case "flip":
		return fmt.Sprintf("(Auth.Flip %d%%nat)", f.i)
	case "trunc":
		return fmt.Sprintf("(Auth.Trunc %d%%nat)", f.i)
	case "replace":
		return fmt.Sprintf("(Auth.Replace %s)", hx.Bytes(f.bs))
	case "extend":
		return fmt.Sprintf("(Auth.Extend %s)", hx.Bytes(f.bs))
	}
	return "Auth.NoFault"
}

func (f c08fault) String() string {
	switch f.kind {
	case "flip":
		return fmt.Sprintf("flip-bit-%d", f.i)
	case "trunc":
		return fmt.Sprintf("truncate-to-%d", f.i)
	case "replace":
		return fmt.Sprintf("replace(%x)", f.bs)
	case "extend":
		return fmt.Sprintf("append(%x)", f.bs)
	}
	return "none"
}

func (f c08fault) apply(m []byte) []byte {
	out := append([]byte(nil), m...)
	switch f.kind {
	case "flip":
		if f.i/8 < len(out) {
			out[f.i/8] ^= 1 << uint(f.i%8)
		}
	case "trunc":
		if f.i < len(out) {
			out = out[:f.i]
		}
	case "replace":
		out = append([]byte(nil), f.bs...)
	case "extend":
		out = append(out, f.bs...)
	}
	return out
}

// alters reports whether the fault changes the 50 bytes the victim reads.
func (f c08fault) alters(m []byte) bool {
	d := f.apply(m)
	if len(d) < len(m) {
		return true
	}
	return !bytes.Equal(d[:len(m)], m)
}

// ---- loopback QUIC ----

type c08env struct {
	udp  *net.UDPConn
	ln   *quic.Listener
	lt   *transferquic.QUICTransport
	addr *net.UDPAddr
	log  *slog.Logger
}

func newC08env() (*c08env, error) {
	lg := slog.New(slog.NewTextHandler(io.Discard, nil))
	udp, err := net.ListenUDP("udp4", &net.UDPAddr{IP: net.IPv4(127, 0, 0, 1)})
	if err != nil {
		return nil, err
	}
	ln, err := quictransport.Listen(context.Background(), udp, lg)
	if err != nil {
		udp.Close()
		return nil, err
	}
	return &c08env{udp: udp, ln: ln, lt: transferquic.NewListener(ln, lg), addr: udp.LocalAddr().(*net.UDPAddr), log: lg}, nil
}

func (e *c08env) close() {
	e.lt.Close()
	e.udp.Close()
}

type c08session struct {
	dialer, acceptor transfer.Conn
	cleanup          func()
}

// session opens ONE TLS session over loopback and returns its two ends.
func (e *c08env) session(ctx context.Context) (*c08session, error) {
	cu, err := net.ListenUDP("udp4", &net.UDPAddr{IP: net.IPv4(127, 0, 0, 1)})
	if err != nil {
		return nil, err
	}
	type acc struct {
		c   transfer.Conn
		err error
	}
	ach := make(chan acc, 1)
	go func() {
		c, err := e.lt.Accept(ctx)
		ach <- acc{c, err}
	}()
	qc, err := quictransport.Dial(ctx, cu, e.addr, e.log)
	if err != nil {
		cu.Close()
		return nil, fmt.Errorf("dial: %w", err)
	}
	dc, err := transferquic.NewDialer(qc, e.log).Dial(ctx, "peer")
	if err != nil {
		cu.Close()
		return nil, err
	}
	a := <-ach
	if a.err != nil {
		qc.CloseWithError(0, "")
		cu.Close()
		return nil, fmt.Errorf("accept: %w", a.err)
	}
	return &c08session{dialer: dc, acceptor: a.c, cleanup: func() {
		dc.Close()
		a.c.Close()
		cu.Close()
	}}, nil
}

type c08exporter interface {
	ExportKeyingMaterial(label string, context []byte, length int) ([]byte, error)
}

func c08ekm(c transfer.Conn) []byte {
	b, err := c.(c08exporter).ExportKeyingMaterial(app.VerifAuthLabel, nil, app.VerifAuthMacSize)
	if err != nil {
		panic(err)
	}
	return b
}

// tapConn decorates one end: it records what the honest side writes and
// applies the fault to the first message the honest side reads.
type tapConn struct {
	transfer.Conn
	fault c08fault
	mu    sync.Mutex
	sent  []byte
	deliv []byte
	read  bool
}

func (t *tapConn) ExportKeyingMaterial(label string, context []byte, length int) ([]byte, error) {
	return t.Conn.(c08exporter).ExportKeyingMaterial(label, context, length)
}

func (t *tapConn) OpenStream(ctx context.Context) (transfer.Stream, error) {
	s, err := t.Conn.OpenStream(ctx)
	if err != nil {
		return nil, err
	}
	return &tapStream{Stream: s, t: t}, nil
}

func (t *tapConn) AcceptStream(ctx context.Context) (transfer.Stream, error) {
	s, err := t.Conn.AcceptStream(ctx)
	if err != nil {
		return nil, err
	}
	return &tapStream{Stream: s, t: t}, nil
}

type tapStream struct {
	transfer.Stream
	t      *tapConn
	loaded bool
	buf    []byte
	eof    bool
}

func (s *tapStream) Write(p []byte) (int, error) {
	s.t.mu.Lock()
	s.t.sent = append(s.t.sent, p...)
	s.t.mu.Unlock()
	return s.Stream.Write(p)
}

func (s *tapStream) Read(p []byte) (int, error) {
	if !s.loaded {
		s.loaded = true
		raw := make([]byte, app.VerifAuthMsgSize)
		n, _ := io.ReadFull(s.Stream, raw)
		raw = raw[:n]
		s.buf = s.t.fault.apply(raw)
		if n < app.VerifAuthMsgSize || len(s.buf) < app.VerifAuthMsgSize {
			s.eof = true // the peer closed early, or the fault truncated the message
		}
		s.t.mu.Lock()
		s.t.deliv = append([]byte(nil), s.buf...)
		s.t.read = true
		s.t.mu.Unlock()
	}
	if len(s.buf) > 0 {
		n := copy(p, s.buf)
		s.buf = s.buf[n:]
		return n, nil
	}
	if s.eof {
		return 0, io.EOF
	}
	return s.Stream.Read(p)
}

// ---- logged HMAC oracle (independent of the application's functions) ----

type c08tbl struct {
	rows []string
	seen map[string]bool
}

func (t *c08tbl) hm(key, data []byte) []byte {
	m := hmac.New(sha256.New, key)
	m.Write(data)
	out := m.Sum(nil)
	k := string(key) + "|" + string(data)
	if t.seen == nil {
		t.seen = map[string]bool{}
	}
	if !t.seen[k] {
		t.seen[k] = true
		t.rows = append(t.rows, fmt.Sprintf("(%s, %s, %s)", hx.Bytes(key), hx.Bytes(data), hx.Bytes(out)))
	}
	return out
}

func (t *c08tbl) coq() string { return hx.List(t.rows) }

func c08data(role byte, nonce []byte) []byte {
	return append([]byte{1, role}, nonce...)
}

// mirrorVerify is the harness's own reading of the accept decision (used to
// fill the oracle table and as a second opinion); the model of record is Coq.
func mirrorVerify(t *c08tbl, code string, ekm []byte, side byte, deliv []byte) bool {
	key := t.hm([]byte(code), ekm)
	if len(deliv) < 50 || deliv[0] != 1 {
		return false
	}
	want := byte(c08Sender)
	if side == c08Sender {
		want = c08Receiver
	}
	if deliv[1] != want {
		return false
	}
	return hmac.Equal(deliv[18:50], t.hm(key, c08data(deliv[1], deliv[2:18])))
}

func mirrorEmit(t *c08tbl, code string, ekm []byte, side byte, nonce []byte) []byte {
	key := t.hm([]byte(code), ekm)
	mac := t.hm(key, c08data(side, nonce))
	out := append([]byte{1, side}, nonce...)
	return append(out, mac...)
}

// ---- one honest end ----

type c08end struct {
	side  byte
	code  string
	ekm   []byte
	err   error
	acc   bool
	sent  []byte
	deliv []byte
	read  bool
}

func c08runEnd(ctx context.Context, conn transfer.Conn, code string, side byte, fault c08fault) *c08end {
	tc := &tapConn{Conn: conn, fault: fault}
	e := &c08end{side: side, code: code, ekm: c08ekm(conn)}
	e.err = app.VerifAuthenticateTransport(ctx, tc, code, side)
	e.acc = e.err == nil
	tc.mu.Lock()
	e.sent, e.deliv, e.read = tc.sent, tc.deliv, tc.read
	tc.mu.Unlock()
	return e
}

// HMAC (RFC 2104) pads a key shorter than the block with zero bytes and hashes
// a longer one: two different codes with the same key block are the same key.
func c08keyBlock(code string) string {
	k := []byte(code)
	if len(k) > 64 {
		h := sha256.Sum256(k)
		k = h[:]
	}
	return string(bytes.TrimRight(k, "\x00"))
}

type c08scn struct {
	kind        string
	codeS       string
	codeR       string
	senderDials bool
	f1, f2      c08fault // faults on message 1 (read by the receiver) / message 2 (read by the sender)
	strategy    string
	attackCode  string
	victim      byte
	extra       int
}

func (s c08scn) replay() map[string]any {
	m := map[string]any{"kind": s.kind, "sender_dials": s.senderDials}
	if s.kind == "pair" || s.kind == "fault" || s.kind == "relay" || s.kind == "extra" {
		m["code_sender"] = s.codeS
		m["code_receiver"] = s.codeR
		m["code_sender_hex"] = fmt.Sprintf("%x", s.codeS)
		m["code_receiver_hex"] = fmt.Sprintf("%x", s.codeR)
	}
	if s.kind == "fault" {
		m["fault_msg1"] = s.f1.String()
		m["fault_msg2"] = s.f2.String()
	}
	if s.kind == "attack" || s.kind == "relay" || s.kind == "extra" {
		m["strategy"] = s.strategy
		if s.kind == "extra" {
			m["function_under_test"] = map[byte]string{c08Sender: "dialExtraConns", c08Receiver: "acceptExtraConns"}[s.victim]
			m["extra_connections"] = s.extra
		}
		if s.kind == "attack" {
			m["victim_role"] = s.victim
			m["victim_code"] = s.codeS
			m["attacker_code"] = s.attackCode
		}
	}
	return m
}

type c08out struct {
	scn   c08scn
	ends  []*c08end // honest ends, in a fixed order
	note  string
	infra error
	extra []int // for kind "extra": returned, expected
	run   string
	viols [][2]string
}

const c08timeout = 20 * time.Second

// two honest ends of one session
func c08pair(env *c08env, s c08scn) *c08out {
	out := &c08out{scn: s}
	ctx, cancel := context.WithTimeout(context.Background(), c08timeout)
	defer cancel()
	ss, err := env.session(ctx)
	if err != nil {
		out.infra = err
		return out
	}
	defer ss.cleanup()
	sc, rc := ss.dialer, ss.acceptor
	if !s.senderDials {
		sc, rc = ss.acceptor, ss.dialer
	}
	var wg sync.WaitGroup
	var es, er *c08end
	wg.Add(2)
	go func() { defer wg.Done(); es = c08runEnd(ctx, sc, s.codeS, c08Sender, s.f2) }()
	go func() { defer wg.Done(); er = c08runEnd(ctx, rc, s.codeR, c08Receiver, s.f1) }()
	wg.Wait()
	out.ends = []*c08end{es, er}
	return out
}

// scripted raw peer helpers
func c08readMsg(ctx context.Context, st transfer.Stream) []byte {
	buf := make([]byte, 50)
	done := make(chan int, 1)
	go func() { n, _ := io.ReadFull(st, buf); done <- n }()
	select {
	case n := <-done:
		return buf[:n]
	case <-ctx.Done():
		return nil
	}
}

// attacker holds one end of the victim's session; it never knows the victim's code
func c08attack(env *c08env, s c08scn, rng *hx.Rand) *c08out {
	out := &c08out{scn: s}
	ctx, cancel := context.WithTimeout(context.Background(), c08timeout)
	defer cancel()
	ss, err := env.session(ctx)
	if err != nil {
		out.infra = err
		return out
	}
	defer ss.cleanup()
	vc, ac := ss.dialer, ss.acceptor // victim dials = rogue listener
	if !s.senderDials {
		vc, ac = ss.acceptor, ss.dialer // rogue dialer
	}
	ekm := c08ekm(ac) // the attacker is an endpoint: it knows the exporter value
	var tb c08tbl
	forge := func(role byte) []byte {
		nonce := rng.Bytes(16)
		switch s.strategy {
		case "garbage":
			m := rng.Bytes(50)
			m[0], m[1] = 1, role
			return m
		case "own-code":
			return mirrorEmit(&tb, s.attackCode, ekm, role, nonce)
		case "key-is-ekm":
			mac := tb.hm(ekm, c08data(role, nonce))
			return append(append([]byte{1, role}, nonce...), mac...)
		case "key-is-code-hash-only": // would pass if the key ignored the session
			key := tb.hm([]byte(s.attackCode), nil)
			mac := tb.hm(key, c08data(role, nonce))
			return append(append([]byte{1, role}, nonce...), mac...)
		case "zero-mac":
			return append(append([]byte{1, role}, nonce...), make([]byte, 32)...)
		}
		return nil
	}
	var wg sync.WaitGroup
	var ev *c08end
	wg.Add(2)
	go func() { defer wg.Done(); ev = c08runEnd(ctx, vc, s.codeS, s.victim, c08fault{}) }()
	go func() {
		defer wg.Done()
		if s.victim == c08Sender {
			st, err := ac.AcceptStream(ctx)
			if err != nil {
				return
			}
			defer st.Close()
			m1 := c08readMsg(ctx, st)
			var reply []byte
			switch s.strategy {
			case "reflect":
				reply = append([]byte(nil), m1...)
			case "reflect-role-swapped":
				reply = append([]byte(nil), m1...)
				if len(reply) > 1 {
					reply[1] = c08Receiver
				}
			case "silent-close":
				return
			default:
				reply = forge(c08Receiver)
			}
			st.Write(reply)
		} else {
			st, err := ac.OpenStream(ctx)
			if err != nil {
				return
			}
			defer st.Close()
			if s.strategy == "silent-close" {
				st.Write([]byte{})
				return
			}
			st.Write(forge(c08Sender))
			c08readMsg(ctx, st) // nothing may come back
		}
	}()
	wg.Wait()
	out.ends = []*c08end{ev}
	return out
}

// relay: honest sender <-session 1-> attacker <-session 2-> honest receiver
func c08relay(env *c08env, s c08scn) *c08out {
	out := &c08out{scn: s}
	ctx, cancel := context.WithTimeout(context.Background(), c08timeout)
	defer cancel()
	s1, err := env.session(ctx)
	if err != nil {
		out.infra = err
		return out
	}
	defer s1.cleanup()
	s2, err := env.session(ctx)
	if err != nil {
		out.infra = err
		return out
	}
	defer s2.cleanup()
	// sender dials the attacker, attacker dials the receiver (or the reverse)
	sc, a1 := s1.dialer, s1.acceptor
	a2, rc := s2.dialer, s2.acceptor
	if !s.senderDials {
		sc, a1 = s1.acceptor, s1.dialer
		a2, rc = s2.acceptor, s2.dialer
	}
	var wg sync.WaitGroup
	var es, er *c08end
	wg.Add(3)
	go func() { defer wg.Done(); es = c08runEnd(ctx, sc, s.codeS, c08Sender, c08fault{}) }()
	go func() { defer wg.Done(); er = c08runEnd(ctx, rc, s.codeR, c08Receiver, c08fault{}) }()
	go func() {
		defer wg.Done()
		in, err := a1.AcceptStream(ctx)
		if err != nil {
			return
		}
		defer in.Close()
		m1 := c08readMsg(ctx, in)
		o, err := a2.OpenStream(ctx)
		if err != nil {
			return
		}
		defer o.Close()
		switch s.strategy {
		case "forward":
			o.Write(m1)
			m2 := c08readMsg(ctx, o)
			if len(m2) > 0 {
				in.Write(m2)
			}
		case "proof-of-other-session":
			// what a relay could at best present to the sender: a receiver
			// proof that is VALID for session 2 (computed here with the code,
			// which a real attacker does not even have)
			o.Write(m1)
			var tb c08tbl
			in.Write(mirrorEmit(&tb, s.codeR, c08ekm(a2), c08Receiver, bytes.Repeat([]byte{7}, 16)))
		case "sender-proof-of-other-session":
			var tb c08tbl
			o.Write(mirrorEmit(&tb, s.codeS, c08ekm(a1), c08Sender, bytes.Repeat([]byte{9}, 16)))
			m2 := c08readMsg(ctx, o)
			if len(m2) > 0 {
				in.Write(m2)
			}
		}
	}()
	wg.Wait()
	out.ends = []*c08end{es, er}
	return out
}

// extra connections: the real acceptExtraConns / dialExtraConns
func c08extra(env *c08env, s c08scn, rng *hx.Rand) *c08out {
	out := &c08out{scn: s}
	ctx, cancel := context.WithTimeout(context.Background(), c08timeout)
	defer cancel()
	honestPeer := s.strategy == "legit"
	want := 0
	if honestPeer && c08keyBlock(s.codeS) == c08keyBlock(s.codeR) {
		want = s.extra
	}
	if s.victim == c08Receiver {
		// the receiver accepts `extra` connections; the peer dials them
		type res struct {
			conns []transfer.Conn
			err   error
		}
		rch := make(chan res, 1)
		go func() {
			c, err := app.VerifAcceptExtraConns(ctx, s.codeR, env.lt, s.extra)
			rch <- res{c, err}
		}()
		var cleanups []func()
		for i := 0; i < s.extra; i++ {
			cu, err := net.ListenUDP("udp4", &net.UDPAddr{IP: net.IPv4(127, 0, 0, 1)})
			if err != nil {
				out.infra = err
				return out
			}
			qc, err := quictransport.Dial(ctx, cu, env.addr, env.log)
			if err != nil {
				cu.Close()
				break // the listener side gave up: fine
			}
			dc, _ := transferquic.NewDialer(qc, env.log).Dial(ctx, "peer")
			cleanups = append(cleanups, func() { dc.Close(); cu.Close() })
			if honestPeer {
				app.VerifAuthenticateTransport(ctx, dc, s.codeS, c08Sender)
			} else {
				st, err := dc.OpenStream(ctx)
				if err == nil {
					m := rng.Bytes(50)
					m[0], m[1] = 1, c08Sender
					if s.strategy == "silent-stream" {
						st.Write(m[:3])
					} else {
						st.Write(m)
					}
					c08readMsg(ctx, st)
					st.Close()
				}
			}
		}
		r := <-rch
		out.extra = []int{len(r.conns), want}
		for _, c := range r.conns {
			c.Close()
		}
		for _, f := range cleanups {
			f()
		}
		return out
	}
	// the sender dials `extra` connections to a listener run by the peer
	penv, err := newC08env()
	if err != nil {
		out.infra = err
		return out
	}
	defer penv.close()
	pctx, pcancel := context.WithCancel(ctx)
	var wg sync.WaitGroup
	wg.Add(1)
	go func() {
		defer wg.Done()
		for {
			c, err := penv.lt.Accept(pctx)
			if err != nil {
				return
			}
			wg.Add(1)
			go func(c transfer.Conn) {
				defer wg.Done()
				if honestPeer {
					app.VerifAuthenticateTransport(pctx, c, s.codeR, c08Receiver)
					return
				}
				st, err := c.AcceptStream(pctx)
				if err != nil {
					return
				}
				m1 := c08readMsg(pctx, st)
				reply := rng.Bytes(50)
				if s.strategy == "reflect" {
					reply = m1
				} else {
					reply[0], reply[1] = 1, c08Receiver
				}
				st.Write(reply)
				st.Close()
			}(c)
		}
	}()
	conns, closeAll, _ := app.VerifDialExtraConns(ctx, s.codeS, penv.addr, quictransport.ClientConfig(), quictransport.DefaultClientQUICConfig(), s.extra)
	out.extra = []int{len(conns), want}
	closeAll()
	pcancel()
	wg.Wait()
	return out
}

// ---- the run ----

func runC08(cfg config) *hx.Report {
	rep := hx.NewReport("C08")
	rep.Rule = "handshakes of the real authenticateTransport over real loopback QUIC: all ordered pairs of a join-code set (both dial orientations); every single-bit flip (400) and every truncation (0..49) of message 1 and of message 2, field replacements and trailing bytes; scripted attacker as rogue dialer/listener (garbage, own code, exporter-only key, session-less key, zero mac, reflection, role-swapped reflection, silent close) against each honest role; relay between two TLS sessions (verbatim forward, proofs valid for the other session); real acceptExtraConns/dialExtraConns against unauthenticated and legitimate peers; path exploration of the four generated call-order skeletons. Non-trivial = a run in which at least one honest end had to take an accept/reject decision on a delivered message; distinct by scenario"
	cf := &hx.CasesFile{Dir: cfg.out, Name: "C08", Module: "C08", Imports: []string{"Lib.Bytes", "Model.Auth", "Corr.C08"}, PerShard: 160}
	rng := hx.NewRand(cfg.seed)
	thorough := cfg.tier == "thorough"

	base := "K7Q2MZ8P"
	long := strings.Repeat("L0NGC0DE", 9) // 72 bytes: longer than the HMAC block
	lh := sha256.Sum256([]byte(long))
	codes := []string{base, "K7Q2MZ8Q", "k7q2mz8p", "K7Q2MZ8", "K7Q2MZ8P ", "", "\x00", base + "\x00", base + "\x00\x00", "\x00" + base, long, string(lh[:]), "J\xc3\xb6in-\xff\xfe", strings.Repeat("A", 64), strings.Repeat("A", 63)}
	// seed-dependent extra codes
	alpha := "ABCDEFGHJKLMNPQRSTUVWXYZ23456789"
	for k := 0; k < 3; k++ {
		b := make([]byte, 8)
		for i := range b {
			b[i] = alpha[rng.Intn(len(alpha))]
		}
		codes = append(codes, string(b))
	}

	var scns []c08scn
	// corpus first (kept from the first run that exposed it)
	scns = append(scns, c08scn{kind: "pair", codeS: base, codeR: base + "\x00", senderDials: true})
	// all ordered pairs
	pairCodes := codes
	for i, a := range pairCodes {
		for j, b := range pairCodes {
			if !thorough && i != j && (i+j+int(cfg.seed))%3 != 0 && c08keyBlock(a) != c08keyBlock(b) {
				continue
			}
			scns = append(scns, c08scn{kind: "pair", codeS: a, codeR: b, senderDials: (i+j)%2 == 0})
			if thorough {
				scns = append(scns, c08scn{kind: "pair", codeS: a, codeR: b, senderDials: (i+j)%2 != 0})
			}
		}
	}
	// faults
	fcode := codes[len(codes)-1-rng.Intn(3)]
	for i := 0; i < 400; i++ {
		scns = append(scns, c08scn{kind: "fault", codeS: fcode, codeR: fcode, senderDials: i%2 == 0, f1: c08fault{kind: "flip", i: i}})
		scns = append(scns, c08scn{kind: "fault", codeS: fcode, codeR: fcode, senderDials: i%2 == 1, f2: c08fault{kind: "flip", i: i}})
	}
	for n := 0; n < 50; n++ {
		scns = append(scns, c08scn{kind: "fault", codeS: fcode, codeR: fcode, senderDials: n%2 == 0, f1: c08fault{kind: "trunc", i: n}})
		scns = append(scns, c08scn{kind: "fault", codeS: fcode, codeR: fcode, senderDials: n%2 == 1, f2: c08fault{kind: "trunc", i: n}})
	}
	repl := [][]byte{make([]byte, 50), bytes.Repeat([]byte{0xff}, 50), append([]byte{1, 1}, make([]byte, 48)...), append([]byte{1, 2}, make([]byte, 48)...), {}, {1}, {1, 1}}
	nrand := 6
	if thorough {
		nrand = 60
	}
	for k := 0; k < nrand; k++ {
		repl = append(repl, rng.Bytes(50))
	}
	for k, b := range repl {
		scns = append(scns, c08scn{kind: "fault", codeS: fcode, codeR: fcode, senderDials: k%2 == 0, f1: c08fault{kind: "replace", bs: b}})
		scns = append(scns, c08scn{kind: "fault", codeS: fcode, codeR: fcode, senderDials: k%2 == 1, f2: c08fault{kind: "replace", bs: b}})
	}
	for _, b := range [][]byte{{0}, {1, 2, 3}, rng.Bytes(50)} {
		scns = append(scns, c08scn{kind: "fault", codeS: fcode, codeR: fcode, senderDials: true, f1: c08fault{kind: "extend", bs: b}})
		scns = append(scns, c08scn{kind: "fault", codeS: fcode, codeR: fcode, senderDials: false, f2: c08fault{kind: "extend", bs: b}})
	}
	if thorough { // double faults and faults under a second code
		for k := 0; k < 300; k++ {
			scns = append(scns, c08scn{kind: "fault", codeS: base, codeR: base, senderDials: k%2 == 0, f1: c08fault{kind: "flip", i: rng.Intn(400)}, f2: c08fault{kind: "flip", i: rng.Intn(400)}})
		}
	}
	// attacker positions
	for _, victim := range []byte{c08Sender, c08Receiver} {
		strategies := []string{"garbage", "own-code", "key-is-ekm", "key-is-code-hash-only", "zero-mac", "silent-close"}
		if victim == c08Sender {
			strategies = append(strategies, "reflect", "reflect-role-swapped")
		}
		for _, st := range strategies {
			for _, dials := range []bool{true, false} {
				reps := 1
				if thorough || st == "garbage" {
					reps = 4
				}
				for k := 0; k < reps; k++ {
					ac := codes[1+rng.Intn(4)]
					if st == "key-is-code-hash-only" {
						ac = base // even the right code must not help without the session
					}
					scns = append(scns, c08scn{kind: "attack", codeS: base, victim: victim, strategy: st, attackCode: ac, senderDials: dials})
				}
			}
		}
	}
	for _, st := range []string{"forward", "proof-of-other-session", "sender-proof-of-other-session"} {
		for _, dials := range []bool{true, false} {
			reps := 2
			if thorough {
				reps = 10
			}
			for k := 0; k < reps; k++ {
				c := codes[len(codes)-1-k%3]
				scns = append(scns, c08scn{kind: "relay", codeS: c, codeR: c, strategy: st, senderDials: dials})
			}
		}
	}
	for _, victim := range []byte{c08Sender, c08Receiver} {
		for _, st := range []string{"legit", "garbage", "reflect", "silent-stream"} {
			if victim == c08Sender && st == "silent-stream" || victim == c08Receiver && st == "reflect" {
				continue
			}
			for _, n := range []int{1, 2} {
				scns = append(scns, c08scn{kind: "extra", codeS: base, codeR: base, victim: victim, strategy: st, extra: n})
			}
		}
		scns = append(scns, c08scn{kind: "extra", codeS: base, codeR: "K7Q2MZ8Q", victim: victim, strategy: "legit", extra: 1})
	}

	// run: W workers, each with its own listener; scenario i goes to worker i%W; results in index order
	const W = 8
	outs := make([]*c08out, len(scns))
	var wg sync.WaitGroup
	var envErr error
	var envMu sync.Mutex
	for w := 0; w < W; w++ {
		wg.Add(1)
		go func(w int) {
			defer wg.Done()
			env, err := newC08env()
			if err != nil {
				envMu.Lock()
				envErr = err
				envMu.Unlock()
				return
			}
			defer env.close()
			for i := w; i < len(scns); i += W {
				s := scns[i]
				r := hx.NewRand(cfg.seed).Fork(uint64(i + 1))
				var o *c08out
				for attempt := 0; attempt < 3; attempt++ { // only infrastructure errors (socket/dial) are retried
					switch s.kind {
					case "pair", "fault":
						o = c08pair(env, s)
					case "attack":
						o = c08attack(env, s, r)
					case "relay":
						o = c08relay(env, s)
					case "extra":
						o = c08extra(env, s, r)
					}
					if o.infra == nil {
						break
					}
				}
				outs[i] = o
			}
		}(w)
	}
	wg.Wait()
	if envErr != nil {
		panic(envErr)
	}

	id := 0
	nfault := 0
	emitEnd := func(e *c08end, s c08scn) {
		var tb c08tbl
		// the emitted message does not depend on the fault: for fault scenarios keep every 8th
		if len(e.sent) > 0 && (s.kind != "fault" || nfault%8 == 0) {
			id++
			if len(e.sent) >= 18 {
				mirrorEmit(&tb, e.code, e.ekm, e.side, e.sent[2:18])
			}
			cf.Add(fmt.Sprintf("C08.Emit %d %d %s %s %s %s", id, e.side, hx.Str(e.code), hx.Bytes(e.ekm), hx.Bytes(e.sent), tb.coq()))
			rep.CaseIndex[fmt.Sprint(id)] = map[string]any{"case": "emitted-message", "side": e.side, "scenario": s.replay()}
			rep.Evaluations++
		}
		if e.read {
			var tv c08tbl
			mirrorVerify(&tv, e.code, e.ekm, e.side, e.deliv)
			id++
			cf.Add(fmt.Sprintf("C08.Ver %d %d %s %s %s %s %s", id, e.side, hx.Str(e.code), hx.Bytes(e.ekm), hx.Bytes(e.deliv), tv.coq(), hx.B(e.acc)))
			rep.CaseIndex[fmt.Sprint(id)] = map[string]any{"case": "decision", "side": e.side, "delivered": fmt.Sprintf("%x", e.deliv), "accepted": e.acc, "scenario": s.replay()}
			rep.Evaluations++
		}
	}
	infra := 0
	for _, o := range outs {
		s := o.scn
		if o.infra != nil {
			infra++
			rep.Notes = append(rep.Notes, fmt.Sprintf("infrastructure error in %v: %v", s.replay(), o.infra))
			continue
		}
		rep.Count(s.kind + map[bool]string{true: ":" + s.strategy, false: ""}[s.strategy != ""])
		rep.TracesValidated++
		viol := func(sig, what string) { rep.Violate(sig, what, s.replay()) }
		switch s.kind {
		case "pair", "fault":
			es, er := o.ends[0], o.ends[1]
			if s.kind == "fault" {
				nfault++
			}
			emitEnd(es, s)
			emitEnd(er, s)
			sameKey := c08keyBlock(s.codeS) == c08keyBlock(s.codeR)
			// the two-party model run
			if len(es.sent) == 50 {
				var tb c08tbl
				nS := es.sent[2:18]
				nR := make([]byte, 16)
				if len(er.sent) == 50 {
					nR = er.sent[2:18]
				}
				m1 := mirrorEmit(&tb, s.codeS, es.ekm, c08Sender, nS)
				if mirrorVerify(&tb, s.codeR, er.ekm, c08Receiver, s.f1.apply(m1)) {
					m2 := mirrorEmit(&tb, s.codeR, er.ekm, c08Receiver, nR)
					mirrorVerify(&tb, s.codeS, es.ekm, c08Sender, s.f2.apply(m2))
				}
				id++
				cf.Add(fmt.Sprintf("C08.Run %d %s %s %s %s %s %s %s %s %s %s %s", id, hx.Str(s.codeS), hx.Str(s.codeR), hx.Bytes(es.ekm), hx.Bytes(er.ekm),
					hx.Bytes(nS), hx.Bytes(nR), s.f1.coq(), s.f2.coq(), tb.coq(), hx.B(es.acc), hx.B(er.acc)))
				rep.CaseIndex[fmt.Sprint(id)] = map[string]any{"case": "two-party-run", "accept_sender": es.acc, "accept_receiver": er.acc, "scenario": s.replay()}
				rep.Evaluations++
			}
			rep.Nontrivial(fmt.Sprintf("%v", s.replay()))
			if !bytes.Equal(es.ekm, er.ekm) {
				viol("exporter-differs", "the two ends of one TLS session exported different keying material")
			}
			m1alt := len(es.sent) == 50 && s.f1.alters(es.sent)
			m2alt := len(er.sent) == 50 && s.f2.alters(er.sent)
			switch {
			case s.codeS != s.codeR && (es.acc || er.acc):
				sig := "accept:different-code"
				if sameKey {
					sig = "accept:different-code:hmac-key-block-alias"
				}
				viol(sig, fmt.Sprintf("ends holding different join codes %q / %q accepted (sender=%v receiver=%v)", s.codeS, s.codeR, es.acc, er.acc))
			case s.codeS == s.codeR && s.f1.kind == "" && s.f2.kind == "" && !(es.acc && er.acc):
				viol("reject:same-code-same-session", fmt.Sprintf("same code %q, one session, nothing altered, but sender=%v (%v) receiver=%v (%v)", s.codeS, es.acc, es.err, er.acc, er.err))
			case m1alt && (er.acc || es.acc):
				viol("accept:altered-message-1:"+s.f1.kind, fmt.Sprintf("message 1 altered (%s) yet receiver=%v sender=%v", s.f1, er.acc, es.acc))
			case !m1alt && m2alt && es.acc:
				viol("accept:altered-message-2:"+s.f2.kind, fmt.Sprintf("message 2 altered (%s) yet the sender accepted", s.f2))
			case s.codeS == s.codeR && !m1alt && !m2alt && !(es.acc && er.acc):
				viol("reject:unaltered", fmt.Sprintf("faults %s/%s leave the 50 bytes unchanged, but sender=%v receiver=%v", s.f1, s.f2, es.acc, er.acc))
			}
			if len(rep.Samples) < 3 {
				rep.Sample(map[string]any{"scenario": s.replay(), "accept_sender": es.acc, "accept_receiver": er.acc})
			}
		case "attack":
			e := o.ends[0]
			emitEnd(e, s)
			if e.read {
				rep.Nontrivial(fmt.Sprintf("%v", s.replay()))
			}
			if e.acc {
				viol("accept:attacker:"+s.strategy, fmt.Sprintf("honest role %d accepted an endpoint that does not hold its code (strategy %s, delivered %x)", s.victim, s.strategy, e.deliv))
			}
			if len(rep.Samples) < 5 && s.strategy == "reflect" {
				rep.Sample(map[string]any{"scenario": s.replay(), "accepted": e.acc})
			}
		case "relay":
			es, er := o.ends[0], o.ends[1]
			emitEnd(es, s)
			emitEnd(er, s)
			rep.Nontrivial(fmt.Sprintf("%v", s.replay()))
			if bytes.Equal(es.ekm, er.ekm) {
				viol("exporter-equal-across-sessions", "two TLS sessions exported the same keying material")
			}
			if es.acc || er.acc {
				viol("accept:relay:"+s.strategy, fmt.Sprintf("relay between two sessions: sender=%v receiver=%v", es.acc, er.acc))
			}
			if len(rep.Samples) < 6 {
				rep.Sample(map[string]any{"scenario": s.replay(), "accept_sender": es.acc, "accept_receiver": er.acc})
			}
		case "extra":
			rep.Evaluations++
			rep.Nontrivial(fmt.Sprintf("%v|%d|%d", s.replay(), s.victim, s.extra))
			got, want := o.extra[0], o.extra[1]
			fn := map[byte]string{c08Sender: "dialExtraConns", c08Receiver: "acceptExtraConns"}[s.victim]
			if got > want {
				viol("extra-conn-unauthenticated:"+fn, fmt.Sprintf("%s returned %d connection(s) for the transfer although only %d peer connection(s) could authenticate (peer strategy %s)", fn, got, want, s.strategy))
			} else if got < want {
				viol("extra-conn-rejected:"+fn, fmt.Sprintf("%s returned %d connection(s), %d legitimate ones were offered", fn, got, want))
			}
		}
	}
	if infra > len(scns)/50 {
		rep.Violate("harness-infrastructure", fmt.Sprintf("%d of %d scenarios could not be set up", infra, len(scns)), nil)
	}
	if n := c08orderOracle(rep); n != 4 {
		rep.Notes = append(rep.Notes, fmt.Sprintf("call-order oracle read %d of 4 skeletons", n))
	}
	cf.Close()
	keys := make([]string, 0, len(rep.Distribution))
	for k := range rep.Distribution {
		keys = append(keys, k)
	}
	sort.Strings(keys)
	return rep
}

func init() { runners["C08"] = runC08 }

package main

import (
	"context"
	"fmt"
	"os"
	"path/filepath"
	"sort"
	"strings"
	"sync"
	"time"

	"github.com/sheerbytes/sheerbytes/internal/transfer"
	"github.com/sheerbytes/sheerbytes/pkg/manifest"
	"github.com/sheerbytes/sheerbytes/verifharness/internal/hx"
	"github.com/sheerbytes/sheerbytes/verifharness/internal/memnet"
)

// C02 (sender half): the REAL SendManifestMultiStream against a scripted
// receiver that drains the data streams and answers each FileEnd as the script
// says: FileDone{ok}, FileDone{failed}, nothing, a clean end of the control
// stream, an abrupt loss, a graceful close of the connection, or the caller
// cancels.  The history (FileEnds in the order they arrived, acknowledgements,
// the fault) is replayed on Model/Send.v; the oracle is the property itself:
// nil only if every file was acknowledged OK.

type sendPlan struct {
	action string // per FileEnd: ok, fail, silent ; terminal faults: eof, abrupt, graceful, cancel
}

type sendCase struct {
	id      int
	nfiles  int
	cs      int
	streams int
	actions []string // action for the i-th FileEnd that arrives
	early   string   // fault injected before any FileEnd: "", eof, abrupt, cancel
}

type sendOutcome struct {
	evs      []string
	keys     []uint64 // manifest file keys
	returned bool
	err      error
	ackedOK  map[uint64]bool
	doneFn   []string
	dur      time.Duration
}

func runSendCase(base string, c sendCase, rng *hx.Rand) sendOutcome {
	dir := filepath.Join(base, fmt.Sprintf("s%d", c.id))
	src := filepath.Join(dir, "src")
	os.RemoveAll(dir)
	defer os.RemoveAll(dir)
	os.MkdirAll(src, 0755)
	for i := 0; i < c.nfiles; i++ {
		size := rng.Intn(3*c.cs + 2)
		os.WriteFile(filepath.Join(src, fmt.Sprintf("f%02d.bin", i)), rng.Bytes(size), 0644)
	}
	m, err := manifest.Scan(src)
	if err != nil {
		panic(err)
	}
	out := sendOutcome{ackedOK: map[uint64]bool{}}
	for _, it := range m.Items {
		if !it.IsDir {
			out.keys = append(out.keys, transfer.VerifFileKey(it))
		}
	}
	a, b := memnet.Pair(memnet.Mode{VisibleAtOpen: true})
	ctx, cancel := context.WithCancel(context.Background())
	defer cancel()
	var mu sync.Mutex
	so := transfer.Options{ChunkSize: uint32(c.cs), ParallelFiles: c.streams, Resume: false, HashAlg: "crc32c"}
	so.FileDoneFn = func(rel string, ok bool) {
		mu.Lock()
		out.doneFn = append(out.doneFn, fmt.Sprintf("%s:%v", rel, ok))
		mu.Unlock()
	}
	ret := make(chan error, 1)
	watch := 6 * time.Second
	for _, a := range c.actions {
		if a == "silent" && c.early == "" {
			watch = 1200 * time.Millisecond // the sender is expected to keep waiting for the acknowledgement
		}
	}
	t0 := time.Now()
	go func() { ret <- transfer.SendManifestMultiStream(ctx, tconn{a}, src, m, so) }()

	ev := func(f string, x ...any) { out.evs = append(out.evs, fmt.Sprintf(f, x...)) }
	fault := func(kind string, ctl *memnet.Stream) {
		switch kind {
		case "eof":
			ctl.CloseWrite()
			ev("Send.SReaderStops false")
		case "abrupt":
			b.Fail(memnet.ErrAbrupt, memnet.ErrAbrupt)
			ev("Send.SReaderStops false")
		case "graceful":
			b.Close() // the sender sees "Application error 0x0 (remote)"
			ev("Send.SReaderStops false")
		case "cancel":
			cancel()
			ev("Send.SCancel")
		}
	}
	// the scripted receiver
	recvDone := make(chan struct{})
	go func() {
		defer close(recvDone)
		ctl, err := b.AcceptStream(context.Background())
		if err != nil {
			return
		}
		var buf []byte
		tmp := make([]byte, 4096)
		fill := func() bool {
			n, err := ctl.Read(tmp)
			buf = append(buf, tmp[:n]...)
			return err == nil || n > 0
		}
		for {
			if _, used, err := transfer.VerifReadControlHeader(buf); err == nil {
				buf = buf[used:]
				break
			}
			if !fill() {
				return
			}
		}
		if c.early != "" && c.early != "cancel-at-begin" {
			fault(c.early, ctl)
			return
		}
		nEnd := 0
		for {
			typ, msg, used, err := transfer.VerifDecodeControl(buf)
			if err != nil || used == 0 {
				if !fill() {
					return
				}
				continue
			}
			buf = buf[used:]
			switch typ {
			case transfer.VerifTypeDataStreams:
				n := int(msg.(transfer.DataStreams).Count)
				for i := 0; i < n; i++ {
					go func() {
						s, err := b.AcceptStream(context.Background())
						if err != nil {
							return
						}
						sink := make([]byte, 32768)
						for {
							if _, err := s.Read(sink); err != nil {
								return
							}
						}
					}()
				}
			case transfer.VerifTypeFileBegin:
				if c.early == "cancel-at-begin" {
					fault("cancel", ctl)
					c.early = "done"
				}
			case transfer.VerifTypeFileEnd:
				key := msg.(transfer.FileEnd).StreamID
				ev("Send.SEndSent %d", key)
				act := "ok"
				if nEnd < len(c.actions) {
					act = c.actions[nEnd]
				}
				nEnd++
				switch act {
				case "ok", "fail":
					ok := act == "ok"
					rec, _ := transfer.VerifEncodeControl(transfer.FileDone{StreamID: key, OK: ok, ErrMsg: map[bool]string{true: "", false: "scripted failure"}[ok]})
					if _, err := ctl.Write(rec); err != nil {
						return
					}
					ev("Send.SAck %d %s", key, hx.B(ok))
					ev("Send.SWaiter %d", key)
					if ok {
						mu.Lock()
						out.ackedOK[key] = true
						mu.Unlock()
					}
				case "silent":
				default:
					fault(act, ctl)
					return
				}
			case transfer.VerifTypeEnd:
				return
			}
		}
	}()
	select {
	case err := <-ret:
		out.returned, out.err = true, err
	case <-time.After(watch):
	}
	out.dur = time.Since(t0)
	if out.returned {
		out.evs = append(out.evs, "Send.SReturn true")
	}
	cancel()
	a.Fail(memnet.ErrAbrupt, memnet.ErrAbrupt)
	if !out.returned {
		select {
		case <-ret:
		case <-time.After(3 * time.Second):
		}
	}
	select {
	case <-recvDone:
	case <-time.After(time.Second):
	}
	return out
}

func runC02send(cfg config, rep *hx.Report, cf *hx.CasesFile, n int) {
	rng := hx.NewRand(cfg.seed).Fork(5)
	base, _ := os.MkdirTemp("", "c02s")
	defer os.RemoveAll(base)
	for i := 0; i < n; i++ {
		c := sendCase{id: 100000 + i, nfiles: rng.Pick(0, 1, 1, 2, 3, 5), cs: rng.Pick(1, 4, 16), streams: 1 + rng.Intn(3)}
		kind := rng.Intn(11)
		for k := 0; k < c.nfiles; k++ {
			c.actions = append(c.actions, "ok")
		}
		label := "all-acknowledged"
		if c.nfiles > 0 {
			at := rng.Intn(c.nfiles)
			if rng.Bool() {
				at = c.nfiles - 1 // the fault strikes when only the last acknowledgement is outstanding
			}
			switch kind {
			case 0, 1:
			case 2:
				c.actions[at], label = "fail", "file-failed"
			case 3:
				c.actions[at], label = "eof", "control-stream-eof"
			case 4:
				c.actions[at], label = "abrupt", "connection-lost"
			case 5:
				c.actions[at], label = "graceful", "connection-closed-code0"
			case 6:
				c.actions[at], label = "cancel", "sender-cancelled"
			case 7:
				c.actions[at], label = "silent", "no-acknowledgement"
			case 8:
				c.early, label = []string{"eof", "abrupt", "cancel", "cancel-at-begin", "cancel-at-begin"}[rng.Intn(5)], "early-fault"
				if c.early == "cancel-at-begin" {
					for k := range c.actions {
						c.actions[k] = "silent" // nothing is acknowledged: only the cancellation can end the run
					}
					label = "cancelled-while-sending"
				}
			case 9:
				c.early, label = "cancel-at-begin", "cancelled-while-sending"
				for k := range c.actions {
					c.actions[k] = "silent"
				}
			default:
			}
		}
		o := runSendCase(base, c, rng)
		rep.Evaluations++
		rep.Count("send:" + label)
		desc := map[string]any{"id": c.id, "files": c.nfiles, "streams": c.streams, "cs": c.cs, "actions": c.actions, "early": c.early, "events": o.evs}
		if o.err != nil {
			desc["sender_error"] = o.err.Error()
		}
		rep.CaseIndex[fmt.Sprint(c.id)] = desc
		res := 0
		switch {
		case o.returned && o.err == nil:
			res = 1
		case o.returned:
			res = 2
		}
		rep.Count(fmt.Sprintf("send-result:%d", res))
		if len(o.evs) >= 3 {
			rep.Nontrivial(fmt.Sprintf("s%d:%v:%s", c.nfiles, c.actions, c.early))
		}
		// oracle: nil only if every file was acknowledged OK by the (scripted) receiver
		if res == 1 {
			for _, k := range o.keys {
				if !o.ackedOK[k] {
					rep.Violate("send-false-success:"+label, fmt.Sprintf("sender returned nil although file key %d was never acknowledged OK (%s)", k, label), desc)
					break
				}
			}
		}
		if res == 0 && label != "no-acknowledgement" {
			rep.Violate("send-hang:"+label, fmt.Sprintf("sender did not return within 6 s after: %s", label), desc)
		}
		if res == 2 && label == "all-acknowledged" {
			rep.Violate("healthy-send-failed", fmt.Sprintf("every file acknowledged OK but the sender failed: %v", o.err), desc)
		}
		var keys []string
		for _, k := range o.keys {
			keys = append(keys, fmt.Sprint(k))
		}
		var acked []string
		for k := range o.ackedOK {
			acked = append(acked, fmt.Sprint(k))
		}
		sort.Strings(acked)
		cf.Add(fmt.Sprintf("C02.SendRun %d [%s] [%s] %d", c.id, strings.Join(keys, "; "), strings.Join(o.evs, "; "), res))
	}
}

module github.com/sheerbytes/sheerbytes/verifharness

go 1.24

require (
	github.com/gorilla/websocket v1.5.1
	github.com/quic-go/quic-go v0.58.0
	github.com/sheerbytes/sheerbytes v0.0.0
)

require (
	github.com/pion/dtls/v2 v2.2.7 // indirect
	github.com/pion/logging v0.2.4 // indirect
	github.com/pion/randutil v0.1.0 // indirect
	github.com/pion/stun v0.6.1 // indirect
	github.com/pion/transport/v2 v2.2.2 // indirect
	github.com/pion/turn/v2 v2.1.6 // indirect
	golang.org/x/crypto v0.41.0 // indirect
	golang.org/x/net v0.43.0 // indirect
	golang.org/x/sys v0.35.0 // indirect
)

replace github.com/sheerbytes/sheerbytes => /repo

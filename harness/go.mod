module github.com/sheerbytes/sheerbytes/verifharness

go 1.24

require github.com/sheerbytes/sheerbytes v0.0.0

replace github.com/sheerbytes/sheerbytes => /repo

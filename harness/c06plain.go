package main

import (
	"bytes"
	"fmt"
	"os"
	"path/filepath"
	"sync/atomic"
	"time"

	"github.com/sheerbytes/sheerbytes/verifharness/internal/hx"
	"github.com/sheerbytes/sheerbytes/verifharness/internal/memnet"
)

// C06, directed histories (oracle only): metadata left over from a data file that has since
// been deleted, with a fetch WITHOUT resume in between that is itself interrupted:
//
//	1. a resumable fetch is interrupted (part of the file and honest metadata are on disk),
//	2. the user removes the partial data file (the metadata directory stays),
//	3. the same tree is fetched without resume; that run is cut off early,
//	4. the tree is fetched with resume.
//
// Whatever run 4 reports as success must be an identical file.
func runC06plain(cfg config, rep *hx.Report) {
	base, _ := os.MkdirTemp("", "c06p")
	defer os.RemoveAll(base)
	rng := hx.NewRand(cfg.seed).Fork(66)
	n := 6
	if cfg.tier == "thorough" {
		n = 40
	}
	for i := 0; i < n; i++ {
		cs := rng.Pick(16, 64)
		chunks := 12 + rng.Intn(20)
		dir := filepath.Join(base, fmt.Sprintf("p%d", i))
		src := filepath.Join(dir, "src", "root")
		out := filepath.Join(dir, "out")
		os.MkdirAll(src, 0755)
		os.MkdirAll(out, 0755)
		data := rng.Bytes(chunks*cs - rng.Intn(cs))
		for j := range data {
			data[j] |= 1 // no zero bytes: a skipped chunk shows
		}
		os.WriteFile(filepath.Join(src, "f.bin"), data, 0644)
		// 1. what an interrupted resumable fetch leaves
		recorded := seedPrior(src, out, cs, rng)
		if recorded == 0 {
			continue
		}
		// 2. the user tidies up
		how := "removed"
		if i%3 == 2 {
			how = "cut to half its length"
			os.Truncate(filepath.Join(out, "f.bin"), int64(len(data)/2))
		} else {
			os.Remove(filepath.Join(out, "f.bin"))
		}
		// 3. a fetch without resume, cut off after a few frames
		var fired atomic.Bool
		cutAt := int64(20 + (1+rng.Intn(3))*(20+cs))
		c3 := xferCfg{chunkSize: cs, streams: 1, resume: false, timeout: 8 * time.Second}
		c3.onConns = func(a, b *memnet.Conn) {
			nOpen := 0
			a.OnOpen = func(s *memnet.Stream) {
				if nOpen == 1 {
					s.CutAfter(cutAt, memnet.ErrAbrupt, func() { fired.Store(true); a.Fail(memnet.ErrAbrupt, memnet.ErrAbrupt) })
				}
				nOpen++
			}
		}
		r3 := runXfer(src, out, c3)
		// 4. a resumed fetch
		r4 := runXfer(src, out, xferCfg{chunkSize: cs, streams: 1 + rng.Intn(2), resume: true, timeout: 8 * time.Second})
		rep.Evaluations++
		rep.Count("plain-refetch-then-resume")
		desc := map[string]any{"chunk_size": cs, "size": len(data), "recorded_before": recorded, "data_file": how,
			"history": []string{"interrupted resumable fetch (partial file + honest metadata)", "partial data file " + how, fmt.Sprintf("fetch without resume, connection lost after %d bytes of the data stream (sender=%v receiver=%v)", cutAt, r3.sendErr, r3.recvErr), "fetch with resume"}}
		if !r4.sendDone || !r4.recvDone {
			rep.Violate("plain-refetch-then-resume:hang", "the resumed fetch did not finish", desc)
			continue
		}
		if fired.Load() {
			rep.Nontrivial(fmt.Sprintf("plain:%d:%d:%d", cs, len(data), cutAt))
		}
		if r4.recvErr == nil {
			got, _ := os.ReadFile(filepath.Join(out, "f.bin"))
			if !bytes.Equal(got, data) {
				bad := 0
				for k := 0; k*cs < len(data); k++ {
					hi := (k + 1) * cs
					if hi > len(data) {
						hi = len(data)
					}
					if hi > len(got) || !bytes.Equal(got[k*cs:hi], data[k*cs:hi]) {
						bad++
					}
				}
				rep.Violate("silent-wrong-tree:stale-metadata-after-plain-refetch", fmt.Sprintf("the resumed fetch reported success (sender error: %v) but %d chunks of the file are not the source's: metadata of the earlier attempt (its data file %s) was trusted after an interrupted fetch without resume had re-created the file", r4.sendErr, bad, how), desc)
			}
		}
	}
}

package main

import (
	"bytes"
	"context"
	"crypto/hmac"
	"crypto/sha1"
	"encoding/base64"
	"encoding/hex"
	"encoding/json"
	"fmt"
	"io"
	"log/slog"
	"net/http"
	"net/url"
	"path/filepath"
	"regexp"
	"strconv"
	"strings"
	"sync"
	"time"
	"unicode/utf8"

	"github.com/gorilla/websocket"
	"github.com/sheerbytes/sheerbytes/internal/app"
	"github.com/sheerbytes/sheerbytes/internal/clienthttp"
	"github.com/sheerbytes/sheerbytes/internal/ice"
	"github.com/sheerbytes/sheerbytes/internal/wsclient"
	"github.com/sheerbytes/sheerbytes/pkg/protocol"
	"github.com/sheerbytes/sheerbytes/verifharness/internal/hx"
)

// C16: clients work against every documented server configuration.
//
//   - pure correspondences: net/url escape/unescape/ParseQuery, strconv.Atoi,
//     app.buildWebSocketURL, ice.parseTurnServer vs Model/Config.v;
//   - one utility thruserv (-tags verif): injectTurnCredentials through
//     /verif/c16/inject, the query values handleWebSocket extracts after the real
//     wsclient.Dial (hook point thruserv.ws.query);
//   - the flag grid: one real thruserv per configuration, the real
//     clienthttp.CreateSession, buildWebSocketURL, wsclient.Dial/ReadLoop and
//     parseTurnServer; the scripts are replayed on the model (Scn cases);
//   - the property oracle, evaluated on the real code only: a permitted host
//     creates a session, both roles connect, the server saw exactly the values
//     passed, and every minted credential URL parses into the user
//     "<expiry>:<peer>", the coturn REST secret and the endpoint the configured
//     spelling denotes.

// ---------------------------------------------------------------- flags

type c16flags struct {
	MaxSessions, MaxRecv, MaxMsg int
	ConnRate, ConnBurst          int
	MsgRate, MsgBurst            int
	SessRate, SessBurst          int
	MaxWS                        int
	Idle, Timeout, TurnTTL       time.Duration
	TurnServers                  []string
	TurnSecret                   string
	spellings                    []*c16spelling // nil entry = not from the grammar
	note                         string
	repeatFlag                   bool
	noArgs                       bool // start thruserv without any limit flag: the binary\'s own defaults
}

func c16defaults() c16flags {
	return c16flags{MaxSessions: 1000, MaxRecv: 10, MaxMsg: 65536, ConnRate: 30, ConnBurst: 10, MsgRate: 50, MsgBurst: 100,
		SessRate: 10, SessBurst: 5, MaxWS: 2000, Idle: 10 * time.Minute, Timeout: 24 * time.Hour, TurnTTL: time.Hour}
}

func (f c16flags) args() []string {
	if f.noArgs {
		return f.turnArgs(nil)
	}
	a := []string{
		"--max-sessions", fmt.Sprint(f.MaxSessions), "--max-receivers-per-sender", fmt.Sprint(f.MaxRecv),
		"--max-message-bytes", fmt.Sprint(f.MaxMsg), "--ws-connects-per-min", fmt.Sprint(f.ConnRate),
		"--ws-connects-burst", fmt.Sprint(f.ConnBurst), "--ws-msgs-per-sec", fmt.Sprint(f.MsgRate),
		"--ws-msgs-burst", fmt.Sprint(f.MsgBurst), "--session-creates-per-min", fmt.Sprint(f.SessRate),
		"--session-creates-burst", fmt.Sprint(f.SessBurst), "--max-ws-connections", fmt.Sprint(f.MaxWS),
		"--ws-idle-timeout", f.Idle.String(), "--session-timeout", f.Timeout.String(), "--turn-cred-ttl", f.TurnTTL.String(),
	}
	return f.turnArgs(a)
}

func (f c16flags) turnArgs(a []string) []string {
	if len(f.TurnServers) > 0 {
		if f.repeatFlag { // --turn-server is repeatable and comma-separated: use both forms
			for i, s := range f.TurnServers {
				if i%2 == 1 {
					s = " " + s + " ,"
				}
				a = append(a, "--turn-server", s)
			}
		} else {
			a = append(a, "--turn-server", strings.Join(f.TurnServers, ","))
		}
	}
	if f.TurnSecret != "" {
		a = append(a, "--turn-static-auth-secret", f.TurnSecret)
	}
	return a
}

func (f c16flags) coq() string {
	var ts []string
	for _, s := range f.TurnServers {
		ts = append(ts, hx.Str(s))
	}
	return fmt.Sprintf("{| f_max_sessions := %d; f_max_recv := %d; f_max_msg := %d; f_conn_rate := %d; f_conn_burst := %d; f_msg_rate := %d; f_msg_burst := %d; f_sess_rate := %d; f_sess_burst := %d; f_max_ws := %d; f_idle := %d; f_timeout := %d; f_turn_servers := %s; f_turn_secret := %s; f_turn_ttl := %d |}",
		f.MaxSessions, f.MaxRecv, f.MaxMsg, f.ConnRate, f.ConnBurst, f.MsgRate, f.MsgBurst, f.SessRate, f.SessBurst, f.MaxWS,
		int64(f.Idle), int64(f.Timeout), hx.List(ts), hx.Str(f.TurnSecret), int64(f.TurnTTL))
}

func (f c16flags) summary() string {
	d := c16defaults()
	var parts []string
	add := func(name string, v, dv int64) {
		if v != dv {
			parts = append(parts, fmt.Sprintf("%s=%d", name, v))
		}
	}
	add("max-sessions", int64(f.MaxSessions), int64(d.MaxSessions))
	add("max-receivers-per-sender", int64(f.MaxRecv), int64(d.MaxRecv))
	add("max-message-bytes", int64(f.MaxMsg), int64(d.MaxMsg))
	add("ws-connects-per-min", int64(f.ConnRate), int64(d.ConnRate))
	add("ws-connects-burst", int64(f.ConnBurst), int64(d.ConnBurst))
	add("ws-msgs-per-sec", int64(f.MsgRate), int64(d.MsgRate))
	add("ws-msgs-burst", int64(f.MsgBurst), int64(d.MsgBurst))
	add("session-creates-per-min", int64(f.SessRate), int64(d.SessRate))
	add("session-creates-burst", int64(f.SessBurst), int64(d.SessBurst))
	add("max-ws-connections", int64(f.MaxWS), int64(d.MaxWS))
	if f.Idle != d.Idle {
		parts = append(parts, "ws-idle-timeout="+f.Idle.String())
	}
	if f.Timeout != d.Timeout {
		parts = append(parts, "session-timeout="+f.Timeout.String())
	}
	if f.TurnTTL != d.TurnTTL {
		parts = append(parts, "turn-cred-ttl="+f.TurnTTL.String())
	}
	if f.noArgs {
		parts = append(parts, "(no flags given)")
	}
	parts = append(parts, fmt.Sprintf("turn=%s", f.note))
	return strings.Join(parts, " ")
}

// the same reading of the flags as Model/Config.v `permits`, written
// independently: what a configuration must leave room for before the property
// promises anything
func (f c16flags) permits(maxr int) bool {
	if maxr > 0 && f.MaxRecv > 0 && maxr > f.MaxRecv {
		return false
	}
	if f.ConnRate > 0 && f.ConnBurst < 2 {
		return false
	}
	if f.MaxWS > 0 && f.MaxWS < 2 {
		return false
	}
	return true
}

// ---------------------------------------------------------------- TURN spellings

type c16spelling struct {
	Prefix     string // "turn:", "turns:", "turn://", "turns://", ""
	Host, Port string
	Query      [][2]string
}

func (s *c16spelling) render() string {
	r := s.Prefix + s.Host + ":" + s.Port
	for i, kv := range s.Query {
		if i == 0 {
			r += "?"
		} else {
			r += "&"
		}
		r += kv[0] + "=" + kv[1]
	}
	return r
}

func (s *c16spelling) get(k string) string {
	for _, kv := range s.Query {
		if kv[0] == k {
			return kv[1]
		}
	}
	return ""
}

// what the spelling denotes (nil: not a usable endpoint, both sides must refuse it)
func (s *c16spelling) intended() *ice.VerifTurnServer {
	tls := strings.HasPrefix(s.Prefix, "turns")
	tr := s.get("transport")
	if tr != "" && tr != "udp" && tr != "tcp" {
		return nil
	}
	if tls && tr == "udp" {
		return nil
	}
	sn := s.Host
	if v := s.get("servername"); v != "" {
		sn = v
	}
	if v := s.get("sni"); v != "" {
		sn = v
	}
	ins := s.get("insecure")
	return &ice.VerifTurnServer{Addr: s.Host + ":" + s.Port, Realm: s.get("realm"), UseTCP: tr == "tcp" || tls, UseTLS: tls,
		ServerName: sn, InsecureTLS: !(ins == "" || ins == "0" || ins == "false")}
}

var c16hosts = []string{"turn.example.org", "stun.bytepipe.app", "10.0.0.7", "relay-1.x.io", "h", "TURN.Example.COM", "turnx", "a.turns"}
var c16safe = "abcxyzABC019.-_"

func c16genSpelling(r *hx.Rand) *c16spelling {
	s := &c16spelling{Prefix: []string{"turn:", "turns:", "turn://", "turns://", ""}[r.Intn(5)]}
	s.Host = c16hosts[r.Intn(len(c16hosts))]
	s.Port = []string{"3478", "5349", "443", "1", "65535", "0080"}[r.Intn(6)]
	nq := r.Pick(0, 0, 1, 1, 2, 3, 5)
	for i := 0; i < nq; i++ {
		var kv [2]string
		switch r.Intn(8) {
		case 0, 1:
			kv = [2]string{"transport", []string{"tcp", "udp", "tcp", "sctp", ""}[r.Intn(5)]}
		case 2:
			kv = [2]string{"servername", c16hosts[r.Intn(len(c16hosts))]}
		case 3:
			kv = [2]string{"sni", []string{"sni.example", ""}[r.Intn(2)]}
		case 4:
			kv = [2]string{"insecure", []string{"1", "0", "false", "true", "yes", ""}[r.Intn(6)]}
		case 5:
			kv = [2]string{"realm", []string{"bytepipe.app", "r_1", ""}[r.Intn(3)]}
		default:
			k := ""
			for j := 0; j < 1+r.Intn(4); j++ {
				k += string(c16safe[r.Intn(len(c16safe))])
			}
			v := ""
			for j := 0; j < r.Intn(5); j++ {
				v += string(c16safe[r.Intn(len(c16safe))])
			}
			kv = [2]string{k, v}
		}
		s.Query = append(s.Query, kv)
	}
	return s
}

// TURN strings outside the grammar (for the correspondence only)
var c16oddTurn = []string{
	"", "   ", "turn:", "turns:", "turn://", "turn:h", "turns:3478", "turn:h:12ab", "turn:a b:1", "TURN:h:1", "turn:h:1?", "turn:h:1??",
	"turn:h:1?a=b?", "turn:h:1?x=%zz", "turn:h:1?transport=tcp;x", "turn:h:1?transport=TCP", "turns:h:1?transport=udp", "turn:h:1?transport=tcp&transport=udp",
	"turn:h:1#frag", "turn:h:1/p", "turn:///h:1", "turn:u:p@h:1", "turn:u@h:1", "turn:u%41:p%2F@h:1", "turn:u%4:p@h:1", "turn:a@b@h:1", "turn:u p@h:1",
	"turn:[::1]:3478", "turn:h\xc3\xb6st:1", "turn:h%41:1", " turn:h:1 ", "\tturns://h:1?sni=x\n", "turn:h:1?servername=a&sni=b&insecure=0", "turn:h:1?insecure=false&realm=r",
	"turn:h:", "turn::1", "turn:h:1:2", "turn:a]b:1", "turn:a[b:1", "turn:h:1?&&a=1&=2&b", "turn:h:1?a=1+2%20x", "turn:h<>:1", "turn:h|:1", "turn:h\\:1", "turn:h:1\x7f", "turn:h:1?a=\x01",
	"turn:h:1?transport=tcp#x", "turns://h:5349?servername=stun.bytepipe.app", "turn:turn:1", "turns:turns:1", "h:3478?transport=tcp", "turns.example:1", "\xa0turn:h:1",
	"turn:h:1@", "turn:@h:1", "turn::@h:1", "turn:é@h:1", "turn:u:p:q@h:1", "turn:h:1?realm=a%26b&x=1;y=2",
}

// peer ids with URL-significant characters
var c16peers = []string{
	"a1b2c3d4e5", "peer one", "a&b=c", "x+y", "100%", "50%2F", "a/b", "u:p@h", "q?k=v#frag", "semi;colon", "back\\slash", "\"quoted\"", "<tag>",
	"t\u00e9l\u00e9", "\u65e5\u672c", "emoji\U0001F600", "~tilde_-.", "[::1]", "{curly}", "tab\there", "nl\nx", "%", "%%41", "+", " ", "&peer_id=evil", "role=sender",
	"\xff\xfe", "a\x00b",
}

func c16genBytes(r *hx.Rand, n int) []byte {
	special := []byte("&=+%/:@# ?;,$-_.~!*'()[]<>\"\\{}|^`\t\n\x00\x7f\x80\xff\xc3\xa9")
	b := make([]byte, n)
	for i := range b {
		switch r.Intn(4) {
		case 0:
			b[i] = byte(r.U64())
		case 1:
			b[i] = special[r.Intn(len(special))]
		default:
			b[i] = "abcdefXYZ0189"[r.Intn(13)]
		}
	}
	return b
}

func c16genEscaped(r *hx.Rand, n int) []byte {
	var b []byte
	hexd := "0123456789abcdefABCDEFgG%+ "
	for i := 0; i < n; i++ {
		switch r.Intn(5) {
		case 0:
			b = append(b, '%', hexd[r.Intn(len(hexd))], hexd[r.Intn(len(hexd))])
		case 1:
			b = append(b, "%+&=;"[r.Intn(5)])
		default:
			b = append(b, c16genBytes(r, 1)...)
		}
	}
	if r.Intn(6) == 0 {
		b = append(b, '%')
		if r.Bool() {
			b = append(b, 'a')
		}
	}
	return b
}

// ---------------------------------------------------------------- Coq rendering

func c16xresStr(s string, err error) string {
	if err != nil {
		return "C16.XErr"
	}
	return "(C16.XOk " + hx.Str(s) + ")"
}

func c16endpoint(e ice.VerifTurnServer) string {
	return fmt.Sprintf("{| e_addr := %s; e_user := %s; e_pass := %s; e_realm := %s; e_tcp := %s; e_tls := %s; e_sni := %s; e_insecure := %s |}",
		hx.Str(e.Addr), hx.Str(e.Username), hx.Str(e.Password), hx.Str(e.Realm), hx.B(e.UseTCP), hx.B(e.UseTLS), hx.Str(e.ServerName), hx.B(e.InsecureTLS))
}

var c16probeKeys = []string{"join_code", "peer_id", "role", "max_receivers", "transport", "servername", "sni", "insecure", "realm", "a", ""}

// ---------------------------------------------------------------- server access

type c16server struct {
	sp   *servProc
	base string // http://127.0.0.1:port
}

func c16start(bin string, f c16flags) (*c16server, error) {
	sp, err := startThruserv(bin, f.args()...)
	if err != nil {
		return nil, err
	}
	return &c16server{sp: sp, base: fmt.Sprintf("http://127.0.0.1:%d", sp.port)}, nil
}

type c16wsQuery struct{ JoinCode, PeerID, Role, MaxReceivers string }

func (s *c16server) events() ([]c16wsQuery, error) {
	resp, err := http.Get(s.base + "/verif/c16/events")
	if err != nil {
		return nil, err
	}
	defer resp.Body.Close()
	var raw []struct {
		JoinCode     string `json:"join_code"`
		PeerID       string `json:"peer_id"`
		Role         string `json:"role"`
		MaxReceivers string `json:"max_receivers"`
	}
	if err := json.NewDecoder(resp.Body).Decode(&raw); err != nil {
		return nil, err
	}
	un := func(h string) string { b, _ := hex.DecodeString(h); return string(b) }
	out := make([]c16wsQuery, len(raw))
	for i, e := range raw {
		out[i] = c16wsQuery{un(e.JoinCode), un(e.PeerID), un(e.Role), un(e.MaxReceivers)}
	}
	return out, nil
}

type c16injectIn struct{ Raw, User, Pass string }
type c16injectOut struct {
	OK  bool   `json:"ok"`
	URL string `json:"url"`
}

func (s *c16server) inject(in []c16injectIn) ([]c16injectOut, error) {
	enc := make([]c16injectIn, len(in))
	for i, c := range in {
		enc[i] = c16injectIn{hex.EncodeToString([]byte(c.Raw)), hex.EncodeToString([]byte(c.User)), hex.EncodeToString([]byte(c.Pass))}
	}
	body, _ := json.Marshal(enc)
	resp, err := http.Post(s.base+"/verif/c16/inject", "application/json", bytes.NewReader(body))
	if err != nil {
		return nil, err
	}
	defer resp.Body.Close()
	var out []c16injectOut
	if err := json.NewDecoder(resp.Body).Decode(&out); err != nil {
		return nil, err
	}
	if len(out) != len(in) {
		return nil, fmt.Errorf("inject endpoint answered %d of %d", len(out), len(in))
	}
	for i := range out {
		b, _ := hex.DecodeString(out[i].URL)
		out[i].URL = string(b)
	}
	return out, nil
}

var c16statusRe = regexp.MustCompile(`\((\d{3})\)`)
var c16logger = slog.New(slog.NewTextHandler(io.Discard, nil))

type c16conn struct {
	status int
	creds  *protocol.TurnCredentials
	close  func()
	t0, t1 time.Time
	ws     *wsclient.Conn
	peer   string
	mu     sync.Mutex
	got    []protocol.Envelope // everything received after the connect phase
	ended  bool                // ReadLoop returned: the server (or the network) closed the socket
}

func (c *c16conn) seen(pred func(protocol.Envelope) bool) bool {
	c.mu.Lock()
	defer c.mu.Unlock()
	for _, e := range c.got {
		if pred(e) {
			return true
		}
	}
	return false
}

func (c *c16conn) closed() bool {
	c.mu.Lock()
	defer c.mu.Unlock()
	return c.ended
}

// connect with the REAL client path: wsclient.Dial + ReadLoop until the first
// peer_joined (the server sends peer_list, then the credentials, then broadcasts
// the join) or the watchdog.
func c16dialReal(wsURL string) *c16conn {
	c := &c16conn{t0: time.Now()}
	ctx, cancel := context.WithCancel(context.Background())
	conn, err := wsclient.Dial(ctx, wsURL, c16logger)
	if err != nil {
		cancel()
		c.t1 = time.Now()
		if m := c16statusRe.FindStringSubmatch(err.Error()); m != nil {
			c.status, _ = strconv.Atoi(m[1])
		}
		c.close = func() {}
		return c
	}
	c.status = 101
	joined := make(chan struct{})
	var once sync.Once
	var mu sync.Mutex
	c.ws = conn
	go func() {
		conn.ReadLoop(ctx, func(env protocol.Envelope) {
			c.mu.Lock()
			c.got = append(c.got, env)
			c.mu.Unlock()
			c16onEnv(c, &mu, &once, joined, env)
		})
		c.mu.Lock()
		c.ended = true
		c.mu.Unlock()
	}()
	select {
	case <-joined:
	case <-time.After(10 * time.Second):
		c.status = -1 // watchdog: connected but never saw its own join
	}
	c.t1 = time.Now()
	mu.Lock()
	defer mu.Unlock()
	c.close = cancel
	return c
}

func c16onEnv(c *c16conn, mu *sync.Mutex, once *sync.Once, joined chan struct{}, env protocol.Envelope) {
	switch env.Type {
	case protocol.TypeTurnCredentials:
		var tc protocol.TurnCredentials
		if env.DecodePayload(&tc) == nil {
			mu.Lock()
			c.creds = &tc
			mu.Unlock()
		}
	case protocol.TypePeerJoined:
		once.Do(func() { close(joined) })
	}
}

// connect with a plain gorilla dialer on the same URL string the real client
// would send (wsclient.Dial re-serialises the parsed URL), to read the HTTP
// status of refusals
func c16dialPlain(wsURL string) *c16conn {
	c := &c16conn{t0: time.Now(), close: func() {}}
	u, err := url.Parse(wsURL)
	if err != nil {
		return c
	}
	d := websocket.Dialer{HandshakeTimeout: 5 * time.Second}
	conn, resp, err := d.Dial(u.String(), http.Header{})
	if resp != nil {
		c.status = resp.StatusCode
	}
	if err != nil {
		c.t1 = time.Now()
		return c
	}
	c.status = 101
	done := make(chan struct{})
	var mu sync.Mutex
	var once sync.Once
	go func() {
		for {
			_, data, err := conn.ReadMessage()
			if err != nil {
				return
			}
			var env protocol.Envelope
			if json.Unmarshal(data, &env) != nil {
				continue
			}
			switch env.Type {
			case protocol.TypeTurnCredentials:
				var tc protocol.TurnCredentials
				if env.DecodePayload(&tc) == nil {
					mu.Lock()
					c.creds = &tc
					mu.Unlock()
				}
			case protocol.TypePeerJoined:
				once.Do(func() { close(done) })
			}
		}
	}()
	select {
	case <-done:
	case <-time.After(10 * time.Second):
		c.status = -1
	}
	c.t1 = time.Now()
	mu.Lock()
	defer mu.Unlock()
	c.close = func() { conn.Close() }
	return c
}

func c16restPassword(secret, user string) string {
	m := hmac.New(sha1.New, []byte(secret))
	m.Write([]byte(user))
	return base64.StdEncoding.EncodeToString(m.Sum(nil))
}

// ---------------------------------------------------------------- runner

func runC16(cfg config) *hx.Report {
	rep := hx.NewReport("C16")
	rep.Rule = "non-trivial = a configuration (flag vector x TURN setting) on which the real client functions were run against a real thruserv started with it and at least one session was created and joined, or a TURN spelling x credential pair pushed through the real injectTurnCredentials and parseTurnServer; distinct by flag vector / by input"
	thorough := cfg.tier == "thorough"
	cf := &hx.CasesFile{Dir: cfg.out, Name: "C16", Module: "C16", Imports: []string{"Lib.GoInt", "Model.Config", "Corr.C16"}, PerShard: 250}
	defer cf.Close()
	nextID := 0
	add := func(term string, input any) {
		nextID++
		cf.Add(strings.Replace(term, "#ID", fmt.Sprint(nextID), 1))
		rep.CaseIndex[fmt.Sprint(nextID)] = input
		rep.Evaluations++
	}
	rng := hx.NewRand(cfg.seed)
	scale := 2
	if thorough {
		scale = 20
	}

	// ---- 1. net/url escape / unescape / ParseQuery, Atoi (pure)
	r1 := rng.Fork(1)
	for i := 0; i < 260*scale; i++ {
		var s []byte
		if i < len(c16peers) {
			s = []byte(c16peers[i])
		} else if i < len(c16peers)+256 {
			s = []byte{byte(i - len(c16peers))}
		} else {
			s = c16genBytes(r1, r1.Intn(12))
		}
		q := url.QueryEscape(string(s))
		add(fmt.Sprintf("C16.Esc #ID EQuery %s %s", hx.Bytes(s), hx.Str(q)), map[string]any{"fn": "QueryEscape", "hex": hex.EncodeToString(s)})
		u := url.User(string(s)).String()
		add(fmt.Sprintf("C16.Esc #ID EUser %s %s", hx.Bytes(s), hx.Str(u)), map[string]any{"fn": "User.String", "hex": hex.EncodeToString(s)})
		rep.Count("escape")
		if back, err := url.QueryUnescape(q); err != nil || back != string(s) {
			rep.Violate("escape-roundtrip:query", fmt.Sprintf("QueryUnescape(QueryEscape(%q)) = %q, %v", s, back, err), map[string]any{"hex": hex.EncodeToString(s)})
		}
		if back, err := url.PathUnescape(u); err != nil || back != string(s) {
			rep.Violate("escape-roundtrip:userinfo", fmt.Sprintf("unescape(userinfo escape(%q)) = %q, %v", s, back, err), map[string]any{"hex": hex.EncodeToString(s)})
		}
	}
	for i := 0; i < 150*scale; i++ {
		s := c16genEscaped(r1, r1.Intn(8))
		a, err := url.QueryUnescape(string(s))
		add(fmt.Sprintf("C16.Une #ID EQuery %s %s", hx.Bytes(s), c16xresStr(a, err)), map[string]any{"fn": "QueryUnescape", "hex": hex.EncodeToString(s)})
		b, err := url.PathUnescape(string(s))
		add(fmt.Sprintf("C16.Une #ID EUser %s %s", hx.Bytes(s), c16xresStr(b, err)), map[string]any{"fn": "PathUnescape", "hex": hex.EncodeToString(s)})
		rep.Count("unescape")
	}
	for i := 0; i < 120*scale; i++ {
		var parts []string
		for j := 0; j < r1.Intn(6); j++ {
			k := c16probeKeys[r1.Intn(len(c16probeKeys))]
			if r1.Intn(5) == 0 {
				k = string(c16genEscaped(r1, 1+r1.Intn(2)))
			}
			switch r1.Intn(4) {
			case 0:
				parts = append(parts, k)
			default:
				parts = append(parts, k+"="+string(c16genEscaped(r1, r1.Intn(4))))
			}
		}
		q := strings.Join(parts, "&")
		if strings.ContainsAny(q, "\x00") {
			q = strings.ReplaceAll(q, "\x00", "0")
		}
		vals, _ := url.ParseQuery(q)
		var got []string
		for _, k := range c16probeKeys {
			got = append(got, hx.Str(vals.Get(k)))
		}
		add(fmt.Sprintf("C16.PQ #ID %s %s", hx.Str(q), hx.List(got)), map[string]any{"fn": "ParseQuery", "q": q})
		rep.Count("parse-query")
	}
	atoiIn := []string{"", "0", "1", "4", "10", "007", "+3", "-1", "-0", "+", "-", "abc", "1_0", " 1", "1 ", "1.5", "0x10", "9223372036854775807", "9223372036854775808", "-9223372036854775808", "-9223372036854775809", "99999999999999999999", "٣"}
	for i := 0; i < 40*scale; i++ {
		atoiIn = append(atoiIn, fmt.Sprint(int64(r1.U64()>>uint(r1.Intn(64)))))
	}
	for _, s := range atoiIn {
		v, err := strconv.Atoi(s)
		r := "C16.XErr"
		if err == nil {
			r = fmt.Sprintf("(C16.XOk %s)", hx.Z(int64(v)))
		}
		add(fmt.Sprintf("C16.Ati #ID %s %s", hx.Str(s), r), map[string]any{"fn": "Atoi", "s": s})
		rep.Count("atoi")
	}

	// ---- 2. buildWebSocketURL (pure)
	r2 := rng.Fork(2)
	wsHosts := []string{"127.0.0.1:8080", "bytepipe.app", "localhost:1", "sig.example.org:443"}
	for i := 0; i < 150*scale; i++ {
		scheme := []string{"http", "https", "http", "https", "ws", "xhttp", "ftp"}[r2.Intn(7)]
		host := wsHosts[r2.Intn(len(wsHosts))]
		join := "ABCDEFGH"
		if r2.Intn(3) == 0 {
			join = string(c16genBytes(r2, r2.Intn(9)))
		}
		var peer string
		if i < len(c16peers) {
			peer = c16peers[i]
		} else {
			peer = string(c16genBytes(r2, r2.Intn(14)))
		}
		role := []string{"sender", "receiver", "receiver", string(c16genBytes(r2, 3))}[r2.Intn(4)]
		maxr := r2.Pick(0, 0, 1, 4, 10, 255, 1000000, -1, 2147483647)
		got, err := app.VerifBuildWebSocketURL(scheme+"://"+host, join, peer, role, maxr)
		if err != nil {
			rep.Violate("ws-url:error", fmt.Sprintf("buildWebSocketURL(%q,...) failed: %v", scheme+"://"+host, err), nil)
			continue
		}
		add(fmt.Sprintf("C16.WsU #ID %s %s %s %s %s %s %s", hx.Str(scheme), hx.Str(host), hx.Str(join), hx.Str(peer), hx.Str(role), hx.Z(int64(maxr)), hx.Str(got)),
			map[string]any{"fn": "buildWebSocketURL", "server": scheme + "://" + host, "join": join, "peer_hex": hex.EncodeToString([]byte(peer)), "role": role, "maxr": maxr})
		rep.Count("ws-url")
		wantScheme := map[string]string{"http": "ws", "https": "wss"}[scheme]
		if wantScheme != "" && !strings.HasPrefix(got, wantScheme+"://"+host+"/ws?") {
			rep.Violate("ws-url:scheme", fmt.Sprintf("buildWebSocketURL(%s://%s) = %q", scheme, host, got), map[string]any{"server": scheme + "://" + host})
		}
	}

	// ---- 3. parseTurnServer on arbitrary strings (pure)
	r3 := rng.Fork(3)
	var turnInputs []string
	turnInputs = append(turnInputs, c16oddTurn...)
	for i := 0; i < 120*scale; i++ {
		s := c16genSpelling(r3).render()
		if r3.Intn(3) == 0 { // mutate
			b := []byte(s)
			for k := 0; k < 1+r3.Intn(2) && len(b) > 0; k++ {
				p := r3.Intn(len(b))
				switch r3.Intn(3) {
				case 0:
					b[p] = c16genBytes(r3, 1)[0]
				case 1:
					b = append(b[:p], b[p+1:]...)
				default:
					b = append(b[:p], append(c16genBytes(r3, 1), b[p:]...)...)
				}
			}
			s = string(b)
		}
		turnInputs = append(turnInputs, s)
	}
	for _, s := range turnInputs {
		e, err := ice.VerifParseTurnServer(s)
		r := "C16.XErr"
		if err == nil {
			r = "(C16.XOk " + c16endpoint(e) + ")"
		}
		add(fmt.Sprintf("C16.Par #ID %s %s", hx.Str(s), r), map[string]any{"fn": "parseTurnServer", "raw_hex": hex.EncodeToString([]byte(s)), "raw": s})
		rep.Count("turn-parse")
	}

	// ---- the server binary
	outAbs, _ := filepath.Abs(cfg.out)
	bin := filepath.Join(outAbs, "thruserv-c16")
	if err := buildBinary("cmd/thruserv", bin); err != nil {
		rep.Violate("build", err.Error(), nil)
		return rep
	}

	// ---- 4. utility server: injectTurnCredentials, the /ws query as the handler sees it
	off := c16defaults()
	off.ConnRate, off.SessRate, off.MsgRate, off.MaxSessions, off.MaxWS, off.MaxRecv = 0, 0, 0, 0, 0, 0
	util, err := c16start(bin, off)
	if err != nil {
		rep.Violate("server-start", err.Error(), map[string]any{"args": off.args()})
		return rep
	}
	func() {
		defer util.sp.stop()
		r4 := rng.Fork(4)
		var in []c16injectIn
		var sps []*c16spelling
		for i := 0; i < 220*scale; i++ {
			var raw string
			var sp *c16spelling
			if i < len(c16oddTurn) {
				raw = c16oddTurn[i]
			} else {
				sp = c16genSpelling(r4)
				raw = sp.render()
			}
			var user, pass string
			switch r4.Intn(3) {
			case 0:
				user = fmt.Sprintf("%d:%s", 1700000000+r4.Intn(1<<30), c16peers[r4.Intn(len(c16peers))])
				pass = c16restPassword("s3cret", user)
			case 1:
				user, pass = string(c16genBytes(r4, r4.Intn(10))), string(c16genBytes(r4, r4.Intn(10)))
			default:
				user = fmt.Sprintf("%d:%s", r4.Intn(1<<31), string(c16genBytes(r4, r4.Intn(8))))
				pass = base64.StdEncoding.EncodeToString(r4.Bytes(20))
			}
			in = append(in, c16injectIn{raw, user, pass})
			sps = append(sps, sp)
		}
		out, err := util.inject(in)
		if err != nil {
			rep.Violate("verif-endpoint", "inject endpoint: "+err.Error(), nil)
			return
		}
		for i, c := range in {
			o := out[i]
			var e error
			if !o.OK {
				e = fmt.Errorf("err")
			}
			replay := map[string]any{"fn": "injectTurnCredentials", "raw": c.Raw, "raw_hex": hex.EncodeToString([]byte(c.Raw)), "user_hex": hex.EncodeToString([]byte(c.User)), "pass_hex": hex.EncodeToString([]byte(c.Pass))}
			add(fmt.Sprintf("C16.Inj #ID %s %s %s %s", hx.Str(c.Raw), hx.Str(c.User), hx.Str(c.Pass), c16xresStr(o.URL, e)), replay)
			rep.Count("turn-inject")
			if o.OK {
				pe, perr := ice.VerifParseTurnServer(o.URL)
				r := "C16.XErr"
				if perr == nil {
					r = "(C16.XOk " + c16endpoint(pe) + ")"
				}
				add(fmt.Sprintf("C16.Par #ID %s %s", hx.Str(o.URL), r), map[string]any{"fn": "parseTurnServer", "raw": o.URL, "from": replay})
			}
			// oracle: a spelling of the grammar round-trips
			if sp := sps[i]; sp != nil {
				rep.Nontrivial("inj:" + c.Raw + "|" + c.User + "|" + c.Pass)
				c16checkCred(rep, sp, c.Raw, o.OK, o.URL, c.User, c.Pass, replay)
			}
		}
		// the /ws query as seen by the real handler after the real client dialled
		r5 := rng.Fork(5)
		util.events()
		for i := 0; i < 70*scale; i++ {
			join := "ABCDEFGH"
			if r5.Intn(4) == 0 {
				join = string(c16genBytes(r5, r5.Intn(9)))
			}
			var peer string
			if i < len(c16peers) {
				peer = c16peers[i]
			} else {
				peer = string(c16genBytes(r5, 1+r5.Intn(14)))
			}
			role := []string{"sender", "receiver"}[r5.Intn(2)]
			maxr := r5.Pick(0, 0, 1, 4, 1000)
			wsURL, err := app.VerifBuildWebSocketURL(util.base, join, peer, role, maxr)
			if err != nil {
				rep.Violate("ws-url:error", err.Error(), nil)
				continue
			}
			c := c16dialReal(wsURL)
			c.close()
			evs, err := util.events()
			replay := map[string]any{"fn": "buildWebSocketURL+wsclient.Dial", "join_hex": hex.EncodeToString([]byte(join)), "peer_hex": hex.EncodeToString([]byte(peer)), "role": role, "maxr": maxr, "url": wsURL}
			if err != nil || len(evs) != 1 {
				rep.Violate("ws-query:not-received", fmt.Sprintf("the /ws handler was entered %d times for one dial of %q (status %d)", len(evs), wsURL, c.status), replay)
				continue
			}
			ev := evs[0]
			add(fmt.Sprintf("C16.WsV #ID %s %s %s %s %s", hx.Str(wsURL), hx.Str(ev.JoinCode), hx.Str(ev.PeerID), hx.Str(ev.Role), hx.Str(ev.MaxReceivers)), replay)
			rep.Count("ws-query")
			wantM := ""
			if maxr > 0 {
				wantM = fmt.Sprint(maxr)
			}
			switch {
			case ev.JoinCode != join:
				rep.Violate("ws-query:join_code", fmt.Sprintf("client passed join code %q, server read %q", join, ev.JoinCode), replay)
			case ev.PeerID != peer:
				rep.Violate("ws-query:peer_id", fmt.Sprintf("client passed peer id %q, server read %q", peer, ev.PeerID), replay)
			case ev.Role != role:
				rep.Violate("ws-query:role", fmt.Sprintf("client passed role %q, server read %q", role, ev.Role), replay)
			case ev.MaxReceivers != wantM:
				rep.Violate("ws-query:max_receivers", fmt.Sprintf("client passed max_receivers %d, server read %q", maxr, ev.MaxReceivers), replay)
			}
		}
	}()

	// ---- 5. the flag grid
	r6 := rng.Fork(6)
	grid := c16grid(r6, thorough)
	for gi, f := range grid {
		c16scenario(rep, add, bin, f, gi, r6.Fork(uint64(gi)+100))
	}
	rep.TracesValidated = rep.Distribution["scenario"]
	rep.Notes = append(rep.Notes,
		"token buckets are modelled without refill: a refusal by a rate limit is only provoked when one token takes >= 30 s to return",
		"TUn (fragment, path, IPv6 literal, %-escape in host, non-ASCII white space) = the model makes no claim; such inputs are still run on the real code")
	return rep
}

// the oracle for one minted credential URL
func c16checkCred(rep *hx.Report, sp *c16spelling, raw string, ok bool, credURL, user, pass string, replay any) {
	want := sp.intended()
	// a spelling that denotes no endpoint must be refused by the client with or without credentials
	bare, bareErr := ice.VerifParseTurnServer(raw)
	if want == nil {
		if bareErr == nil {
			rep.Violate("turn-parse:accepts-invalid", fmt.Sprintf("parseTurnServer(%q) accepted an unusable spelling", raw), replay)
		}
		if ok {
			if _, err := ice.VerifParseTurnServer(credURL); err == nil {
				rep.Violate("turn-parse:accepts-invalid", fmt.Sprintf("parseTurnServer(%q) accepted an unusable spelling", credURL), replay)
			}
		}
		return
	}
	if bareErr != nil {
		rep.Violate("turn-parse:rejects-spelling", fmt.Sprintf("parseTurnServer(%q): %v", raw, bareErr), replay)
		return
	}
	w0 := *want
	if bare != w0 {
		rep.Violate("turn-parse:endpoint", fmt.Sprintf("parseTurnServer(%q) = %+v, the spelling denotes %+v", raw, bare, w0), replay)
	}
	if !ok {
		rep.Violate("turn-inject:rejects-spelling", fmt.Sprintf("injectTurnCredentials(%q) failed", raw), replay)
		return
	}
	got, err := ice.VerifParseTurnServer(credURL)
	if err != nil {
		rep.Violate("turn-roundtrip:parse-error", fmt.Sprintf("parseTurnServer(%q): %v", credURL, err), replay)
		return
	}
	w := *want
	w.Username, w.Password = user, pass
	switch {
	case got.Username != w.Username:
		rep.Violate("turn-roundtrip:user", fmt.Sprintf("server minted user %q, client parsed %q from %q", user, got.Username, credURL), replay)
	case got.Password != w.Password:
		rep.Violate("turn-roundtrip:secret", fmt.Sprintf("server minted secret %q, client parsed %q from %q", pass, got.Password, credURL), replay)
	case got != w:
		rep.Violate("turn-roundtrip:endpoint", fmt.Sprintf("%q denotes %+v, client parsed %+v from %q", raw, w, got, credURL), replay)
	}
}

func c16grid(r *hx.Rand, thorough bool) []c16flags {
	var grid []c16flags
	d := c16defaults()
	// corpus: the configuration that used to break CreateSession
	t0 := d
	t0.Timeout = 0
	grid = append(grid, t0)
	nd := d
	nd.noArgs = true // the binary's own defaults against the client's default --max-receivers 4
	grid = append(grid, nd)
	grid = append(grid, d)
	zero := c16flags{TurnTTL: 0}
	grid = append(grid, zero)
	small := c16flags{MaxSessions: 2, MaxRecv: 1, MaxMsg: 16, ConnRate: 1, ConnBurst: 2, MsgRate: 1, MsgBurst: 1, SessRate: 1, SessBurst: 2, MaxWS: 2,
		Idle: 5 * time.Second, Timeout: 30 * time.Second, TurnTTL: time.Minute}
	grid = append(grid, small)
	type setter func(f *c16flags, v int)
	ints := []struct {
		set   setter
		small []int
	}{
		{func(f *c16flags, v int) { f.MaxSessions = v }, []int{1, 2}},
		{func(f *c16flags, v int) { f.MaxRecv = v }, []int{1, 2}},
		{func(f *c16flags, v int) { f.MaxMsg = v }, []int{16}},
		{func(f *c16flags, v int) { f.ConnRate = v }, []int{1}},
		{func(f *c16flags, v int) { f.ConnBurst = v }, []int{1, 2}},
		{func(f *c16flags, v int) { f.MsgRate = v }, []int{1}},
		{func(f *c16flags, v int) { f.MsgBurst = v }, []int{1}},
		{func(f *c16flags, v int) { f.SessRate = v }, []int{1}},
		{func(f *c16flags, v int) { f.SessBurst = v }, []int{1, 2}},
		{func(f *c16flags, v int) { f.MaxWS = v }, []int{1, 2, 3}},
	}
	durs := []struct {
		set   func(f *c16flags, v time.Duration)
		small []time.Duration
	}{
		{func(f *c16flags, v time.Duration) { f.Idle = v }, []time.Duration{5 * time.Second}},
		{func(f *c16flags, v time.Duration) { f.Timeout = v }, []time.Duration{30 * time.Second, time.Minute}},
		{func(f *c16flags, v time.Duration) { f.TurnTTL = v }, []time.Duration{time.Minute}},
	}
	// every single flag at 0 and at a small value
	for _, it := range ints {
		f := d
		it.set(&f, 0)
		grid = append(grid, f)
		g := d
		it.set(&g, it.small[r.Intn(len(it.small))])
		grid = append(grid, g)
	}
	for _, it := range durs {
		f := d
		it.set(&f, 0)
		grid = append(grid, f)
		g := d
		it.set(&g, it.small[r.Intn(len(it.small))])
		grid = append(grid, g)
	}
	// random points of the full grid
	n := 50
	if thorough {
		n = 600
	}
	for i := 0; i < n; i++ {
		f := d
		for _, it := range ints {
			switch r.Intn(3) {
			case 0:
				it.set(&f, 0)
			case 1:
				it.set(&f, it.small[r.Intn(len(it.small))])
			}
		}
		for _, it := range durs {
			switch r.Intn(3) {
			case 0:
				it.set(&f, 0)
			case 1:
				it.set(&f, it.small[r.Intn(len(it.small))])
			}
		}
		grid = append(grid, f)
	}
	// TURN setting per configuration
	for i := range grid {
		f := &grid[i]
		f.repeatFlag = i%2 == 1
		mode := i % 6
		if i >= 4 {
			mode = r.Intn(7)
		}
		switch mode {
		case 0, 1, 2, 3:
			f.note = "on"
			f.TurnSecret = []string{"s3cret", "static/auth+secret=", "x"}[r.Intn(3)]
			for k := 0; k < 1+r.Intn(5); k++ {
				sp := c16genSpelling(r)
				f.TurnServers = append(f.TurnServers, sp.render())
				f.spellings = append(f.spellings, sp)
			}
		case 4:
			f.note = "off"
		case 5:
			if r.Bool() {
				f.note = "servers-without-secret"
				sp := c16genSpelling(r)
				f.TurnServers, f.spellings = []string{sp.render()}, []*c16spelling{sp}
			} else {
				f.note = "secret-without-servers"
				f.TurnSecret = "s3cret"
			}
		case 6:
			f.note = "on-with-unparsable-server"
			f.TurnSecret = "s3cret"
			sp := c16genSpelling(r)
			f.TurnServers, f.spellings = []string{sp.render(), "turn:h:12ab"}, []*c16spelling{sp, nil}
		}
	}
	return grid
}

func c16scenario(rep *hx.Report, add func(string, any), bin string, f c16flags, gi int, r *hx.Rand) {
	srv, err := c16start(bin, f)
	desc := map[string]any{"flags": f.summary(), "args": f.args()}
	if err != nil {
		rep.Violate("server-start", fmt.Sprintf("thruserv does not start with %s: %v", f.summary(), err), desc)
		return
	}
	defer srv.sp.stop()
	rep.Count("scenario")
	rep.Count("turn:" + f.note)
	var ops, obs, names []string
	var conns []*c16conn
	defer func() {
		for _, c := range conns {
			c.close()
		}
	}()
	type sess struct{ code string }
	var sessions []sess
	createUsed, connUsed := 0, 0
	bucketFull := func(rate, burst, used int) bool {
		if burst < 1 {
			burst = 1
		}
		return rate > 0 && used >= burst
	}
	turnOn := len(f.TurnServers) > 0 && f.TurnSecret != ""
	allGrammar := true
	for _, sp := range f.spellings {
		if sp == nil {
			allGrammar = false
		}
	}
	peerN := 0
	nextPeer := func() string {
		peerN++
		p := c16peers[r.Intn(len(c16peers))]
		return fmt.Sprintf("%s#%d.%d", p, gi, peerN) // distinct ids
	}
	// class of a CreateSession failure: ask the server directly what it answers
	// (only done once a violation is certain; it costs one more session)
	createFailureClass := func(maxr int) string {
		u := srv.base + "/session"
		if maxr > 0 {
			u += fmt.Sprintf("?max_receivers=%d", maxr)
		}
		resp, err := http.Post(u, "application/json", nil)
		if err != nil {
			return "transport"
		}
		body, _ := io.ReadAll(resp.Body)
		resp.Body.Close()
		if resp.StatusCode != http.StatusCreated {
			return fmt.Sprintf("status=%d", resp.StatusCode)
		}
		var m map[string]any
		if json.Unmarshal(body, &m) != nil {
			return "decode:not-json"
		}
		if _, ok := m["expires_at"]; !ok && f.Timeout == 0 {
			return "session-timeout=0" // a good answer without expires_at that the client cannot decode
		}
		return "decode"
	}

	doCreate := func(maxr int, canonical bool) bool {
		if bucketFull(f.SessRate, f.SessBurst, createUsed) && f.SessRate > 2 {
			return false
		}
		ctx, cancel := context.WithTimeout(context.Background(), 10*time.Second)
		sid, code, exp, err := clienthttp.CreateSession(ctx, srv.base, maxr)
		cancel()
		if f.SessRate > 0 && !(maxr > 0 && f.MaxRecv > 0 && maxr > f.MaxRecv) {
			createUsed++
		}
		ops = append(ops, fmt.Sprintf("C16.OCreate %s", hx.Z(int64(maxr))))
		obs = append(obs, fmt.Sprintf("C16.BCreate %s %s", hx.B(err == nil), hx.B(err == nil && !exp.IsZero())))
		names = append(names, fmt.Sprintf("CreateSession(maxr=%d) -> ok=%v", maxr, err == nil))
		if err == nil {
			sessions = append(sessions, sess{code})
			if sid == "" || len(code) != 8 {
				rep.Violate("create-session:fields", fmt.Sprintf("CreateSession returned session_id=%q join_code=%q with %s", sid, code, f.summary()), desc)
			}
			if (f.Timeout > 0) == exp.IsZero() {
				rep.Violate("create-session:expiry", fmt.Sprintf("session-timeout=%s but CreateSession returned expiresAt=%v", f.Timeout, exp), desc)
			}
		} else if canonical && f.permits(maxr) {
			rep.Violate("create-session:"+createFailureClass(maxr), fmt.Sprintf("a host cannot create a session on a server started with %s: %v", f.summary(), err),
				map[string]any{"flags": f.summary(), "args": f.args(), "step": fmt.Sprintf("clienthttp.CreateSession(url, %d)", maxr)})
		}
		return err == nil
	}
	doCreateRaw := func(raw string) {
		if bucketFull(f.SessRate, f.SessBurst, createUsed) && f.SessRate > 2 {
			return
		}
		u := srv.base + "/session"
		if raw != "" {
			u += "?max_receivers=" + url.QueryEscape(raw)
		}
		resp, err := http.Post(u, "application/json", nil)
		if err != nil {
			rep.Violate("create-session:transport", err.Error(), desc)
			return
		}
		body, _ := io.ReadAll(resp.Body)
		resp.Body.Close()
		var m map[string]any
		json.Unmarshal(body, &m)
		_, hasExp := m["expires_at"]
		st := 0
		if raw != "" {
			if v, err := strconv.Atoi(raw); err != nil || v < 1 {
				st = 400
			} else if f.MaxRecv > 0 && v > f.MaxRecv {
				st = 429
			}
		}
		if st == 0 && f.SessRate > 0 {
			createUsed++
		}
		if resp.StatusCode == 201 {
			code, _ := m["join_code"].(string)
			sessions = append(sessions, sess{code})
		}
		ops = append(ops, fmt.Sprintf("C16.OCreateRaw %s", hx.Str(raw)))
		obs = append(obs, fmt.Sprintf("C16.BCreateRaw %d %s", resp.StatusCode, hx.B(hasExp)))
		names = append(names, fmt.Sprintf("POST /session?max_receivers=%q -> %d", raw, resp.StatusCode))
	}
	// returns true when connected
	doConnect := func(si int, join, peer, role string, maxr int, expectOK bool) bool {
		if bucketFull(f.ConnRate, f.ConnBurst, connUsed) && f.ConnRate > 2 {
			return false
		}
		wsURL, err := app.VerifBuildWebSocketURL(srv.base, join, peer, role, maxr)
		if err != nil {
			rep.Violate("ws-url:error", err.Error(), desc)
			return false
		}
		var c *c16conn
		if expectOK {
			c = c16dialReal(wsURL)
		} else {
			c = c16dialPlain(wsURL)
		}
		c.peer = peer
		conns = append(conns, c)
		// did the request reach the rate limiter?  (mirrors the handler's order of checks)
		reached := join != "" && si >= 0 && peer != "" && (role == "sender" || role == "receiver")
		if reached && role == "sender" && maxr > 0 && f.MaxRecv > 0 && maxr > f.MaxRecv {
			reached = false
		}
		if reached && f.ConnRate > 0 {
			connUsed++
		}
		user, pass := "", ""
		credsTerm := "None"
		if c.creds != nil {
			var us []string
			for _, s := range c.creds.Servers {
				us = append(us, hx.Str(s))
			}
			credsTerm = "(Some " + hx.List(us) + ")"
			if len(c.creds.Servers) > 0 {
				if e, err := ice.VerifParseTurnServer(c.creds.Servers[0]); err == nil {
					user, pass = e.Username, e.Password
				} else if u, err := url.Parse(c.creds.Servers[0]); err == nil && u.User != nil {
					user = u.User.Username()
					pass, _ = u.User.Password()
				}
			}
		}
		sessTerm := "None"
		if si >= 0 {
			sessTerm = fmt.Sprintf("(Some %d%%nat)", si)
		}
		ops = append(ops, fmt.Sprintf("C16.OConnect %s %s %s %s %s %s %s", sessTerm, hx.Str(join), hx.Str(peer), hx.Str(role), hx.Z(int64(maxr)), hx.Str(user), hx.Str(pass)))
		obs = append(obs, fmt.Sprintf("C16.BConnect %d %s", c.status, credsTerm))
		names = append(names, fmt.Sprintf("connect(session %d, peer %q, %s, maxr=%d) -> %d creds=%v", si, peer, role, maxr, c.status, c.creds != nil))
		replay := map[string]any{"flags": f.summary(), "args": f.args(), "script": append([]string{}, names...), "url": wsURL}
		if expectOK && c.status != 101 {
			rep.Violate(fmt.Sprintf("connect:%s:status=%d", role, c.status), fmt.Sprintf("%s cannot connect (status %d) to a server started with %s using %q", role, c.status, f.summary(), wsURL), replay)
		}
		if c.status == 101 {
			// relay credentials
			if turnOn && allGrammar && c.creds == nil {
				rep.Violate("turn-creds:missing", fmt.Sprintf("TURN issuing is on (%v) but %s %q received no credentials", f.TurnServers, role, peer), replay)
			}
			if !turnOn && c.creds != nil {
				rep.Violate("turn-creds:unexpected", fmt.Sprintf("TURN issuing is off (%s) but credentials were sent", f.note), replay)
			}
			if c.creds != nil && allGrammar {
				if len(c.creds.Servers) != len(f.TurnServers) {
					rep.Violate("turn-creds:count", fmt.Sprintf("%d servers configured, %d credential URLs sent", len(f.TurnServers), len(c.creds.Servers)), replay)
				} else {
					ttl := f.TurnTTL
					if ttl <= 0 {
						ttl = time.Hour
					}
					for k, cu := range c.creds.Servers {
						e, err := ice.VerifParseTurnServer(cu)
						if err != nil {
							if f.spellings[k].intended() != nil {
								rep.Violate("turn-roundtrip:parse-error", fmt.Sprintf("parseTurnServer(%q): %v", cu, err), replay)
							}
							continue
						}
						ts, pid, found := strings.Cut(e.Username, ":")
						exp, perr := strconv.ParseInt(ts, 10, 64)
						if !found || perr != nil || pid != peer {
							rep.Violate("turn-roundtrip:user", fmt.Sprintf("peer %q got credentials whose user parses to %q (want <expiry>:%s)", peer, e.Username, peer), replay)
							continue
						}
						lo, hi := c.t0.Add(ttl).Unix()-2, c.t1.Add(ttl).Unix()+2
						if exp < lo || exp > hi {
							rep.Violate("turn-creds:expiry", fmt.Sprintf("credential expiry %d outside [%d,%d] for ttl %s", exp, lo, hi, ttl), replay)
						}
						c16checkCred(rep, f.spellings[k], f.TurnServers[k], true, cu, e.Username, c16restPassword(f.TurnSecret, e.Username), replay)
					}
				}
			}
		}
		return c.status == 101
	}

	// the canonical session: a host creates, both roles connect
	maxr := r.Pick(0, 0, 1, 1, 2, 4, 4, 10)
	if f.noArgs {
		maxr = 4
	}
	canon := f.permits(maxr)
	created := doCreate(maxr, true)
	if created {
		si := len(sessions) - 1
		s := doConnect(si, sessions[si].code, nextPeer(), "sender", maxr, canon)
		rc := doConnect(si, sessions[si].code, nextPeer(), "receiver", 0, canon)
		if s && rc {
			rep.Nontrivial("cfg:" + f.summary())
			// "clients work": connected is not enough - both roles must be able to signal
			// each other and stay connected while they do (offer / answer go through the
			// server; a transfer is negotiated over several such messages with pauses)
			hostC, recvC := conns[len(conns)-2], conns[len(conns)-1]
			// (only where the configured message limits admit four small messages in a second)
			// and where both peer ids can be written into a JSON envelope at all: an id that is
			// not valid UTF-8 connects (the URL carries it percent-encoded) but cannot be named
			// in the `to` field - the CLI's own ids are hex strings
			if hostC.ws != nil && recvC.ws != nil && (f.MsgRate == 0 || f.MsgBurst >= 8) && (f.MaxMsg == 0 || f.MaxMsg >= 1024) &&
				utf8.ValidString(hostC.peer) && utf8.ValidString(recvC.peer) {
				exchange := func(from, to *c16conn, tag string) bool {
					id := fmt.Sprintf("work-%s-%d", tag, gi)
					env := protocol.Envelope{V: 1, Type: "offer", MsgID: id, To: to.peer}
					if err := from.ws.Send(env); err != nil {
						return false
					}
					dl := time.Now().Add(5 * time.Second)
					for time.Now().Before(dl) {
						if to.seen(func(e protocol.Envelope) bool { return e.MsgID == id && e.From == from.peer }) {
							return true
						}
						if to.closed() || from.closed() {
							return false
						}
						time.Sleep(3 * time.Millisecond)
					}
					return false
				}
				okAll := true
				var failed string
				for round := 0; round < 2 && okAll; round++ {
					if !exchange(hostC, recvC, fmt.Sprintf("h2r%d", round)) {
						okAll, failed = false, fmt.Sprintf("host -> receiver, round %d", round)
					} else if !exchange(recvC, hostC, fmt.Sprintf("r2h%d", round)) {
						okAll, failed = false, fmt.Sprintf("receiver -> host, round %d", round)
					}
					time.Sleep(150 * time.Millisecond)
				}
				rep.Evaluations++
				rep.Count("signalling-exchange")
				if !okAll || hostC.closed() || recvC.closed() {
					if failed == "" {
						failed = "a socket was closed by the server after the exchange"
					}
					rep.Violate("work:signalling", fmt.Sprintf("host and receiver connected to a server started with %s but cannot keep signalling each other: %s (host socket closed=%v, receiver socket closed=%v)", f.summary(), failed, hostC.closed(), recvC.closed()),
						map[string]any{"flags": f.summary(), "args": f.args(), "script": append([]string{}, names...)})
				}
			}
		}
	}
	// further requests: refusals and limits (correspondence only)
	extra := 2 + r.Intn(5)
	for k := 0; k < extra; k++ {
		switch r.Intn(9) {
		case 0:
			doCreate(r.Pick(0, 1, 3, 11, 1000), false)
		case 1, 2:
			doCreateRaw([]string{"", "0", "-1", "abc", "+2", "1", "2", "11", "99999999999999999999", " 1", "1_0"}[r.Intn(11)])
		case 3:
			doConnect(-1, "NOSUCHCD", nextPeer(), "receiver", 0, false)
		case 4:
			if len(sessions) > 0 {
				si := r.Intn(len(sessions))
				switch r.Intn(3) {
				case 0:
					doConnect(si, sessions[si].code, "", "receiver", 0, false)
				case 1:
					doConnect(si, sessions[si].code, nextPeer(), []string{"", "host", "Sender", "receiver "}[r.Intn(4)], 0, false)
				default:
					doConnect(si, "", nextPeer(), "receiver", 0, false)
				}
			}
		default:
			if len(sessions) > 0 {
				si := r.Intn(len(sessions))
				role := "receiver"
				mr := 0
				if r.Intn(5) == 0 {
					role = "sender"
					mr = r.Pick(0, 1, 2, 11)
				}
				doConnect(si, sessions[si].code, nextPeer(), role, mr, false)
			}
		}
	}
	add(fmt.Sprintf("C16.Scn #ID %s %s %s %s %s", f.coq(), hx.Str("http"), hx.Str(strings.TrimPrefix(srv.base, "http://")), hx.List(parenAll(ops)), hx.List(parenAll(obs))),
		map[string]any{"flags": f.summary(), "args": f.args(), "script": names})
	// a burst of CONCURRENT receiver connects (after the modelled script, so the model is not
	// concerned): every peer that is let in must get relay credentials minted for ITSELF
	if created && turnOn && allGrammar && len(sessions) > 0 {
		si := len(sessions) - 1
		type burst struct {
			peer string
			c    *c16conn
		}
		bs := make([]burst, 8)
		var wg sync.WaitGroup
		for k := range bs {
			bs[k].peer = nextPeer()
			wsURL, err := app.VerifBuildWebSocketURL(srv.base, sessions[si].code, bs[k].peer, "receiver", 0)
			if err != nil {
				continue
			}
			wg.Add(1)
			go func(k int, u string) {
				defer wg.Done()
				bs[k].c = c16dialReal(u)
			}(k, wsURL)
		}
		wg.Wait()
		for _, b := range bs {
			if b.c == nil {
				continue
			}
			conns = append(conns, b.c)
			if b.c.status != 101 || b.c.creds == nil {
				continue
			}
			rep.Count("concurrent-connect-with-credentials")
			for _, cu := range b.c.creds.Servers {
				e, err := ice.VerifParseTurnServer(cu)
				if err != nil {
					continue
				}
				_, pid, _ := strings.Cut(e.Username, ":")
				replay := map[string]any{"flags": f.summary(), "args": f.args(), "concurrent_receivers": len(bs), "peer": b.peer, "credential_url": cu}
				if pid != b.peer {
					rep.Violate("turn-creds:other-peers-credentials", fmt.Sprintf("peer %q connecting concurrently with others received credentials minted for %q", b.peer, pid), replay)
				} else if e.Password != c16restPassword(f.TurnSecret, e.Username) {
					rep.Violate("turn-creds:password", fmt.Sprintf("peer %q: password is not the REST secret of user %q", b.peer, e.Username), replay)
				}
			}
		}
	}
	if gi < 3 {
		rep.Sample(map[string]any{"flags": f.summary(), "script": names})
	}
}

func init() { runners["C16"] = runC16 }

package main

import (
	"fmt"
	"os"
	"path/filepath"
	"time"

	"github.com/sheerbytes/sheerbytes/verifharness/internal/hx"
)

// C01 / C03: real SendManifestMultiStream <-> real RecvManifestMultiStream on
// generated trees over the in-memory transport, in mock-like and QUIC-like
// stream-visibility modes, with a watchdog.

type c01case struct {
	seed     uint64
	cs       int
	streams  int
	resume   bool
	quicLike bool
	maxFiles int
}

func (c c01case) String() string {
	return fmt.Sprintf("seed=%d cs=%d streams=%d resume=%v quic=%v maxFiles=%d", c.seed, c.cs, c.streams, c.resume, c.quicLike, c.maxFiles)
}

type c01outcome struct {
	res     xferResult
	diff    []string
	nfiles  int
	nchunks int
}

func runC01case(base string, c c01case, timeout time.Duration) c01outcome {
	r := hx.NewRand(c.seed)
	tree := genTree(r, c.cs, c.maxFiles)
	dir := filepath.Join(base, fmt.Sprintf("case%d", c.seed))
	src := filepath.Join(dir, "src", "root")
	out := filepath.Join(dir, "out")
	os.RemoveAll(dir)
	defer os.RemoveAll(dir)
	if err := tree.materialise(src); err != nil {
		panic(err)
	}
	os.MkdirAll(out, 0755)
	res := runXfer(src, out, xferCfg{chunkSize: c.cs, streams: c.streams, resume: c.resume, quicLike: c.quicLike, timeout: timeout})
	o := c01outcome{res: res, nfiles: len(tree.files)}
	for _, f := range tree.files {
		o.nchunks += (len(f.data) + c.cs - 1) / c.cs
	}
	if res.sendDone && res.recvDone && res.sendErr == nil && res.recvErr == nil {
		sd, _ := digestTree(src)
		dd, _ := digestTree(out)
		o.diff = diffTrees(sd, dd)
	}
	return o
}

func runC01(cfg config) *hx.Report {
	rep := hx.NewReport("C01")
	rep.Rule = "generated trees (0-10 files, sizes around k*chunk +-1, empty files, empty dirs, nesting, odd names) x chunk sizes {1,3,16,4096} x 1-8 streams x resume on/off x stream visibility {at open (mock-like), at first byte (QUIC-like)}; real sender and receiver over the in-memory transport; non-trivial = at least 2 files or a multi-chunk file; distinct by (tree seed, config)"
	rng := hx.NewRand(cfg.seed)
	base, _ := os.MkdirTemp("", "c01")
	defer os.RemoveAll(base)
	n := 120
	if cfg.tier == "thorough" {
		n = 1500
	}
	for i := 0; i < n; i++ {
		c := c01case{seed: rng.U64() % 1000000, cs: rng.Pick(1, 3, 16, 4096), streams: 1 + rng.Intn(8), resume: rng.Bool(), quicLike: rng.Intn(3) == 0, maxFiles: rng.Pick(0, 1, 2, 4, 10)}
		if c.cs == 1 {
			c.maxFiles = rng.Pick(0, 1, 3)
		}
		o := runC01case(base, c, 6*time.Second)
		rep.Evaluations++
		kind := "mock-like"
		if c.quicLike {
			kind = "quic-like"
		}
		rep.Count(kind)
		if o.nfiles >= 2 || o.nchunks >= 2 {
			rep.Nontrivial(c.String())
		}
		switch {
		case !o.res.sendDone || !o.res.recvDone:
			sig := "hang"
			if c.quicLike {
				sig = "hang:stream-gating"
			}
			rep.Violate(sig, fmt.Sprintf("no result after 6 s (sender returned: %v, receiver returned: %v) files=%d chunks=%d %s", o.res.sendDone, o.res.recvDone, o.nfiles, o.nchunks, c), map[string]any{"case": c.String()})
			rep.Count("hang")
		case o.res.sendErr != nil || o.res.recvErr != nil:
			rep.Violate("healthy-transfer-failed", fmt.Sprintf("sender=%v receiver=%v files=%d %s", o.res.sendErr, o.res.recvErr, o.nfiles, c), map[string]any{"case": c.String()})
			rep.Count("failed")
		case len(o.diff) > 0:
			rep.Violate("tree-differs", fmt.Sprintf("%v %s", o.diff, c), map[string]any{"case": c.String()})
		default:
			rep.Count("ok")
		}
		if i < 4 {
			rep.Sample(map[string]any{"case": c.String(), "files": o.nfiles, "chunks": o.nchunks, "ms": o.res.dur.Milliseconds()})
		}
	}
	return rep
}

func init() { runners["C01"] = runC01 }

package main

import (
	"context"
	"fmt"
	"os"
	"path/filepath"
	"time"

	"github.com/sheerbytes/sheerbytes/internal/transfer"
	"github.com/sheerbytes/sheerbytes/verifharness/internal/hx"
)

// C01 / C03: the real SendManifestMultiStream <-> the real RecvManifestMultiStream on
// generated trees: over the in-memory transport (stream visibility as in the
// repository's mock or as in QUIC, 1-3 connections through NewMultiConn) and over
// REAL loopback QUIC (1-2 connections), both root-directory modes, resume on/off
// (including a second run over the finished tree), with a watchdog.  The oracle
// is the property: both sides report success => the output directory is exactly
// the hosted tree (paths, empty directories, zero-length files, bytes) plus the
// tool's resume-metadata directory and nothing else; for C03 a healthy run that
// fails or does not return is itself the violation.

type c01case struct {
	seed      uint64
	cs        int
	streams   int
	conns     int
	resume    bool
	quicLike  bool
	realQUIC  bool
	rootDir   bool
	leftover  bool // the output directory already holds files of the same names with other content
	prior     int  // >0: an earlier fetch of the same tree, made with this chunk size, was interrupted: part of every file and honest metadata are in the output directory
	wrongKind bool // ... and entries of the other kind: a file where a directory goes, a directory where a file goes (C01 only: such a transfer may fail, it may not succeed wrongly)
	twice     bool // fetch the same tree a second time into the same output (everything already there)
	maxFiles  int
}

func (c c01case) String() string {
	return fmt.Sprintf("seed=%d cs=%d streams=%d conns=%d resume=%v quicLike=%v realQUIC=%v rootDir=%v twice=%v leftover=%v wrongKind=%v prior=%d maxFiles=%d",
		c.seed, c.cs, c.streams, c.conns, c.resume, c.quicLike, c.realQUIC, c.rootDir, c.twice, c.leftover, c.wrongKind, c.prior, c.maxFiles)
}

type c01outcome struct {
	res     xferResult
	diff    []string
	nfiles  int
	nchunks int
	setup   error
}

func runC01case(base string, c c01case, timeout time.Duration, env *c08env) c01outcome {
	r := hx.NewRand(c.seed)
	tree := genTree(r, c.cs, c.maxFiles)
	dir := filepath.Join(base, fmt.Sprintf("case%d", c.seed))
	src := filepath.Join(dir, "src", "root")
	out := filepath.Join(dir, "out")
	os.RemoveAll(dir)
	defer os.RemoveAll(dir)
	if err := tree.materialise(src); err != nil {
		panic(err)
	}
	os.MkdirAll(out, 0755)
	cfg := xferCfg{chunkSize: c.cs, streams: c.streams, resume: c.resume, quicLike: c.quicLike, conns: c.conns, rootDir: c.rootDir, timeout: timeout}
	o := c01outcome{nfiles: len(tree.files)}
	for _, f := range tree.files {
		o.nchunks += (len(f.data) + c.cs - 1) / c.cs
	}
	if c.leftover {
		// the output directory is not empty: files of the same names are lying there already
		// (an older copy, an aborted download of something else), without any metadata
		dst := out
		if c.rootDir {
			dst = filepath.Join(out, "root")
		}
		lr := hx.NewRand(c.seed ^ 0x1ef7)
		for _, f := range tree.files {
			var junk []byte
			switch lr.Intn(4) {
			case 0:
				continue
			case 1:
				junk = lr.Bytes(len(f.data))
			case 2:
				junk = lr.Bytes(len(f.data) + 1 + lr.Intn(2*c.cs))
			default:
				junk = lr.Bytes(lr.Intn(len(f.data) + 1))
			}
			for j := range junk {
				junk[j] |= 1 // never a zero byte: whatever is not overwritten shows
			}
			fp := filepath.Join(dst, filepath.FromSlash(f.rel))
			os.MkdirAll(filepath.Dir(fp), 0755)
			os.WriteFile(fp, junk, 0644)
		}
	}
	if c.prior > 0 && c.resume && !c.rootDir {
		seedPrior(src, out, c.prior, hx.NewRand(c.seed^0x5eed))
	}
	if c.wrongKind {
		dst := out
		if c.rootDir {
			dst = filepath.Join(out, "root")
		}
		wr := hx.NewRand(c.seed ^ 0x77a1)
		for _, d := range tree.dirs {
			if wr.Intn(2) == 0 {
				fp := filepath.Join(dst, filepath.FromSlash(d))
				os.MkdirAll(filepath.Dir(fp), 0755)
				os.WriteFile(fp, []byte("a file, not a dir"), 0644)
			}
		}
		for _, f := range tree.files {
			if wr.Intn(6) == 0 {
				fp := filepath.Join(dst, filepath.FromSlash(f.rel))
				os.Remove(fp)
				os.MkdirAll(fp, 0755)
			}
		}
	}
	rounds := 1
	if c.twice {
		rounds = 2
	}
	for round := 0; round < rounds; round++ {
		if round == 1 && c.seed%3 != 0 {
			// the hosted tree changed between the two fetches: some files are now shorter
			// (across chunks, to an exact multiple, to nothing), longer, or have other bytes;
			// the output directory still holds the first version
			for i := range tree.files {
				f := &tree.files[i]
				var nd []byte
				switch r.Intn(7) {
				case 0:
					continue
				case 1:
					nd = append([]byte{}, f.data[:r.Intn(len(f.data)+1)]...)
				case 2:
					k := len(f.data) / c.cs
					if k > 0 {
						k = r.Intn(k + 1)
					}
					nd = append([]byte{}, f.data[:k*c.cs]...)
				case 3:
					nd = nil
				case 4:
					nd = append(append([]byte{}, f.data...), r.Bytes(1+r.Intn(2*c.cs))...)
				case 5:
					// same length, whole chunks blanked (a hole punched into an image)
					nd = append([]byte{}, f.data...)
					if n := len(nd) / c.cs; n > 0 {
						k := r.Intn(n)
						for j := k * c.cs; j < (k+1+r.Intn(n-k))*c.cs; j++ {
							nd[j] = 0
						}
					}
				default:
					nd = r.Bytes(len(f.data))
				}
				f.data = nd
				fp := filepath.Join(src, filepath.FromSlash(f.rel))
				os.WriteFile(fp, nd, 0644)
				// an edit is visible in the modification time (the manifest identifies a file
				// by path, size and mtime in seconds; a same-size edit within the same second
				// is outside what the tool can notice)
				when := time.Now().Add(time.Duration(3+i) * time.Second)
				os.Chtimes(fp, when, when)
			}
		}
		if round == 1 && c.seed%2 == 0 {
			// the second fetch may come with another chunk size (the sender chooses it per run):
			// resume metadata recorded for the first geometry must not be applied to the second
			cfg.chunkSize = c.cs*2 + 1
		}
		if c.realQUIC {
			q := runQUIC(src, out, cfg, c.conns, env)
			if q.setup != nil {
				o.setup = q.setup
				return o
			}
			o.res = q.res
		} else {
			o.res = runXfer(src, out, cfg)
		}
		if !(o.res.sendDone && o.res.recvDone && o.res.sendErr == nil && o.res.recvErr == nil) {
			return o
		}
	}
	sd, _ := digestTree(src)
	got := out
	if c.rootDir {
		got = filepath.Join(out, "root")
	}
	dd, _ := digestTree(got)
	o.diff = diffTrees(sd, dd)
	if c.rootDir {
		// nothing but <out>/root (and the metadata directory) may have appeared in <out>
		ents, _ := os.ReadDir(out)
		for _, e := range ents {
			if e.Name() != "root" && e.Name() != ".thruflux_resumedata" {
				o.diff = append(o.diff, "extra "+e.Name()+" beside the root directory")
			}
		}
	}
	return o
}

// runQUIC runs one transfer over real loopback QUIC sessions (conns of them,
// combined by NewMultiConn when more than one).
func runQUIC(src, out string, cfg xferCfg, conns int, env *c08env) c01outcome {
	var o c01outcome
	if conns < 1 {
		conns = 1
	}
	ctx, cancel := context.WithTimeout(context.Background(), 10*time.Second)
	var sc, rc []transfer.Conn
	var cleanups []func()
	for i := 0; i < conns; i++ {
		s, err := env.session(ctx)
		if err != nil {
			cancel()
			for _, f := range cleanups {
				f()
			}
			o.setup = err
			return o
		}
		// the hosting side accepts, the joining side dials (as in the application)
		sc, rc = append(sc, s.acceptor), append(rc, s.dialer)
		cleanups = append(cleanups, s.cleanup)
	}
	cancel()
	sconn, rconn := sc[0], rc[0]
	if conns > 1 {
		sconn, _ = transfer.NewMultiConn(sc)
		rconn, _ = transfer.NewMultiConn(rc)
	}
	o.res = runXferOn(src, out, sconn, rconn, cfg,
		func(sender, graceful bool) {
			if sender {
				if graceful {
					// the sender has finished: give the receiver a moment to drain, as the application does
					time.Sleep(20 * time.Millisecond)
				}
				sconn.Close()
			} else {
				rconn.Close()
			}
		},
		func() { sconn.Close(); rconn.Close() })
	for _, f := range cleanups {
		f()
	}
	return o
}

func c01cases(rng *hx.Rand, n int, quicShare int) []c01case {
	var cs []c01case
	for i := 0; i < n; i++ {
		c := c01case{seed: rng.U64() % 1000000, cs: rng.Pick(1, 3, 16, 4096), streams: 1 + rng.Intn(8), conns: rng.Pick(1, 1, 2, 3),
			resume: rng.Bool(), quicLike: rng.Intn(3) == 0, rootDir: rng.Intn(3) == 0, maxFiles: rng.Pick(0, 1, 2, 4, 10)}
		if c.cs == 1 {
			c.maxFiles = rng.Pick(0, 1, 3)
		}
		c.twice = rng.Intn(4) == 0
		c.leftover = rng.Intn(4) == 0
		if c.resume && !c.rootDir && !c.leftover && rng.Intn(3) == 0 {
			c.prior = []int{c.cs, c.cs*2 + 1, c.cs + 1}[rng.Intn(3)]
		}
		if quicShare > 0 && i%quicShare == 0 {
			c.realQUIC, c.quicLike = true, false
			c.conns = rng.Pick(1, 1, 2)
			if c.cs == 1 {
				c.cs = 3
			}
		}
		cs = append(cs, c)
	}
	return cs
}

// runTransfers runs the matrix and reports per the given property's reading.
func runTransfers(cfg config, rep *hx.Report, prop string, n int, quicShare int) {
	rng := hx.NewRand(cfg.seed).Fork(11)
	base, _ := os.MkdirTemp("", "c01")
	defer os.RemoveAll(base)
	env, err := newC08env()
	if err != nil {
		rep.Notes = append(rep.Notes, "loopback QUIC unavailable: "+err.Error())
		quicShare = 0
	} else {
		defer env.close()
	}
	hangs := 0
	for i, c := range c01cases(rng, n, quicShare) {
		if prop == "C01" && i%8 == 3 {
			c.wrongKind = true
		}
		if hangs >= 4 || tooManyHangs(rep) {
			rep.Count("skipped-after-hangs")
			continue
		}
		o := runC01case(base, c, 8*time.Second, env)
		if o.setup == nil && (!o.res.sendDone || !o.res.recvDone) {
			hangs++
		}
		rep.Evaluations++
		kind := "memnet:mock-like"
		if c.quicLike {
			kind = "memnet:quic-like"
		}
		if c.realQUIC {
			kind = "loopback-quic"
		}
		rep.Count(kind)
		rep.Count(fmt.Sprintf("conns:%d", c.conns))
		if c.twice {
			rep.Count("second-fetch")
		}
		if c.leftover {
			rep.Count("leftover-output-files")
		}
		if c.wrongKind {
			rep.Count("leftover-entries-of-the-other-kind")
		}
		if c.prior > 0 && c.resume && !c.rootDir {
			rep.Count("resumed-from-an-interrupted-fetch")
			if c.prior != c.cs {
				rep.Count("resumed-from-an-interrupted-fetch-with-another-chunk-size")
			}
		}
		if c.rootDir {
			rep.Count("root-dir-mode")
		}
		if o.nfiles >= 2 || o.nchunks >= 2 {
			rep.Nontrivial(c.String())
		}
		desc := map[string]any{"case": c.String(), "files": o.nfiles, "chunks": o.nchunks}
		switch {
		case o.setup != nil:
			rep.Count("setup-failed")
			rep.Notes = append(rep.Notes, "QUIC session setup failed: "+o.setup.Error())
		case !o.res.sendDone || !o.res.recvDone:
			rep.Count("hang")
			if prop == "C03" {
				rep.Violate("hang:"+kind, fmt.Sprintf("healthy transfer: no result after 8 s (sender returned: %v, receiver returned: %v) files=%d chunks=%d %s", o.res.sendDone, o.res.recvDone, o.nfiles, o.nchunks, c), desc)
			}
		case o.res.sendErr != nil || o.res.recvErr != nil:
			rep.Count("failed")
			if prop == "C03" {
				rep.Violate("healthy-transfer-failed:"+kind, fmt.Sprintf("sender=%v receiver=%v files=%d %s", o.res.sendErr, o.res.recvErr, o.nfiles, c), desc)
			}
		case len(o.diff) > 0:
			rep.Count("tree-differs")
			if prop == "C01" {
				rep.Violate("tree-differs:"+kind, fmt.Sprintf("both sides reported success but: %v %s", o.diff, c), desc)
			}
		default:
			rep.Count("ok")
		}
		if i < 4 {
			rep.Sample(map[string]any{"case": c.String(), "files": o.nfiles, "chunks": o.nchunks, "ms": o.res.dur.Milliseconds()})
		}
	}
}

func runC01(cfg config) *hx.Report {
	rep := hx.NewReport("C01")
	rep.Rule = "generated trees (0-10 files, sizes around k*chunk +-1, empty files, empty dirs, nesting, odd names) x chunk sizes {1,3,16,4096} x 1-8 streams x 1-3 connections x resume on/off (a third of the resumed runs start from what an interrupted earlier fetch left, made with the same or another chunk size) x (a second fetch over the finished tree, the source edited in between: shortened, grown, rewritten, whole chunks blanked) x (output directory already holding files of the same names with other content; for C01 also a file where an empty directory goes or a directory where a file goes - such a transfer may fail but not succeed wrongly)  x root-directory mode x transport {in-memory with stream visibility at open, in-memory with QUIC-like visibility, real loopback QUIC}; real sender and receiver; non-trivial = at least 2 files or a multi-chunk file; distinct by (tree seed, configuration).  Plus honest stepped-receiver histories for the model correspondence"
	n, share := 400, 5
	if cfg.tier == "thorough" {
		n, share = 2500, 4
	}
	runTransfers(cfg, rep, "C01", n, share)
	// the receiver model's tie (honest programs only; C02 runs the faulty and hostile ones)
	cf := &hx.CasesFile{Dir: cfg.out, Name: "recv", Module: "C02", Imports: []string{"Model.Recv", "Corr.C02"}, PerShard: 150}
	nr := 150
	if cfg.tier == "thorough" {
		nr = 2000
	}
	runC02recvModes(cfg, rep, cf, nr, []string{"honest"})
	cf.Close()
	return rep
}

func init() { runners["C01"] = runC01 }

package main

import (
	"context"
	"encoding/binary"
	"fmt"
	"io"
	"os"
	"path/filepath"
	"sort"
	"sync"
	"time"

	"github.com/sheerbytes/sheerbytes/internal/transfer"
	"github.com/sheerbytes/sheerbytes/pkg/manifest"
	"github.com/sheerbytes/sheerbytes/verifharness/internal/hx"
	"github.com/sheerbytes/sheerbytes/verifharness/internal/memnet"
)

// C17, whole sends: the REAL SendManifestMultiStream with its real workers and
// the real hybrid scheduler against a recording receiver.  The receiver parses
// every control record and every data frame, acknowledges each FileEnd after a
// scripted delay / in a scripted order (so the file slots free up in many
// orders, also all at once and newest first), and the property is evaluated on
// what went over the wire: every file begun exactly once, every chunk of every
// file sent exactly once with the right length and bytes (or, with a resume
// report, at most once and only omitted where the report marked it present), one
// FileEnd per file and only after every frame of that file had been written.

type dispCase struct {
	id       int
	nfiles   int
	cs       int
	streams  int
	smallT   int64
	medT     int64
	frac     float64
	ack      string // immediate | delayed | hold-all | newest-first
	resume   bool   // answer ResumeRequests with a report (bitmap of chunks "already present")
	verify   bool   // ... whose highest chunk may come with a hash that fails the sender\'s verification
	tail     int    // the sender\'s ResumeVerifyTail
	quicLike bool
}

type dispFrame struct {
	key    uint64
	idx    uint32
	length uint32
	stream int
	end    int64 // offset in its stream right after the frame
	okData bool
}

type dispOutcome struct {
	returned bool
	err      error
	begins   []uint64
	ends     []uint64
	frames   []dispFrame
	endMark  map[uint64]map[uint64]int64 // key -> bytes the sender had written per stream (by stream id) when its FileEnd was read
	reported map[uint64][]byte           // key -> bitmap reported as present
	verified map[uint64]uint32           // key -> chunk reported as last verified WITH A WRONG HASH (must be sent again)
	problems []string
}

func runDispCase(base string, c dispCase, rng *hx.Rand) (dispOutcome, map[uint64]manifest.FileItem, map[uint64][]byte) {
	dir := filepath.Join(base, fmt.Sprintf("d%d", c.id))
	src := filepath.Join(dir, "src")
	os.RemoveAll(dir)
	defer os.RemoveAll(dir)
	os.MkdirAll(src, 0755)
	content := map[string][]byte{}
	for i := 0; i < c.nfiles; i++ {
		var size int
		switch rng.Intn(7) {
		case 6:
			size = c.cs*(57+rng.Intn(90)) + rng.Intn(c.cs) // a bitmap longer than a machine word
		case 0:
			size = 0
		case 1:
			size = c.cs * (1 + rng.Intn(3)) // exact multiple
		case 2:
			size = 1 + rng.Intn(c.cs)
		default:
			size = rng.Intn(5*c.cs + 2)
		}
		name := fmt.Sprintf("f%02d.bin", i)
		if i%3 == 2 {
			name = fmt.Sprintf("sub/f%02d.bin", i)
			os.MkdirAll(filepath.Join(src, "sub"), 0755)
		}
		data := rng.Bytes(size)
		content[name] = data
		os.WriteFile(filepath.Join(src, filepath.FromSlash(name)), data, 0644)
	}
	m, err := manifest.Scan(src)
	if err != nil {
		panic(err)
	}
	items := map[uint64]manifest.FileItem{}
	data := map[uint64][]byte{}
	for _, it := range m.Items {
		if !it.IsDir {
			k := transfer.VerifFileKey(it)
			items[k] = it
			rel := it.RelPath
			// manifest paths are rooted at the scanned directory's name
			for name, d := range content {
				if rel == name || (len(rel) > len(name) && rel[len(rel)-len(name)-1:] == "/"+name) {
					data[k] = d
				}
			}
		}
	}
	out := dispOutcome{endMark: map[uint64]map[uint64]int64{}, reported: map[uint64][]byte{}, verified: map[uint64]uint32{}}
	a, b := memnet.Pair(memnet.Mode{VisibleAtOpen: !c.quicLike})
	ctx, cancel := context.WithCancel(context.Background())
	defer cancel()
	so := transfer.Options{ChunkSize: uint32(c.cs), ParallelFiles: c.streams, Resume: c.resume, HashAlg: "crc32c",
		SmallThreshold: c.smallT, MediumThreshold: c.medT, SmallSlotFrac: c.frac, ResumeVerifyTail: uint32(c.tail)}
	ret := make(chan error, 1)
	go func() { ret <- transfer.SendManifestMultiStream(ctx, tconn{a}, src, m, so) }()

	var mu sync.Mutex
	var dataStreams []*memnet.Stream
	problem := func(f string, x ...any) {
		mu.Lock()
		out.problems = append(out.problems, fmt.Sprintf(f, x...))
		mu.Unlock()
	}
	readFrames := func(idx int, s *memnet.Stream) {
		hdr := make([]byte, 20)
		var off int64
		for {
			if _, err := io.ReadFull(s, hdr); err != nil {
				return
			}
			fr := dispFrame{key: binary.BigEndian.Uint64(hdr[0:8]), idx: binary.BigEndian.Uint32(hdr[8:12]), length: binary.BigEndian.Uint32(hdr[12:16]), stream: idx}
			if fr.length > 1<<24 {
				problem("frame with absurd length %d on data stream %d", fr.length, idx)
				return
			}
			payload := make([]byte, fr.length)
			if _, err := io.ReadFull(s, payload); err != nil {
				return
			}
			off += 20 + int64(fr.length)
			fr.end = off
			if d, ok := data[fr.key]; ok {
				lo := int64(fr.idx) * int64(c.cs)
				hi := lo + int64(fr.length)
				fr.okData = lo <= int64(len(d)) && hi <= int64(len(d)) && string(d[lo:hi]) == string(payload)
			}
			mu.Lock()
			out.frames = append(out.frames, fr)
			mu.Unlock()
		}
	}
	recvDone := make(chan struct{})
	go func() {
		defer close(recvDone)
		ctl, err := b.AcceptStream(context.Background())
		if err != nil {
			return
		}
		// every further stream is a data stream
		go func() {
			for {
				s, err := b.AcceptStream(context.Background())
				if err != nil {
					return
				}
				mu.Lock()
				dataStreams = append(dataStreams, s)
				mu.Unlock()
				go readFrames(int(s.StreamID()), s)
			}
		}()
		var wmu sync.Mutex
		send := func(msg any) {
			rec, err := transfer.VerifEncodeControl(msg)
			if err != nil {
				problem("cannot encode %T: %v", msg, err)
				return
			}
			wmu.Lock()
			ctl.Write(rec)
			wmu.Unlock()
		}
		// acknowledgements: a pool of FileEnds waiting for their FileDone
		var pending []uint64
		var pmu sync.Mutex
		stopAck := make(chan struct{})
		defer close(stopAck)
		arng := rng.Fork(uint64(c.id))
		var armu sync.Mutex
		pick := func(n int) int { armu.Lock(); defer armu.Unlock(); return arng.Intn(n) }
		ackOne := func(newest bool) {
			pmu.Lock()
			if len(pending) == 0 {
				pmu.Unlock()
				return
			}
			i := pick(len(pending))
			if newest {
				i = len(pending) - 1
			}
			k := pending[i]
			pending = append(pending[:i], pending[i+1:]...)
			pmu.Unlock()
			send(transfer.FileDone{StreamID: k, OK: true})
		}
		go func() {
			idle := 0
			last := -1
			for {
				select {
				case <-stopAck:
					return
				case <-time.After(time.Millisecond):
				}
				pmu.Lock()
				n := len(pending)
				pmu.Unlock()
				if n == 0 {
					idle = 0
					continue
				}
				switch c.ack {
				case "immediate":
					ackOne(false)
				case "delayed":
					if pick(4) == 0 {
						ackOne(false)
					}
				default: // hold-all / newest-first: wait until no further FileEnd arrives (all slots blocked), then release
					if n == last {
						idle++
					} else {
						idle = 0
					}
					last = n
					if n >= c.streams || idle >= 25 {
						for j := 0; j < n; j++ {
							ackOne(c.ack == "newest-first")
						}
						idle, last = 0, -1
					}
				}
			}
		}()
		var buf []byte
		tmp := make([]byte, 8192)
		fill := func() bool {
			n, err := ctl.Read(tmp)
			buf = append(buf, tmp[:n]...)
			return err == nil || n > 0
		}
		for {
			if _, used, err := transfer.VerifReadControlHeader(buf); err == nil {
				buf = buf[used:]
				break
			}
			if !fill() {
				return
			}
		}
		for {
			typ, msg, used, err := transfer.VerifDecodeControl(buf)
			if err != nil || used == 0 {
				if !fill() {
					return
				}
				continue
			}
			buf = buf[used:]
			switch typ {
			case transfer.VerifTypeFileBegin:
				fb := msg.(transfer.FileBegin)
				mu.Lock()
				out.begins = append(out.begins, fb.StreamID)
				mu.Unlock()
				if it, ok := items[fb.StreamID]; ok {
					if fb.RelPath != it.RelPath || int64(fb.FileSize) != it.Size || int(fb.ChunkSize) != c.cs {
						problem("FileBegin for key %d says (%q, %d, cs %d), the manifest item is (%q, %d) and the chunk size %d", fb.StreamID, fb.RelPath, fb.FileSize, fb.ChunkSize, it.RelPath, it.Size, c.cs)
					}
				}
			case transfer.VerifTypeResumeRequest:
				rq := msg.(transfer.ResumeRequest)
				it := items[rq.StreamID]
				total := transfer.VerifChunkTotal(it.Size, uint32(c.cs))
				bm := make([]byte, (total+7)/8)
				for i := uint32(0); i < total; i++ {
					if pick(3) == 0 {
						bm[i/8] |= 1 << (i % 8)
					}
				}
				info := transfer.FileResumeInfo{FileID: rq.FileID, StreamID: rq.StreamID, TotalChunks: total, Bitmap: bm, LastVerifiedChunk: total}
				if pick(3) == 0 { // everything is reported present
					for i := uint32(0); i < total; i++ {
						bm[i/8] |= 1 << (i % 8)
					}
				}
				// the highest reported chunk may come with a hash that cannot be the sender's: the
				// verification fails and that chunk has to be sent again (LastVerifiedChunk =
				// total means "nothing to verify")
				hi := -1
				for i := uint32(0); i < total; i++ {
					if bm[i/8]&(1<<(i%8)) != 0 {
						hi = int(i)
					}
				}
				mu.Lock()
				out.reported[rq.StreamID] = bm
				if hi >= 0 && c.verify && pick(2) == 0 {
					info.LastVerifiedChunk = uint32(hi)
					info.LastVerifiedHash = 0x0123456789abcdef
					out.verified[rq.StreamID] = uint32(hi)
				}
				mu.Unlock()
				send(info)
			case transfer.VerifTypeFileEnd:
				key := msg.(transfer.FileEnd).StreamID
				// what the SENDER had written into each of its streams by now (at least
				// what it had written when it wrote this FileEnd)
				marks := map[uint64]int64{}
				for _, s := range a.Streams() {
					marks[s.StreamID()] = s.Written()
				}
				mu.Lock()
				out.ends = append(out.ends, key)
				out.endMark[key] = marks
				mu.Unlock()
				pmu.Lock()
				pending = append(pending, key)
				pmu.Unlock()
			case transfer.VerifTypeEnd:
				return
			}
		}
	}()
	select {
	case err := <-ret:
		out.returned, out.err = true, err
	case <-time.After(25 * time.Second):
	}
	if out.returned {
		// let the frame readers drain what was written
		deadline := time.Now().Add(2 * time.Second)
		for time.Now().Before(deadline) {
			mu.Lock()
			pendingBytes := int64(0)
			got := map[int]int64{}
			for _, f := range out.frames {
				if f.end > got[f.stream] {
					got[f.stream] = f.end
				}
			}
			for _, s := range dataStreams {
				pendingBytes += s.Incoming() - got[int(s.StreamID())]
			}
			mu.Unlock()
			if pendingBytes == 0 {
				break
			}
			time.Sleep(time.Millisecond)
		}
	}
	cancel()
	a.Fail(memnet.ErrAbrupt, memnet.ErrAbrupt)
	b.Fail(memnet.ErrAbrupt, memnet.ErrAbrupt)
	if !out.returned {
		select {
		case <-ret:
		case <-time.After(3 * time.Second):
		}
	}
	select {
	case <-recvDone:
	case <-time.After(time.Second):
	}
	mu.Lock()
	defer mu.Unlock()
	return out, items, data
}

func runC17e2e(cfg config, rep *hx.Report) {
	rng := hx.NewRand(cfg.seed).Fork(1717)
	base, _ := os.MkdirTemp("", "c17d")
	defer os.RemoveAll(base)
	n := 90
	if cfg.tier == "thorough" {
		n = 1500
	}
	hangs := 0
	for i := 0; i < n; i++ {
		c := dispCase{id: 700000 + i, nfiles: rng.Pick(0, 1, 2, 3, 5, 8, 12), cs: rng.Pick(1, 3, 8, 64), streams: 1 + rng.Intn(4),
			ack: []string{"immediate", "delayed", "hold-all", "newest-first"}[rng.Intn(4)], resume: rng.Intn(3) == 0, quicLike: rng.Bool(), verify: rng.Bool(), tail: rng.Pick(0, 1, 1, 2)}
		// thresholds relative to the file sizes (0..5*cs+1) so that all three classes and the small-slot quota occur
		switch rng.Intn(4) {
		case 0: // defaults: everything is "small"
		case 1:
			c.smallT, c.medT = int64(c.cs), int64(3*c.cs)
		case 2:
			c.smallT, c.medT = 1, 2 // nearly everything "large"
		default:
			c.smallT, c.medT = int64(2*c.cs), int64(100*c.cs)
		}
		c.frac = []float64{0, 0.25, 0.5, 1}[rng.Intn(4)]
		o, items, _ := runDispCase(base, c, rng)
		rep.Evaluations++
		rep.Count("send:" + c.ack)
		desc := map[string]any{"case": fmt.Sprintf("%+v", c), "seed": cfg.seed, "begins": fmt.Sprint(o.begins), "ends": fmt.Sprint(o.ends), "frames": len(o.frames)}
		viol := func(sig, what string) {
			rep.Violate("dispatch:"+sig, fmt.Sprintf("%s (%+v)", what, c), desc)
		}
		if !o.returned {
			hangs++
			viol("send-hang", "a healthy send against an acknowledging receiver did not return within 25 s")
			if hangs >= 2 {
				rep.Notes = append(rep.Notes, "whole-send runs stopped after two hangs")
				break
			}
			continue
		}
		if o.err != nil {
			viol("healthy-send-failed", fmt.Sprintf("every FileEnd was acknowledged OK but the sender failed: %v", o.err))
			continue
		}
		for _, p := range o.problems {
			viol("record", p)
		}
		// every file begun exactly once, nothing else begun
		nb := map[uint64]int{}
		for _, k := range o.begins {
			nb[k]++
		}
		for k := range nb {
			if _, ok := items[k]; !ok {
				viol("begin-unknown-file", fmt.Sprintf("FileBegin for key %d which is not in the manifest", k))
			}
		}
		keys := make([]uint64, 0, len(items))
		for k := range items {
			keys = append(keys, k)
		}
		sort.Slice(keys, func(i, j int) bool { return keys[i] < keys[j] })
		ne := map[uint64]int{}
		for _, k := range o.ends {
			ne[k]++
		}
		sent := map[uint64]map[uint32]int{}
		for _, f := range o.frames {
			if sent[f.key] == nil {
				sent[f.key] = map[uint32]int{}
			}
			sent[f.key][f.idx]++
		}
		for _, k := range keys {
			it := items[k]
			if nb[k] != 1 {
				viol("file-begun-not-once", fmt.Sprintf("%s begun %d times", it.RelPath, nb[k]))
			}
			if ne[k] != 1 {
				viol("file-end-not-once", fmt.Sprintf("%s: %d FileEnd records", it.RelPath, ne[k]))
			}
			total := transfer.VerifChunkTotal(it.Size, uint32(c.cs))
			bm := o.reported[k]
			for idx := uint32(0); idx < total; idx++ {
				cnt := sent[k][idx]
				present := bm != nil && bm[idx/8]&(1<<(idx%8)) != 0
				if vc, failed := o.verified[k]; failed && vc == idx {
					// the chunk that failed verification: once by the re-send, and at most once
					// more if the main pass sends it anyway (it lies in the forced tail)
					if cnt == 0 {
						viol("failed-verification-not-resent", fmt.Sprintf("%s: the receiver reported chunk %d with a hash the sender's cannot equal, yet it was never sent again (verify tail %d)", it.RelPath, idx, c.tail))
					}
					if cnt > 2 {
						viol("chunk-sent-twice", fmt.Sprintf("%s chunk %d (failed verification) sent %d times", it.RelPath, idx, cnt))
					}
					continue
				}
				if cnt > 1 {
					viol("chunk-sent-twice", fmt.Sprintf("%s chunk %d sent %d times", it.RelPath, idx, cnt))
				}
				if cnt == 0 && !present {
					viol("chunk-never-sent", fmt.Sprintf("%s chunk %d of %d never sent although the receiver did not report it present", it.RelPath, idx, total))
				}
			}
			for idx := range sent[k] {
				if idx >= total {
					viol("chunk-out-of-range", fmt.Sprintf("%s chunk %d sent, the file has %d", it.RelPath, idx, total))
				}
			}
		}
		for _, f := range o.frames {
			it, ok := items[f.key]
			if !ok {
				viol("frame-unknown-file", fmt.Sprintf("frame for key %d which is not in the manifest", f.key))
				continue
			}
			if want := transfer.VerifChunkSizeForIndex(it.Size, uint32(c.cs), f.idx); f.length != want {
				viol("chunk-length", fmt.Sprintf("%s chunk %d sent with %d bytes, geometry says %d", it.RelPath, f.idx, f.length, want))
			} else if !f.okData {
				viol("chunk-bytes", fmt.Sprintf("%s chunk %d does not carry the source bytes of its position", it.RelPath, f.idx))
			}
			// FileEnd only after all handed-out chunks were written: the frame lies within
			// what the sender had written into that stream when the FileEnd was read
			if marks, ok := o.endMark[f.key]; ok {
				if f.end > marks[uint64(f.stream)] {
					viol("end-before-chunk-written", fmt.Sprintf("%s: FileEnd was on the wire before chunk %d had been written to its data stream", it.RelPath, f.idx))
				}
			}
		}
		if len(items) > 1 {
			rep.Nontrivial(fmt.Sprintf("d:%v:%v", o.begins, o.ends))
		}
		if i%29 == 0 {
			rep.Sample(map[string]any{"kind": "whole-send", "case": fmt.Sprintf("%+v", c), "begin_order": fmt.Sprint(o.begins), "end_order": fmt.Sprint(o.ends), "frames": len(o.frames)})
		}
	}
}

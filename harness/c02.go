package main

import (
	"context"
	"encoding/binary"
	"fmt"
	"hash/crc32"
	"os"
	"path/filepath"
	"runtime"
	"runtime/pprof"
	"sort"
	"strings"
	"sync"
	"time"

	"github.com/sheerbytes/sheerbytes/internal/transfer"
	"github.com/sheerbytes/sheerbytes/internal/verifhook"
	"github.com/sheerbytes/sheerbytes/pkg/manifest"
	"github.com/sheerbytes/sheerbytes/verifharness/internal/hx"
	"github.com/sheerbytes/sheerbytes/verifharness/internal/memnet"
)

// C02 (receiver half; also the tie of Model/Recv.v used by C01 and C03): the
// REAL RecvManifestMultiStream is driven by a scripted peer over the in-memory
// transport.  Every goroutine of the receiver is parked at verifhook points and
// released one at a time by the driver, so a case is a deterministic event list
// in the vocabulary of Model/Recv.v: what arrives on which stream, which reader
// handles its next frame, which arm the main select takes (the arm is OBSERVED,
// Go chooses among ready arms at random).  The driver only parks goroutines at
// hook points and does what a peer / a network can do.

var crc32c = crc32.MakeTable(crc32.Castagnoli)

type rpk struct {
	gid    uint64
	name   string
	args   []any
	resume chan struct{}
}

type rreader struct {
	sid     uint64 // stream id (1..n)
	g       uint64
	pk      *rpk
	at      string // "", idle, parked, waiting, running, exited
	waitKey uint64
}

type rdrv struct {
	hook     chan *rpk
	done     chan struct{}
	mainG    uint64
	mainPk   *rpk
	readers  map[uint64]*rreader
	byG      map[uint64]*rreader
	stepping uint64
	ret      chan error
	returned bool
	retErr   error
	panicked any
	desync   string

	pushed, ctlErrSeen, exits int
	lastArm                   string
	lastArmTyp                byte
	lastArmNil                bool
	armSeen                   bool

	mu        sync.Mutex // callbacks run on receiver goroutines
	finsObs   []string   // "relpath:ok"
	completed int
	writesObs []string // "relpath:idx"
	discarded int
	acksObs   [][2]uint64
	ackEOF    chan struct{}
}

func (d *rdrv) handler(name string, args ...any) {
	p := &rpk{gid: goid(), name: name, args: args, resume: make(chan struct{})}
	select {
	case d.hook <- p:
	case <-d.done:
		return
	}
	select {
	case <-p.resume:
	case <-d.done:
	}
}

func (d *rdrv) reader(a any) *rreader {
	s, ok := a.(interface{ StreamID() uint64 })
	if !ok {
		return nil
	}
	r := d.readers[s.StreamID()]
	if r == nil {
		r = &rreader{sid: s.StreamID()}
		d.readers[s.StreamID()] = r
	}
	return r
}

func (d *rdrv) on(p *rpk) {
	release := func() { close(p.resume) }
	switch p.name {
	case "recv.main.select":
		d.mainG, d.mainPk = p.gid, p
		return
	case "recv.main.arm":
		if p.gid != d.mainG || d.stepping != d.mainG {
			release()
			return
		}
		d.armSeen = true
		d.lastArm = p.args[0].(string)
		d.lastArmTyp, d.lastArmNil = 0, false
		if d.lastArm == "ctl" {
			d.lastArmTyp = p.args[1].(byte)
		}
		if d.lastArm == "dataerr" {
			d.lastArmNil = p.args[1].(bool)
		}
		release()
		return
	case "recv.ctlreader.pushed":
		d.pushed++
		release()
		return
	case "recv.ctlreader.err":
		d.ctlErrSeen++
		release()
		return
	case "recv.reader.idle":
		r := d.reader(p.args[0])
		r.g = p.gid
		d.byG[p.gid] = r
		r.pk, r.at = p, "idle"
		return
	case "recv.reader.exit":
		if r := d.reader(p.args[0]); r != nil {
			r.at, r.pk = "exited", nil
		}
		d.exits++
		release()
		return
	case "recv.reader.wait":
		r := d.reader(p.args[0])
		r.at, r.pk = "waiting", nil
		r.waitKey = p.args[1].(uint64)
		release()
		return
	}
	if r := d.byG[p.gid]; r != nil && p.gid != d.stepping {
		// a reader woken by the main loop (file became ready): hold it until the driver steps it
		r.pk, r.at = p, "parked"
		return
	}
	switch p.name {
	case "recv.chunk.written":
		d.mu.Lock()
		d.writesObs = append(d.writesObs, fmt.Sprintf("%v:%v", p.args[0], p.args[1]))
		d.mu.Unlock()
	case "recv.chunk.discarded":
		d.discarded++
	}
	release()
}

func (d *rdrv) pump(cond func() bool, what string) bool {
	deadline := time.After(20 * time.Second)
	for !cond() {
		select {
		case p := <-d.hook:
			d.on(p)
		case err := <-d.ret:
			d.returned, d.retErr = true, err
		case <-deadline:
			if d.desync == "" {
				d.desync = what
			}
			if os.Getenv("VERIF_DEBUG") != "" {
				pprof.Lookup("goroutine").WriteTo(os.Stderr, 2)
			}
			return false
		}
	}
	return true
}

func (d *rdrv) stepMain() bool {
	p := d.mainPk
	d.mainPk, d.stepping, d.armSeen = nil, d.mainG, false
	close(p.resume)
	ok := d.pump(func() bool { return d.mainPk != nil || d.returned }, "main loop did not come back to its select")
	d.stepping = 0
	return ok
}

func (d *rdrv) stepReader(r *rreader) bool {
	if r.at == "waiting" {
		if !d.pump(func() bool { return r.pk != nil || r.at == "exited" || d.returned }, "woken reader did not reach a hook point") {
			return false
		}
		if r.pk == nil {
			return true
		}
	}
	p := r.pk
	r.pk, r.at, d.stepping = nil, "running", r.g
	close(p.resume)
	ok := d.pump(func() bool { return r.at == "idle" || r.at == "exited" || r.at == "waiting" || d.returned }, "reader did not finish its frame")
	d.stepping = 0
	return ok
}

// ---- the scripted peer ----

type c02file struct {
	rel    string
	data   []byte
	item   manifest.FileItem
	key    uint64
	prior  []int // chunk indices marked complete by an earlier (interrupted) run
	nchunk int
}

type c02case struct {
	id      int
	seed    uint64
	cs      int
	streams int
	resume  bool
	files   []c02file
	mode    string   // honest, fault, wild, corpus-eof-race
	sched   []string // corpus cases: forced sequence of driver moves (then random)
}

type sitem struct {
	kind        string // fr trunc end
	key         uint64
	idx, length int
	crcOK       bool
	tok         uint32
	e           string
	honest      bool
}

func ekindCoq(e string) string {
	switch e {
	case "eof":
		return "Recv.EOFk"
	case "ueof":
		return "Recv.UEOF"
	case "graceful":
		return "Recv.Graceful"
	case "abrupt":
		return "Recv.Abrupt"
	}
	return "Recv.Plain"
}

func errFor(e string) error {
	if e == "graceful" {
		return memnet.ErrGraceful
	}
	return memnet.ErrAbrupt
}

func chunkBounds(size, cs, idx int) (int, int) {
	off := idx * cs
	end := off + cs
	if end > size {
		end = size
	}
	if off > size {
		off = size
	}
	return off, end
}

func frameBytes(key uint64, idx, length int, crc uint32, payload []byte) []byte {
	b := make([]byte, 20, 20+len(payload))
	binary.BigEndian.PutUint64(b[0:8], key)
	binary.BigEndian.PutUint32(b[8:12], uint32(idx))
	binary.BigEndian.PutUint32(b[12:16], uint32(length))
	binary.BigEndian.PutUint32(b[16:20], crc)
	return append(b, payload...)
}

type c02run struct {
	c           c02case
	d           *rdrv
	evs         []string
	honest      bool // every frame that passed the CRC carried the source bytes of its (key, idx); each file begun at most once
	ctl         *memnet.Stream
	data        []*memnet.Stream
	queued      map[uint64][]sitem // per stream id: sent, not yet handled
	begunAt     map[uint64]bool    // receiver side mirror: FileBegin handled
	doneAt      map[uint64]bool    // finalized
	ctlTaken    int
	errTaken    int
	ctlErrTaken bool
	doneq       bool
	cancelled   bool
	cancel      context.CancelFunc
	toks        map[uint32][]byte
	fault       string
	ctlGone     bool            // the receiver's control reader has exited (End queued or read error)
	ctlFifo     []ctlDesc       // records queued for the main loop, oldest first
	cs0         map[uint64]bool // files announced with chunk size 0 (a chunk for them would crash the process)
}

type ctlDesc struct {
	begin bool
	key   uint64
}

func (r *c02run) ev(format string, a ...any) { r.evs = append(r.evs, fmt.Sprintf(format, a...)) }

func (r *c02run) fileByKey(k uint64) *c02file {
	for i := range r.c.files {
		if r.c.files[i].key == k {
			return &r.c.files[i]
		}
	}
	return nil
}

func (r *c02run) fileIndex(rel string) int {
	for i := range r.c.files {
		if r.c.files[i].rel == rel {
			return i
		}
	}
	return -1
}

func (r *c02run) pushCtl(msg any, coq string) bool {
	if r.ctlGone {
		return true
	}
	b, err := transfer.VerifEncodeControl(msg)
	if err != nil {
		panic(err)
	}
	before := r.d.pushed
	if _, err := r.ctl.Write(b); err != nil {
		return false
	}
	if !r.d.pump(func() bool { return r.d.pushed > before || r.d.returned }, "control reader did not queue the record") {
		return false
	}
	if r.d.pushed > before {
		r.ev("Recv.CtlPush (%s)", coq)
		cd := ctlDesc{}
		if fb, ok := msg.(transfer.FileBegin); ok {
			cd = ctlDesc{begin: true, key: 0}
			if f := r.fileIndex(fb.RelPath); f >= 0 {
				cd.key = r.c.files[f].key
			}
		}
		r.ctlFifo = append(r.ctlFifo, cd)
	}
	return true
}

func (r *c02run) failCtl(e string, partial []byte) bool {
	if r.ctlGone {
		return true
	}
	r.ctlGone = true
	before := r.d.ctlErrSeen
	if len(partial) > 0 {
		r.ctl.Write(partial)
	}
	switch e {
	case "eof", "ueof":
		r.ctl.CloseWrite()
	default:
		r.ctl.FailNow(errFor(e))
	}
	if !r.d.pump(func() bool { return r.d.ctlErrSeen > before || r.d.returned }, "control reader did not report the stream error") {
		return false
	}
	if r.d.ctlErrSeen > before {
		r.ev("Recv.CtlFail %s", ekindCoq(e))
	}
	return true
}

func (r *c02run) arrive(s int, it sitem, payload []byte) {
	st := r.data[s]
	sid := st.StreamID()
	switch it.kind {
	case "fr":
		crc := crc32.Checksum(payload, crc32c)
		if !it.crcOK {
			crc ^= 0x5a5a5a5a
		}
		st.Write(frameBytes(it.key, it.idx, it.length, crc, payload))
		r.ev("Recv.Arrive %d (Recv.Fr %d %d %d %s %d)", s, it.key, it.idx, it.length, hx.B(it.crcOK), it.tok)
	case "trunc":
		crc := crc32.Checksum(payload, crc32c)
		cut := len(payload) / 2
		st.Write(frameBytes(it.key, it.idx, it.length, crc, payload[:cut]))
		if it.e == "ueof" || it.e == "eof" {
			st.CloseWrite()
		} else {
			st.FailNow(errFor(it.e))
		}
		r.ev("Recv.Arrive %d (Recv.Trunc %d %d %d %s)", s, it.key, it.idx, it.length, ekindCoq(it.e))
	case "end":
		if it.e == "eof" {
			st.CloseWrite()
		} else if it.e == "ueof" {
			st.Write([]byte{1, 2, 3})
			st.CloseWrite()
		} else {
			st.FailNow(errFor(it.e))
		}
		r.ev("Recv.Arrive %d (Recv.EndOf %s)", s, ekindCoq(it.e))
	}
	r.queued[sid] = append(r.queued[sid], it)
}

func (r *c02run) mainReady() bool {
	return r.d.pushed-r.ctlTaken > 0 || r.d.exits-r.errTaken > 0 || r.doneq || (r.d.ctlErrSeen > 0 && !r.ctlErrTaken) || r.cancelled
}

func (r *c02run) doMain() bool {
	why := fmt.Sprintf("pushed=%d ctlTaken=%d exits=%d errTaken=%d doneq=%v ctlErr=%d/%v cancelled=%v", r.d.pushed, r.ctlTaken, r.d.exits, r.errTaken, r.doneq, r.d.ctlErrSeen, r.ctlErrTaken, r.cancelled)
	if !r.d.stepMain() {
		r.d.desync += " [" + why + "]"
		return false
	}
	if !r.d.armSeen {
		return true
	}
	arm := map[string]string{"cancel": "ACancel", "done": "ADone", "ctlerr": "ACtlErr", "dataerr": "ADataErr", "ctl": "ACtl"}[r.d.lastArm]
	r.ev("Recv.MainPick Recv.%s true", arm)
	switch r.d.lastArm {
	case "ctl":
		r.ctlTaken++
		if len(r.ctlFifo) > 0 {
			cd := r.ctlFifo[0]
			r.ctlFifo = r.ctlFifo[1:]
			if cd.begin && cd.key != 0 && !r.d.returned {
				r.begunAt[cd.key] = true
			}
		}
	case "dataerr":
		r.errTaken++
	case "ctlerr":
		r.ctlErrTaken = true
	case "done":
		r.doneq = false
	}
	return true
}

func (r *c02run) readerFor(s int) *rreader { return r.d.readers[r.data[s].StreamID()] }

// stepEnabled: reader s can make progress on the head of its stream
func (r *c02run) readerEnabled(s int) bool {
	rd := r.readerFor(s)
	sid := r.data[s].StreamID()
	if rd == nil || rd.at == "exited" || len(r.queued[sid]) == 0 {
		return false
	}
	if rd.at == "waiting" {
		return r.begunAt[rd.waitKey] || r.doneAt[rd.waitKey]
	}
	return rd.at == "idle" || rd.at == "parked"
}

func (r *c02run) doReader(s int) bool {
	rd := r.readerFor(s)
	sid := r.data[s].StreamID()
	if !r.d.stepReader(rd) {
		return false
	}
	r.ev("Recv.RStep %d true", s)
	if rd.at == "idle" {
		r.queued[sid] = r.queued[sid][1:]
	} else if rd.at == "exited" {
		r.queued[sid] = nil
	}
	return true
}

// ---- one case ----

type c02result struct {
	evs       []string
	res       int // 0 running, 1 nil, 2 error, 3 panic
	retErr    string
	completed int
	fins      []string
	writes    []string
	acks      [][2]uint64
	desync    string
	honest    bool
	fault     string
	stuck     bool
	treeDiff  []string
	steps     int
}

func buildCase(id int, rng *hx.Rand, mode string) c02case {
	c := c02case{id: id, seed: rng.U64(), cs: rng.Pick(1, 2, 3, 5, 8), streams: 1 + rng.Intn(3), resume: rng.Intn(3) != 0, mode: mode}
	nf := rng.Pick(0, 1, 1, 2, 2, 3, 4)
	for i := 0; i < nf; i++ {
		var size int
		switch rng.Intn(6) {
		case 0:
			size = 0
		case 1:
			size = c.cs * (1 + rng.Intn(3))
		case 2:
			size = c.cs*(1+rng.Intn(3)) + 1
		default:
			size = rng.Intn(4*c.cs + 2)
		}
		rel := fmt.Sprintf("f%d.bin", i)
		if rng.Intn(3) == 0 {
			rel = fmt.Sprintf("d%d/f%d.bin", i%2, i)
		}
		c.files = append(c.files, c02file{rel: rel, data: rng.Bytes(size), nchunk: (size + c.cs - 1) / c.cs})
	}
	return c
}

func runC02case(base string, c c02case, rep *hx.Report) c02result {
	rng := hx.NewRand(c.seed)
	dir := filepath.Join(base, fmt.Sprintf("c%d", c.id))
	out := filepath.Join(dir, "out")
	os.RemoveAll(dir)
	defer os.RemoveAll(dir)
	os.MkdirAll(out, 0755)

	// manifest
	var m manifest.Manifest
	m.Root = "root"
	sort.Slice(c.files, func(i, j int) bool { return c.files[i].rel < c.files[j].rel })
	dirs := map[string]bool{}
	for i := range c.files {
		f := &c.files[i]
		if d := filepath.Dir(f.rel); d != "." && !dirs[d] {
			dirs[d] = true
			m.Items = append(m.Items, manifest.FileItem{RelPath: d, IsDir: true, ID: "dir-" + d})
		}
		f.item = manifest.FileItem{RelPath: f.rel, Size: int64(len(f.data)), ID: fmt.Sprintf("id-%d-%d", c.id, i)}
		if !c.resume && rng.Intn(4) == 0 {
			f.item.ID = ""
		}
		f.key = transfer.VerifFileKey(f.item)
		m.Items = append(m.Items, f.item)
	}
	m.FileCount = len(c.files)

	// prior state of an interrupted run: honest sidecar + data file holding the marked chunks
	if c.resume {
		for i := range c.files {
			f := &c.files[i]
			preset := len(f.prior) > 0
			if !preset && (f.item.ID == "" || f.nchunk == 0 || rng.Intn(2) == 0) {
				continue
			}
			for k := 0; k < f.nchunk && !preset; k++ {
				if rng.Intn(2) == 0 {
					f.prior = append(f.prior, k)
				}
			}
			if !preset && rng.Intn(5) == 0 { // everything was already there
				f.prior = nil
				for k := 0; k < f.nchunk; k++ {
					f.prior = append(f.prior, k)
				}
			}
			if len(f.prior) == 0 {
				continue
			}
			p := filepath.Join(out, filepath.FromSlash(f.rel))
			os.MkdirAll(filepath.Dir(p), 0755)
			content := make([]byte, len(f.data))
			for _, k := range f.prior {
				a, b := chunkBounds(len(f.data), c.cs, k)
				copy(content[a:b], f.data[a:b])
			}
			os.WriteFile(p, content, 0644)
			sc, err := transfer.LoadOrCreateSidecar(transfer.SidecarPath(out, "", transfer.VerifSidecarIdentifier(f.item)), f.item.ID, f.item.Size, uint32(c.cs))
			if err != nil {
				panic(err)
			}
			for _, k := range f.prior {
				sc.MarkComplete(uint32(k))
			}
			if err := sc.Flush(); err != nil {
				panic(err)
			}
		}
	}

	d := &rdrv{hook: make(chan *rpk), done: make(chan struct{}), readers: map[uint64]*rreader{}, byG: map[uint64]*rreader{}, ret: make(chan error, 1), ackEOF: make(chan struct{})}
	baseline := runtime.NumGoroutine()
	verifhook.Set(d.handler)
	defer verifhook.Set(nil)
	a, b := memnet.Pair(memnet.Mode{VisibleAtOpen: true})
	ctx, cancel := context.WithCancel(context.Background())
	r := &c02run{c: c, d: d, honest: true, cs0: map[uint64]bool{}, queued: map[uint64][]sitem{}, begunAt: map[uint64]bool{}, doneAt: map[uint64]bool{}, cancel: cancel, toks: map[uint32][]byte{}}
	defer func() {
		close(d.done)
		cancel()
		a.Fail(memnet.ErrAbrupt, memnet.ErrAbrupt)
		// every goroutine of this receiver must be gone before the next case installs its
		// handler (the hook registry is process-global)
		for i := 0; i < 4000 && runtime.NumGoroutine() > baseline; i++ {
			time.Sleep(500 * time.Microsecond)
		}
	}()

	ro := transfer.Options{Resume: c.resume, NoRootDir: true, HashAlg: "crc32c"}
	ro.TransferStatsFn = func(active, completed int, remaining int64) {
		d.mu.Lock()
		d.completed = completed
		d.mu.Unlock()
	}
	if c.seed%2 == 0 {
		ro.ProgressDeltaFn = func(string, int64) {} // the byte-progress read path (readFullWithTimeoutDelta)
	}
	ro.FileDoneFn = func(rel string, ok bool) {
		d.mu.Lock()
		d.finsObs = append(d.finsObs, fmt.Sprintf("%s:%v", rel, ok))
		d.mu.Unlock()
	}
	go func() {
		defer func() {
			if p := recover(); p != nil {
				d.panicked = p
				d.ret <- fmt.Errorf("panic: %v", p)
			}
		}()
		_, err := transfer.RecvManifestMultiStream(ctx, tconn{b}, out, ro)
		d.ret <- err
	}()

	ctl, _ := a.OpenStream(context.Background())
	r.ctl = ctl
	hdr, err := transfer.VerifWriteControlHeader(m)
	if err != nil {
		panic(err)
	}
	ctl.Write(hdr)
	for i := 0; i < c.streams; i++ {
		s, _ := a.OpenStream(context.Background())
		r.data = append(r.data, s)
	}
	ds, _ := transfer.VerifEncodeControl(transfer.DataStreams{Count: uint16(c.streams)})
	ctl.Write(ds)
	// acknowledgement reader (what the peer reads back)
	go func() {
		defer close(d.ackEOF)
		var buf []byte
		tmp := make([]byte, 4096)
		for {
			n, err := ctl.Read(tmp)
			buf = append(buf, tmp[:n]...)
			for len(buf) > 0 {
				typ, msg, used, derr := transfer.VerifDecodeControl(buf)
				if derr != nil || used == 0 {
					break
				}
				buf = buf[used:]
				d.mu.Lock()
				switch v := msg.(type) {
				case transfer.FileDone:
					ok := uint64(0)
					if v.OK {
						ok = 1
					}
					d.acksObs = append(d.acksObs, [2]uint64{v.StreamID, ok})
				case transfer.FileResumeInfo:
					d.acksObs = append(d.acksObs, [2]uint64{v.StreamID, 2})
				}
				_ = typ
				d.mu.Unlock()
			}
			if err != nil {
				return
			}
		}
	}()
	// the DataStreams record is consumed before the hooked loop starts; wait for the main loop and all readers to park
	res := c02result{honest: true}
	ready := d.pump(func() bool {
		if d.returned {
			return true
		}
		if d.mainPk == nil || d.pushed < 1 {
			return false
		}
		n := 0
		for _, rd := range d.readers {
			if rd.at == "idle" {
				n++
			}
		}
		return n == c.streams
	}, "receiver did not reach its main loop")
	d.pushed = 0 // DataStreams was pushed before the loop; count from here
	if !ready || d.returned {
		res.desync = "setup: " + d.desync
		return res
	}

	// ---- the peer's program ----
	type sop struct {
		kind    string // begin chunk end endall resreq other
		f       int
		idx     int
		variant string
		st      int // chunk: 1 + data stream to use (0 = any)
	}
	var prog []sop
	if c.mode == "corpus-eof-race" {
		// fixed be041b7: the last chunk arrives corrupted (file failed), the peer ends the control
		// stream cleanly, and the main select sees that end (possibly) before the reader's error
		prog = []sop{{kind: "begin", f: 0}, {kind: "chunk", f: 0, idx: 0, variant: "good"}, {kind: "chunk", f: 0, idx: 1, variant: "badcrc"}}
	} else if c.mode == "corpus-late-dup" {
		// a resumed file: chunks 0 and 1 are recorded, the sender re-sends the verified
		// chunk 1 and sends the missing chunk 2 on another stream; chunk 2 finalises the
		// file, FileEnd is handled, and only then the duplicate of chunk 1 is read
		prog = []sop{{kind: "begin", f: 0}, {kind: "chunk", f: 0, idx: 1, variant: "good", st: 1}, {kind: "chunk", f: 0, idx: 2, variant: "good", st: 2},
			{kind: "end", f: 0}, {kind: "begin", f: 1}, {kind: "chunk", f: 1, idx: 0, variant: "good", st: 2}, {kind: "end", f: 1}}
	} else if c.mode != "wild" {
		order := rng.Fork(7)
		fi := make([]int, len(c.files))
		for i := range fi {
			fi[i] = i
		}
		for i := len(fi) - 1; i > 0; i-- {
			j := order.Intn(i + 1)
			fi[i], fi[j] = fi[j], fi[i]
		}
		for _, i := range fi {
			f := c.files[i]
			prog = append(prog, sop{kind: "begin", f: i})
			if c.resume && f.item.ID != "" && order.Intn(3) == 0 {
				prog = append(prog, sop{kind: "resreq", f: i})
			}
			marked := map[int]bool{}
			for _, k := range f.prior {
				marked[k] = true
			}
			force := f.nchunk
			if len(f.prior) > 0 {
				force = f.prior[len(f.prior)-1] // the sender re-sends from the verified chunk on (subset: sometimes)
				if order.Intn(2) == 0 {
					force = f.nchunk
				}
			}
			for k := 0; k < f.nchunk; k++ {
				if marked[k] && k < force {
					continue
				}
				prog = append(prog, sop{kind: "chunk", f: i, idx: k, variant: "good"})
			}
			prog = append(prog, sop{kind: "end", f: i})
		}
		// honest interleaving across files: shuffle while keeping per-file order
		if len(c.files) > 1 && order.Intn(2) == 0 {
			per := map[int][]sop{}
			for _, o := range prog {
				per[o.f] = append(per[o.f], o)
			}
			prog = nil
			for {
				var live []int
				for _, i := range fi {
					if len(per[i]) > 0 {
						live = append(live, i)
					}
				}
				if len(live) == 0 {
					break
				}
				i := live[order.Intn(len(live))]
				prog = append(prog, per[i][0])
				per[i] = per[i][1:]
			}
		}
	} else {
		n := 3 + rng.Intn(14)
		for k := 0; k < n; k++ {
			o := sop{f: rng.Intn(len(c.files) + 1), idx: rng.Intn(5)}
			switch rng.Intn(10) {
			case 0, 1, 2:
				o.kind = "begin"
				o.variant = []string{"ok", "ok", "ok", "unknown", "size", "sid", "badpath", "cs0"}[rng.Intn(8)]
			case 3, 4, 5, 6:
				o.kind = "chunk"
				o.variant = []string{"good", "good", "good", "badcrc", "range", "long", "len0", "forged", "good"}[rng.Intn(9)]
			case 7:
				o.kind = "end"
			case 8:
				o.kind = []string{"resreq", "other", "endall"}[rng.Intn(3)]
			default:
				o.kind = "chunk"
				o.variant = "good"
			}
			prog = append(prog, o)
		}
	}
	faultAt := -1
	if c.mode == "fault" {
		faultAt = rng.Intn(len(prog)*3 + 4)
	}
	sentBegin := map[int]int{}
	endAllSent := false
	acksNeeded := func() bool { // honest peer: End only after every file was acknowledged
		d.mu.Lock()
		defer d.mu.Unlock()
		n := 0
		for _, a := range d.acksObs {
			if a[1] == 1 {
				n++
			}
		}
		return n >= len(c.files)
	}
	doSop := func(o sop) bool {
		var f *c02file
		if o.f < len(c.files) {
			f = &c.files[o.f]
		}
		switch o.kind {
		case "begin":
			fb := transfer.FileBegin{RelPath: "nosuch.bin", FileSize: 3, ChunkSize: uint32(c.cs), HashAlg: 1}
			fiCoq, pathok := "None", true
			if f != nil {
				fb = transfer.FileBegin{RelPath: f.rel, FileSize: uint64(len(f.data)), ChunkSize: uint32(c.cs), StreamID: f.key, HashAlg: 1}
				fiCoq = fmt.Sprintf("(Some %d%%nat)", o.f)
				switch o.variant {
				case "size":
					fb.FileSize++
				case "sid":
					fb.StreamID ^= 0x10
				case "unknown":
					fb.RelPath, fiCoq = "nosuch.bin", "None"
				case "cs0":
					fb.ChunkSize = 0
				}
				if fiCoq != "None" {
					sentBegin[o.f]++
					if sentBegin[o.f] > 1 {
						r.honest = false
					}
				}
			}
			if o.variant == "badpath" {
				fb.RelPath, fiCoq, pathok = "../x", "None", false
			}
			coq := fmt.Sprintf("Recv.CBegin %s %d %d %d %s", fiCoq, fb.FileSize, fb.ChunkSize, fb.StreamID, hx.B(pathok))
			if o.variant == "badpath" {
				// the real encoder refuses such a path: hand-encode the record
				b, _ := transfer.VerifEncodeControl(transfer.FileBegin{RelPath: "xx/x", FileSize: fb.FileSize, ChunkSize: fb.ChunkSize, StreamID: fb.StreamID, HashAlg: 1})
				copy(b[3:7], []byte("../x"))
				if r.ctlGone {
					return true
				}
				before := d.pushed
				ctl.Write(b)
				if !d.pump(func() bool { return d.pushed > before || d.returned }, "control reader did not queue the record") {
					return false
				}
				r.ev("Recv.CtlPush (%s)", coq)
				r.ctlFifo = append(r.ctlFifo, ctlDesc{begin: true})
				return true
			}
			if fb.ChunkSize == 0 && f != nil {
				r.cs0[f.key] = true
			}
			return r.pushCtl(fb, coq)
		case "end":
			key := uint64(12345)
			if f != nil {
				key = f.key
			}
			return r.pushCtl(transfer.FileEnd{StreamID: key}, fmt.Sprintf("Recv.CEnd %d", key))
		case "resreq":
			key, id := uint64(12345), "x"
			if f != nil {
				key, id = f.key, f.item.ID
			}
			return r.pushCtl(transfer.ResumeRequest{FileID: id, StreamID: key}, fmt.Sprintf("Recv.CResumeReq %d true", key))
		case "other":
			return r.pushCtl(transfer.FileDone{StreamID: 1, OK: true}, "Recv.COther")
		case "endall":
			endAllSent = true
			return r.pushCtlEnd()
		case "chunk":
			s := rng.Intn(c.streams)
			if o.st > 0 {
				s = o.st - 1
			}
			if rd := r.readerFor(s); rd == nil || rd.at == "exited" {
				return true
			}
			key := uint64(777)
			size := 0
			if f != nil {
				key, size = f.key, len(f.data)
			}
			if r.cs0[key] {
				return true // bufpool.New(0) would panic in a goroutine nobody can recover (C15)
			}
			idx := o.idx
			if c.mode != "wild" {
				idx = o.idx
			} else if f != nil && f.nchunk > 0 {
				idx = o.idx % f.nchunk
			}
			a0, b0 := chunkBounds(size, c.cs, idx)
			var payload []byte
			if f != nil {
				payload = append(payload, f.data[a0:b0]...)
			}
			it := sitem{kind: "fr", key: key, idx: idx, length: len(payload), crcOK: true}
			switch o.variant {
			case "badcrc":
				it.crcOK = false
			case "range":
				it.idx = idx + 1000
			case "long":
				payload = append(payload, rng.Bytes(c.cs+1)...)
				it.length = len(payload)
			case "len0":
				payload, it.length = nil, 0
			case "forged":
				if len(payload) > 0 {
					payload[0] ^= 0xff
				}
				r.honest = false
			}
			if len(payload) == 0 && o.variant != "len0" {
				payload = []byte{0x42}
				it.length = 1
				r.honest = false // a chunk where the source has none
			}
			it.tok = crc32.Checksum(payload, crc32c)
			if o.variant == "long" || o.variant == "range" {
				// rejected before the payload matters
			}
			if c.mode == "fault" && r.fault == "" && faultAt == 0 && rng.Intn(2) == 0 {
				if rng.Bool() {
					it.crcOK = false
					r.fault = "payload-corrupted"
				} else {
					it.kind, it.e = "trunc", []string{"ueof", "graceful", "abrupt"}[rng.Intn(3)]
					r.fault = "stream-cut-in-frame:" + it.e
				}
			}
			r.arrive(s, it, payload)
			return true
		}
		return true
	}

	stuck := false
	steps := 0
	pi := 0
	for steps < 600 && !d.returned && d.desync == "" {
		steps++
		if len(c.sched) > 0 {
			mvk := c.sched[0]
			c.sched = c.sched[1:]
			switch mvk {
			case "send":
				if pi < len(prog) && doSop(prog[pi]) {
					pi++
				}
			case "main":
				if d.mainPk != nil && r.mainReady() {
					r.doMain()
					r.syncMirror()
				}
			case "reader", "reader0", "reader1", "reader2":
				ri := 0
				if len(mvk) == 7 {
					ri = int(mvk[6] - '0')
				}
				if ri < c.streams && r.readerEnabled(ri) {
					r.doReader(ri)
					r.syncMirror()
				}
			case "ctl-eof":
				r.fault = "control-stream-eof"
				r.failCtl("eof", nil)
			}
			continue
		}
		// inject the fault of this case
		if c.mode == "fault" && r.fault == "" && faultAt <= 0 {
			switch rng.Intn(6) {
			case 0:
				e := []string{"eof", "graceful", "abrupt"}[rng.Intn(3)]
				r.fault = "control-stream-" + e
				r.failCtl(e, nil)
				continue
			case 1:
				r.fault = "control-stream-cut-in-record"
				b, _ := transfer.VerifEncodeControl(transfer.FileEnd{StreamID: 5})
				r.failCtl("ueof", b[:3])
				continue
			case 2:
				s := rng.Intn(c.streams)
				if rd := r.readerFor(s); rd != nil && rd.at != "exited" {
					e := []string{"eof", "ueof", "graceful", "abrupt"}[rng.Intn(4)]
					r.fault = "data-stream-" + e
					r.arrive(s, sitem{kind: "end", e: e}, nil)
					continue
				}
			case 3:
				waiting := false
				for _, rd := range d.readers {
					if rd.at == "waiting" || rd.at == "parked" {
						waiting = true
					}
				}
				if !waiting && d.pushed-r.ctlTaken == 0 {
					r.fault = "receiver-cancelled"
					cancel()
					r.cancelled = true
					r.ev("Recv.Cancel")
					continue
				}
			default:
				// a corrupted / cut frame: armed, strikes at the next chunk
			}
		}
		faultAt--
		// enabled moves
		type mv struct {
			kind string
			s    int
		}
		var moves []mv
		if r.cancelled {
			// after the cancellation readers and writers race with the context: only the main loop is driven
			if d.mainPk != nil {
				r.doMain()
				continue
			}
			break
		}
		if pi < len(prog) {
			moves = append(moves, mv{"send", 0}, mv{"send", 0})
		} else if c.mode != "wild" && !endAllSent && r.fault == "" && acksNeeded() {
			moves = append(moves, mv{"endall", 0})
		} else if c.mode != "wild" && !endAllSent && r.fault != "" && rng.Intn(4) == 0 {
			// after a fault an honest peer does not send End; a buggy one might
		}
		if d.mainPk != nil && r.mainReady() {
			moves = append(moves, mv{"main", 0}, mv{"main", 0})
		}
		for s := 0; s < c.streams; s++ {
			if r.readerEnabled(s) {
				moves = append(moves, mv{"reader", s})
			}
		}
		if len(moves) == 0 {
			// nothing can move on the receiver side; the acknowledgement writer may still be running
			if c.mode != "wild" && !endAllSent && r.fault == "" {
				deadline := time.Now().Add(5 * time.Second)
				for time.Now().Before(deadline) && !acksNeeded() {
					time.Sleep(2 * time.Millisecond)
				}
				if acksNeeded() {
					continue
				}
			}
			stuck = true
			break
		}
		m := moves[rng.Intn(len(moves))]
		switch m.kind {
		case "send":
			if !doSop(prog[pi]) {
				break
			}
			pi++
		case "endall":
			endAllSent = true
			r.pushCtlEnd()
		case "main":
			if !r.doMain() {
				break
			}
			r.syncMirror()
		case "reader":
			if !r.doReader(m.s) {
				break
			}
			r.syncMirror()
		}
	}
	// collect
	if !d.returned {
		// let the acknowledgement writer finish what it was handed
		time.Sleep(20 * time.Millisecond)
	}
	res.steps = steps
	res.stuck = stuck && !d.returned
	res.evs = r.evs
	res.desync = d.desync
	res.honest = r.honest
	res.fault = r.fault
	switch {
	case d.panicked != nil:
		res.res = 3
	case d.returned && d.retErr == nil:
		res.res = 1
	case d.returned:
		res.res, res.retErr = 2, d.retErr.Error()
	}
	if d.returned {
		// the receiver closes its control stream on return: wait for the acknowledgement reader to drain it
		select {
		case <-d.ackEOF:
		case <-time.After(3 * time.Second):
		}
	}
	d.mu.Lock()
	res.completed = d.completed
	res.fins = append(res.fins, d.finsObs...)
	res.writes = append(res.writes, d.writesObs...)
	res.acks = append(res.acks, d.acksObs...)
	d.mu.Unlock()
	if res.res == 1 {
		// the property's oracle on the real output tree
		for i := range c.files {
			f := &c.files[i]
			got, err := os.ReadFile(filepath.Join(out, filepath.FromSlash(f.rel)))
			if err != nil {
				res.treeDiff = append(res.treeDiff, "missing "+f.rel)
			} else if string(got) != string(f.data) {
				res.treeDiff = append(res.treeDiff, fmt.Sprintf("differs %s (len %d vs %d)", f.rel, len(got), len(f.data)))
			}
		}
		for dname := range dirs {
			if st, err := os.Stat(filepath.Join(out, filepath.FromSlash(dname))); err != nil || !st.IsDir() {
				res.treeDiff = append(res.treeDiff, "missing dir "+dname)
			}
		}
	}
	return res
}

func (r *c02run) pushCtlEnd() bool {
	if r.ctlGone {
		return true
	}
	r.ctlGone = true
	before := r.d.pushed
	r.ctl.Write([]byte{transferControlTypeEnd})
	if !r.d.pump(func() bool { return r.d.pushed > before || r.d.returned }, "control reader did not queue End") {
		return false
	}
	if r.d.pushed > before {
		r.ev("Recv.CtlPush Recv.CEndAll")
		r.ctlFifo = append(r.ctlFifo, ctlDesc{})
	}
	return true
}

// syncMirror refreshes what the driver knows about the receiver from its callbacks.
func (r *c02run) syncMirror() {
	d := r.d
	d.mu.Lock()
	defer d.mu.Unlock()
	for _, f := range d.finsObs {
		rel := f[:strings.LastIndex(f, ":")]
		if i := r.fileIndex(rel); i >= 0 {
			if !r.doneAt[r.c.files[i].key] {
				r.doneAt[r.c.files[i].key] = true
				if len(r.c.files) > 0 && d.completed >= len(r.c.files) {
					r.doneq = true
				}
			}
		}
	}
}

const transferControlTypeEnd = transfer.VerifTypeEnd
const transferControlTypeFileBegin = transfer.VerifTypeFileBegin

// ---- runner ----

func (r c02result) coqCase(c c02case) string {
	var ms []string
	for _, f := range c.files {
		ms = append(ms, fmt.Sprintf("{| Recv.m_key := %d; Recv.m_size := %d; Recv.m_hasid := %s |}", f.key, len(f.data), hx.B(f.item.ID != "")))
	}
	var pr []string
	for i, f := range c.files {
		if len(f.prior) > 0 {
			var b []string
			for _, k := range f.prior {
				b = append(b, fmt.Sprint(k))
			}
			pr = append(pr, fmt.Sprintf("(%d%%nat, [%s])", i, strings.Join(b, "; ")))
		}
	}
	fileIdx := map[string]int{}
	keyOf := map[string]uint64{}
	for i, f := range c.files {
		fileIdx[f.rel] = i
		keyOf[f.rel] = f.key
	}
	var fins, writes, acks []string
	for _, f := range r.fins {
		k := strings.LastIndex(f, ":")
		fins = append(fins, fmt.Sprintf("(%d%%nat, %s)", fileIdx[f[:k]], f[k+1:]))
	}
	for _, w := range r.writes {
		k := strings.LastIndex(w, ":")
		writes = append(writes, fmt.Sprintf("(%d, %s)", keyOf[w[:k]], w[k+1:]))
	}
	for _, a := range r.acks {
		acks = append(acks, fmt.Sprintf("(%d, %d)", a[0], a[1]))
	}
	return fmt.Sprintf("C02.Run %d [%s] %s [%s]\n    [%s]\n    false {| C02.o_res := %d; C02.o_completed := %d; C02.o_fins := [%s]; C02.o_writes := [%s]; C02.o_acks := [%s] |}",
		c.id, strings.Join(ms, "; "), hx.B(c.resume), strings.Join(pr, "; "), strings.Join(r.evs, "; "),
		r.res, r.completed, strings.Join(fins, "; "), strings.Join(writes, "; "), strings.Join(acks, "; "))
}

func runC02recv(cfg config, rep *hx.Report, cf *hx.CasesFile, n int) {
	runC02recvModes(cfg, rep, cf, n, []string{"honest", "honest", "fault", "fault", "fault", "wild"})
}

func runC02recvModes(cfg config, rep *hx.Report, cf *hx.CasesFile, n int, modes []string) {
	rng := hx.NewRand(cfg.seed).Fork(2)
	base, _ := os.MkdirTemp("", "c02")
	defer os.RemoveAll(base)
	ncorpus := 10
	for i := 0; i < n+ncorpus; i++ {
		mode := modes[rng.Intn(len(modes))]
		c := buildCase(i, rng, mode)
		if i < ncorpus {
			mode = "corpus-eof-race"
			c = c02case{id: i, seed: uint64(i), cs: 4, streams: 1, resume: i%2 == 0, mode: mode,
				files: []c02file{{rel: "f0.bin", data: hx.NewRand(uint64(i)).Bytes(8), nchunk: 2}},
				sched: []string{"send", "main", "send", "reader", "send", "reader", "ctl-eof", "main", "main", "main"}}
		}
		if i >= ncorpus-4 && i < ncorpus {
			mode = "corpus-late-dup"
			d0, d1 := hx.NewRand(uint64(100+i)).Bytes(12), hx.NewRand(uint64(200+i)).Bytes(3)
			c = c02case{id: i, seed: uint64(i), cs: 4, streams: 2, resume: true, mode: mode,
				files: []c02file{{rel: "f0.bin", data: d0, nchunk: 3, prior: []int{0, 1}}, {rel: "f1.bin", data: d1, nchunk: 1}},
				sched: []string{"send", "main", "send", "send", "reader1", "send", "main", "reader0", "send", "main", "send", "reader1", "send", "main"}}
			if i%2 == 1 { // the duplicate is read before FileEnd is handled (the easy order)
				c.sched = []string{"send", "main", "send", "send", "reader1", "reader0", "send", "main", "send", "main", "send", "reader1", "send", "main"}
			}
		}
		if mode == "wild" && len(c.files) == 0 {
			mode, c.mode = "honest", "honest"
		}
		if only := os.Getenv("VERIF_C02_ONLY"); only != "" && only != fmt.Sprint(c.id) {
			continue // debugging aid: re-run one case of the sequence
		}
		res := runC02case(base, c, rep)
		if os.Getenv("VERIF_C02_ONLY") != "" {
			fmt.Fprintf(os.Stderr, "case %d: res=%d err=%q fault=%s desync=%q\n  events=%v\n", c.id, res.res, res.retErr, res.fault, res.desync, res.evs)
		}
		rep.Evaluations++
		rep.Count("recv:" + mode)
		if res.fault != "" {
			rep.Count("fault:" + strings.SplitN(res.fault, ":", 2)[0])
		}
		rep.Count(fmt.Sprintf("recv-result:%d", res.res))
		desc := map[string]any{"id": c.id, "seed": c.seed, "mode": mode, "cs": c.cs, "streams": c.streams, "resume": c.resume, "files": len(c.files), "fault": res.fault, "events": res.evs}
		rep.CaseIndex[fmt.Sprint(c.id)] = desc
		if strings.Contains(res.desync, "woken reader did not reach") && mode == "honest" {
			rep.Violate("deadlock:reader-never-woken", fmt.Sprintf("the reader of a data stream waited for a file whose FileBegin the main loop had already handled and was never woken (case %d)", c.id), desc)
			continue
		}
		if res.desync != "" {
			rep.Violate("harness-desync", fmt.Sprintf("receiver driver lost track of the real receiver (%s): case %d", res.desync, c.id), desc)
			continue
		}
		if len(res.evs) >= 6 {
			rep.Nontrivial(fmt.Sprintf("%d:%d", c.seed, len(res.evs)))
		}
		rep.TracesValidated++
		cf.Add(res.coqCase(c))
		// the property's oracle, evaluated on the implementation
		if res.res == 1 && res.honest && len(res.treeDiff) > 0 {
			rep.Violate("recv-false-success:"+mode, fmt.Sprintf("receiver returned success but the tree differs: %v (fault: %s)", res.treeDiff, res.fault), desc)
		}
		if res.res == 3 {
			rep.Violate("recv-panic", "receiver panicked", desc)
		}
		if (mode == "honest" || mode == "corpus-late-dup") && res.res != 1 {
			what := "did not return"
			if res.res == 2 {
				what = "failed: " + res.retErr
			}
			rep.Violate("healthy-receive-"+map[bool]string{true: "stuck", false: "failed"}[res.res == 0], fmt.Sprintf("an honest fault-free peer program %s (case %d, %d steps)", what, c.id, res.steps), desc)
		}
		if i < 3 {
			rep.Sample(map[string]any{"case": c.id, "mode": mode, "events": len(res.evs), "result": res.res, "fault": res.fault})
		}
	}
}

func runC02(cfg config) *hx.Report {
	rep := hx.NewReport("C02")
	rep.Rule = "both real endpoints: one fault per transfer (stream or connection cut at a byte position gracefully / abruptly, payload bit flipped, either side cancelled, source file shrinks or vanishes after the scan, output path obstructed), non-trivial = the fault actually struck; sender: the real SendManifestMultiStream against a scripted receiver (every file acknowledged / one file failed / control stream ended cleanly / connection lost / connection closed with code 0 / caller cancels / no acknowledgement / fault before the first file); receiver: scripted peer programs (honest / honest + one fault: control or data stream ended cleanly, cut inside a record or frame, graceful close, abrupt loss, corrupted payload, receiver cancelled / arbitrary record and frame soup) against the real RecvManifestMultiStream with all goroutines stepped at hook points; non-trivial = at least 6 model events; distinct by (seed, length)"
	cf := &hx.CasesFile{Dir: cfg.out, Name: "recv", Module: "C02", Imports: []string{"Model.Recv", "Corr.C02"}, PerShard: 150}
	n := 450
	if cfg.tier == "thorough" {
		n = 6000
	}
	runC02recv(cfg, rep, cf, n)
	cf.Close()
	cs := &hx.CasesFile{Dir: cfg.out, Name: "send", Module: "C02", Imports: []string{"Model.Recv", "Model.Send", "Corr.C02"}, PerShard: 300}
	ns := 60
	if cfg.tier == "thorough" {
		ns = 600
	}
	runC02send(cfg, rep, cs, ns)
	cs.Close()
	ne := 150
	if cfg.tier == "thorough" {
		ne = 3000
	}
	runC02e2e(cfg, rep, ne)
	return rep
}

func init() { runners["C02"] = runC02 }

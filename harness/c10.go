package main

import (
	"encoding/json"
	"fmt"
	"io"
	"net"
	"net/http"
	"net/url"
	"os"
	"os/exec"
	"path/filepath"
	"sort"
	"strings"
	"sync"
	"time"

	"github.com/gorilla/websocket"
	"github.com/sheerbytes/sheerbytes/pkg/protocol"
	"github.com/sheerbytes/sheerbytes/verifharness/internal/hx"
)

// C10: end to end against the real thruserv binary.  Several sessions, several
// WebSocket clients each, scripts of connects (incl. duplicate peer ids),
// addressed / broadcast / spoofed / malformed frames and disconnects, run
// sequentially to quiescence; every client's receive log is compared with
// Model/Serv.v and checked directly against the property.

func buildBinary(pkg, out string) error {
	repo := os.Getenv("VERIF_REPO")
	if repo == "" {
		repo = "/repo"
	}
	cmd := exec.Command("go", "build", "-tags", "verif", "-o", out, "./"+pkg)
	cmd.Dir = repo
	cmd.Env = os.Environ()
	if b, err := cmd.CombinedOutput(); err != nil {
		return fmt.Errorf("go build %s: %v\n%s", pkg, err, b)
	}
	return nil
}

func freePort() int {
	l, err := net.Listen("tcp", "127.0.0.1:0")
	if err != nil {
		panic(err)
	}
	defer l.Close()
	return l.Addr().(*net.TCPAddr).Port
}

type servProc struct {
	cmd  *exec.Cmd
	port int
}

func startThruserv(bin string, extra ...string) (*servProc, error) {
	port := freePort()
	args := append([]string{"--port", fmt.Sprint(port)}, extra...)
	cmd := exec.Command(bin, args...)
	cmd.Stdout = io.Discard
	cmd.Stderr = io.Discard
	if err := cmd.Start(); err != nil {
		return nil, err
	}
	sp := &servProc{cmd: cmd, port: port}
	for i := 0; i < 200; i++ {
		resp, err := http.Get(fmt.Sprintf("http://127.0.0.1:%d/health", port))
		if err == nil {
			resp.Body.Close()
			return sp, nil
		}
		time.Sleep(10 * time.Millisecond)
	}
	sp.stop()
	return nil, fmt.Errorf("thruserv did not come up on port %d", port)
}

func (s *servProc) stop() {
	if s.cmd.Process != nil {
		s.cmd.Process.Kill()
		s.cmd.Wait()
	}
}

type sessInfo struct{ ID, Code string }

func createSession(port int) (sessInfo, int, error) {
	resp, err := http.Post(fmt.Sprintf("http://127.0.0.1:%d/session", port), "application/json", nil)
	if err != nil {
		return sessInfo{}, 0, err
	}
	defer resp.Body.Close()
	var out struct {
		SessionID string `json:"session_id"`
		JoinCode  string `json:"join_code"`
	}
	b, _ := io.ReadAll(resp.Body)
	if resp.StatusCode != http.StatusCreated {
		return sessInfo{}, resp.StatusCode, fmt.Errorf("status %d: %s", resp.StatusCode, b)
	}
	if err := json.Unmarshal(b, &out); err != nil {
		return sessInfo{}, resp.StatusCode, err
	}
	return sessInfo{out.SessionID, out.JoinCode}, resp.StatusCode, nil
}

type wsClient struct {
	conn   *websocket.Conn
	hold   sync.Mutex // held by the driver while this client is to stop reading its socket
	mu     sync.Mutex
	log    []protocol.Envelope
	closed bool
}

func dialWS(port int, code, peer, role string) (*wsClient, int, error) {
	u := fmt.Sprintf("ws://127.0.0.1:%d/ws?join_code=%s&peer_id=%s&role=%s", port, url.QueryEscape(code), url.QueryEscape(peer), url.QueryEscape(role))
	c, resp, err := websocket.DefaultDialer.Dial(u, nil)
	status := 0
	if resp != nil {
		status = resp.StatusCode
	}
	if err != nil {
		return nil, status, err
	}
	cl := &wsClient{conn: c}
	go func() {
		for {
			cl.hold.Lock()
			cl.hold.Unlock()
			_, data, err := c.ReadMessage()
			if err != nil {
				return
			}
			var env protocol.Envelope
			if json.Unmarshal(data, &env) == nil {
				cl.mu.Lock()
				cl.log = append(cl.log, env)
				cl.mu.Unlock()
			}
		}
	}()
	return cl, status, nil
}

func (c *wsClient) count() int {
	c.mu.Lock()
	defer c.mu.Unlock()
	return len(c.log)
}

type c10client struct {
	ws    *wsClient
	sess  int
	peer  int
	role  int
	alive bool
}

func runC10(cfg config) *hx.Report {
	rep := hx.NewReport("C10")
	rep.Rule = "scripts over 2-3 sessions x up to 6 WebSocket clients against the real thruserv binary: connects (fresh and duplicate peer ids, both roles), addressed / broadcast frames with spoofed `from` and foreign `session_id`, unknown addressees, malformed JSON, invalid envelopes, binary frames, disconnects; run sequentially to quiescence; plus (oracle only) a recipient that stops reading while 900 large messages are addressed to it and then reads again: what it receives must be in order, without duplicates, from the true author. Non-trivial = at least one frame was routed between two clients; distinct by script"
	cf := &hx.CasesFile{Dir: cfg.out, Name: "C10", Module: "C10", Imports: []string{"Model.Hub", "Model.Serv", "Corr.C10"}, PerShard: 10}
	bin := filepath.Join(cfg.out, "thruserv")
	if err := buildBinary("cmd/thruserv", bin); err != nil {
		rep.Violate("build", err.Error(), nil)
		return rep
	}
	sp, err := startThruserv(bin, "--ws-connects-per-min", "0", "--ws-msgs-per-sec", "0", "--session-creates-per-min", "0", "--max-receivers-per-sender", "0", "--max-sessions", "0")
	if err != nil {
		rep.Violate("server-start", err.Error(), nil)
		return rep
	}
	defer sp.stop()
	rng := hx.NewRand(cfg.seed)
	nScripts := 24
	if cfg.tier == "thorough" {
		nScripts = 300
	}
	roleName := map[int]string{1: "sender", 2: "receiver"}
	for sc := 0; sc < nScripts; sc++ {
		nsess := 2 + rng.Intn(2)
		sessions := make([]sessInfo, nsess)
		sidIndex := map[string]int{}
		ok := true
		for i := range sessions {
			s, _, err := createSession(sp.port)
			if err != nil {
				rep.Violate("create-session", err.Error(), nil)
				ok = false
				break
			}
			sessions[i] = s
			sidIndex[s.ID] = i
		}
		if !ok {
			continue
		}
		dead := map[int]bool{}
		var clients []*c10client // conn id = index+1
		var ops, names []string
		nextPayload := 0
		payloadInfo := map[int][3]int{} // payload id -> (session, author conn, to peer or -1)
		quiesce := func() {
			last := -1
			stable := 0
			for i := 0; i < 400 && stable < 4; i++ {
				total := 0
				for _, c := range clients {
					total += c.ws.count()
				}
				if total == last {
					stable++
				} else {
					stable = 0
					last = total
				}
				time.Sleep(4 * time.Millisecond)
			}
		}
		steps := 8 + rng.Intn(25)
		routed := false
		errCount := func(c *c10client) int {
			c.ws.mu.Lock()
			defer c.ws.mu.Unlock()
			n := 0
			for _, e := range c.ws.log {
				if e.Type == protocol.TypeError {
					n++
				}
			}
			return n
		}
		for st := 0; st < steps; st++ {
			r := rng.Intn(20)
			frameAuthor := -1 // index of the client that wrote a frame in this step
			framePid, frameTo := 0, -2 // routed envelope of this step: payload id, addressee (-1 = everybody else)
			var errBefore []int
			for _, c := range clients {
				errBefore = append(errBefore, errCount(c))
			}
			switch {
			case r < 5 || len(clients) < 2:
				if len(clients) >= 6 {
					continue
				}
				s := rng.Intn(nsess)
				p := rng.Intn(4)
				role := 2
				if rng.Intn(4) == 0 {
					role = 1
				}
				ws, status, err := dialWS(sp.port, sessions[s].Code, pname(p), roleName[role])
				if dead[s] {
					// the host of this session has disconnected: its join code must no longer admit anybody
					if err == nil {
						rep.Violate("join-after-host-left", fmt.Sprintf("join code of s%d still admits peers after its host disconnected", s), map[string]any{"script": names})
						ws.conn.Close()
					} else if status != http.StatusNotFound {
						rep.Violate("join-after-host-left", fmt.Sprintf("unexpected status %d for a dead join code", status), map[string]any{"script": names})
					}
					rep.Count("connect-refused-dead-session")
					continue
				}
				if err != nil {
					rep.Violate("connect", fmt.Sprintf("dial failed with status %d: %v", status, err), map[string]any{"script": names})
					continue
				}
				clients = append(clients, &c10client{ws: ws, sess: s, peer: p, role: role, alive: true})
				ops = append(ops, fmt.Sprintf("Serv.Connect %d %d %d %d", s, p, role, len(clients)))
				names = append(names, fmt.Sprintf("connect(s%d,%s,%s)=c%d", s, pname(p), roleName[role], len(clients)))
			case r < 16:
				k := rng.Intn(len(clients))
				c := clients[k]
				if !c.alive {
					continue
				}
				frameAuthor = k
				switch rng.Intn(10) {
				case 0:
					c.ws.conn.WriteMessage(websocket.BinaryMessage, []byte{1, 2, 3})
					ops = append(ops, fmt.Sprintf("Serv.Frame %d Serv.FBinary", k+1))
					names = append(names, fmt.Sprintf("c%d: binary frame", k+1))
				case 1:
					c.ws.conn.WriteMessage(websocket.TextMessage, []byte("{not json"))
					ops = append(ops, fmt.Sprintf("Serv.Frame %d Serv.FBadJson", k+1))
					names = append(names, fmt.Sprintf("c%d: bad json", k+1))
				case 2:
					c.ws.conn.WriteMessage(websocket.TextMessage, []byte(`{"v":2,"type":"x","msg_id":"m"}`))
					ops = append(ops, fmt.Sprintf("Serv.Frame %d Serv.FInvalid", k+1))
					names = append(names, fmt.Sprintf("c%d: invalid envelope", k+1))
				default:
					nextPayload++
					env := protocol.Envelope{V: 1, Type: "offer", MsgID: fmt.Sprintf("m%d", nextPayload)}
					claimFrom := rng.Intn(4)
					env.From = pname(claimFrom) // possibly spoofed
					claim := "None"
					if rng.Intn(3) == 0 {
						other := rng.Intn(nsess)
						env.SessionID = sessions[other].ID
						claim = fmt.Sprintf("(Some %d%%nat)", other)
					}
					to := "None"
					toPeer := -1
					if rng.Intn(2) == 0 {
						toPeer = rng.Intn(5) // 4 = nobody has it
						env.To = pname(toPeer)
						to = fmt.Sprintf("(Some %d%%nat)", toPeer)
					}
					payloadInfo[nextPayload] = [3]int{c.sess, k + 1, toPeer}
					framePid, frameTo = nextPayload, toPeer
					b, _ := json.Marshal(env)
					c.ws.conn.WriteMessage(websocket.TextMessage, b)
					ops = append(ops, fmt.Sprintf("Serv.Frame %d (Serv.FEnv %d %s %s %d)", k+1, claimFrom, claim, to, nextPayload))
					names = append(names, fmt.Sprintf("c%d(%s in s%d): from=%s sess=%s to=%s m%d", k+1, pname(c.peer), c.sess, pname(claimFrom), claim, to, nextPayload))
				}
			default:
				k := rng.Intn(len(clients))
				c := clients[k]
				if !c.alive {
					continue
				}
				quiesce()
				c.alive = false
				if c.role == 1 {
					dead[c.sess] = true
				}
				c.ws.mu.Lock()
				c.ws.closed = true
				c.ws.mu.Unlock()
				c.ws.conn.Close()
				ops = append(ops, fmt.Sprintf("Serv.Disconnect %d", k+1))
				names = append(names, fmt.Sprintf("disconnect(c%d)", k+1))
				time.Sleep(15 * time.Millisecond)
			}
			quiesce()
			// whatever a frame provokes in the way of error reports (unknown addressee,
			// invalid envelope) goes to the CONNECTION that wrote it and to nobody else -
			// also when another connection carries the same peer id
			// completeness: an addressed envelope reaches the named peer's current connection,
			// an unaddressed one every other peer of the session (the current connection of
			// each peer id other than the author's) - while the session lives
			if frameAuthor >= 0 && framePid > 0 && !dead[clients[frameAuthor].sess] {
				author := clients[frameAuthor]
				current := map[int]int{} // peer id -> index of the most recent connection in the author's session
				for j, c := range clients {
					if c.sess == author.sess {
						current[c.peer] = j
					}
				}
				has := func(c *c10client) bool {
					c.ws.mu.Lock()
					defer c.ws.mu.Unlock()
					for _, e := range c.ws.log {
						if e.MsgID == fmt.Sprintf("m%d", framePid) {
							return true
						}
					}
					return false
				}
				for p, j := range current {
					c := clients[j]
					if !c.alive || j == frameAuthor {
						continue
					}
					if frameTo >= 0 && p == frameTo && !has(c) {
						rep.Violate("addressed-not-delivered", fmt.Sprintf("m%d addressed to %s by c%d was not delivered to c%d, the connected %s of s%d (after %q)", framePid, pname(p), frameAuthor+1, j+1, pname(p), c.sess, names[len(names)-1]), map[string]any{"script": names})
					}
					if frameTo == -1 && p != author.peer && !has(c) {
						rep.Violate("broadcast-not-delivered", fmt.Sprintf("m%d broadcast by c%d (%s) was not delivered to c%d (%s) of the same session s%d", framePid, frameAuthor+1, pname(author.peer), j+1, pname(p), c.sess), map[string]any{"script": names})
					}
				}
			}
			if frameAuthor >= 0 {
				for j, c := range clients {
					if j >= len(errBefore) {
						break
					}
					got := errCount(c) - errBefore[j]
					if j != frameAuthor && got > 0 {
						rep.Violate("error-report-to-non-author", fmt.Sprintf("after %q, c%d (%s in s%d) received %d error report(s) although c%d wrote the frame", names[len(names)-1], j+1, pname(c.peer), c.sess, got, frameAuthor+1), map[string]any{"script": names})
					}
					if j == frameAuthor && got > 1 {
						rep.Violate("error-report-duplicated", fmt.Sprintf("after %q its author c%d received %d error reports", names[len(names)-1], j+1, got), map[string]any{"script": names})
					}
				}
			}
		}
		quiesce()
		// logs -> Coq, and the property oracle directly on what the clients saw
		var logTerms []string
		for k, c := range clients {
			c.ws.mu.Lock()
			log := append([]protocol.Envelope{}, c.ws.log...)
			c.ws.mu.Unlock()
			var items []string
			seenPayload := map[int]bool{}
			lastFromAuthor := map[int]int{}
			for _, env := range log {
				switch env.Type {
				case protocol.TypePeerList:
					var pl protocol.PeerList
					env.DecodePayload(&pl)
					var ps []string
					sort.Slice(pl.Peers, func(i, j int) bool { return pl.Peers[i].PeerID < pl.Peers[j].PeerID })
					for _, p := range pl.Peers {
						role := 2
						if p.Role == "sender" {
							role = 1
						}
						ps = append(ps, fmt.Sprintf("(%d, %d)%%nat", cnum(p.PeerID), role))
					}
					items = append(items, fmt.Sprintf("(Serv.MList %s)", hx.List(ps)))
				case protocol.TypePeerJoined:
					var pj protocol.PeerJoined
					env.DecodePayload(&pj)
					role := 2
					if pj.Peer.Role == "sender" {
						role = 1
					}
					items = append(items, fmt.Sprintf("(Serv.MJoined %d %d)", cnum(pj.Peer.PeerID), role))
				case protocol.TypePeerLeft:
					var pl protocol.PeerLeft
					env.DecodePayload(&pl)
					items = append(items, fmt.Sprintf("(Serv.MLeft %d)", cnum(pl.PeerID)))
				case protocol.TypeError:
					to := 99
					if strings.HasPrefix(env.To, "p") {
						to = cnum(env.To)
					}
					items = append(items, fmt.Sprintf("(Serv.MErr %d)", to))
					if env.To != pname(c.peer) {
						rep.Violate("error-to-wrong-peer", fmt.Sprintf("c%d (%s) received an error addressed to %s", k+1, pname(c.peer), env.To), map[string]any{"script": names})
					}
				default:
					pid := cnum(env.MsgID)
					info := payloadInfo[pid]
					sess, ok := sidIndex[env.SessionID]
					if !ok {
						sess = 99
					}
					to := "None"
					if env.To != "" {
						to = fmt.Sprintf("(Some %d%%nat)", cnum(env.To))
					}
					items = append(items, fmt.Sprintf("(Serv.MFwd %d %s %d %d)", cnum(env.From), to, sess, pid))
					routed = true
					author := clients[info[1]-1]
					if info[0] != c.sess {
						rep.Violate("cross-session-delivery", fmt.Sprintf("c%d in s%d received m%d sent in s%d", k+1, c.sess, pid, info[0]), map[string]any{"script": names})
					}
					if env.From != pname(author.peer) {
						rep.Violate("from-not-authenticated", fmt.Sprintf("m%d written by %s arrived with from=%s", pid, pname(author.peer), env.From), map[string]any{"script": names})
					}
					if info[2] >= 0 && pname(info[2]) != pname(c.peer) {
						rep.Violate("addressed-to-other-peer", fmt.Sprintf("m%d addressed to %s was delivered to %s", pid, pname(info[2]), pname(c.peer)), map[string]any{"script": names})
					}
					if seenPayload[pid] {
						rep.Violate("duplicate-delivery", fmt.Sprintf("c%d received m%d twice", k+1, pid), map[string]any{"script": names})
					}
					seenPayload[pid] = true
					if lastFromAuthor[info[1]] > pid {
						rep.Violate("reordered", fmt.Sprintf("c%d received m%d after m%d from the same author", k+1, pid, lastFromAuthor[info[1]]), map[string]any{"script": names})
					}
					lastFromAuthor[info[1]] = pid
				}
			}
			logTerms = append(logTerms, fmt.Sprintf("(%d%%nat, %s, %s)", k+1, hx.B(c.alive), hx.List(items)))
		}
		for _, c := range clients {
			if c.alive {
				c.ws.conn.Close()
			}
		}
		cf.Add(fmt.Sprintf("C10.SC %d %s %s", sc+1, hx.List(parenAll(ops)), hx.List(logTerms)))
		rep.CaseIndex[fmt.Sprint(sc+1)] = map[string]any{"script": names}
		rep.Evaluations++
		rep.TracesValidated++
		rep.Count("script")
		rep.Distribution["ops"] += len(ops)
		if routed {
			rep.Nontrivial(strings.Join(ops, ";"))
		}
		if sc < 3 {
			rep.Sample(map[string]any{"script": names})
		}
		time.Sleep(20 * time.Millisecond)
	}
	cf.Close()
	c10stalled(sp.port, rep, cfg)
	return rep
}

// c10stalled (oracle only): a recipient stops reading its socket while an author keeps
// addressing it - far more than the socket buffers and the hub's per-recipient queue hold -
// and then reads again.  Whatever it then receives from that author must be in the order
// sent, without duplicates, and carry the author's identity (C10: "never duplicated or
// reordered"; losses are allowed here, the recipient was not reading).
func c10stalled(port int, rep *hx.Report, cfg config) {
	rounds := 1
	if cfg.tier == "thorough" {
		rounds = 4
	}
	for round := 0; round < rounds; round++ {
		s, _, err := createSession(port)
		if err != nil {
			rep.Violate("create-session", err.Error(), nil)
			return
		}
		a, _, err1 := dialWS(port, s.Code, "author", "sender")
		b, _, err2 := dialWS(port, s.Code, "stalled", "receiver")
		if err1 != nil || err2 != nil {
			rep.Violate("stalled-recipient:connect", fmt.Sprint(err1, err2), nil)
			return
		}
		time.Sleep(50 * time.Millisecond)
		b.hold.Lock()
		const n = 900
		pad := strings.Repeat("x", 40000+round*5000)
		for i := 1; i <= n; i++ {
			env := protocol.Envelope{V: 1, Type: "offer", MsgID: fmt.Sprintf("q%d", i), To: "stalled"}
			env.Payload, _ = json.Marshal(map[string]any{"seq": i, "pad": pad})
			raw, _ := json.Marshal(env)
			if err := a.conn.WriteMessage(websocket.TextMessage, raw); err != nil {
				rep.Violate("stalled-recipient:author-write", err.Error(), nil)
				break
			}
		}
		// a message to itself comes back once the server has handled everything before it
		self, _ := json.Marshal(protocol.Envelope{V: 1, Type: "offer", MsgID: "self", To: "author"})
		a.conn.WriteMessage(websocket.TextMessage, self)
		for i := 0; i < 2000; i++ {
			a.mu.Lock()
			got := false
			for _, e := range a.log {
				if e.MsgID == "self" {
					got = true
				}
			}
			a.mu.Unlock()
			if got {
				break
			}
			time.Sleep(5 * time.Millisecond)
		}
		b.hold.Unlock()
		last, stable := -1, 0
		for i := 0; i < 2000 && stable < 40; i++ {
			if c := b.count(); c == last {
				stable++
			} else {
				stable, last = 0, c
			}
			time.Sleep(5 * time.Millisecond)
		}
		b.mu.Lock()
		var seqs []int
		for _, e := range b.log {
			if e.Type != "offer" {
				continue
			}
			var pl struct {
				Seq int `json:"seq"`
			}
			e.DecodePayload(&pl)
			if e.From != "author" {
				rep.Violate("stalled-recipient:from", fmt.Sprintf("message %d reached the recipient with from=%q", pl.Seq, e.From), map[string]any{"scenario": "stalled-recipient"})
			}
			seqs = append(seqs, pl.Seq)
		}
		b.mu.Unlock()
		rep.Evaluations++
		rep.Count("stalled-recipient")
		rep.Distribution["stalled-recipient:received"] += len(seqs)
		if len(seqs) < n {
			rep.Count("stalled-recipient:overflowed")
			rep.Nontrivial(fmt.Sprintf("stalled:%d:%d", round, len(seqs)))
		}
		for i := 1; i < len(seqs); i++ {
			if seqs[i] <= seqs[i-1] {
				rep.Violate("stalled-recipient:order", fmt.Sprintf("after a stall the recipient saw the author's message #%d after #%d (position %d of %d received, %d sent)", seqs[i], seqs[i-1], i+1, len(seqs), n),
					map[string]any{"scenario": "stalled-recipient: the recipient stops reading, the author addresses it 900 messages of ~40 KB, the recipient reads again", "received": len(seqs)})
				break
			}
		}
		a.conn.Close()
		b.conn.Close()
	}
}

func init() { runners["C10"] = runC10 }

package main

import (
	"bytes"
	"fmt"
	"os"
	"path/filepath"
	"time"

	"github.com/sheerbytes/sheerbytes/internal/transfer"
	"github.com/sheerbytes/sheerbytes/pkg/manifest"
	"github.com/sheerbytes/sheerbytes/verifharness/internal/hx"
)

// C19 beyond 4 GiB, on the real endpoints: a SPARSE source file larger than 2^32
// bytes whose last chunks (and the chunks at the same offsets modulo 2^32) carry
// distinct markers; the output directory already holds everything but the last
// chunks (sparse as well) with honest resume metadata, so that a real resumed
// transfer moves only the tail.  What the sender reads and where the receiver
// writes for chunk indices whose byte offset does not fit 32 bits is then compared
// with the source.  (The arithmetic itself is proved on the generated functions;
// this run is the search for a concrete failing input on the implementation when
// one of those proofs breaks, and a test of the positional reads/writes around it.)
func runC19large(cfg config, rep *hx.Report) {
	type big struct {
		size int64
		cs   uint32
		tail int // chunks left to transfer
	}
	cases := []big{{4<<30 + 3<<20 + 17, 1 << 20, 4}}
	if cfg.tier == "thorough" {
		cases = append(cases, big{8<<30 + 5, 4<<20 - 1, 3}, big{4<<30 + 1, 65537, 2}, big{1 << 32, 1 << 16, 2})
	}
	base, _ := os.MkdirTemp("", "c19big")
	defer os.RemoveAll(base)
	for ci, c := range cases {
		desc := map[string]any{"size": c.size, "chunk_size": c.cs, "tail_chunks": c.tail, "how": "sparse source; output pre-populated (sparse) with all but the last chunks and honest metadata; one resumed transfer between the real endpoints"}
		dir := filepath.Join(base, fmt.Sprintf("b%d", ci))
		src := filepath.Join(dir, "src", "root")
		out := filepath.Join(dir, "out")
		os.MkdirAll(src, 0755)
		os.MkdirAll(out, 0755)
		total := transfer.VerifChunkTotal(c.size, c.cs)
		if int(total) <= c.tail {
			continue
		}
		first := int64(total) - int64(c.tail) // first chunk index still to transfer
		marker := func(tag byte, k int64) []byte {
			b := make([]byte, 48)
			for i := range b {
				b[i] = tag ^ byte(k*7+int64(i))
			}
			return b
		}
		sp := filepath.Join(src, "big.bin")
		sf, err := os.Create(sp)
		if err != nil {
			panic(err)
		}
		sf.Truncate(c.size)
		for k := first; k < int64(total); k++ {
			off := k * int64(c.cs)
			mk := marker(0xA0, k)
			if n := int64(transfer.VerifChunkSizeForIndex(c.size, c.cs, uint32(k))); n < int64(len(mk)) {
				mk = mk[:n]
			}
			sf.WriteAt(mk, off)
			// what a 32-bit offset would read instead
			// (aliases that coincide with the chunk itself or would extend the file are left out)
			for _, al := range []struct {
				tag byte
				at  int64
			}{{0x11, int64(uint32(off))}, {0x33, int64(uint32(k))}} { // the second: an index-sized alias
				if al.at+48 <= first*int64(c.cs) {
					sf.WriteAt(marker(al.tag, k), al.at)
				}
			}
		}
		sf.Close()
		m, err := manifest.Scan(src)
		if err != nil || len(m.Items) == 0 {
			rep.Notes = append(rep.Notes, fmt.Sprintf("large-file run skipped: scan failed: %v", err))
			continue
		}
		var item manifest.FileItem
		for _, it := range m.Items {
			if !it.IsDir {
				item = it
			}
		}
		// prior state: everything below `first` is there (copy the low markers), metadata says so
		op := filepath.Join(out, filepath.FromSlash(item.RelPath))
		os.MkdirAll(filepath.Dir(op), 0755)
		of, err := os.Create(op)
		if err != nil {
			panic(err)
		}
		of.Truncate(c.size)
		srcF, _ := os.Open(sp)
		buf := make([]byte, 64)
		for k := first; k < int64(total); k++ {
			for _, off := range []int64{int64(uint32(k * int64(c.cs))), int64(uint32(k))} {
				if off < first*int64(c.cs) {
					srcF.ReadAt(buf, off)
					of.WriteAt(buf, off)
				}
			}
		}
		of.Close()
		sc, err := transfer.LoadOrCreateSidecar(transfer.SidecarPath(out, "", transfer.VerifSidecarIdentifier(item)), item.ID, item.Size, c.cs)
		if err != nil {
			rep.Notes = append(rep.Notes, fmt.Sprintf("large-file run skipped: sidecar: %v", err))
			srcF.Close()
			continue
		}
		for k := int64(0); k < first; k++ {
			sc.MarkComplete(uint32(k))
		}
		if err := sc.Flush(); err != nil {
			panic(err)
		}
		res := runXfer(src, out, xferCfg{chunkSize: int(c.cs), streams: 2, resume: true, timeout: 60 * time.Second})
		rep.Evaluations++
		rep.Count("large-file-tail-transfer")
		if !res.sendDone || !res.recvDone {
			rep.Violate("large-file:hang", fmt.Sprintf("resumed transfer of the tail of a %d-byte file (chunk size %d) did not finish", c.size, c.cs), desc)
			srcF.Close()
			continue
		}
		if res.sendErr != nil || res.recvErr != nil {
			rep.Violate("large-file:failed", fmt.Sprintf("resumed transfer of the tail of a %d-byte file (chunk size %d) failed: sender=%v receiver=%v", c.size, c.cs, res.sendErr, res.recvErr), desc)
			srcF.Close()
			continue
		}
		st, err := os.Stat(op)
		if err != nil || st.Size() != c.size {
			rep.Violate("large-file:size", fmt.Sprintf("output has %v bytes, the source %d", st, c.size), desc)
		}
		outF, _ := os.Open(op)
		for k := first; k < int64(total); k++ {
			off := k * int64(c.cs)
			n := int64(transfer.VerifChunkSizeForIndex(c.size, c.cs, uint32(k)))
			a, b := make([]byte, n), make([]byte, n)
			srcF.ReadAt(a, off)
			outF.ReadAt(b, off)
			if !bytes.Equal(a, b) {
				rep.Violate("large-file:tail-chunk", fmt.Sprintf("size=%d cs=%d: both sides report success but chunk %d (offset %d >= 2^32, %d bytes) of the output differs from the source; it starts with % x, the source with % x", c.size, c.cs, k, off, n, b[:8], a[:8]), desc)
				break
			}
		}
		// the low region must not have been written to by mistake
		for k := first; k < int64(total); k++ {
			off := int64(uint32(k * int64(c.cs)))
			if off >= first*int64(c.cs) {
				continue
			}
			a, b := make([]byte, 64), make([]byte, 64)
			srcF.ReadAt(a, off)
			outF.ReadAt(b, off)
			if !bytes.Equal(a, b) {
				rep.Violate("large-file:low-region-overwritten", fmt.Sprintf("size=%d cs=%d: the bytes at offset %d (= offset of chunk %d modulo 2^32) were changed by the transfer of the tail", c.size, c.cs, off, k), desc)
				break
			}
		}
		srcF.Close()
		outF.Close()
		rep.Nontrivial(fmt.Sprintf("big:%d:%d", c.size, c.cs))
		rep.Sample(map[string]any{"large_file": c.size, "chunk_size": c.cs, "chunks": total, "transferred_tail_chunks": c.tail, "ms": res.dur.Milliseconds()})
		os.RemoveAll(dir)
	}
}

package main

import (
	"fmt"
	"os"
	"path/filepath"

	"github.com/sheerbytes/sheerbytes/internal/transfer"
	"github.com/sheerbytes/sheerbytes/verifharness/internal/hx"
)

// C19: chunk geometry. Runs the real chunkTotal / chunkSizeForIndex / CreateSidecar,
// evaluates the tiling predicate directly on them (the property oracle) and
// emits every evaluation as a case for the generated Coq functions.
func runC19(cfg config) *hx.Report {
	rep := hx.NewReport("C19")
	rep.Rule = "pairs (size, chunkSize): exhaustive size<=64 x cs<=17, boundary pairs k*cs-1,k*cs,k*cs+1, 2^31+-1, 2^32-1, 10 TiB, and random 64-bit-scale pairs inside the property's domain; a pair is non-trivial when it has >= 2 chunks and a short last chunk, or sits on a chunk boundary; distinct by (size, cs); plus one-file transfers between the real endpoints for sizes 0, 1, k*cs-1, k*cs, k*cs+1 (the receiver must accept and write exactly the chunk indexes the geometry gives)"
	cf := &hx.CasesFile{Dir: cfg.out, Name: "C19", Module: "C19", Imports: []string{"Lib.GoInt", "Corr.C19"}, PerShard: 4000}
	rng := hx.NewRand(cfg.seed)
	const maxFile = int64(10) * 1024 * 1024 * 1024 * 1024
	id := 0
	tmp, _ := os.MkdirTemp("", "c19")
	defer os.RemoveAll(tmp)

	type pair struct {
		size int64
		cs   uint32
	}
	evalPair := func(p pair, kind string) {
		rep.Count(kind)
		size, cs := p.size, p.cs
		n := transfer.VerifChunkTotal(size, cs)
		id++
		cf.Add(fmt.Sprintf("C19.CT %d %s %d %d", id, hx.Z(size), cs, n))
		rep.CaseIndex[fmt.Sprint(id)] = map[string]any{"fn": "chunkTotal", "size": size, "cs": cs}
		rep.Evaluations++
		// the property's domain: cs>=1 and the count fits the 32-bit wire field
		want := uint64(0)
		if cs > 0 && size > 0 {
			want = (uint64(size) + uint64(cs) - 1) / uint64(cs)
		}
		inDomain := cs >= 1 && size >= 0 && size <= maxFile && want < 1<<32
		if !inDomain {
			return
		}
		if uint64(n) != want {
			rep.Violate("count", fmt.Sprintf("chunkTotal(%d,%d)=%d, exact ceil is %d", size, cs, n, want), map[string]any{"fn": "chunkTotal", "size": size, "cs": cs})
		}
		if n >= 2 && size%int64(cs) != 0 || (size%int64(cs) == 0 && size > 0) {
			rep.Nontrivial(fmt.Sprintf("%d/%d", size, cs))
		}
		// indices to evaluate: all when small, else first, last, a few random and one beyond
		var idxs []uint32
		if n <= 40 {
			for i := uint32(0); i < n; i++ {
				idxs = append(idxs, i)
			}
		} else {
			idxs = []uint32{0, 1, n - 2, n - 1}
			for k := 0; k < 3; k++ {
				idxs = append(idxs, uint32(rng.U64()%uint64(n)))
			}
		}
		idxs = append(idxs, n)
		var sum int64
		for _, i := range idxs {
			l := transfer.VerifChunkSizeForIndex(size, cs, i)
			id++
			cf.Add(fmt.Sprintf("C19.CL %d %s %d %d %d", id, hx.Z(size), cs, i, l))
			rep.CaseIndex[fmt.Sprint(id)] = map[string]any{"fn": "chunkSizeForIndex", "size": size, "cs": cs, "idx": i}
			rep.Evaluations++
			off := int64(i) * int64(cs)
			bad := ""
			switch {
			case i >= n:
				if l != 0 {
					bad = "chunk beyond the end has non-zero length"
				}
			case l == 0 || l > cs:
				bad = "length not in (0, cs]"
			case i < n-1 && l != cs:
				bad = "inner chunk is not full"
			case off+int64(l) > size:
				bad = "chunk exceeds the file"
			case i == n-1 && off+int64(l) != size:
				bad = "last chunk does not end at the file size"
			}
			if bad != "" {
				rep.Violate("tiling", fmt.Sprintf("size=%d cs=%d idx=%d len=%d: %s", size, cs, i, l, bad), map[string]any{"fn": "chunkSizeForIndex", "size": size, "cs": cs, "idx": i})
			}
			if i < n {
				sum += int64(l)
			}
		}
		if n <= 40 && sum != size {
			rep.Violate("tiling", fmt.Sprintf("size=%d cs=%d: lengths sum to %d", size, cs, sum), map[string]any{"fn": "sum", "size": size, "cs": cs})
		}
		rep.Sample(map[string]any{"size": size, "cs": cs, "chunks": n})
	}

	// exhaustive small domain
	for size := int64(0); size <= 64; size++ {
		for cs := uint32(0); cs <= 17; cs++ {
			evalPair(pair{size, cs}, "exhaustive-small")
		}
	}
	// boundaries
	for _, cs := range []uint32{1, 2, 3, 7, 4096, 65536, 1 << 20, 4 << 20, 1<<31 - 1, 1 << 31, 1<<31 + 1, 1<<32 - 1} {
		for _, k := range []int64{1, 2, 3, 5, 1000, 1 << 20} {
			for _, d := range []int64{-1, 0, 1} {
				s := k*int64(cs) + d
				if s >= 0 && s <= maxFile {
					evalPair(pair{s, cs}, "boundary")
				}
			}
		}
		for _, s := range []int64{0, 1, 1<<31 - 1, 1 << 31, 1<<32 - 1, 1 << 32, 1<<32 + 1, maxFile - 1, maxFile} {
			evalPair(pair{s, cs}, "boundary")
		}
	}
	// random
	nRandom := 3000
	if cfg.tier == "thorough" {
		nRandom = 60000
	}
	for k := 0; k < nRandom; k++ {
		var cs uint32
		switch rng.Intn(4) {
		case 0:
			cs = uint32(1 + rng.Intn(64))
		case 1:
			cs = uint32(1 + rng.Intn(1<<22))
		default:
			cs = uint32(rng.U64())
		}
		var size int64
		switch rng.Intn(4) {
		case 0:
			size = int64(rng.U64() % uint64(maxFile+1))
		case 1:
			size = int64(rng.U64() % (1 << 33))
		case 2:
			size = int64(cs)*int64(rng.Intn(1<<16)) + int64(rng.Intn(3)) - 1
		default:
			size = int64(rng.U64() % (1 << 20))
		}
		if size < 0 {
			size = 0
		}
		if size > maxFile {
			size = maxFile
		}
		evalPair(pair{size, cs}, "random")
	}
	// resume metadata: TotalChunks of a really created sidecar (small counts only:
	// the bitmap is allocated)
	nSide := 0
	for size := int64(0); size <= 40; size++ {
		for _, cs := range []uint32{0, 1, 2, 3, 5, 8, 16, 41} {
			p := filepath.Join(tmp, fmt.Sprintf("s%d_%d.sbxmap", size, cs))
			sc, err := transfer.CreateSidecar(p, "id", size, cs)
			id++
			rep.Evaluations++
			nSide++
			rep.CaseIndex[fmt.Sprint(id)] = map[string]any{"fn": "CreateSidecar", "size": size, "cs": cs}
			if err != nil {
				cf.Add(fmt.Sprintf("C19.SC %d %d %d Err", id, size, cs))
				continue
			}
			cf.Add(fmt.Sprintf("C19.SC %d %d %d (Ret %d)", id, size, cs, sc.TotalChunks))
			n := transfer.VerifChunkTotal(size, cs)
			if sc.TotalChunks != n {
				sig := "sidecar-count"
				if size == 0 {
					sig = "sidecar-count:size=0"
				}
				rep.Violate(sig, fmt.Sprintf("size=%d cs=%d: sidecar says %d chunks, sender/receiver say %d", size, cs, sc.TotalChunks, n), map[string]any{"fn": "CreateSidecar", "size": size, "cs": cs})
			}
		}
	}
	rep.Distribution["sidecar-created"] = nSide
	cf.Close()
	runC19large(cfg, rep)
	runC19e2e(cfg, rep)
	return rep
}

package main

import (
	"fmt"
	"sort"
	"strings"
	"sync"
	"sync/atomic"
	"time"

	"github.com/sheerbytes/sheerbytes/internal/peers"
	"github.com/sheerbytes/sheerbytes/pkg/protocol"
	"github.com/sheerbytes/sheerbytes/verifharness/internal/hx"
)

type hubAction struct {
	kind                string // add remove closesession broadcast bexcept sendto list permit advance
	sess, peer, conn, k int
}

func (a hubAction) String() string {
	return fmt.Sprintf("%s(s%d,p%d,c%d,%d)", a.kind, a.sess, a.peer, a.conn, a.k)
}

// runHubHistory executes a script of actions; `advance k` resumes the k-th
// pending task (mod their number).
func runHubHistory(script []hubAction) *hubRun {
	r := &hubRun{hub: peers.NewHub(), conns: map[int]*hubConn{}, entered: make(chan int, 100000), msgSess: map[int]int{}, msgFrom: map[int]int{}, delivered: map[int]int{}}
	r.st = newStepper()
	defer r.st.close()
	var pending []*hubTask
	prune := func() {
		var keep []*hubTask
		for _, t := range pending {
			if !t.t.finished() {
				keep = append(keep, t)
			}
		}
		pending = keep
	}
	connected := func(c *hubConn) bool { return c.added && !c.rmStarted && !c.replaced && !c.closedBySess }
	checkRoutable := func(step string) {
		st := r.hub.VerifState()
		for _, c := range r.conns {
			if !connected(c) {
				continue
			}
			routable := st.ByPeer[sname(c.sess)][pname(c.peer)] == cname(c.id)
			in := false
			for _, x := range st.Sessions[sname(c.sess)] {
				if x == cname(c.id) {
					in = true
				}
			}
			if !routable || !in {
				r.viol = append(r.viol, [2]string{"unroutable:stale-gc", fmt.Sprintf("after %s: %s (%s in %s) is connected but not routable", step, cname(c.id), pname(c.peer), sname(c.sess))})
			}
		}
	}
	for _, a := range script {
		a := a
		if !r.guarded(a.String(), func() {
			switch a.kind {
			case "add":
				r.add(a.sess, a.peer)
				r.settle()
			case "remove":
				if c := r.conns[a.conn]; c != nil && !c.rmStarted {
					pending = append(pending, r.startRemove(a.conn))
				}
			case "closesession":
				busy := false
				for _, t := range pending {
					if t.kind == "closesession" && t.sess == a.sess {
						busy = true
					}
				}
				if !busy {
					pending = append(pending, r.startCloseSession(a.sess))
				}
			case "broadcast":
				r.broadcast(a.sess, -1, 0)
			case "bexcept":
				r.broadcast(a.sess, a.peer, a.conn)
			case "sendto":
				r.sendTo(a.sess, a.peer, a.conn)
			case "list":
				r.list(a.sess)
			case "permit":
				r.permit(a.conn)
			case "advance":
				if len(pending) > 0 {
					r.advance(pending[a.k%len(pending)])
				}
			}
			for _, t := range pending {
				if t.t.panicked != nil {
					r.panics = append(r.panics, fmt.Sprintf("%s: %v", t.name, t.t.panicked))
					t.t.panicked = nil
				}
			}
			prune()
			checkRoutable(a.String())
		}) {
			return r
		}
		for _, t := range pending {
			if t.t.hung && r.wedged == "" {
				r.wedged = t.name + " (resumed by " + a.String() + ")"
			}
		}
		if r.wedged != "" {
			return r
		}
	}
	// run everything to completion
	r.guarded("completion of the pending operations", func() {
		for len(pending) > 0 {
			r.advance(pending[0])
			if pending[0].t.hung {
				r.wedged = pending[0].name
				return
			}
			prune()
		}
	})
	return r
}

// finish: open every gate, remove every connection, wait for the writers.
func (r *hubRun) finalObservation() (string, bool) {
	ids := make([]int, 0, len(r.conns))
	for id := range r.conns {
		ids = append(ids, id)
	}
	sort.Ints(ids)
	st := r.hub.VerifState()
	var cparts []string
	for _, id := range ids {
		c := r.conns[id]
		n := r.hub.VerifChanLen(sname(c.sess), cname(c.id))
		r.mu.Lock()
		taken := append([]int{}, c.taken...)
		r.mu.Unlock()
		cparts = append(cparts, fmt.Sprintf("(%d%%nat, %s, %d)", id, natList(taken), n))
	}
	var sparts []string
	sids := make([]string, 0)
	for s := range st.Sessions {
		sids = append(sids, s)
	}
	sort.Strings(sids)
	for _, s := range sids {
		cs := []int{}
		for _, x := range st.Sessions[s] {
			cs = append(cs, cnum(x))
		}
		sort.Ints(cs)
		sparts = append(sparts, fmt.Sprintf("(%d%%nat, %s)", cnum(s), natList(cs)))
	}
	var bparts []string
	type bp struct{ s, p, c int }
	var bps []bp
	for s, m := range st.ByPeer {
		for p, c := range m {
			bps = append(bps, bp{cnum(s), cnum(p), cnum(c)})
		}
	}
	sort.Slice(bps, func(i, j int) bool {
		if bps[i].s != bps[j].s {
			return bps[i].s < bps[j].s
		}
		return bps[i].p < bps[j].p
	})
	for _, b := range bps {
		bparts = append(bparts, fmt.Sprintf("(%d, %d, %d)%%nat", b.s, b.p, b.c))
	}
	leak := false
	allGone := true
	for _, c := range r.conns {
		if c.added && !c.rmStarted && !c.replaced && !c.closedBySess {
			allGone = false
		}
	}
	if allGone && (len(st.Sessions) > 0 || len(st.ByPeer) > 0) {
		leak = true
	}
	return fmt.Sprintf("%s %s %s %d%%nat", hx.List(cparts), hx.List(sparts), hx.List(bparts), len(r.panics)), leak
}

func (r *hubRun) cleanup() {
	for _, c := range r.conns {
		r.openGate(c)
	}
	time.Sleep(200 * time.Microsecond)
}

func runC11(cfg config) *hx.Report { return runHub(cfg, "C11") }

func runHub(cfg config, prop string) *hx.Report {
	rep := hx.NewReport(prop)
	rep.Rule = "histories of Add / remove (3 phases) / CloseSession (detach + per-connection close) / Broadcast and BroadcastExcept (copy + per-connection send) / SendTo / List / writer permits on a real peers.Hub over 2 sessions x 3 peer ids, phases interleaved by the harness through verifhook points: directed scenarios (broadcast vs. close, stale garbage collection, replacement by duplicate id, full channel) plus random schedules with up to 3 operations in flight; non-trivial = at least two operations overlapped or a channel filled up; distinct by the recorded operation list"
	cf := &hx.CasesFile{Dir: cfg.out, Name: prop, Module: "C11", Imports: []string{"Model.Hub", "Corr.C11"}, PerShard: 60}
	rng := hx.NewRand(cfg.seed)
	id := 0
	emit := func(script []hubAction, kind string) {
		if rep.Distribution["violation:deadlock"] >= 2 {
			// every further history would cost another watchdog period
			if rep.Distribution["histories-skipped-after-deadlocks"] == 0 {
				rep.Notes = append(rep.Notes, "stopped running histories after two deadlocks")
			}
			rep.Count("histories-skipped-after-deadlocks")
			return
		}
		r := runHubHistory(script)
		if r.wedged != "" {
			// the hub no longer answers: every further call would block on its mutex
			for _, c := range r.conns {
				r.openGate(c)
			}
			rep.Evaluations++
			rep.Count(kind)
			rep.Violate("deadlock", fmt.Sprintf("%s never returned (hub wedged); recovered panics so far: %v; history %v then %v", r.wedged, r.panics, r.names, script),
				map[string]any{"history": r.names, "script": fmt.Sprint(script), "stuck": r.wedged, "panics": r.panics})
			return
		}
		final, leak := r.finalObservation()
		r.cleanup()
		id++
		cf.Add(fmt.Sprintf("C11.HH %d 256%%nat %s %s %s", id, hx.List(parenAll(r.ops)), hx.List(parenAll(r.outs)), final))
		rep.CaseIndex[fmt.Sprint(id)] = map[string]any{"history": r.names}
		rep.Evaluations++
		rep.TracesValidated++
		rep.Count(kind)
		overlapped := false
		for _, n := range r.names {
			if strings.HasPrefix(n, "remove2") || strings.HasPrefix(n, "closesession2") {
				overlapped = true
			}
		}
		if overlapped {
			rep.Nontrivial(strings.Join(r.ops, ";"))
		}
		seen := map[string]bool{}
		for _, p := range r.panics {
			sig := "panic:other"
			if strings.Contains(p, "send on closed channel") {
				sig = "panic:send-on-closed-channel"
				if strings.HasPrefix(p, "sendto") {
					sig = "panic:sendto-on-closed-channel"
				}
			}
			if !seen[sig] {
				seen[sig] = true
				rep.Violate(sig, fmt.Sprintf("%s in history %v", p, r.names), map[string]any{"history": r.names})
			}
		}
		for _, v := range r.viol {
			if !seen[v[0]] {
				seen[v[0]] = true
				rep.Violate(v[0], fmt.Sprintf("%s; history %v", v[1], r.names), map[string]any{"history": r.names})
			}
		}
		if leak {
			rep.Violate("leak", fmt.Sprintf("every connection has left but routing state remains; history %v", r.names), map[string]any{"history": r.names})
		}
		// isolation / duplication / per-author order on what the writers took
		for _, c := range r.conns {
			seenMsg := map[int]bool{}
			lastFrom := map[int]int{}
			for _, m := range c.taken {
				if r.msgSess[m] != c.sess {
					rep.Violate("cross-session-delivery", fmt.Sprintf("%s in %s received m%d of %s; history %v", cname(c.id), sname(c.sess), m, sname(r.msgSess[m]), r.names), map[string]any{"history": r.names})
				}
				if seenMsg[m] {
					rep.Violate("duplicate-delivery", fmt.Sprintf("%s received m%d twice; history %v", cname(c.id), m, r.names), map[string]any{"history": r.names})
				}
				seenMsg[m] = true
				if f := r.msgFrom[m]; f > 0 {
					if lastFrom[f] > m {
						rep.Violate("reordered", fmt.Sprintf("%s received m%d after m%d from the same author; history %v", cname(c.id), m, lastFrom[f], r.names), map[string]any{"history": r.names})
					}
					lastFrom[f] = m
				}
			}
		}
		if id%37 == 0 || kind != "random" {
			rep.Sample(map[string]any{"kind": kind, "history": r.names})
		}
	}

	A := func(kind string, sess, peer, conn, k int) hubAction { return hubAction{kind, sess, peer, conn, k} }
	// directed scenarios
	emit([]hubAction{A("add", 0, 0, 0, 0), A("add", 0, 1, 0, 0), A("broadcast", 0, 0, 0, 0), A("remove", 0, 0, 2, 0), A("advance", 0, 0, 0, 1), A("advance", 0, 0, 0, 0), A("advance", 0, 0, 0, 0)}, "directed:broadcast-vs-remove")
	emit([]hubAction{A("add", 0, 0, 0, 0), A("add", 0, 1, 0, 0), A("bexcept", 0, 0, 1, 0), A("closesession", 0, 0, 0, 0), A("advance", 0, 0, 0, 1), A("advance", 0, 0, 0, 1), A("advance", 0, 0, 0, 0)}, "directed:broadcast-vs-closesession")
	emit([]hubAction{A("add", 0, 0, 0, 0), A("add", 0, 1, 0, 0), A("broadcast", 0, 0, 0, 0), A("add", 0, 1, 0, 0), A("advance", 0, 0, 0, 0), A("advance", 0, 0, 0, 0)}, "directed:broadcast-vs-replacement")
	// stale GC: two removals past phase 1, first one GCs, a new peer joins, second one GCs the new entry
	emit([]hubAction{A("add", 0, 0, 0, 0), A("add", 0, 1, 0, 0), A("remove", 0, 0, 1, 0), A("remove", 0, 0, 2, 0), A("advance", 0, 0, 0, 0), A("advance", 0, 0, 0, 0), A("add", 0, 2, 0, 0), A("advance", 0, 0, 0, 0), A("advance", 0, 0, 0, 0), A("sendto", 0, 2, 0, 0), A("list", 0, 0, 0, 0)}, "directed:stale-gc")
	// replacement by duplicate peer id, then the old connection's remove
	emit([]hubAction{A("add", 0, 0, 0, 0), A("add", 0, 0, 0, 0), A("sendto", 0, 0, 0, 0), A("remove", 0, 0, 1, 0), A("sendto", 0, 0, 0, 0), A("remove", 0, 0, 2, 0), A("advance", 0, 0, 0, 0), A("advance", 0, 0, 0, 0), A("list", 0, 0, 0, 0)}, "directed:replacement")
	// a full channel: 300 addressed messages to a gated connection, then permits
	{
		s := []hubAction{A("add", 0, 0, 0, 0), A("add", 1, 0, 0, 0)}
		for i := 0; i < 300; i++ {
			s = append(s, A("sendto", 0, 0, 0, 0))
		}
		s = append(s, A("permit", 0, 0, 1, 0), A("sendto", 0, 0, 0, 0), A("sendto", 1, 0, 0, 0), A("sendto", 1, 1, 0, 0))
		emit(s, "directed:full-channel")
	}
	// random schedules
	n := 260
	if cfg.tier == "thorough" {
		n = 4000
	}
	for h := 0; h < n; h++ {
		var s []hubAction
		conns := 0
		steps := 6 + rng.Intn(30)
		for i := 0; i < steps; i++ {
			switch x := rng.Intn(20); {
			case x < 4 || conns == 0:
				s = append(s, A("add", rng.Intn(2), rng.Intn(3), 0, 0))
				conns++
			case x < 7:
				s = append(s, A("remove", 0, 0, 1+rng.Intn(conns), 0))
			case x < 8:
				s = append(s, A("closesession", rng.Intn(2), 0, 0, 0))
			case x < 10:
				s = append(s, A("broadcast", rng.Intn(2), 0, 0, 0))
			case x < 12:
				s = append(s, A("bexcept", rng.Intn(2), rng.Intn(3), 1+rng.Intn(conns), 0))
			case x < 14:
				s = append(s, A("sendto", rng.Intn(2), rng.Intn(3), 1+rng.Intn(conns), 0))
			case x < 15:
				s = append(s, A("list", rng.Intn(2), 0, 0, 0))
			case x < 16:
				s = append(s, A("permit", 0, 0, 1+rng.Intn(conns), 0))
			default:
				s = append(s, A("advance", 0, 0, 0, rng.Intn(3)))
			}
		}
		emit(s, "random")
	}
	// real concurrency: broadcasts racing joins, leaves, replacements and session
	// closes on a shared hub; every goroutine recovers panics
	{
		dur := 400 * time.Millisecond
		if cfg.tier == "thorough" {
			dur = 5 * time.Second
		}
		panics, ops, first, stuck := hubStress(dur, cfg.seed)
		rep.Distribution["stress-ops"] = ops
		rep.Evaluations += ops
		if panics > 0 {
			sig := "panic:other"
			if strings.Contains(first, "send on closed channel") {
				sig = "panic:send-on-closed-channel"
			}
			rep.Violate(sig, fmt.Sprintf("%d recovered panics (first: %s) in a %v concurrent stress of Broadcast/BroadcastExcept/SendTo against Add/remove/CloseSession", panics, first, dur), map[string]any{"stress": dur.String(), "seed": cfg.seed, "first_panic": first})
		}
		if stuck > 0 {
			rep.Violate("deadlock", fmt.Sprintf("%d of 8 stress goroutines never came back from a hub call within 20 s after the stress stopped (recovered panics: %d, first: %s)", stuck, panics, first), map[string]any{"stress": dur.String(), "seed": cfg.seed, "first_panic": first})
		}
	}
	cf.Close()
	return rep
}

func parenAll(xs []string) []string {
	out := make([]string, len(xs))
	for i, x := range xs {
		if strings.Contains(x, " ") {
			out[i] = "(" + x + ")"
		} else {
			out[i] = x
		}
	}
	return out
}

func init() { runners["C11"] = runC11 }

// hubStress runs unsynchronised goroutines against one hub and counts recovered panics.
func hubStress(d time.Duration, seed uint64) (panics int, ops int, first string, stuck int) {
	h := peers.NewHub()
	var mu sync.Mutex
	stop := make(chan struct{})
	var wg sync.WaitGroup
	var running int64
	worker := func(id int, f func(r *hx.Rand)) {
		wg.Add(1)
		atomic.AddInt64(&running, 1)
		go func() {
			defer wg.Done()
			defer atomic.AddInt64(&running, -1)
			r := hx.NewRand(seed*131 + uint64(id))
			for {
				select {
				case <-stop:
					return
				default:
				}
				func() {
					defer func() {
						if p := recover(); p != nil {
							mu.Lock()
							panics++
							if first == "" {
								first = fmt.Sprint(p)
							}
							mu.Unlock()
						}
					}()
					f(r)
				}()
				mu.Lock()
				ops++
				mu.Unlock()
			}
		}()
	}
	send := func(protocol.Envelope) error { return nil }
	env := protocol.Envelope{V: 1, Type: "x", MsgID: "m"}
	for i := 0; i < 4; i++ {
		worker(i, func(r *hx.Rand) {
			s := sname(r.Intn(2))
			switch r.Intn(3) {
			case 0:
				h.Broadcast(s, env)
			case 1:
				h.BroadcastExcept(s, pname(r.Intn(3)), env)
			default:
				h.SendTo(s, pname(r.Intn(3)), env)
			}
		})
	}
	var cnt int64
	for i := 4; i < 8; i++ {
		worker(i, func(r *hx.Rand) {
			mu.Lock()
			cnt++
			c := cnt
			mu.Unlock()
			s := sname(r.Intn(2))
			rm := h.Add(s, peers.Peer{PeerID: pname(r.Intn(3)), Role: "receiver", ConnID: fmt.Sprintf("x%d", c)}, send, func() {})
			if r.Intn(8) == 0 {
				h.CloseSession(s)
			}
			rm()
		})
	}
	time.Sleep(d)
	close(stop)
	finished := make(chan struct{})
	go func() { wg.Wait(); close(finished) }()
	select {
	case <-finished:
	case <-time.After(20 * time.Second):
		// some goroutine is blocked inside the hub for good (e.g. on its mutex)
		mu.Lock()
		stuck = int(atomic.LoadInt64(&running))
		mu.Unlock()
	}
	mu.Lock()
	defer mu.Unlock()
	return panics, ops, first, stuck
}

package main

import (
	"fmt"
	"strings"

	"github.com/sheerbytes/sheerbytes/internal/transfer"
	"github.com/sheerbytes/sheerbytes/verifharness/internal/hx"
)

// C17: the per-file dispatch state machine (sendFileState).  The harness
// explores the reachable state graph of a REAL sendFileState under every
// well-formed schedule of take / finish / try-end steps, arrival of the resume
// plan and of the verification verdict (small totals, exhaustively; long random
// histories on top), checks the property's predicate on every transition, and
// emits every transition / history as a case for the Coq model.

type c17cfg struct {
	total   uint32
	bitmap  uint32 // bit i = chunk i reported present
	force   uint32
	hasPlan bool
	verify  bool
	verdict int // 0 = ok, 1 = mismatch
	vchunk  uint32
}

type c17ghost struct {
	outstanding  int
	planSet      bool
	verifyStart  bool
	verdictGiven bool
	resendOut    bool // the re-sent chunk has been handed out
	ended        bool
}

const (
	evTake = iota
	evFinish
	evTryEnd
	evVerifyStart
	evPlanSet
	evVerdict
)

var c17evNames = []string{"Take", "Finish", "TryEnd", "VerifyStart", "PlanSet", "Verdict"}

func (c c17cfg) bitmapBytes() []byte {
	n := (c.total + 7) / 8
	b := make([]byte, n)
	for i := uint32(0); i < c.total; i++ {
		if c.bitmap&(1<<i) != 0 {
			b[i/8] |= 1 << (i % 8)
		}
	}
	return b
}

func (c c17cfg) bit(i uint32) bool { return i < c.total && c.bitmap&(1<<i) != 0 }

func (c c17cfg) coqBits() string {
	items := make([]string, c.total)
	for i := uint32(0); i < c.total; i++ {
		items[i] = hx.B(c.bit(i))
	}
	return hx.List(items)
}

func c17coqState(s transfer.VerifSendSnapshot, c c17cfg) string {
	plan := "None"
	if s.HasPlan {
		plan = fmt.Sprintf("(Some (%s, %d%%nat))", c.coqBits(), c.force)
	}
	return fmt.Sprintf("(Dispatch.mk %d %d %d %s %s %s %s %d %s)", s.Total, s.NextChunk, s.InFlight,
		hx.B(s.ScheduleDone), hx.B(s.EndSent), hx.B(s.VerifyPending), hx.B(s.ResendPending), s.ResendChunk, plan)
}

func c17coqEvent(ev int, c c17cfg) string {
	switch ev {
	case evTake:
		return "Dispatch.Take"
	case evFinish:
		return "Dispatch.Finish"
	case evTryEnd:
		return "Dispatch.TryEnd"
	case evVerifyStart:
		return "Dispatch.VerifyStart"
	case evPlanSet:
		return fmt.Sprintf("(Dispatch.PlanSet %s %d)", c.coqBits(), c.force)
	default:
		if c.verdict == 1 {
			return fmt.Sprintf("(Dispatch.VerdictMismatch %d)", c.vchunk)
		}
		return "Dispatch.VerdictOk"
	}
}

type c17out struct {
	kind    int // 0 unit, 1 take, 2 end-flag
	ok      bool
	idx     uint32
	skipped uint32
	end     bool
}

func (o c17out) coq(pre transfer.VerifSendSnapshot) string {
	switch o.kind {
	case 1:
		sk := make([]string, o.skipped)
		for i := range sk {
			// skipped indices are the consecutive ones from pre.NextChunk
			sk[i] = fmt.Sprint(pre.NextChunk + uint32(i))
		}
		r := "None"
		if o.ok {
			r = fmt.Sprintf("(Some %d%%nat)", o.idx)
		}
		if len(sk) == 0 {
			return fmt.Sprintf("(Dispatch.OTake [] %s)", r)
		}
		return fmt.Sprintf("(Dispatch.OTake [%s]%%nat %s)", strings.Join(sk, "; "), r)
	case 2:
		return fmt.Sprintf("(Dispatch.OEnd %s)", hx.B(o.end))
	}
	return "Dispatch.OUnit"
}

func c17apply(v *transfer.VerifSendState, ev int, c c17cfg) c17out {
	switch ev {
	case evTake:
		idx, _, ok, skipped := v.Take()
		return c17out{kind: 1, ok: ok, idx: idx, skipped: skipped}
	case evFinish:
		return c17out{kind: 2, end: v.Finish()}
	case evTryEnd:
		return c17out{kind: 2, end: v.TryEnd()}
	case evVerifyStart:
		v.VerifyStart()
	case evPlanSet:
		if err := v.PlanSet(c.bitmapBytes(), c.force); err != nil {
			panic(err)
		}
	case evVerdict:
		if c.verdict == 1 {
			v.VerdictMismatch(c.vchunk)
		} else {
			v.VerdictOk()
		}
	}
	return c17out{}
}

func c17enabled(g c17ghost, c c17cfg) []int {
	evs := []int{evTake, evTryEnd}
	if g.outstanding > 0 {
		evs = append(evs, evFinish)
	}
	if c.verify && !g.verifyStart {
		evs = append(evs, evVerifyStart)
	}
	if c.hasPlan && !g.planSet && (!c.verify || g.verifyStart) {
		evs = append(evs, evPlanSet)
	}
	if c.verify && g.verifyStart && !g.verdictGiven {
		evs = append(evs, evVerdict)
	}
	return evs
}

// c17oracle evaluates the property on one observed transition; returns the
// updated ghost and "" or a (signature, description).
func c17oracle(pre transfer.VerifSendSnapshot, g c17ghost, ev int, o c17out, c c17cfg) (c17ghost, string, string) {
	sig, bad := "", ""
	fail := func(s, b string) {
		if sig == "" {
			sig, bad = s, b
		}
	}
	switch ev {
	case evTake:
		isResend := o.ok && g.verdictGiven && c.verdict == 1 && !g.resendOut && pre.ResendPending
		if isResend {
			if o.idx != c.vchunk {
				fail("resend-wrong-chunk", fmt.Sprintf("re-sent chunk %d, verification failed for %d", o.idx, c.vchunk))
			}
			if o.skipped != 0 {
				fail("resend-skips", "re-send take also skipped chunks")
			}
			g.resendOut = true
			g.outstanding++
		} else {
			// main pass: the decided indices are pre.NextChunk .. consecutively
			for k := uint32(0); k < o.skipped; k++ {
				i := pre.NextChunk + k
				if !(pre.HasPlan && c.bit(i) && i < c.force) {
					fail("skip-not-allowed", fmt.Sprintf("chunk %d skipped although not (plan known, present, below the verification point)", i))
				}
			}
			if o.ok {
				want := pre.NextChunk + o.skipped
				if o.idx != want {
					fail("main-pass-order", fmt.Sprintf("handed out chunk %d, next undecided index is %d", o.idx, want))
				}
				if o.idx >= c.total {
					fail("main-pass-range", fmt.Sprintf("handed out chunk %d of %d", o.idx, c.total))
				}
				if pre.HasPlan && c.bit(o.idx) && o.idx < c.force {
					fail("sent-present-chunk", fmt.Sprintf("chunk %d sent although the known plan marks it present below the verification point", o.idx))
				}
				g.outstanding++
			} else if pre.NextChunk+o.skipped < c.total && !pre.ScheduleDone {
				fail("main-pass-gap", fmt.Sprintf("take returned nothing with index %d undecided", pre.NextChunk+o.skipped))
			}
		}
	case evFinish:
		g.outstanding--
	case evVerifyStart:
		g.verifyStart = true
	case evPlanSet:
		g.planSet = true
	case evVerdict:
		g.verdictGiven = true
	}
	if o.kind == 2 && o.end {
		if g.ended {
			fail("end-twice", "end-of-file emitted twice")
		}
		if g.outstanding != 0 {
			fail("end-with-chunks-in-flight", fmt.Sprintf("end emitted with %d handed-out chunks unwritten", g.outstanding))
		}
		next := pre.NextChunk
		if next < c.total {
			fail("end-before-all-dispatched", fmt.Sprintf("end emitted with chunk %d undecided", next))
		}
		if g.verifyStart && !g.verdictGiven {
			fail("end-before-verdict", "end emitted while verification undecided")
		}
		if g.verdictGiven && c.verdict == 1 && !g.resendOut {
			fail("end-before-resend", fmt.Sprintf("end emitted before the re-send of chunk %d went out", c.vchunk))
		}
		g.ended = true
	}
	return g, sig, bad
}

func runC17(cfg config) *hx.Report {
	rep := hx.NewReport("C17")
	rep.Rule = "reachable transitions of a real sendFileState under all well-formed schedules (take/finish/try-end, plan arrival, verdict) for every total<=T, bitmap, force-send-from, verified chunk and verdict; plus random long histories (total<=31, up to 8 outstanding takes; bitmaps uniform, full, or a complete prefix with holes and out-of-order chunks behind it). Distinct = distinct (pre-state, event, output, post-state); non-trivial = the transition changes the state or emits a chunk/end"
	cf := &hx.CasesFile{Dir: cfg.out, Name: "C17", Module: "C17", Imports: []string{"Model.Dispatch", "Corr.C17"}, PerShard: 1500}
	maxTotal := uint32(3)
	if cfg.tier == "thorough" {
		maxTotal = 4
	}
	seenTrans := map[string]bool{}
	id := 0

	type node struct {
		path []int
		g    c17ghost
	}
	replayPath := func(c c17cfg, path []int) *transfer.VerifSendState {
		v := transfer.VerifNewSendState(int64(c.total), 1)
		for _, e := range path {
			c17apply(v, e, c)
		}
		return v
	}
	configs := 0
	explore := func(c c17cfg) {
		configs++
		visited := map[string]bool{}
		stack := []node{{}}
		for len(stack) > 0 {
			n := stack[len(stack)-1]
			stack = stack[:len(stack)-1]
			v0 := replayPath(c, n.path)
			pre := v0.Snapshot()
			key := fmt.Sprintf("%+v|%+v", pre, n.g)
			if visited[key] {
				continue
			}
			visited[key] = true
			// liveness from this state: verdict (if pending), then take*, finish*, try-end must end the file
			{
				v := replayPath(c, n.path)
				g := n.g
				if c.verify && !g.verifyStart {
					// verification never started: nothing to wait for
				} else if c.verify && !g.verdictGiven {
					c17apply(v, evVerdict, c)
					g.verdictGiven = true
				}
				steps := 0
				for ; steps < int(c.total)+4; steps++ {
					o := c17apply(v, evTake, c)
					if !o.ok {
						break
					}
					g.outstanding++
				}
				ended := g.ended
				for g.outstanding > 0 {
					if c17apply(v, evFinish, c).end {
						ended = true
					}
					g.outstanding--
				}
				if c17apply(v, evTryEnd, c).end {
					ended = true
				}
				if !ended {
					rep.Violate("no-progress", fmt.Sprintf("from a reachable state, take*;finish*;try-end never emits the end record (cfg %+v path %v)", c, n.path), map[string]any{"cfg": fmt.Sprintf("%+v", c), "path": n.path})
				}
			}
			for _, ev := range c17enabled(n.g, c) {
				v := replayPath(c, n.path)
				o := c17apply(v, ev, c)
				post := v.Snapshot()
				g2, sig, bad := c17oracle(pre, n.g, ev, o, c)
				rep.Evaluations++
				if sig != "" {
					names := make([]string, 0, len(n.path)+1)
					for _, e := range append(append([]int{}, n.path...), ev) {
						names = append(names, c17evNames[e])
					}
					rep.Violate(sig, fmt.Sprintf("%s (total=%d bitmap=%b force=%d verdict=%d vchunk=%d; schedule %v)", bad, c.total, c.bitmap, c.force, c.verdict, c.vchunk, names),
						map[string]any{"total": c.total, "bitmap": c.bitmap, "force": c.force, "verify": c.verify, "verdict": c.verdict, "vchunk": c.vchunk, "schedule": names})
				}
				tkey := fmt.Sprintf("%+v|%d|%+v|%+v|%d|%d|%d", pre, ev, o, post, c.bitmap, c.force, c.vchunk)
				if !seenTrans[tkey] {
					seenTrans[tkey] = true
					id++
					cf.Add(fmt.Sprintf("C17.T %d %s %s %s %s", id, c17coqState(pre, c), c17coqEvent(ev, c), c17coqState(post, c), o.coq(pre)))
					rep.CaseIndex[fmt.Sprint(id)] = map[string]any{"cfg": fmt.Sprintf("%+v", c), "path": n.path, "event": c17evNames[ev]}
					if pre != post || o.ok || o.end {
						rep.Nontrivial(tkey)
					}
					rep.Count("transition:" + c17evNames[ev])
					if id%997 == 0 {
						rep.Sample(map[string]any{"total": c.total, "bitmap": c.bitmap, "force": c.force, "path": n.path, "event": c17evNames[ev], "out": fmt.Sprintf("%+v", o)})
					}
				}
				if len(n.path) < 4*int(c.total)+10 {
					stack = append(stack, node{append(append([]int{}, n.path...), ev), g2})
				}
			}
		}
	}
	for total := uint32(0); total <= maxTotal; total++ {
		// no plan at all
		explore(c17cfg{total: total})
		for bm := uint32(0); bm < 1<<total; bm++ {
			for force := uint32(0); force <= total; force++ {
				explore(c17cfg{total: total, bitmap: bm, force: force, hasPlan: true})
				for vc := uint32(0); vc < total; vc++ {
					explore(c17cfg{total: total, bitmap: bm, force: force, hasPlan: true, verify: true, verdict: 0, vchunk: vc})
					explore(c17cfg{total: total, bitmap: bm, force: force, hasPlan: true, verify: true, verdict: 1, vchunk: vc})
				}
			}
		}
	}
	rep.Distribution["configs"] = configs

	// random long histories
	rng := hx.NewRand(cfg.seed)
	nHist := 400
	if cfg.tier == "thorough" {
		nHist = 1500
	}
	for h := 0; h < nHist; h++ {
		total := uint32(1 + rng.Intn(24))
		if h%5 == 0 {
			total = uint32(1 + rng.Intn(31))
		}
		c := c17cfg{total: total, bitmap: uint32(rng.U64()) & (1<<total - 1), hasPlan: rng.Intn(5) > 0}
		switch rng.Intn(6) {
		case 0:
			c.bitmap = 1<<total - 1
		case 1, 2, 3:
			// what a real interrupted fetch leaves: a long complete prefix (whole bitmap bytes
			// set), then a few chunks completed out of order, now and then a hole in the prefix
			pre := uint32(rng.Intn(int(total) + 1))
			bm := uint32(1)<<pre - 1
			for k := pre; k < total; k++ {
				if rng.Intn(4) == 0 {
					bm |= 1 << k
				}
			}
			for holes := rng.Intn(3); holes > 0 && pre > 0; holes-- {
				bm &^= 1 << uint32(rng.Intn(int(pre)))
			}
			if rng.Intn(3) == 0 && total > 9 {
				bm |= 0xff // first byte full, whatever follows
			}
			c.bitmap = bm & (1<<total - 1)
		}
		c.force = uint32(rng.Intn(int(total) + 1))
		if c.hasPlan && rng.Bool() {
			c.verify = true
			c.verdict = rng.Intn(2)
			c.vchunk = uint32(rng.Intn(int(total)))
		}
		workers := 1 + rng.Intn(8)
		v := transfer.VerifNewSendState(int64(total), 1)
		var g c17ghost
		var evs, outs []string
		for step := 0; step < 6*int(total)+30 && !g.ended; step++ {
			en := c17enabled(g, c)
			// bound the number of outstanding takes by the worker count
			var pick []int
			for _, e := range en {
				if e == evTake && g.outstanding >= workers {
					continue
				}
				pick = append(pick, e)
			}
			ev := pick[rng.Intn(len(pick))]
			pre := v.Snapshot()
			o := c17apply(v, ev, c)
			var sig, bad string
			g, sig, bad = c17oracle(pre, g, ev, o, c)
			rep.Evaluations++
			evs = append(evs, c17coqEvent(ev, c))
			outs = append(outs, o.coq(pre))
			if sig != "" {
				rep.Violate(sig, fmt.Sprintf("%s (random history %d, total=%d)", bad, h, total), map[string]any{"history": h, "seed": cfg.seed, "total": total})
			}
		}
		id++
		cf.Add(fmt.Sprintf("C17.H %d %d%%nat %s %s", id, total, hx.List(evs), hx.List(outs)))
		rep.CaseIndex[fmt.Sprint(id)] = map[string]any{"history": h, "seed": cfg.seed, "total": total}
		rep.Count("history")
		rep.Nontrivial(fmt.Sprintf("hist%d", h))
		rep.TracesValidated++
	}
	cf.Close()
	// the file level: the hybrid scheduler call by call, and whole sends
	runC17sched(cfg, rep)
	runC17e2e(cfg, rep)
	return rep
}

func init() { runners["C17"] = runC17 }

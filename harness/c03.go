package main

import (
	"fmt"
	"os"
	"path/filepath"
	"strings"
	"time"

	"github.com/sheerbytes/sheerbytes/internal/transfer"
	"github.com/sheerbytes/sheerbytes/verifharness/internal/hx"
)

// C03: every transfer between healthy peers completes.  Three families, all with
// the REAL sender and receiver under a watchdog; a run that fails or does not
// return is the violation (the tree is compared too):
//  grid    (files, chunks per file, streams, connections, resume) exhaustively on
//          a small grid - including no file at all, directories only, empty
//          files, fewer chunks than streams - over the in-memory transport with
//          QUIC-like stream visibility and over real loopback QUIC;
//  names   unusual but legal file names (dots, "..", leading/trailing blanks,
//          control characters, backslashes, unicode, 255-byte names, paths of
//          exactly 1024 bytes);
//  late    resumed transfers in which chunks the receiver already has are sent
//          again (verified tail) on several streams, so duplicates arrive after
//          the file was finalized.

func gridTree(files, chunks, cs int, r *hx.Rand) treeSpec {
	var t treeSpec
	for i := 0; i < files; i++ {
		size := 0
		if chunks > 0 {
			size = (chunks-1)*cs + 1 + r.Intn(cs)
		}
		t.files = append(t.files, treeFile{fmt.Sprintf("g%d/f%d.bin", i%2, i), r.Bytes(size)})
	}
	if files == 0 {
		t.dirs = append(t.dirs, "only/dirs/here")
	}
	return t
}

func legalNames() []string {
	long := strings.Repeat("n", 255)
	deep := strings.Repeat("d/", 400) + "f" // 801 bytes
	p1024 := strings.Repeat("abcdefg/", 127) + "12345678"
	return []string{"a..b", "..a", "a..", "...", "x/..y/z", " lead", "trail ", "tab\there", "new\nline", "back\\slash", "ünï/çödé",
		"emoji-\U0001F600", "-dash", "~tilde", "*?[glob]", "#%&=+@:;,", "'quote\"", "$var`cmd`", long, "dir with space/" + long, deep, p1024, "a/b/c/d/e/f/g/h/i/j"}
}

type c03run struct {
	label string
	tree  treeSpec
	cfg   xferCfg
	quic  bool
	conns int
	prep  func(src, out string) // extra preparation (prior state)
	tail  uint32
}

// after a few hangs the point is made: the remaining runs would only wait out their watchdogs
func tooManyHangs(rep *hx.Report) bool {
	n := 0
	for k, v := range rep.Distribution {
		if strings.HasPrefix(k, "violation:hang") || strings.HasPrefix(k, "violation:no-stop") {
			n += v
		}
	}
	if n >= 4 {
		rep.Count("skipped-after-hangs")
		return true
	}
	return false
}

func runC03one(base string, id int, r c03run, env *c08env, rep *hx.Report) {
	if tooManyHangs(rep) {
		return
	}
	dir := filepath.Join(base, fmt.Sprintf("r%d", id))
	src := filepath.Join(dir, "src", "root")
	out := filepath.Join(dir, "out")
	os.RemoveAll(dir)
	defer os.RemoveAll(dir)
	if err := r.tree.materialise(src); err != nil {
		rep.Notes = append(rep.Notes, fmt.Sprintf("cannot materialise %s: %v", r.label, err))
		return
	}
	os.MkdirAll(out, 0755)
	r.cfg.timeout = 8 * time.Second
	r.cfg.conns = r.conns
	rounds := 1
	if r.tail > 0 {
		rounds = 2
	}
	var res xferResult
	for round := 0; round < rounds; round++ {
		cfg := r.cfg
		if round == 1 {
			tail := r.tail
			cfg.sendOpts = func(o *transfer.Options) { o.ResumeVerifyTail = tail }
		}
		if r.quic {
			o := runQUIC(src, out, cfg, r.conns, env)
			if o.setup != nil {
				rep.Count("setup-failed")
				return
			}
			res = o.res
		} else {
			res = runXfer(src, out, cfg)
		}
		if !(res.sendDone && res.recvDone && res.sendErr == nil && res.recvErr == nil) {
			break
		}
	}
	rep.Evaluations++
	rep.Count(r.label)
	desc := map[string]any{"run": r.label, "cs": r.cfg.chunkSize, "streams": r.cfg.streams, "conns": r.conns, "resume": r.cfg.resume, "quic": r.quic, "quic_like": r.cfg.quicLike, "files": len(r.tree.files), "tail": r.tail}
	fam := strings.SplitN(r.label, ":", 2)[0]
	switch {
	case !res.sendDone || !res.recvDone:
		rep.Violate("hang:"+fam, fmt.Sprintf("healthy transfer did not finish within 8 s (sender returned: %v, receiver returned: %v): %s", res.sendDone, res.recvDone, r.label), desc)
	case res.sendErr != nil || res.recvErr != nil:
		rep.Violate("healthy-transfer-failed:"+fam, fmt.Sprintf("sender=%v receiver=%v: %s", res.sendErr, res.recvErr, r.label), desc)
	default:
		sd, _ := digestTree(src)
		dd, _ := digestTree(out)
		if diff := diffTrees(sd, dd); len(diff) > 0 {
			rep.Violate("tree-differs:"+fam, fmt.Sprintf("%v: %s", diff, r.label), desc)
		}
		rep.Count("ok")
	}
}

func runC03(cfg config) *hx.Report {
	rep := hx.NewReport("C03")
	rep.Rule = "healthy transfers between the real endpoints under an 8 s watchdog: the (files 0-4) x (chunks per file 0-3) x (streams 1-8) x (connections 1-3) x resume grid over the in-memory transport with QUIC-like stream visibility and a sample of it over real loopback QUIC; legal-name trees; resumed transfers with a re-sent tail on several streams (late duplicates); the random C01 matrix. Non-trivial = every run (each must complete)"
	rng := hx.NewRand(cfg.seed).Fork(13)
	base, _ := os.MkdirTemp("", "c03")
	defer os.RemoveAll(base)
	env, err := newC08env()
	if err != nil {
		rep.Notes = append(rep.Notes, "loopback QUIC unavailable: "+err.Error())
		env = nil
	} else {
		defer env.close()
	}
	id := 0
	thorough := cfg.tier == "thorough"
	// grid
	for files := 0; files <= 4; files++ {
		for chunks := 0; chunks <= 3; chunks++ {
			for _, streams := range []int{1, 2, 3, 5, 8} {
				for _, conns := range []int{1, 2, 3} {
					if !thorough && rng.Intn(3) != 0 {
						continue
					}
					resume := rng.Bool()
					cs := rng.Pick(1, 4, 64)
					r := c03run{label: fmt.Sprintf("grid:f%d-c%d-s%d-n%d", files, chunks, streams, conns), tree: gridTree(files, chunks, cs, rng),
						cfg: xferCfg{chunkSize: cs, streams: streams, resume: resume, quicLike: true}, conns: conns}
					runC03one(base, id, r, env, rep)
					rep.Nontrivial(r.label)
					id++
					if env != nil && conns <= 2 && (thorough || rng.Intn(4) == 0) {
						r.quic, r.label = true, "grid-quic:"+r.label[5:]
						runC03one(base, id, r, env, rep)
						rep.Nontrivial(r.label)
						id++
					}
				}
			}
		}
	}
	// legal names
	names := legalNames()
	for k := 0; k < 6; k++ {
		var t treeSpec
		for i, nm := range names {
			if (i+k)%3 == 0 || k == 0 {
				t.files = append(t.files, treeFile{nm, rng.Bytes(rng.Intn(40))})
			}
		}
		r := c03run{label: fmt.Sprintf("names:%d", k), tree: t, cfg: xferCfg{chunkSize: 16, streams: 1 + rng.Intn(4), resume: k%2 == 0, quicLike: true}, conns: 1 + k%2}
		runC03one(base, id, r, env, rep)
		rep.Nontrivial(r.label)
		id++
		if env != nil && k < 2 {
			r.quic, r.label = true, fmt.Sprintf("names-quic:%d", k)
			runC03one(base, id, r, env, rep)
			id++
		}
	}
	// late duplicates
	nlate := 40
	if thorough {
		nlate = 600
	}
	for k := 0; k < nlate; k++ {
		cs := rng.Pick(2, 8, 32)
		var t treeSpec
		for i := 0; i < 1+rng.Intn(3); i++ {
			t.files = append(t.files, treeFile{fmt.Sprintf("late%d.bin", i), rng.Bytes(cs*(2+rng.Intn(5)) + rng.Intn(cs))})
		}
		r := c03run{label: fmt.Sprintf("late:%d", k), tree: t, cfg: xferCfg{chunkSize: cs, streams: 2 + rng.Intn(4), resume: true, quicLike: rng.Bool()},
			conns: 1 + rng.Intn(2), tail: uint32(1 + rng.Intn(4))}
		if env != nil && k%5 == 0 {
			r.quic = true
			r.label = "late-quic:" + r.label[5:]
		}
		runC03one(base, id, r, env, rep)
		rep.Nontrivial(r.label)
		id++
	}
	// the random matrix
	n, share := 200, 5
	if thorough {
		n, share = 3000, 4
	}
	runTransfers(cfg, rep, "C03", n, share)
	// the receiver model's tie: honest programs must run to success (a stuck honest program is a deadlock)
	cf := &hx.CasesFile{Dir: cfg.out, Name: "recv", Module: "C02", Imports: []string{"Model.Recv", "Corr.C02"}, PerShard: 150}
	nr := 150
	if thorough {
		nr = 2000
	}
	runC02recvModes(cfg, rep, cf, nr, []string{"honest"})
	cf.Close()
	return rep
}

func init() { runners["C03"] = runC03 }

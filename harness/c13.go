package main

import (
	"encoding/binary"
	"encoding/hex"
	"fmt"
	"hash/fnv"
	"os"
	"path/filepath"
	"reflect"
	"sort"
	"strconv"
	"strings"
	"syscall"
	"time"

	"github.com/sheerbytes/sheerbytes/internal/app"
	"github.com/sheerbytes/sheerbytes/pkg/manifest"
	"github.com/sheerbytes/sheerbytes/verifharness/internal/hx"
)

// C13: the manifest describes exactly what will be read, once, deterministically.
//
// Random file trees ("worlds") are described in memory, materialised on disk
// (controlled sizes, contents and mtimes; symbolic links to files, directories,
// nothing and themselves; pipes), and lists of paths into them (equal base names,
// names that look like ordinal prefixes, overlapping and repeated paths, ".",
// trailing slashes, "..", unicode and non-UTF-8 names, links given directly) are
// handed to the REAL manifest.ScanPaths / manifest.Scan / app.buildPathResolver.
//   * correspondence: the in-memory description of the same trees goes to
//     Model/Scan.v inside coqc and must give the same items, ids, counters, error
//     flag and resolver answers;
//   * oracle: independently of the model, the returned manifest is checked against
//     the description of the world and the bytes on disk (see c13oracle).

type c13node struct {
	id     int
	kind   string // file | dir | link | fifo
	name   string
	size   int
	mtime  int64
	kids   []*c13node
	parent *c13node
	target *c13node // link: what it points to in the description (nil = nothing)
	tstr   string   // link: the target string written to disk
	self   bool     // link pointing to itself
}

type c13world struct {
	dir   string // directory on disk holding the world (cleaned, symlink-free)
	root  *c13node
	nodes []*c13node
}

func (n *c13node) path(w *c13world) string {
	if n.parent == nil {
		return w.dir
	}
	return filepath.Join(n.parent.path(w), n.name)
}

// resolve follows links in the description the way os.Stat does.
func (n *c13node) resolve() *c13node {
	cur := n
	for i := 0; i < 40 && cur != nil && cur.kind == "link"; i++ {
		if cur.self {
			return nil
		}
		cur = cur.target
	}
	if cur != nil && cur.kind == "link" {
		return nil
	}
	return cur
}

func c13content(n *c13node) []byte {
	tag := []byte(fmt.Sprintf("<%d>", n.id))
	out := make([]byte, n.size)
	for i := range out {
		out[i] = tag[i%len(tag)]
	}
	return out
}

var c13names = []string{"a", "a", "a", "b", "1_a", "2_a", "3_a", "1_1_a", "10_a", "1_b", "c.txt", "a.b", "a-b", "A",
	"é", "日本", "x y", "\xff\xfe", "a\\b", "root", "current", "_", "1_", "0_a", "01_a", "~", "-", "a\tb"}

func c13mtime(r *hx.Rand) int64 {
	switch r.Intn(8) {
	case 0:
		return 0
	case 1:
		return -1 - int64(r.Intn(100000))
	case 2:
		return 1 << 31
	case 3:
		return 4102444800 + int64(r.Intn(1000))
	}
	return 1_500_000_000 + int64(r.Intn(300_000_000))
}

func c13size(r *hx.Rand) int {
	return r.Pick(0, 0, 1, 2, 7, 25, 100, 4096, 1+r.Intn(3000), 1+r.Intn(40))
}

func (w *c13world) add(parent *c13node, kind, name string) *c13node {
	n := &c13node{id: len(w.nodes) + 1, kind: kind, name: name, parent: parent}
	w.nodes = append(w.nodes, n)
	if parent != nil {
		parent.kids = append(parent.kids, n)
	}
	return n
}

func c13freeName(r *hx.Rand, parent *c13node) string {
	for try := 0; try < 20; try++ {
		nm := c13names[r.Intn(len(c13names))]
		dup := false
		for _, k := range parent.kids {
			if k.name == nm {
				dup = true
			}
		}
		if !dup {
			return nm
		}
	}
	return fmt.Sprintf("n%d", len(parent.kids))
}

func c13genWorld(r *hx.Rand, links bool) *c13world {
	w := &c13world{}
	w.root = w.add(nil, "dir", "")
	w.root.mtime = c13mtime(r)
	var fill func(d *c13node, depth int)
	fill = func(d *c13node, depth int) {
		n := r.Intn(5)
		if depth == 1 {
			n = 1 + r.Intn(4)
		}
		for i := 0; i < n; i++ {
			nm := c13freeName(r, d)
			k := r.Intn(20)
			switch {
			case k < 9 || depth >= 4:
				f := w.add(d, "file", nm)
				f.size, f.mtime = c13size(r), c13mtime(r)
			case k < 15:
				s := w.add(d, "dir", nm)
				s.mtime = c13mtime(r)
				if r.Intn(5) > 0 {
					fill(s, depth+1)
				}
			case k < 19 && links:
				w.add(d, "link", nm)
			case links:
				w.add(d, "fifo", nm)
			default:
				f := w.add(d, "file", nm)
				f.size, f.mtime = c13size(r), c13mtime(r)
			}
		}
	}
	np := 2 + r.Intn(3)
	for i := 0; i < np; i++ {
		p := w.add(w.root, "dir", string(rune('p'+i)))
		p.mtime = c13mtime(r)
		fill(p, 1)
	}
	// link targets
	for _, n := range w.nodes {
		if n.kind != "link" {
			continue
		}
		switch k := r.Intn(10); {
		case k < 1:
			n.self = true
		case k < 3:
			n.target = nil
		default:
			t := w.nodes[r.Intn(len(w.nodes))]
			if t == n {
				n.self = true
			} else {
				n.target = t
			}
		}
	}
	return w
}

func (w *c13world) materialise() error {
	dir, err := os.MkdirTemp("", "c13-")
	if err != nil {
		return err
	}
	if dir, err = filepath.EvalSymlinks(dir); err != nil {
		return err
	}
	w.dir = dir
	var mk func(n *c13node) error
	mk = func(n *c13node) error {
		p := n.path(w)
		switch n.kind {
		case "dir":
			if n.parent != nil {
				if err := os.Mkdir(p, 0755); err != nil {
					return err
				}
			}
			for _, k := range n.kids {
				if err := mk(k); err != nil {
					return err
				}
			}
		case "file":
			return os.WriteFile(p, c13content(n), 0644)
		case "fifo":
			return syscall.Mkfifo(p, 0644)
		}
		return nil
	}
	if err := mk(w.root); err != nil {
		return err
	}
	for _, n := range w.nodes {
		if n.kind != "link" {
			continue
		}
		p := n.path(w)
		switch {
		case n.self:
			n.tstr = n.name
		case n.target == nil:
			n.tstr = "no-such-target"
		case n.id%2 == 0:
			n.tstr = n.target.path(w)
		default:
			rel, err := filepath.Rel(filepath.Dir(p), n.target.path(w))
			if err != nil {
				return err
			}
			n.tstr = rel
		}
		if err := os.Symlink(n.tstr, p); err != nil {
			return err
		}
	}
	// mtimes last, children before parents; then read back what the filesystem kept
	var tm func(n *c13node) error
	tm = func(n *c13node) error {
		for _, k := range n.kids {
			if err := tm(k); err != nil {
				return err
			}
		}
		if n.kind == "file" || n.kind == "dir" {
			t := time.Unix(n.mtime, 0)
			if err := os.Chtimes(n.path(w), t, t); err != nil {
				return err
			}
			fi, err := os.Lstat(n.path(w))
			if err != nil {
				return err
			}
			n.mtime = fi.ModTime().Unix()
		}
		return nil
	}
	return tm(w.root)
}

func (w *c13world) remove() {
	if w.dir != "" {
		os.RemoveAll(w.dir)
	}
}

func (w *c13world) describe() []string {
	var out []string
	for _, n := range w.nodes {
		if n.parent == nil {
			continue
		}
		rel, _ := filepath.Rel(w.dir, n.path(w))
		switch n.kind {
		case "file":
			out = append(out, fmt.Sprintf("file %s size=%d mtime=%d", strconv.Quote(rel), n.size, n.mtime))
		case "dir":
			out = append(out, fmt.Sprintf("dir %s mtime=%d", strconv.Quote(rel), n.mtime))
		case "link":
			out = append(out, fmt.Sprintf("symlink %s -> %s", strconv.Quote(rel), strconv.Quote(n.tstr)))
		case "fifo":
			out = append(out, fmt.Sprintf("fifo %s", strconv.Quote(rel)))
		}
	}
	return out
}

// ---- Coq terms ----

func c13coqNode(n *c13node) string {
	switch n.kind {
	case "file":
		return fmt.Sprintf("(File %s %s)", hx.Z(int64(n.size)), hx.Z(n.mtime))
	case "dir":
		ks := make([]string, len(n.kids))
		for i, k := range n.kids {
			ks[i] = fmt.Sprintf("(%s, %s)", hx.Str(k.name), c13coqNode(k))
		}
		return fmt.Sprintf("(Dir %s %s)", hx.Z(n.mtime), hx.List(ks))
	case "link":
		return "Link"
	}
	return "Other"
}

func c13coqStat(n *c13node) string {
	if n == nil {
		return "None"
	}
	return "(Some " + c13coqNode(n) + ")"
}

func c13comps(abs string) []string {
	if abs == "/" {
		return nil
	}
	return strings.Split(strings.TrimPrefix(abs, "/"), "/")
}

func c13coqComps(abs string) string {
	cs := c13comps(abs)
	items := make([]string, len(cs))
	for i, c := range cs {
		items[i] = hx.Str(c)
	}
	return hx.List(items)
}

type c13given struct {
	spelled string   // the path handed to the code
	abs     string   // filepath.Abs(spelled)
	stat    *c13node // what is there after following links (nil = nothing)
	lnode   *c13node // the entry named (may be a link), nil if made up
}

func c13coqEntries(gs []c13given) string {
	items := make([]string, len(gs))
	for i, g := range gs {
		items[i] = fmt.Sprintf("(mkEntry %s %s)", c13coqComps(g.abs), c13coqStat(g.stat))
	}
	return hx.List(items)
}

func c13coqObs(m manifest.Manifest, ok bool) string {
	items := make([]string, len(m.Items))
	for i, it := range m.Items {
		items[i] = fmt.Sprintf("(OI %s %s %s %s %s)", hx.Str(it.RelPath), hx.Z(it.Size), hx.Z(it.ModTime), hx.B(it.IsDir), hx.Str(it.ID))
	}
	return fmt.Sprintf("(Some (Obs %s %s %s %s %s))", hx.List(items), hx.Z(m.TotalBytes), hx.Z(int64(m.FileCount)), hx.Z(int64(m.FolderCount)), hx.B(ok))
}

// ---- the independent oracle ----

type c13exp struct {
	isDir bool
	size  int64
	mtime int64
	node  *c13node
}

// expected entries beneath n (already followed at the top): suffix ("" for n
// itself, "/x/y" below) -> attributes; only regular files and directories, links
// met on the way are not followed.
func c13expected(n *c13node) map[string]c13exp {
	out := map[string]c13exp{}
	var rec func(n *c13node, suffix string)
	rec = func(n *c13node, suffix string) {
		switch n.kind {
		case "file":
			out[suffix] = c13exp{false, int64(n.size), n.mtime, n}
		case "dir":
			out[suffix] = c13exp{true, 0, n.mtime, n}
			for _, k := range n.kids {
				rec(k, suffix+"/"+k.name)
			}
		}
	}
	if n != nil {
		rec(n, "")
	}
	return out
}

// what the description has at suffix below n (links not followed), for naming
// the kind of an entry that should not have been listed
func c13kindAt(n *c13node, suffix string) string {
	cur := n
	if suffix != "" {
		for _, c := range strings.Split(strings.TrimPrefix(suffix, "/"), "/") {
			if cur == nil || cur.kind != "dir" {
				return "nothing"
			}
			var next *c13node
			for _, k := range cur.kids {
				if k.name == c {
					next = k
				}
			}
			cur = next
		}
	}
	if cur == nil {
		return "nothing"
	}
	if cur.kind == "link" {
		t := cur.resolve()
		switch {
		case t == nil:
			return "symlink-to-nothing"
		case t.kind == "dir":
			return "symlink-to-dir"
		case t.kind == "file":
			return "symlink-to-file"
		}
		return "symlink-to-special"
	}
	return cur.kind
}

func c13fnvID(it manifest.FileItem) string {
	h := fnv.New64a()
	h.Write([]byte(it.RelPath + "|" + strconv.FormatInt(it.Size, 10) + "|" + strconv.FormatInt(it.ModTime, 10) + "|" + strconv.FormatBool(it.IsDir)))
	var b [8]byte
	binary.BigEndian.PutUint64(b[:], h.Sum64())
	return hex.EncodeToString(b[:])
}

type c13viol struct{ sig, what string }

// c13checkItems: form of the item list (distinct, sorted, well-formed paths,
// counters, ids).  Shared by ScanPaths and Scan.
func c13checkItems(m manifest.Manifest, add func(sig, what string)) {
	seen := map[string]bool{}
	var files, folders int
	var total int64
	for i, it := range m.Items {
		if seen[it.RelPath] {
			add("dup-relpath", fmt.Sprintf("relative path %q is listed twice", it.RelPath))
		}
		seen[it.RelPath] = true
		if i > 0 && !(m.Items[i-1].RelPath < it.RelPath) && m.Items[i-1].RelPath != it.RelPath {
			add("unsorted", fmt.Sprintf("item %d %q follows %q", i, it.RelPath, m.Items[i-1].RelPath))
		}
		if it.RelPath == "" || strings.HasPrefix(it.RelPath, "/") || strings.HasSuffix(it.RelPath, "/") || strings.Contains(it.RelPath, "//") {
			add("bad-path-form", fmt.Sprintf("relative path %q is not a slash-separated list of names", it.RelPath))
		}
		for _, c := range strings.Split(it.RelPath, "/") {
			if c == "." || c == ".." {
				add("bad-path-form", fmt.Sprintf("relative path %q has a %q component", it.RelPath, c))
			}
		}
		if it.IsDir {
			folders++
			if it.Size != 0 {
				add("dir-size", fmt.Sprintf("directory %q has size %d", it.RelPath, it.Size))
			}
		} else {
			files++
			total += it.Size
		}
		if it.ID != manifest.VerifComputeID(it) || it.ID != c13fnvID(it) {
			add("id", fmt.Sprintf("item %q has id %s, FNV-1a of its path|size|mtime|isdir is %s", it.RelPath, it.ID, c13fnvID(it)))
		}
	}
	if files != m.FileCount || folders != m.FolderCount || total != m.TotalBytes {
		add("counts", fmt.Sprintf("FileCount=%d FolderCount=%d TotalBytes=%d but the items are %d files, %d directories, %d bytes", m.FileCount, m.FolderCount, m.TotalBytes, files, folders, total))
	}
}

// c13oracle evaluates the property on what the real code returned for one list
// of given paths.
func c13oracle(w *c13world, gs []c13given, m manifest.Manifest, scanErr error, m2 manifest.Manifest, scanErr2 error,
	resolve func(string) string, resErr error) []c13viol {
	var vs []c13viol
	add := func(sig, what string) { vs = append(vs, c13viol{sig, what}) }

	if !reflect.DeepEqual(m, m2) || (scanErr == nil) != (scanErr2 == nil) {
		add("nondeterministic", "a second scan of the same unchanged paths returned a different manifest")
	}
	bad := 0
	for _, g := range gs {
		if g.stat == nil || (g.stat.kind != "file" && g.stat.kind != "dir") {
			bad++
		}
	}
	if bad == 0 && scanErr != nil {
		add("unexpected-error", fmt.Sprintf("every given path is a readable file or directory but ScanPaths failed: %v", scanErr))
		return vs
	}
	if m.Root != "selection" {
		add("root-name", fmt.Sprintf("Root = %q", m.Root))
	}
	c13checkItems(m, add)

	// group by top-level name
	groups := map[string][]manifest.FileItem{}
	var order []string
	for _, it := range m.Items {
		k := strings.SplitN(it.RelPath, "/", 2)[0]
		if _, ok := groups[k]; !ok {
			order = append(order, k)
		}
		groups[k] = append(groups[k], it)
	}
	if resErr != nil || resolve == nil {
		if bad == 0 {
			add("resolver-error", fmt.Sprintf("buildPathResolver failed: %v", resErr))
		}
		return vs
	}
	// each group must come from exactly one given path (the one its name resolves
	// to), each good given path must have exactly one group
	used := make([]bool, len(gs))
	for _, k := range order {
		src := resolve(k)
		gi := -1
		for i, g := range gs {
			if !used[i] && g.abs == src && g.stat != nil && (g.stat.kind == "file" || g.stat.kind == "dir") {
				gi = i
				break
			}
		}
		if gi < 0 {
			// not a good path: is it a given path at all?
			for i, g := range gs {
				if g.abs == src && !used[i] {
					gi = i
				}
			}
			if gi >= 0 && gs[gi].stat != nil {
				used[gi] = true
				add("listed-nonregular:top-"+gs[gi].stat.kind, fmt.Sprintf("given path %q is a %s but is listed as %q", gs[gi].spelled, gs[gi].stat.kind, k))
			} else {
				add("origin", fmt.Sprintf("top-level name %q resolves to %q, which is not one of the given paths still unaccounted for", k, src))
			}
			continue
		}
		used[gi] = true
		g := gs[gi]
		exp := c13expected(g.stat)
		got := map[string]bool{}
		for _, it := range groups[k] {
			suffix := strings.TrimPrefix(it.RelPath, k)
			e, ok := exp[suffix]
			if got[suffix] {
				continue // reported as dup-relpath
			}
			got[suffix] = true
			if !ok {
				kind := c13kindAt(g.stat, suffix)
				add("listed-nonregular:"+kind, fmt.Sprintf("%q (size %d, is_dir=%v) is listed for given path %q, but there is a %s there", it.RelPath, it.Size, it.IsDir, g.spelled, kind))
				continue
			}
			if e.isDir != it.IsDir {
				add("wrong-kind", fmt.Sprintf("%q: is_dir=%v, on disk is_dir=%v", it.RelPath, it.IsDir, e.isDir))
				continue
			}
			if e.size != it.Size {
				add("size-mismatch", fmt.Sprintf("%q: size %d, the file has %d bytes", it.RelPath, it.Size, e.size))
			}
			if e.mtime != it.ModTime {
				add("mtime-mismatch", fmt.Sprintf("%q: mod_time %d, on disk %d", it.RelPath, it.ModTime, e.mtime))
			}
			// resolve back and read
			want := g.abs + suffix
			if g.abs == "/" {
				want = suffix
			}
			p := resolve(it.RelPath)
			if p != want {
				add("resolver-wrong", fmt.Sprintf("%q resolves to %q, it was scanned from %q", it.RelPath, p, want))
				continue
			}
			if !it.IsDir {
				fi, err := os.Stat(p)
				if err != nil || !fi.Mode().IsRegular() {
					add("unreadable", fmt.Sprintf("%q resolves to %q which is not a readable regular file (%v)", it.RelPath, p, err))
					continue
				}
				data, err := os.ReadFile(p)
				if err != nil {
					add("unreadable", fmt.Sprintf("%q -> %q: %v", it.RelPath, p, err))
					continue
				}
				if int64(len(data)) != it.Size {
					add("size-mismatch", fmt.Sprintf("%q: size %d, %d bytes are readable at %q", it.RelPath, it.Size, len(data), p))
				} else if string(data) != string(c13content(e.node)) {
					add("resolves-to-other-file", fmt.Sprintf("%q -> %q does not hold the content of the file it was scanned from", it.RelPath, p))
				}
			}
		}
		var missing []string
		for suffix := range exp {
			if !got[suffix] {
				missing = append(missing, suffix)
			}
		}
		sort.Strings(missing)
		if len(missing) > 0 {
			sig := "missing-entry"
			if g.lnode != nil && g.lnode.kind == "link" {
				sig = "missing-entry:below-given-symlink"
			}
			add(sig, fmt.Sprintf("given path %q (listed as %q): %d entries beneath it are not in the manifest, e.g. %q", g.spelled, k, len(missing), k+missing[0]))
		}
	}
	for i, g := range gs {
		if !used[i] && g.stat != nil && (g.stat.kind == "file" || g.stat.kind == "dir") {
			add("missing-path", fmt.Sprintf("given path %q has no top-level entry of its own in the manifest", g.spelled))
		}
	}
	return vs
}

// oracle for Scan(root): relative paths carry no top-level name
func c13oracleScan(g c13given, m manifest.Manifest, err error, m2 manifest.Manifest) []c13viol {
	var vs []c13viol
	add := func(sig, what string) { vs = append(vs, c13viol{"scan:" + sig, what}) }
	good := g.stat != nil && (g.stat.kind == "file" || g.stat.kind == "dir")
	if !good {
		if err == nil {
			add("listed-nonregular:top", fmt.Sprintf("Scan(%q) succeeded although there is no regular file or directory", g.spelled))
		}
		return vs
	}
	if err != nil {
		add("unexpected-error", fmt.Sprintf("Scan(%q): %v", g.spelled, err))
		return vs
	}
	if !reflect.DeepEqual(m, m2) {
		add("nondeterministic", "a second Scan returned a different manifest")
	}
	c13checkItems(m, add)
	exp := c13expected(g.stat)
	want := map[string]c13exp{}
	if g.stat.kind == "file" {
		want[filepath.Base(g.abs)] = exp[""]
	} else {
		for s, e := range exp {
			if s != "" {
				want[strings.TrimPrefix(s, "/")] = e
			}
		}
	}
	got := map[string]bool{}
	for _, it := range m.Items {
		e, ok := want[it.RelPath]
		got[it.RelPath] = true
		if !ok {
			suffix := "/" + it.RelPath
			add("listed-nonregular:"+c13kindAt(g.stat, suffix), fmt.Sprintf("%q (size %d) is listed but is not a regular file or directory under %q", it.RelPath, it.Size, g.spelled))
			continue
		}
		if e.isDir != it.IsDir || e.size != it.Size || e.mtime != it.ModTime {
			add("wrong-attr", fmt.Sprintf("%q: size=%d mtime=%d is_dir=%v, on disk size=%d mtime=%d is_dir=%v", it.RelPath, it.Size, it.ModTime, it.IsDir, e.size, e.mtime, e.isDir))
		}
	}
	for s := range want {
		if !got[s] {
			sig := "missing-entry"
			if g.lnode != nil && g.lnode.kind == "link" {
				sig = "missing-entry:below-given-symlink"
			}
			add(sig, fmt.Sprintf("Scan(%q): %q is not in the manifest", g.spelled, s))
			break
		}
	}
	return vs
}

// ---- choosing the paths ----

func (w *c13world) given(r *hx.Rand, n *c13node, cwd string) c13given {
	p := n.path(w)
	g := c13given{lnode: n, stat: n.resolve()}
	switch r.Intn(12) {
	case 0:
		g.spelled = p + "/"
	case 1:
		g.spelled = filepath.Dir(p) + "/./" + filepath.Base(p)
	case 2:
		g.spelled = filepath.Dir(p) + "//" + filepath.Base(p)
	case 3:
		if n.parent != nil && n.parent.parent != nil {
			g.spelled = filepath.Dir(p) + "/../" + n.parent.name + "/" + n.name
		} else {
			g.spelled = p
		}
	case 4, 5:
		if rel, err := filepath.Rel(cwd, p); err == nil {
			g.spelled = rel
		} else {
			g.spelled = p
		}
	default:
		g.spelled = p
	}
	if g.stat == nil || g.stat.kind != "dir" {
		// a trailing slash on a non-directory changes what the OS says (ENOTDIR)
		g.spelled = strings.TrimSuffix(g.spelled, "/")
		if g.spelled == "" {
			g.spelled = p
		}
	}
	abs, err := filepath.Abs(g.spelled)
	if err != nil {
		panic(err)
	}
	g.abs = abs
	return g
}

func (w *c13world) pickPaths(r *hx.Rand, cwd string) []c13given {
	var cands, deep []*c13node
	for _, n := range w.nodes {
		if n.parent != nil && n.parent.parent == w.root {
			cands = append(cands, n)
		} else if n.parent != nil {
			deep = append(deep, n)
		}
	}
	k := 1 + r.Intn(4)
	if r.Intn(6) == 0 {
		k = 5 + r.Intn(8)
	}
	var gs []c13given
	for i := 0; i < k; i++ {
		var n *c13node
		switch c := r.Intn(12); {
		case c < 7 && len(cands) > 0:
			n = cands[r.Intn(len(cands))]
		case c < 9 && len(deep) > 0:
			n = deep[r.Intn(len(deep))]
		case c < 10 && len(gs) > 0:
			gs = append(gs, gs[r.Intn(len(gs))]) // the same path again
			continue
		case c < 11:
			// nothing there
			sp := filepath.Join(w.dir, "p", "no-such-"+c13names[r.Intn(5)])
			gs = append(gs, c13given{spelled: sp, abs: sp})
			continue
		default:
			n = w.nodes[r.Intn(len(w.nodes))]
		}
		// a path that goes through a link to a directory
		if n.kind == "link" && r.Intn(3) == 0 {
			if t := n.resolve(); t != nil && t.kind == "dir" && len(t.kids) > 0 {
				c := t.kids[r.Intn(len(t.kids))]
				sp := n.path(w) + "/" + c.name
				gs = append(gs, c13given{spelled: sp, abs: sp, stat: c.resolve(), lnode: c})
				continue
			}
		}
		gs = append(gs, w.given(r, n, cwd))
	}
	return gs
}

func c13replay(w *c13world, gs []c13given) map[string]any {
	ps := make([]string, len(gs))
	for i, g := range gs {
		rel := g.spelled
		if strings.HasPrefix(rel, w.dir) {
			rel = "$W" + strings.TrimPrefix(rel, w.dir)
		}
		ps[i] = strconv.Quote(rel)
	}
	return map[string]any{"world ($W, cwd=$W)": w.describe(), "paths": ps}
}

// ---- fixed worlds: minimised old failures, replayed first ----

func c13corpus() []struct {
	name  string
	build func(w *c13world) [][]*c13node
} {
	file := func(w *c13world, d *c13node, name string, size int) *c13node {
		f := w.add(d, "file", name)
		f.size, f.mtime = size, 1_700_000_000+int64(f.id)
		return f
	}
	dir := func(w *c13world, d *c13node, name string) *c13node {
		s := w.add(d, "dir", name)
		s.mtime = 1_600_000_000 + int64(s.id)
		return s
	}
	link := func(w *c13world, d *c13node, name string, t *c13node) *c13node {
		l := w.add(d, "link", name)
		l.target = t
		return l
	}
	return []struct {
		name  string
		build func(w *c13world) [][]*c13node
	}{
		{"prefix-lookalike", func(w *c13world) [][]*c13node {
			x, y, z := dir(w, w.root, "x"), dir(w, w.root, "y"), dir(w, w.root, "z")
			xa, ya, z1a := file(w, x, "a", 2), file(w, y, "a", 4), file(w, z, "1_a", 6)
			z2a := file(w, z, "2_a", 8)
			da := dir(w, dir(w, w.root, "d"), "a")
			file(w, da, "inner", 5)
			return [][]*c13node{{xa, ya, z1a}, {z1a, xa, ya}, {xa, z2a, ya, z1a}, {xa, ya, da, z1a}, {xa, xa, z1a, z1a}}
		}},
		{"links-inside-tree", func(w *c13world) [][]*c13node {
			t := dir(w, w.root, "t")
			big := file(w, t, "big", 25)
			sub := dir(w, t, "sub")
			file(w, sub, "f", 25)
			link(w, t, "lnk", big)
			link(w, t, "ldir", sub)
			link(w, t, "dang", nil)
			w.add(t, "fifo", "fifo")
			return [][]*c13node{{t}}
		}},
		{"links-given-directly", func(w *c13world) [][]*c13node {
			t := dir(w, w.root, "t")
			big := file(w, t, "big", 25)
			sub := dir(w, t, "sub")
			file(w, sub, "f", 7)
			tl := link(w, w.root, "toplink", t)
			tf := link(w, w.root, "topfilelink", big)
			td := link(w, w.root, "topdangling", nil)
			ff := w.add(w.root, "fifo", "topfifo")
			ll := link(w, w.root, "linklink", tl)
			return [][]*c13node{{tl}, {tf}, {td}, {ff}, {tl, t, tf, big}, {ll, sub}}
		}},
		{"sort-order-below-one-path", func(w *c13world) [][]*c13node {
			// a directory with entries next to siblings whose names extend it by a byte below '/':
			// the walk order of ONE shared tree is then not the byte order of the full paths
			t := dir(w, w.root, "share")
			docs := dir(w, t, "docs")
			file(w, docs, "a.txt", 3)
			file(w, dir(w, docs, "sub"), "b", 1)
			file(w, t, "docs-old", 2)
			file(w, t, "docs.txt", 4)
			file(w, t, "docs b", 5)
			v1 := dir(w, t, "v1")
			file(w, v1, "x", 1)
			file(w, dir(w, t, "v1.0"), "y", 1)
			return [][]*c13node{{t}, {docs}, {t, v1}}
		}},
		{"empty-and-single", func(w *c13world) [][]*c13node {
			e := dir(w, w.root, "empty")
			f := file(w, w.root, "single", 0)
			g := file(w, w.root, "\xff\xfe", 3)
			return [][]*c13node{{e}, {f}, {g}, {e, f, g}, {w.root}}
		}},
	}
}

func runC13(cfg config) *hx.Report {
	rep := hx.NewReport("C13")
	rep.Rule = "lists of 1..12 given paths into random trees materialised on disk (equal base names, ordinal-prefix look-alikes, repeated/overlapping paths, '.', '..', trailing slashes, relative spellings, unicode and non-UTF-8 names, symbolic links to files/directories/nothing/themselves inside the trees and given directly, pipes, empty directories, single files); non-trivial = the manifest has at least 2 items; distinct by (tree description, path list)"
	cf := &hx.CasesFile{Dir: cfg.out, Name: "C13", Module: "C13", Imports: []string{"Lib.Bytes", "Model.Scan", "Corr.C13"}, PerShard: 120}
	rng := hx.NewRand(cfg.seed)
	id := 0
	origWd, _ := os.Getwd()
	defer os.Chdir(origWd)

	runList := func(w *c13world, gs []c13given, kind string) {
		paths := make([]string, len(gs))
		for i, g := range gs {
			paths[i] = g.spelled
		}
		m, err := manifest.ScanPaths(paths)
		m2, err2 := manifest.ScanPaths(paths)
		resolve, rerr := app.VerifBuildPathResolver(paths)
		replay := c13replay(w, gs)

		id++
		cf.Add(fmt.Sprintf("SP %d %s %s", id, c13coqEntries(gs), c13coqObs(m, err == nil)))
		rep.CaseIndex[fmt.Sprint(id)] = map[string]any{"fn": "ScanPaths", "input": replay}
		id++
		if rerr != nil {
			cf.Add(fmt.Sprintf("RS %d %s None", id, c13coqEntries(gs)))
		} else {
			qs := []string{"", "no-such-name", "no-such-name/x", "/x"}
			seen := map[string]bool{}
			for _, it := range m.Items {
				qs = append(qs, it.RelPath)
				k := strings.SplitN(it.RelPath, "/", 2)[0]
				if !seen[k] {
					seen[k] = true
					qs = append(qs, k+"/", k+"/zz", k+"/zz/y")
				}
			}
			for _, g := range gs {
				qs = append(qs, filepath.Base(g.abs), "1_"+filepath.Base(g.abs), "2_"+filepath.Base(g.abs)+"/q")
			}
			items := make([]string, len(qs))
			for i, q := range qs {
				items[i] = fmt.Sprintf("(%s, %s)", hx.Str(q), hx.Str(resolve(q)))
			}
			cf.Add(fmt.Sprintf("RS %d %s (Some %s)", id, c13coqEntries(gs), hx.List(items)))
		}
		rep.CaseIndex[fmt.Sprint(id)] = map[string]any{"fn": "buildPathResolver", "input": replay}
		rep.Evaluations += 2
		rep.TracesValidated++
		rep.Count(kind)
		rep.Count(fmt.Sprintf("paths=%d", len(gs)))
		for _, g := range gs {
			switch {
			case g.lnode != nil && g.lnode.kind == "link":
				rep.Count("given:symlink")
			case g.stat == nil:
				rep.Count("given:nothing")
			default:
				rep.Count("given:" + g.stat.kind)
			}
		}
		if len(m.Items) >= 2 {
			rep.Nontrivial(fmt.Sprint(replay))
		}
		sigs := map[string]bool{}
		for _, v := range c13oracle(w, gs, m, err, m2, err2, resolve, rerr) {
			if sigs[v.sig] {
				continue
			}
			sigs[v.sig] = true
			rep.Violate(v.sig, v.what, replay)
		}
		if id%97 == 0 {
			rel := make([]string, len(m.Items))
			for i, it := range m.Items {
				rel[i] = strconv.Quote(it.RelPath)
			}
			rep.Sample(map[string]any{"input": replay, "items": rel, "error": fmt.Sprint(err)})
		}
	}

	runScan := func(w *c13world, g c13given) {
		m, err := manifest.Scan(g.spelled)
		m2, _ := manifest.Scan(g.spelled)
		id++
		obs := "None"
		if err == nil {
			obs = c13coqObs(m, true)
		}
		cf.Add(fmt.Sprintf("SC %d %s %s %s", id, hx.Str(filepath.Base(g.abs)), c13coqStat(g.stat), obs))
		replay := c13replay(w, []c13given{g})
		rep.CaseIndex[fmt.Sprint(id)] = map[string]any{"fn": "Scan", "input": replay}
		rep.Evaluations++
		rep.Count("scan-single-root")
		sigs := map[string]bool{}
		for _, v := range c13oracleScan(g, m, err, m2) {
			if !sigs[v.sig] {
				sigs[v.sig] = true
				rep.Violate(v.sig, v.what, replay)
			}
		}
	}

	withWorld := func(w *c13world, f func()) {
		if err := w.materialise(); err != nil {
			w.remove()
			panic(fmt.Sprintf("cannot materialise world: %v", err))
		}
		defer w.remove()
		if err := os.Chdir(w.dir); err != nil {
			panic(err)
		}
		defer os.Chdir(origWd)
		f()
	}

	// corpus first
	for _, c := range c13corpus() {
		w := &c13world{}
		w.root = w.add(nil, "dir", "")
		w.root.mtime = 1_650_000_000
		lists := c.build(w)
		withWorld(w, func() {
			for _, l := range lists {
				gs := make([]c13given, len(l))
				for i, n := range l {
					gs[i] = c13given{spelled: n.path(w), abs: n.path(w), stat: n.resolve(), lnode: n}
				}
				runList(w, gs, "corpus:"+c.name)
				if len(gs) == 1 {
					runScan(w, gs[0])
				}
			}
		})
	}

	// "." and relative spellings from inside a directory
	{
		w := c13genWorld(rng.Fork(77), true)
		withWorld(w, func() {
			for _, n := range w.nodes {
				if n.kind != "dir" || n.parent == nil {
					continue
				}
				if err := os.Chdir(n.path(w)); err != nil {
					panic(err)
				}
				gs := []c13given{{spelled: ".", abs: n.path(w), stat: n, lnode: n}}
				if len(n.kids) > 0 {
					k := n.kids[0]
					gs = append(gs, c13given{spelled: "./" + k.name, abs: k.path(w), stat: k.resolve(), lnode: k})
				}
				gs = append(gs, c13given{spelled: "..", abs: n.parent.path(w), stat: n.parent, lnode: n.parent})
				runList(w, gs, "dot")
				runScan(w, gs[0])
				os.Chdir(w.dir)
			}
		})
	}

	nWorlds, perWorld := 110, 4
	if cfg.tier == "thorough" {
		nWorlds, perWorld = 1500, 5
	}
	for wi := 0; wi < nWorlds; wi++ {
		wr := rng.Fork(uint64(1000 + wi))
		w := c13genWorld(wr, wi%5 != 0)
		withWorld(w, func() {
			for j := 0; j < perWorld; j++ {
				runList(w, w.pickPaths(wr, w.dir), "random")
			}
			runScan(w, w.given(wr, w.nodes[wr.Intn(len(w.nodes))], w.dir))
		})
	}

	// TopLevelNames on its own: long runs of equal names next to look-alikes
	nNames := 250
	if cfg.tier == "thorough" {
		nNames = 3000
	}
	alphabet := []string{"a", "a", "a", "1_a", "2_a", "3_a", "1_1_a", "2_1_a", "10_a", "11_a", "b", "1_b", "", "root", "1_root", "é", "9_a", "12_a"}
	nr := rng.Fork(5)
	for i := 0; i < nNames; i++ {
		n := 1 + nr.Intn(6)
		if nr.Intn(5) == 0 {
			n = 8 + nr.Intn(14)
		}
		abss := make([]string, n)
		for j := range abss {
			b := alphabet[nr.Intn(len(alphabet))]
			if b == "" {
				abss[j] = "/"
			} else {
				abss[j] = "/" + string(rune('p'+nr.Intn(3))) + "/" + b
			}
		}
		names := manifest.TopLevelNames(abss)
		id++
		ca := make([]string, n)
		cn := make([]string, len(names))
		for j := range abss {
			ca[j] = c13coqComps(abss[j])
		}
		for j := range names {
			cn[j] = hx.Str(names[j])
		}
		cf.Add(fmt.Sprintf("NM %d %s %s", id, hx.List(ca), hx.List(cn)))
		rep.CaseIndex[fmt.Sprint(id)] = map[string]any{"fn": "TopLevelNames", "paths": abss}
		rep.Evaluations++
		rep.Count("names")
		seen := map[string]bool{}
		for j, nm := range names {
			if seen[nm] {
				rep.Violate("dup-relpath", fmt.Sprintf("TopLevelNames(%q) gives the name %q twice", abss, nm), map[string]any{"fn": "TopLevelNames", "paths": abss})
			}
			seen[nm] = true
			if strings.Contains(nm, "/") || nm == "" || (j < len(abss) && !strings.HasSuffix(nm, filepath.Base(abss[j])) && abss[j] != "/") {
				rep.Violate("bad-path-form", fmt.Sprintf("TopLevelNames(%q)[%d] = %q", abss, j, nm), map[string]any{"fn": "TopLevelNames", "paths": abss})
			}
		}
		if len(names) != len(abss) {
			rep.Violate("missing-path", fmt.Sprintf("TopLevelNames(%q) returns %d names", abss, len(names)), map[string]any{"fn": "TopLevelNames", "paths": abss})
		}
	}

	// computeID on arbitrary items
	nIDs := 150
	if cfg.tier == "thorough" {
		nIDs = 2000
	}
	ir := rng.Fork(6)
	for i := 0; i < nIDs; i++ {
		it := manifest.FileItem{RelPath: genRelPath(ir), IsDir: ir.Bool()}
		switch ir.Intn(4) {
		case 0:
			it.Size, it.ModTime = int64(ir.U64()), int64(ir.U64())
		case 1:
			it.Size, it.ModTime = 0, -int64(ir.Intn(1<<30))
		default:
			it.Size, it.ModTime = int64(ir.Intn(1<<40)), int64(ir.Intn(1<<32))
		}
		if len(it.RelPath) > 200 {
			it.RelPath = it.RelPath[:200]
		}
		got := manifest.VerifComputeID(it)
		id++
		cf.Add(fmt.Sprintf("CI %d %s %s %s %s %s", id, hx.Str(it.RelPath), hx.Z(it.Size), hx.Z(it.ModTime), hx.B(it.IsDir), hx.Str(got)))
		rep.CaseIndex[fmt.Sprint(id)] = map[string]any{"fn": "computeID", "item": fmt.Sprintf("%q %d %d %v", it.RelPath, it.Size, it.ModTime, it.IsDir)}
		rep.Evaluations++
		rep.Count("ids")
		if got != c13fnvID(it) || got != manifest.VerifComputeID(it) {
			rep.Violate("id", fmt.Sprintf("computeID(%q,%d,%d,%v) = %s, FNV-1a gives %s", it.RelPath, it.Size, it.ModTime, it.IsDir, got, c13fnvID(it)), map[string]any{"fn": "computeID"})
		}
	}
	cf.Close()
	rep.Notes = append(rep.Notes, "mtimes are set with os.Chtimes and read back with os.Lstat by the harness; file contents are distinct per file so that resolving to the wrong source is seen; pipes are never opened")
	return rep
}

func init() { runners["C13"] = runC13 }

package main

import (
	"bytes"
	"context"
	"encoding/binary"
	"encoding/json"
	"errors"
	"fmt"
	"hash/crc32"
	"io"
	"os"
	"os/exec"
	"path/filepath"
	"runtime"
	"strconv"
	"strings"
	"sync"
	"syscall"
	"time"

	"github.com/sheerbytes/sheerbytes/internal/app"
	"github.com/sheerbytes/sheerbytes/internal/transfer"
	"github.com/sheerbytes/sheerbytes/pkg/manifest"
	"github.com/sheerbytes/sheerbytes/verifharness/internal/hx"
	"github.com/sheerbytes/sheerbytes/verifharness/internal/memnet"
)

// C15: malformed or hostile protocol input produces an error, not a crash.
//
//  1. decoder level (this process, sequential): readControlMessage and
//     readControlHeader on generated, mutated and random bytes under recover(),
//     heap growth measured with runtime.MemStats (TotalAlloc delta, bucketed);
//     compared with Model/WireDec.v in coqc (result class, bytes left,
//     allocation class).
//  2. endpoint level (child processes under RLIMIT_AS, so that a panic in a
//     reader goroutine or an absurd allocation kills the child and not the
//     run): a scripted peer over harness/internal/memnet plays byte scripts at
//     the real RecvManifestMultiStream / SendManifestMultiStream; observables:
//     nil / error / panic / no return after all input has ended (watchdog).
//     Deterministic regimes are compared with Model/Endpoint.v in coqc, the
//     rest (mutated whole transcripts on all streams at once, legacy stream
//     decoders) is judged by the property oracle only.
//
// Oracle (independent of the model): no panic, no child crash; the endpoint
// returns within the watchdog once every stream has ended; heap growth at most
// 16 x bytes received + 128 KiB (+ one chunk buffer of at most MaxChunkSize per
// data stream on the data path).

const (
	c15OutOk    = 0
	c15OutErr   = 1
	c15OutPanic = 2
	c15OutHang  = 3
)

type c15Item struct {
	Path string `json:"p"`
	Size int64  `json:"s"`
	ID   string `json:"i"`
}

type c15Case struct {
	ID       int       `json:"id"`
	Kind     string    `json:"kind"` // recv-ctl recv-data recv-fuzz send-ack send-fuzz legacy-file legacy-manifest dumb dec-extreme hdr-extreme
	Tag      string    `json:"tag"`
	Resume   bool      `json:"resume"`
	Delta    bool      `json:"delta"` // the endpoint runs with a byte-progress callback (as the CLI does): the per-read progress path
	DeltaSet bool      `json:"-"`
	MidFrame bool      `json:"midframe"` // the (only) data stream ends inside a frame's payload (header complete): the reader must fail the transfer without waiting for the control stream. (A stream that ends inside the 20-byte HEADER is taken for an ended stream by the code - modelled so in Endpoint.v - and the transfer fails once the control stream ends.)
	Items    []c15Item `json:"items"`
	Header   []byte    `json:"header"`
	Ctl      []byte    `json:"ctl"`
	Data     [][]byte  `json:"data"`
	Mem      bool      `json:"mem"`
	SrcDir   string    `json:"src"`
	Manifest []byte    `json:"manifest"`
	Streams  int       `json:"streams"`
	Complete bool      `json:"complete"` // every file's records and frames are all there (whatever else is odd): no excuse to wait
	MustErr  string    `json:"musterr"` // the script violates this stated guard of the protocol: the endpoint has to return an error
}

type c15Result struct {
	ID    int    `json:"id"`
	Out   int    `json:"out"`
	Phase int    `json:"phase"`
	Alloc uint64 `json:"alloc"`
	Err   string `json:"err"`
	Panic string `json:"panic"`
	Ms    int64  `json:"ms"`
	Recvd int    `json:"recvd"`
}

func c15Watchdog(tier string) time.Duration {
	if tier == "thorough" {
		return 8 * time.Second
	}
	return 4 * time.Second
}

// ---------- byte scripts ----------

type c15Rec struct {
	kind string
	b    []byte
}

func c15Enc(msg any) []byte {
	b, err := transfer.VerifEncodeControl(msg)
	if err != nil {
		// writers refuse invalid paths: encode by hand what a hostile peer would send
		if fb, ok := msg.(transfer.FileBegin); ok {
			return c15RawFileBegin(fb)
		}
		panic(err)
	}
	return append([]byte{}, b...)
}

func c15RawFileBegin(m transfer.FileBegin) []byte {
	var bb bytes.Buffer
	bb.WriteByte(transfer.VerifTypeFileBegin)
	binary.Write(&bb, binary.BigEndian, uint16(len(m.RelPath)))
	bb.WriteString(m.RelPath)
	binary.Write(&bb, binary.BigEndian, m.FileSize)
	binary.Write(&bb, binary.BigEndian, m.ChunkSize)
	binary.Write(&bb, binary.BigEndian, m.StreamID)
	bb.WriteByte(m.HashAlg)
	binary.Write(&bb, binary.BigEndian, m.StripeIndex)
	binary.Write(&bb, binary.BigEndian, m.StripeCount)
	binary.Write(&bb, binary.BigEndian, m.StripeStart)
	binary.Write(&bb, binary.BigEndian, m.StripeChunks)
	return bb.Bytes()
}

var c15crcTable = crc32.MakeTable(crc32.Castagnoli)

func c15Frame(key uint64, idx, clen, crc uint32, payload []byte) []byte {
	h := make([]byte, 20, 20+len(payload))
	binary.BigEndian.PutUint64(h[0:8], key)
	binary.BigEndian.PutUint32(h[8:12], idx)
	binary.BigEndian.PutUint32(h[12:16], clen)
	binary.BigEndian.PutUint32(h[16:20], crc)
	return append(h, payload...)
}

func c15GoodFrame(key uint64, idx uint32, payload []byte) []byte {
	return c15Frame(key, idx, uint32(len(payload)), crc32.Checksum(payload, c15crcTable), payload)
}

func c15Manifest(items []c15Item) manifest.Manifest {
	m := manifest.Manifest{Root: "r"}
	for _, it := range items {
		m.Items = append(m.Items, manifest.FileItem{RelPath: it.Path, Size: it.Size, ID: it.ID})
		m.FileCount++
		m.TotalBytes += it.Size
	}
	return m
}

func c15Header(items []c15Item) []byte {
	b, err := transfer.VerifWriteControlHeader(c15Manifest(items))
	if err != nil {
		panic(err)
	}
	return append([]byte{}, b...)
}

func c15Key(it c15Item) uint64 {
	return transfer.VerifFileKey(manifest.FileItem{RelPath: it.Path, Size: it.Size, ID: it.ID})
}

func c15Payload(it c15Item, off, n int64) []byte {
	b := make([]byte, n)
	for i := range b {
		b[i] = byte((off+int64(i))*7 + int64(len(it.Path)))
	}
	return b
}

func c15CoqItems(items []c15Item) string {
	var out []string
	for _, it := range items {
		out = append(out, fmt.Sprintf("{| mi_path := %s; mi_size := %s; mi_key := %d; mi_id := %s |}", hx.Str(it.Path), hx.Z(it.Size), c15Key(it), hx.Str(it.ID)))
	}
	return hx.List(out)
}

func c15Cat(recs []c15Rec) []byte {
	var b []byte
	for _, r := range recs {
		b = append(b, r.b...)
	}
	return b
}

func c15GenItems(r *hx.Rand, n int) []c15Item {
	names := []string{"a", "b.bin", "d/e", "d/f g", "x/y/z", "ü"}
	var items []c15Item
	used := map[string]bool{}
	for len(items) < n {
		p := names[r.Intn(len(names))]
		if used[p] {
			p = fmt.Sprintf("%s%d", p, len(items))
		}
		used[p] = true
		size := int64(r.Pick(0, 1, 7, 8, 9, 20, 33))
		id := ""
		if r.Intn(4) != 0 {
			id = fmt.Sprintf("%016x", r.U64())
		}
		items = append(items, c15Item{Path: p, Size: size, ID: id})
	}
	return items
}

// an honest control+data transcript for items (chunk size cs, k data streams)
func c15Honest(items []c15Item, cs uint32, k int, withResume bool) (ctl []c15Rec, data [][]c15Rec) {
	ctl = append(ctl, c15Rec{"DataStreams", c15Enc(transfer.DataStreams{Count: uint16(k)})})
	data = make([][]c15Rec, k)
	n := 0
	for _, it := range items {
		key := c15Key(it)
		ctl = append(ctl, c15Rec{"FileBegin", c15Enc(transfer.FileBegin{RelPath: it.Path, FileSize: uint64(it.Size), ChunkSize: cs, StreamID: key, HashAlg: 1})})
		if withResume && it.ID != "" && it.Size > 0 {
			ctl = append(ctl, c15Rec{"ResumeRequest", c15Enc(transfer.ResumeRequest{FileID: it.ID, StreamID: key})})
		}
		for off, idx := int64(0), uint32(0); off < it.Size; off, idx = off+int64(cs), idx+1 {
			l := int64(cs)
			if it.Size-off < l {
				l = it.Size - off
			}
			data[n%k] = append(data[n%k], c15Rec{"Frame", c15GoodFrame(key, idx, c15Payload(it, off, l))})
			n++
		}
		ctl = append(ctl, c15Rec{"FileEnd", c15Enc(transfer.FileEnd{StreamID: key})})
	}
	ctl = append(ctl, c15Rec{"End", c15Enc(nil)})
	return
}

// offsets of peer-controlled length / count fields inside one encoded record
type c15LenField struct {
	off, width int
	name       string
}

func c15LenFields(kind string, b []byte) []c15LenField {
	u16 := func(o int) int {
		if o+2 > len(b) {
			return 0
		}
		return int(binary.BigEndian.Uint16(b[o:]))
	}
	switch kind {
	case "FileBegin":
		return []c15LenField{{1, 2, "FileBegin.path"}, {3 + u16(1) + 8, 4, "FileBegin.chunksize"}}
	case "CreditBatch":
		return []c15LenField{{1, 4, "CreditBatch.count"}}
	case "FileDone":
		return []c15LenField{{10, 2, "FileDone.err"}}
	case "FileResumeInfo":
		return []c15LenField{{1, 2, "FileResumeInfo.id"}, {3 + u16(1) + 12, 4, "FileResumeInfo.bitmap"}}
	case "ResumeRequest":
		return []c15LenField{{1, 2, "ResumeRequest.id"}}
	case "Header":
		return []c15LenField{{4, 4, "header.json"}}
	case "Frame":
		return []c15LenField{{12, 4, "frame.len"}, {8, 4, "frame.index"}}
	case "DataStreams":
		return []c15LenField{{1, 2, "DataStreams.count"}}
	}
	return nil
}

func c15SetField(b []byte, f c15LenField, v uint64) []byte {
	out := append([]byte{}, b...)
	if f.off+f.width > len(out) {
		return out
	}
	if f.width == 2 {
		binary.BigEndian.PutUint16(out[f.off:], uint16(v))
	} else {
		binary.BigEndian.PutUint32(out[f.off:], uint32(v))
	}
	return out
}

// ---------- child process: endpoint and legacy cases ----------

type c15ByteStream struct {
	r *bytes.Reader
	n int
}

func (s *c15ByteStream) Read(p []byte) (int, error) {
	n, err := s.r.Read(p)
	s.n += n
	return n, err
}
func (s *c15ByteStream) Write(p []byte) (int, error) { return len(p), nil }
func (s *c15ByteStream) Close() error                { return nil }

func c15OutOf(err error) int {
	if err == nil {
		return c15OutOk
	}
	return c15OutErr
}

func c15Trunc(s string, n int) string {
	if len(s) > n {
		return s[:n]
	}
	return s
}

// guarded runs f in its own goroutine under recover() and a watchdog.
func c15Guarded(w time.Duration, f func() error) (out int, errs, pan string) {
	type r struct {
		err error
		pan string
	}
	ch := make(chan r, 1)
	go func() {
		defer func() {
			if x := recover(); x != nil {
				ch <- r{nil, fmt.Sprint(x)}
			}
		}()
		ch <- r{f(), ""}
	}()
	select {
	case x := <-ch:
		if x.pan != "" {
			return c15OutPanic, "", x.pan
		}
		if x.err != nil {
			return c15OutErr, c15Trunc(x.err.Error(), 160), ""
		}
		return c15OutOk, "", ""
	case <-time.After(w):
		return c15OutHang, "", ""
	}
}

func c15RunRecv(c c15Case, w time.Duration) c15Result {
	res := c15Result{ID: c.ID}
	outDir, err := os.MkdirTemp("", "c15r")
	if err != nil {
		panic(err)
	}
	defer os.RemoveAll(outDir)
	a, b := memnet.Pair(memnet.Mode{VisibleAtOpen: false})
	ctx, cancel := context.WithCancel(context.Background())
	type r struct {
		err error
		pan string
	}
	done := make(chan r, 1)
	var m0, m1 runtime.MemStats
	if c.Mem {
		runtime.GC()
		runtime.ReadMemStats(&m0)
	}
	t0 := time.Now()
	go func() {
		defer func() {
			if x := recover(); x != nil {
				done <- r{nil, fmt.Sprint(x)}
			}
		}()
		ro := transfer.Options{Resume: c.Resume, NoRootDir: true, HashAlg: "crc32c"}
		if c.Delta {
			ro.ProgressDeltaFn = func(string, int64) {}
		}
		_, err := transfer.RecvManifestMultiStream(ctx, tconn{b}, outDir, ro)
		done <- r{err, ""}
	}()
	ctl, _ := a.OpenStream(ctx)
	ctl.Write(c.Header)
	ctl.Write(c.Ctl)
	res.Recvd = len(c.Header) + len(c.Ctl)
	var ds []*memnet.Stream
	for _, d := range c.Data {
		s, _ := a.OpenStream(ctx)
		s.Write(d)
		s.CloseWrite()
		ds = append(ds, s)
		res.Recvd += len(d)
	}
	finish := func(x r, phase int) c15Result {
		if c.Mem {
			runtime.ReadMemStats(&m1)
			res.Alloc = m1.TotalAlloc - m0.TotalAlloc
		}
		res.Phase = phase
		res.Ms = time.Since(t0).Milliseconds()
		if x.pan != "" {
			res.Out, res.Panic = c15OutPanic, c15Trunc(x.pan, 200)
		} else {
			res.Out = c15OutOf(x.err)
			if x.err != nil {
				res.Err = c15Trunc(x.err.Error(), 160)
			}
		}
		cancel()
		a.Fail(memnet.ErrAbrupt, memnet.ErrAbrupt)
		return res
	}
	// phase 0: the control stream stays open while the data streams are consumed
	if len(ds) > 0 {
		consumed := func() int64 {
			var n int64
			for _, s := range ds {
				n += s.Consumed()
			}
			return n + ctl.Consumed()
		}
		last, lastChange := consumed(), time.Now()
		for time.Since(lastChange) < 250*time.Millisecond && time.Since(t0) < w {
			select {
			case x := <-done:
				return finish(x, 0)
			case <-time.After(time.Millisecond):
			}
			if n := consumed(); n != last {
				last, lastChange = n, time.Now()
			}
		}
	}
	// phase 1: every stream has ended
	ctl.CloseWrite()
	select {
	case x := <-done:
		return finish(x, 1)
	case <-time.After(w):
	}
	res.Out, res.Phase, res.Ms = c15OutHang, 2, time.Since(t0).Milliseconds()
	cancel()
	a.Fail(memnet.ErrAbrupt, memnet.ErrAbrupt)
	select {
	case <-done:
	case <-time.After(2 * time.Second):
	}
	return res
}

func c15RunSend(c c15Case, w time.Duration) c15Result {
	res := c15Result{ID: c.ID, Recvd: len(c.Ctl)}
	var m manifest.Manifest
	if err := json.Unmarshal(c.Manifest, &m); err != nil {
		panic(err)
	}
	a, b := memnet.Pair(memnet.Mode{VisibleAtOpen: false})
	ctx, cancel := context.WithCancel(context.Background())
	type r struct {
		err error
		pan string
	}
	done := make(chan r, 1)
	t0 := time.Now()
	go func() {
		defer func() {
			if x := recover(); x != nil {
				done <- r{nil, fmt.Sprint(x)}
			}
		}()
		streams := c.Streams
		if streams < 1 {
			streams = 1
		}
		so := transfer.Options{ChunkSize: 8, ParallelFiles: streams, Resume: c.Resume, ResumeTimeout: 500 * time.Millisecond, HashAlg: "crc32c"}
		if c.Delta {
			so.ProgressDeltaFn = func(string, int64) {}
		}
		err := transfer.SendManifestMultiStream(ctx, tconn{a}, c.SrcDir, m, so)
		done <- r{err, ""}
	}()
	actx, acancel := context.WithTimeout(ctx, w)
	ctl, err := b.AcceptStream(actx)
	acancel()
	if err == nil {
		go io.Copy(io.Discard, ctl)
		go func() {
			for {
				s, err := b.AcceptStream(ctx)
				if err != nil {
					return
				}
				go io.Copy(io.Discard, s)
			}
		}()
		ctl.Write(c.Ctl)
		ctl.CloseWrite()
	}
	select {
	case x := <-done:
		res.Ms = time.Since(t0).Milliseconds()
		if x.pan != "" {
			res.Out, res.Panic = c15OutPanic, c15Trunc(x.pan, 200)
		} else {
			res.Out = c15OutOf(x.err)
			if x.err != nil {
				res.Err = c15Trunc(x.err.Error(), 160)
			}
		}
		res.Phase = 1
	case <-time.After(w):
		res.Out, res.Phase, res.Ms = c15OutHang, 2, time.Since(t0).Milliseconds()
	}
	cancel()
	a.Fail(memnet.ErrAbrupt, memnet.ErrAbrupt)
	if res.Out == c15OutHang {
		select {
		case <-done:
		case <-time.After(2 * time.Second):
		}
	}
	return res
}

func c15RunLegacy(c c15Case, w time.Duration) c15Result {
	res := c15Result{ID: c.ID, Recvd: len(c.Ctl), Phase: 1}
	outDir, err := os.MkdirTemp("", "c15l")
	if err != nil {
		panic(err)
	}
	defer os.RemoveAll(outDir)
	var m0, m1 runtime.MemStats
	runtime.GC()
	runtime.ReadMemStats(&m0)
	t0 := time.Now()
	ctx, cancel := context.WithCancel(context.Background())
	defer cancel()
	s := &c15ByteStream{r: bytes.NewReader(c.Ctl)}
	res.Out, res.Err, res.Panic = c15Guarded(w, func() error {
		switch c.Kind {
		case "legacy-file":
			_, err := transfer.RecvFile(ctx, s, outDir)
			return err
		case "legacy-manifest":
			_, err := transfer.RecvManifest(ctx, s, outDir, nil)
			return err
		case "dumb":
			_, err := app.VerifRecvDumbDiscardReader(s)
			return err
		case "dec-extreme":
			_, _, _, err := transfer.VerifDecodeControl(c.Ctl)
			return err
		case "hdr-extreme":
			_, _, err := transfer.VerifReadControlHeader(c.Ctl)
			return err
		}
		return errors.New("unknown kind")
	})
	runtime.ReadMemStats(&m1)
	res.Alloc = m1.TotalAlloc - m0.TotalAlloc
	res.Ms = time.Since(t0).Milliseconds()
	return res
}

func c15RunOne(c c15Case, w time.Duration) c15Result {
	switch c.Kind {
	case "recv-ctl", "recv-data", "recv-fuzz":
		return c15RunRecv(c, w)
	case "send-ack", "send-fuzz":
		return c15RunSend(c, w)
	}
	return c15RunLegacy(c, w)
}

func runC15Child(cfg config) *hx.Report {
	rep := hx.NewReport("C15child")
	// absurd allocations must fail in here, not succeed
	lim := uint64(3) << 30
	_ = syscall.Setrlimit(syscall.RLIMIT_AS, &syscall.Rlimit{Cur: lim, Max: lim})
	var cases []c15Case
	raw, err := os.ReadFile(os.Getenv("C15_CASES"))
	if err != nil {
		panic(err)
	}
	if err := json.Unmarshal(raw, &cases); err != nil {
		panic(err)
	}
	var idxs []int
	for _, f := range strings.Split(os.Getenv("C15_IDX"), ",") {
		if i, err := strconv.Atoi(f); err == nil && i >= 0 && i < len(cases) {
			idxs = append(idxs, i)
		}
	}
	workers, _ := strconv.Atoi(os.Getenv("C15_WORKERS"))
	if workers < 1 {
		workers = 1
	}
	out, err := os.OpenFile(os.Getenv("C15_RESULTS"), os.O_APPEND|os.O_CREATE|os.O_WRONLY, 0644)
	if err != nil {
		panic(err)
	}
	var mu sync.Mutex
	emit := func(s string) {
		mu.Lock()
		out.WriteString(s + "\n")
		mu.Unlock()
	}
	w := c15Watchdog(cfg.tier)
	runIdx := func(i int) {
		emit(fmt.Sprintf("S %d", i))
		r := c15RunOne(cases[i], w)
		b, _ := json.Marshal(r)
		emit(fmt.Sprintf("D %d %s", i, b))
	}
	// memory-measured cases first, one at a time; then the rest in parallel
	var par []int
	for _, i := range idxs {
		if cases[i].Mem || strings.HasPrefix(cases[i].Kind, "legacy") || cases[i].Kind == "dumb" || strings.HasSuffix(cases[i].Kind, "extreme") {
			runIdx(i)
		} else {
			par = append(par, i)
		}
	}
	ch := make(chan int)
	var wg sync.WaitGroup
	for k := 0; k < workers; k++ {
		wg.Add(1)
		go func() {
			defer wg.Done()
			for i := range ch {
				runIdx(i)
			}
		}()
	}
	for _, i := range par {
		ch <- i
	}
	close(ch)
	wg.Wait()
	out.Close()
	return rep
}

// c15Children runs the cases in child processes; a child that dies is
// restarted after the case(s) it was running, which are re-run alone to find
// the one that kills it.
func c15Children(cfg config, cases []c15Case) (map[int]c15Result, map[int]string) {
	results := map[int]c15Result{}
	crashes := map[int]string{}
	dir := filepath.Join(cfg.out, "child")
	os.MkdirAll(dir, 0755)
	casesPath := filepath.Join(dir, "cases.json")
	raw, _ := json.Marshal(cases)
	os.WriteFile(casesPath, raw, 0644)
	exe, _ := os.Executable()
	spawn := func(idxs []int, workers int) (started map[int]bool, stderr string) {
		resPath := filepath.Join(dir, fmt.Sprintf("results_%d_%d.txt", idxs[0], len(idxs)))
		os.Remove(resPath)
		var sb []string
		for _, i := range idxs {
			sb = append(sb, strconv.Itoa(i))
		}
		cmd := exec.Command(exe, "-out", dir, "-seed", fmt.Sprint(cfg.seed), "-tier", cfg.tier, "C15child")
		cmd.Env = append(os.Environ(), "C15_CASES="+casesPath, "C15_RESULTS="+resPath, "C15_IDX="+strings.Join(sb, ","), fmt.Sprintf("C15_WORKERS=%d", workers), "GOMAXPROCS=8")
		var eb bytes.Buffer
		cmd.Stderr = &eb
		cmd.Stdout = io.Discard
		_ = cmd.Run()
		started = map[int]bool{}
		b, _ := os.ReadFile(resPath)
		for _, line := range strings.Split(string(b), "\n") {
			f := strings.SplitN(line, " ", 3)
			if len(f) < 2 {
				continue
			}
			i, _ := strconv.Atoi(f[1])
			if f[0] == "S" {
				started[i] = true
			} else if f[0] == "D" && len(f) == 3 {
				var r c15Result
				if json.Unmarshal([]byte(f[2]), &r) == nil {
					results[cases[i].ID] = r
				}
			}
		}
		return started, eb.String()
	}
	crashText := func(se string) string {
		for _, l := range strings.Split(se, "\n") {
			if strings.HasPrefix(l, "panic:") || strings.HasPrefix(l, "fatal error:") || strings.Contains(l, "out of memory") {
				return c15Trunc(l, 200)
			}
		}
		return c15Trunc(strings.TrimSpace(se), 200)
	}
	pending := make([]int, len(cases))
	for i := range pending {
		pending[i] = i
	}
	for round := 0; len(pending) > 0 && round < 200; round++ {
		started, se := spawn(pending, 16)
		var rest, suspects []int
		for _, i := range pending {
			if _, ok := results[cases[i].ID]; ok {
				continue
			}
			if started[i] {
				suspects = append(suspects, i)
			} else {
				rest = append(rest, i)
			}
		}
		if len(suspects) == 0 && len(rest) > 0 {
			// the child died without starting anything
			crashes[cases[rest[0]].ID] = "child process failed: " + crashText(se)
			rest = rest[1:]
		}
		// the child died: what it had started but not finished is re-run one by one
		for _, i := range suspects {
			_, se1 := spawn([]int{i}, 1)
			if _, ok := results[cases[i].ID]; !ok {
				crashes[cases[i].ID] = crashText(se1)
			}
		}
		pending = rest
	}
	return results, crashes
}

// ---------- the run ----------

func c15MeasureDecode(f func() error) (out int, pan string, err error, alloc uint64) {
	var m0, m1 runtime.MemStats
	runtime.ReadMemStats(&m0)
	func() {
		defer func() {
			if x := recover(); x != nil {
				pan = fmt.Sprint(x)
			}
		}()
		err = f()
	}()
	runtime.ReadMemStats(&m1)
	alloc = m1.TotalAlloc - m0.TotalAlloc
	switch {
	case pan != "":
		out = c15OutPanic
	case err != nil:
		out = c15OutErr
	}
	return
}

func c15Bucket(n int, alloc uint64) string {
	switch {
	case alloc > uint64(16*n)+2<<20:
		return "(Some true)"
	case alloc <= uint64(16*n)+256<<10:
		return "(Some false)"
	}
	return "None"
}

func c15AllocViolates(n int, alloc uint64, extra uint64) bool {
	return alloc > uint64(16*n)+128<<10+extra
}

func c15PanicSig(kind, text string) string {
	switch {
	case strings.Contains(text, "bufSize must be positive"):
		return "panic:" + kind + ":bufpool-zero-chunk-size"
	case strings.Contains(text, "out of memory") || strings.Contains(text, "cannot allocate"):
		return "alloc:" + kind + ":out-of-memory"
	}
	return "panic:" + kind + ":other"
}

func runC15(cfg config) *hx.Report {
	rep := hx.NewReport("C15")
	rep.Rule = "byte scripts for the control stream, the data streams and the acknowledgement stream: valid transcripts of 1-3 files and their mutations (bit flips, truncation at every record boundary -1/0/+1, length and count fields set to 8-48 MiB and to the maximum, type codes 0..255, inconsistent counts/indices/sizes/keys, pure random). Non-trivial = a script that is not a valid transcript and is longer than one record; distinct by bytes"
	cf := &hx.CasesFile{Dir: cfg.out, Name: "C15", Module: "C15", Imports: []string{"Lib.GoInt", "Lib.Bytes", "Model.Wire", "Model.WireDec", "Model.Endpoint", "Corr.C15"}, PerShard: 220}
	rng := hx.NewRand(cfg.seed)
	thorough := cfg.tier == "thorough"
	scale := 1
	if thorough {
		scale = 8
	}
	id := 0
	next := func() int { id++; return id }

	// ===== 1. decoder level =====
	decodeCase := func(b []byte, tag string) {
		n := next()
		var consumed int
		out, pan, err, alloc := c15MeasureDecode(func() error {
			_, _, c, e := transfer.VerifDecodeControl(b)
			consumed = c
			return e
		})
		rep.Evaluations++
		rep.Count("decode:" + tag)
		rep.CaseIndex[fmt.Sprint(n)] = map[string]any{"op": "readControlMessage", "tag": tag, "bytes": fmt.Sprintf("%x", c15TruncB(b, 96)), "len": len(b)}
		if out == c15OutPanic {
			rep.Violate("panic:decode:"+tag, "readControlMessage panics: "+pan, map[string]any{"bytes": fmt.Sprintf("%x", c15TruncB(b, 200))})
			return
		}
		if c15AllocViolates(len(b), alloc, 0) {
			rep.Violate("alloc:decode:"+tag, fmt.Sprintf("readControlMessage allocated %d bytes for %d bytes of input", alloc, len(b)), map[string]any{"bytes": fmt.Sprintf("%x", c15TruncB(b, 200)), "alloc": alloc})
		}
		if err == nil && len(b) > 0 && !c15KnownType(b[0]) {
			rep.Violate("accepted:decode:unknown-type", fmt.Sprintf("readControlMessage accepts the unknown record type 0x%02x", b[0]), map[string]any{"bytes": fmt.Sprintf("%x", c15TruncB(b, 200))})
		}
		if err == nil && len(b) > 3 && b[0] == transfer.VerifTypeFileBegin && int(binary.BigEndian.Uint16(b[1:3])) > 1024 {
			rep.Violate("accepted:decode:path-too-long", "readControlMessage accepts a FileBegin whose path is longer than maxRelPathLength", map[string]any{"bytes": fmt.Sprintf("%x", c15TruncB(b, 200))})
		}
		cls := "C15.KBad"
		switch classifyDecodeErr(err) {
		case "ok":
			cls = fmt.Sprintf("(C15.KOk %d)", len(b)-consumed)
		case "short":
			cls = "C15.KShort"
		}
		cf.Add(fmt.Sprintf("C15.DC %d %s %s %s", n, hx.Bytes(b), cls, c15Bucket(len(b), alloc)))
		if len(b) > 1 {
			rep.Nontrivial("d" + string(b))
		}
	}
	var pool []c15Rec
	for i := 0; i < 260*scale; i++ {
		msg := genCtl(rng, i%61 == 0)
		if !withinLimits(msg) {
			continue
		}
		b, err := transfer.VerifEncodeControl(msg)
		if err != nil {
			continue
		}
		pool = append(pool, c15Rec{ctlKind(msg), append([]byte{}, b...)})
	}
	// warm up (first calls allocate runtime structures)
	for i := 0; i < 20; i++ {
		transfer.VerifDecodeControl(pool[i%len(pool)].b)
	}
	for _, r := range pool {
		if len(r.b) < 600 || rng.Intn(4) == 0 {
			decodeCase(r.b, "valid")
		}
	}
	var extreme []c15Case
	for i, r := range pool {
		if len(r.b) > 600 {
			continue
		}
		// truncation at every boundary of interest
		for _, cut := range []int{0, 1, 2, len(r.b) / 2, len(r.b) - 1} {
			if cut >= 0 && cut < len(r.b) && rng.Intn(3) == 0 {
				decodeCase(r.b[:cut], "truncated")
			}
		}
		if rng.Intn(2) == 0 {
			b := append([]byte{}, r.b...)
			b[rng.Intn(len(b))] ^= 1 << rng.Intn(8)
			decodeCase(b, "bitflip")
		}
		for _, f := range c15LenFields(r.kind, r.b) {
			if f.name == "FileBegin.chunksize" {
				continue
			}
			if f.width == 4 {
				decodeCase(c15SetField(r.b, f, uint64(8<<20+rng.Intn(40<<20))), "len-inflated:"+f.name)
				if i%5 == 0 {
					extreme = append(extreme, c15Case{Kind: "dec-extreme", Tag: "len-max:" + f.name, Ctl: c15SetField(r.b, f, 0xffffffff)})
				}
			} else {
				decodeCase(c15SetField(r.b, f, 0xffff), "len-max:"+f.name)
			}
			decodeCase(c15SetField(r.b, f, uint64(rng.Intn(70000))), "len-random:"+f.name)
		}
	}
	for t := 0; t < 256; t++ {
		b := append([]byte{byte(t)}, rng.Bytes(rng.Pick(0, 3, 12, 40))...)
		// keep peer-chosen 32-bit lengths of random tails moderate here; the maxima run in the child
		if (t == int(transfer.VerifTypeCreditBatch)) && len(b) >= 5 {
			b[1], b[2] = 0, b[2]&0x3f
		}
		if t == int(transfer.VerifTypeFileResumeInfo) {
			b = append([]byte{byte(t), 0, 0}, rng.Bytes(12)...)
			b = append(b, 0x02, byte(rng.U64()), byte(rng.U64()), byte(rng.U64()))
		}
		decodeCase(b, "type-sweep")
	}
	for i := 0; i < 120*scale; i++ {
		b := rng.Bytes(rng.Intn(48))
		if len(b) > 0 {
			b[0] = []byte{0x10, 0x11, 0x12, 0x13, 0x15, 0x17, 0xff, byte(rng.U64())}[rng.Intn(8)]
		}
		if len(b) > 0 && (b[0] == transfer.VerifTypeCreditBatch || b[0] == transfer.VerifTypeFileResumeInfo) {
			extreme = append(extreme, c15Case{Kind: "dec-extreme", Tag: "random", Ctl: b})
			continue
		}
		decodeCase(b, "random")
	}
	// control header
	headerCase := func(b []byte, tag string) {
		n := next()
		var consumed int
		out, pan, err, alloc := c15MeasureDecode(func() error {
			_, c, e := transfer.VerifReadControlHeader(b)
			consumed = c
			return e
		})
		rep.Evaluations++
		rep.Count("header:" + tag)
		rep.CaseIndex[fmt.Sprint(n)] = map[string]any{"op": "readControlHeader", "tag": tag, "bytes": fmt.Sprintf("%x", c15TruncB(b, 96)), "len": len(b)}
		if out == c15OutPanic {
			rep.Violate("panic:header:"+tag, "readControlHeader panics: "+pan, map[string]any{"bytes": fmt.Sprintf("%x", c15TruncB(b, 200))})
			return
		}
		if c15AllocViolates(len(b), alloc, 0) {
			rep.Violate("alloc:header:"+tag, fmt.Sprintf("readControlHeader allocated %d bytes for %d bytes of input", alloc, len(b)), map[string]any{"bytes": fmt.Sprintf("%x", c15TruncB(b, 200)), "alloc": alloc})
		}
		cls := "C15.KBad"
		want := -1
		if len(b) >= 8 {
			want = 8 + int(binary.BigEndian.Uint32(b[4:8]))
		}
		switch {
		case want >= 0 && consumed == want && string(b[:4]) == "SBC1":
			cls = fmt.Sprintf("(C15.KOk %d)", len(b)-consumed) // the blob was read completely (its JSON may still be rejected)
		case errors.Is(err, io.EOF) || errors.Is(err, io.ErrUnexpectedEOF):
			cls = "C15.KShort"
		}
		// the JSON parser's own allocations are not part of the model: compare the class only when the blob is short
		bucket := c15Bucket(len(b), alloc)
		if strings.HasPrefix(cls, "(C15.KOk") && bucket != "(Some false)" {
			bucket = "None"
		}
		cf.Add(fmt.Sprintf("C15.DH %d %s %s %s", n, hx.Bytes(b), cls, bucket))
		rep.Nontrivial("h" + string(b))
	}
	for i := 0; i < 25*scale; i++ {
		items := c15GenItems(rng, rng.Intn(4))
		h := c15Header(items)
		headerCase(h, "valid")
		headerCase(h[:rng.Intn(len(h))], "truncated")
		hb := append([]byte{}, h...)
		hb[rng.Intn(len(hb))] ^= 1 << rng.Intn(8)
		if binary.BigEndian.Uint32(hb[4:8]) < 64<<20 {
			headerCase(hb, "bitflip")
		}
		headerCase(c15SetField(h, c15LenField{4, 4, ""}, uint64(8<<20+rng.Intn(40<<20))), "len-inflated:header.json")
		headerCase(c15SetField(h[:8+rng.Intn(len(h)-7)], c15LenField{4, 4, ""}, uint64(70000+rng.Intn(300000))), "len-random:header.json")
	}
	headerCase([]byte("SBC1\x00\x00\x00\x00"), "empty-json")
	headerCase([]byte("SBX1\x00\x00\x00\x02{}"), "wrong-magic")
	extreme = append(extreme, c15Case{Kind: "hdr-extreme", Tag: "len-max:header.json", Ctl: []byte("SBC1\xff\xff\xff\xff")})
	extreme = append(extreme, c15Case{Kind: "dec-extreme", Tag: "len-max:CreditBatch.count", Ctl: []byte{transfer.VerifTypeCreditBatch, 0xff, 0xff, 0xff, 0xff}})
	extreme = append(extreme, c15Case{Kind: "dec-extreme", Tag: "len-max:FileResumeInfo.bitmap", Ctl: append([]byte{transfer.VerifTypeFileResumeInfo, 0, 0}, append(make([]byte, 12), 0xff, 0xff, 0xff, 0xff)...)})

	// ===== 2. endpoint level =====
	var eps []c15Case
	add := func(c c15Case) int {
		c.ID = next()
		if !c.DeltaSet {
			c.Delta = c.ID%2 == 1
		}
		eps = append(eps, c)
		return c.ID
	}
	// --- receiver, control stream only (strict: compared with recv_ctl_run)
	ctlVariants := func(items []c15Item, resume bool) [][]c15Rec {
		var out [][]c15Rec
		ds := c15Rec{"DataStreams", c15Enc(transfer.DataStreams{Count: uint16(1 + rng.Intn(3))})}
		begin := func(it c15Item, mod func(*transfer.FileBegin)) c15Rec {
			fb := transfer.FileBegin{RelPath: it.Path, FileSize: uint64(it.Size), ChunkSize: uint32(rng.Pick(1, 4, 8, 64, 4096)), StreamID: c15Key(it), HashAlg: 1}
			if mod != nil {
				mod(&fb)
			}
			return c15Rec{"FileBegin", c15Enc(fb)}
		}
		end := func(k uint64) c15Rec { return c15Rec{"FileEnd", c15Enc(transfer.FileEnd{StreamID: k})} }
		fin := c15Rec{"End", c15Enc(nil)}
		var all []c15Rec
		for _, it := range items {
			all = append(all, begin(it, nil))
		}
		// honest prefix, then one deviation
		dev := []func() []c15Rec{
			func() []c15Rec { return []c15Rec{fin} },
			func() []c15Rec { return nil },
			func() []c15Rec { return []c15Rec{begin(items[0], nil)} }, // duplicate begin
			func() []c15Rec { return []c15Rec{begin(items[0], func(f *transfer.FileBegin) { f.ChunkSize = 0 })} },
			func() []c15Rec { return []c15Rec{{"Credit", c15Enc(transfer.Credit{StreamID: 1, Credits: 2})}} },
			func() []c15Rec {
				return []c15Rec{{"CreditBatch", c15Enc(transfer.CreditBatch{Entries: []transfer.Credit{{StreamID: 1, Credits: 1}}})}}
			},
			func() []c15Rec {
				return []c15Rec{{"FileDone", c15Enc(transfer.FileDone{StreamID: c15Key(items[0]), OK: true})}}
			},
			func() []c15Rec { return []c15Rec{{"DataStreams", c15Enc(transfer.DataStreams{Count: 2})}} },
			func() []c15Rec { return []c15Rec{end(c15Key(items[0]))} },
			func() []c15Rec { return []c15Rec{end(12345)} },
			func() []c15Rec {
				return []c15Rec{{"ResumeRequest", c15Enc(transfer.ResumeRequest{FileID: items[0].ID, StreamID: c15Key(items[0])})}}
			},
			func() []c15Rec {
				return []c15Rec{{"ResumeRequest", c15Enc(transfer.ResumeRequest{FileID: "nope", StreamID: c15Key(items[0])})}}
			},
			func() []c15Rec {
				return []c15Rec{{"ResumeRequest", c15Enc(transfer.ResumeRequest{FileID: "x", StreamID: 777})}}
			},
			func() []c15Rec { return []c15Rec{{"Garbage", []byte{byte(0x20 + rng.Intn(100)), 1, 2, 3}}} },
			func() []c15Rec { return []c15Rec{{"Trunc", c15Enc(transfer.FileEnd{StreamID: 5})[:1+rng.Intn(11)]}} },
		}
		for _, d := range dev {
			seq := append([]c15Rec{ds}, all...)
			// end every file that can be ended (empty files complete on FileEnd)
			if rng.Bool() {
				for _, it := range items {
					seq = append(seq, end(c15Key(it)))
				}
			}
			seq = append(seq, d()...)
			if rng.Intn(6) == 0 {
				seq = append(seq, fin)
			}
			out = append(out, seq)
		}
		// deviations inside FileBegin itself
		mods := []func(*transfer.FileBegin){
			func(f *transfer.FileBegin) { f.RelPath = "../" + f.RelPath },
			func(f *transfer.FileBegin) { f.RelPath = "/abs" },
			func(f *transfer.FileBegin) { f.RelPath = "unknown" },
			func(f *transfer.FileBegin) { f.FileSize++ },
			func(f *transfer.FileBegin) { f.StreamID ^= 1 },
			func(f *transfer.FileBegin) { f.StreamID = 0 },
			func(f *transfer.FileBegin) { f.ChunkSize = 0 },
			func(f *transfer.FileBegin) { f.ChunkSize = transfer.VerifMaxChunkSize },
			func(f *transfer.FileBegin) { f.ChunkSize = transfer.VerifMaxChunkSize + 1 },
			func(f *transfer.FileBegin) { f.ChunkSize = 0xffffffff },
			func(f *transfer.FileBegin) { f.RelPath = strings.Repeat("p", 1025) },
		}
		for mi, m := range mods {
			seq := []c15Rec{ds, begin(items[0], m)}
			if mi != 5 && mi != 7 {
				seq[1].kind = "FileBegin!" + []string{"path-dotdot", "path-absolute", "path-not-in-manifest", "size-mismatch", "key-mismatch", "", "chunk-size-zero", "", "chunk-size-above-limit", "chunk-size-max32", "path-too-long"}[mi]
			}
			for _, it := range items[1:] {
				seq = append(seq, begin(it, nil))
			}
			for _, it := range items {
				seq = append(seq, end(c15Key(it)))
			}
			seq = append(seq, fin)
			out = append(out, seq)
		}
		// records before DataStreams, DataStreams{0}, nothing at all
		out = append(out, append(append([]c15Rec{}, all...), ds, fin))
		out = append(out, []c15Rec{{"DataStreams", c15Enc(transfer.DataStreams{Count: 0})}, ds, fin})
		out = append(out, []c15Rec{fin})
		out = append(out, []c15Rec{})
		out = append(out, append([]c15Rec{begin(items[0], func(f *transfer.FileBegin) { f.RelPath = "unknown" })}, ds))
		return out
	}
	nTables := 3 * scale
	for t := 0; t < nTables; t++ {
		items := c15GenItems(rng, 1+rng.Intn(3))
		if t == 0 {
			items = []c15Item{{Path: "empty", Size: 0, ID: "00000000000000aa"}}
		}
		resume := t%2 == 0
		for _, seq := range ctlVariants(items, resume) {
			must := ""
			for _, r := range seq {
				if strings.HasPrefix(r.kind, "FileBegin!") {
					must = strings.TrimPrefix(r.kind, "FileBegin!")
				}
			}
			add(c15Case{Kind: "recv-ctl", Tag: "ctl-script", Resume: resume, Items: items, Header: c15Header(items), Ctl: c15Cat(seq), MustErr: must})
		}
	}
	// --- receiver, one data stream against a valid control prefix (strict: data_run)
	for t := 0; t < 8*scale; t++ {
		items := c15GenItems(rng, 1+rng.Intn(2))
		resume := t%2 == 1
		cs := uint32(rng.Pick(4, 8, 16))
		hctl, hdata := c15Honest(items, cs, 1, false)
		var prefix []c15Rec
		for _, r := range hctl {
			if r.kind == "DataStreams" || r.kind == "FileBegin" {
				prefix = append(prefix, r)
			}
		}
		frames := hdata[0]
		key0 := c15Key(items[0])
		scripts := [][]c15Rec{frames}
		mut := func(f func([]c15Rec) []c15Rec) { scripts = append(scripts, f(append([]c15Rec{}, frames...))) }
		ins := func(r c15Rec) func([]c15Rec) []c15Rec {
			return func(fr []c15Rec) []c15Rec {
				p := rng.Intn(len(fr) + 1)
				return append(append(append([]c15Rec{}, fr[:p]...), r), fr[p:]...)
			}
		}
		mut(ins(c15Rec{"Frame", c15Frame(key0, 1000, 3, 0, []byte{1, 2, 3})}))    // index out of range (or empty file)
		mut(ins(c15Rec{"Frame", c15Frame(key0, 0, 0, 0, nil)}))                   // length 0
		mut(ins(c15Rec{"Frame", c15Frame(key0, 0, cs+1, 0, make([]byte, cs+1))})) // length > chunk size
		mut(ins(c15Rec{"Frame", c15Frame(key0, 0, 2, 12345, []byte{9, 9})}))      // wrong CRC
		mut(ins(c15Rec{"Frame", c15GoodFrame(0xdeadbeef, 0, []byte{1})}))         // unknown file key
		mut(ins(c15Rec{"Frame", c15Frame(key0, 0, 0xffffffff, 0, []byte{1, 2})})) // absurd length
		mut(func(fr []c15Rec) []c15Rec { return append(fr, fr...) })              // everything twice (late duplicates)
		mut(func(fr []c15Rec) []c15Rec { return append(fr, c15Rec{"Garbage", rng.Bytes(1 + rng.Intn(30))}) })
		mut(func(fr []c15Rec) []c15Rec { // truncated inside the last frame
			if len(fr) == 0 {
				return fr
			}
			l := fr[len(fr)-1]
			fr[len(fr)-1] = c15Rec{"Trunc", l.b[:rng.Intn(len(l.b))]}
			return fr
		})
		mut(func(fr []c15Rec) []c15Rec { return nil })
		for _, s := range scripts {
			add(c15Case{Kind: "recv-data", Tag: "data-script", Resume: resume, Items: items, Header: c15Header(items), Ctl: c15Cat(prefix), Data: [][]byte{c15Cat(s)}})
		}
		// the data stream ends at every kind of position inside a frame (inside the
		// header, right after it, inside the payload, one byte short), the control
		// stream staying open - with and without the byte-progress callback
		if len(frames) > 0 {
			cut := rng.Intn(len(frames))
			l := frames[cut].b
			var cuts []int
			for _, at := range []int{1, 19, 20, 21, 20 + (len(l)-20)/2, len(l) - 1} {
				if at > 0 && at < len(l) {
					cuts = append(cuts, at)
				}
			}
			for _, at := range cuts {
				s := append(append([]c15Rec{}, frames[:cut]...), c15Rec{"Trunc", l[:at]})
				for _, delta := range []bool{false, true} {
					add(c15Case{Kind: "recv-data", Tag: "data-script", Resume: resume, Delta: delta, DeltaSet: true, MidFrame: at >= 20, Items: items, Header: c15Header(items), Ctl: c15Cat(prefix), Data: [][]byte{c15Cat(s)}})
				}
			}
		}
		// the stated guards of the data-stream reader, hit by the first frame of the stream
		if items[0].Size > 0 {
			total := uint32((items[0].Size + int64(cs) - 1) / int64(cs))
			for _, g := range []struct {
				name string
				b    []byte
			}{
				{"chunk-index-out-of-range", c15GoodFrame(key0, total, []byte{1})},
				{"chunk-index-out-of-range", c15GoodFrame(key0, total+uint32(rng.Intn(1000)), []byte{1, 2})},
				{"chunk-length-zero", c15Frame(key0, 0, 0, 0, nil)},
				{"chunk-length-above-chunk-size", c15GoodFrame(key0, 0, make([]byte, cs+1))},
				{"chunk-crc-mismatch", c15Frame(key0, 0, 1, 7, []byte{1})},
			} {
				add(c15Case{Kind: "recv-data", Tag: "data-script", Resume: resume, Items: items, Header: c15Header(items), Ctl: c15Cat(prefix),
					Data: [][]byte{append(append([]byte{}, g.b...), c15Cat(frames)...)}, MustErr: g.name})
			}
		}
	}
	// --- receiver, mutated whole transcripts (oracle only)
	mutate := func(b []byte, bounds []int) ([]byte, string) {
		if len(b) == 0 {
			return rng.Bytes(1 + rng.Intn(20)), "random"
		}
		switch rng.Intn(6) {
		case 0:
			o := append([]byte{}, b...)
			o[rng.Intn(len(o))] ^= 1 << rng.Intn(8)
			return o, "bitflip"
		case 1:
			cut := bounds[rng.Intn(len(bounds))] + rng.Pick(-1, 0, 1)
			if cut < 0 {
				cut = 0
			}
			if cut > len(b) {
				cut = len(b)
			}
			return append([]byte{}, b[:cut]...), "truncated"
		case 2:
			o := append([]byte{}, b...)
			o[bounds[rng.Intn(len(bounds))]%len(o)] = byte(rng.U64())
			return o, "type-code"
		case 3:
			o := append([]byte{}, b...)
			p := rng.Intn(len(o))
			for k := 0; k < 4 && p+k < len(o); k++ {
				o[p+k] = 0xff
			}
			return o, "ff-run"
		case 4:
			p := rng.Intn(len(b) + 1)
			return append(append(append([]byte{}, b[:p]...), rng.Bytes(1+rng.Intn(16))...), b[p:]...), "insert"
		}
		return rng.Bytes(1 + rng.Intn(2*len(b))), "random"
	}
	boundsOf := func(recs []c15Rec) []int {
		bs := []int{0}
		n := 0
		for _, r := range recs {
			n += len(r.b)
			bs = append(bs, n)
		}
		return bs
	}
	for t := 0; t < 160*scale; t++ {
		items := c15GenItems(rng, 1+rng.Intn(3))
		k := 1 + rng.Intn(3)
		resume := rng.Bool()
		hctl, hdata := c15Honest(items, uint32(rng.Pick(4, 8, 16)), k, resume)
		c := c15Case{Kind: "recv-fuzz", Resume: resume, Items: items, Header: c15Header(items), Ctl: c15Cat(hctl)}
		for _, d := range hdata {
			c.Data = append(c.Data, c15Cat(d))
		}
		switch which := rng.Intn(10); {
		case t%40 == 0:
			c.Tag = "honest"
		case which < 4:
			c.Ctl, c.Tag = mutate(c.Ctl, boundsOf(hctl))
			c.Tag = "ctl:" + c.Tag
		case which < 8:
			s := rng.Intn(k)
			c.Data[s], c.Tag = mutate(c.Data[s], boundsOf(hdata[s]))
			c.Tag = "data:" + c.Tag
			if rng.Intn(4) != 0 {
				// mostly without the final End: a damaged data stream followed by End is the
				// known End-before-completion class and only costs watchdog time
				c.Ctl = c15Cat(hctl[:len(hctl)-1])
			}
		default:
			c.Header, c.Tag = mutate(c.Header, []int{0, 4, 8, len(c.Header)})
			if len(c.Header) >= 8 && binary.BigEndian.Uint32(c.Header[4:8]) > 64<<20 {
				c.Mem = true // runs alone, measured
			}
			c.Tag = "header:" + c.Tag
		}
		add(c)
	}
	// --- complete transfers with inconsistent counts: more data streams announced than are ever
	// opened (everything else honest, every frame delivered, End sent, all streams closed)
	for t := 0; t < 6*scale; t++ {
		items := c15GenItems(rng, 1+rng.Intn(3))
		k := 1 + rng.Intn(2)
		resume := rng.Bool()
		hctl, hdata := c15Honest(items, uint32(rng.Pick(4, 8, 16)), k, resume)
		hctl[0] = c15Rec{"DataStreams", c15Enc(transfer.DataStreams{Count: uint16(k + 1 + rng.Intn(3))})}
		c := c15Case{Kind: "recv-fuzz", Tag: "complete:streams-over-announced", Complete: true, Resume: resume, Items: items, Header: c15Header(items), Ctl: c15Cat(hctl)}
		for _, d := range hdata {
			c.Data = append(c.Data, c15Cat(d))
		}
		add(c)
	}
	// --- corpus: replays of defects that were repaired in the repository
	{
		it := []c15Item{{Path: "f", Size: 9, ID: "00000000000000f1"}}
		key := c15Key(it[0])
		ds := c15Enc(transfer.DataStreams{Count: 1})
		// FileBegin{ChunkSize=0} then one chunk header: used to panic in bufpool.New(0)
		add(c15Case{Kind: "recv-fuzz", Tag: "corpus:chunk-size-zero", Items: it, Header: c15Header(it), Mem: true,
			Ctl:  append(append([]byte{}, ds...), c15Enc(transfer.FileBegin{RelPath: "f", FileSize: 9, ChunkSize: 0, StreamID: key, HashAlg: 1})...),
			Data: [][]byte{c15GoodFrame(key, 0, []byte{1, 2, 3})}})
		// FileBegin{ChunkSize=4 GiB-1} then a 20-byte header: used to allocate 4 GiB
		add(c15Case{Kind: "recv-fuzz", Tag: "corpus:chunk-size-max", Items: it, Header: c15Header(it), Mem: true,
			Ctl:  append(append([]byte{}, ds...), c15Enc(transfer.FileBegin{RelPath: "f", FileSize: 9, ChunkSize: 0xffffffff, StreamID: key, HashAlg: 1})...),
			Data: [][]byte{c15Frame(key, 0, 3, 0, nil)}})
		// the largest accepted chunk size: one pool buffer, allowed
		add(c15Case{Kind: "recv-fuzz", Tag: "corpus:chunk-size-limit", Items: it, Header: c15Header(it), Mem: true,
			Ctl:  append(append([]byte{}, ds...), c15Enc(transfer.FileBegin{RelPath: "f", FileSize: 9, ChunkSize: transfer.VerifMaxChunkSize, StreamID: key, HashAlg: 1})...),
			Data: [][]byte{c15Frame(key, 0, 3, 0, nil)}})
		// "SBC1 ff ff ff ff": used to allocate 4 GiB before any JSON byte arrived
		add(c15Case{Kind: "recv-fuzz", Tag: "corpus:header-json-max", Items: it, Header: []byte("SBC1\xff\xff\xff\xff"), Mem: true})
		// a well-formed header whose summary numbers lie: counts, totals and sizes the peer
		// merely CLAIMS must not size anything (the stream ends right after the header)
		for _, lie := range []func(m *manifest.Manifest){
			func(m *manifest.Manifest) { m.FileCount = 2_000_000 },
			func(m *manifest.Manifest) { m.FileCount = 1 << 40 },
			func(m *manifest.Manifest) { m.FolderCount = 3_000_000 },
			func(m *manifest.Manifest) { m.TotalBytes = 1 << 55 },
			func(m *manifest.Manifest) { m.FileCount, m.Items = 5_000_000, nil },
			func(m *manifest.Manifest) { m.Items[0].Size = 1 << 60 },
			func(m *manifest.Manifest) { m.FileCount = -7 },
		} {
			m := c15Manifest(it)
			lie(&m)
			hdr, err := transfer.VerifWriteControlHeader(m)
			if err != nil {
				continue
			}
			add(c15Case{Kind: "recv-fuzz", Tag: "header-summary-lies", Items: it, Header: append([]byte{}, hdr...), Mem: true})
			add(c15Case{Kind: "recv-fuzz", Tag: "header-summary-lies", Items: it, Header: append([]byte{}, hdr...), Mem: true, Ctl: append([]byte{}, ds...)})
		}
		// ResumeRequest for a key that was never announced: used to park the main loop forever
		add(c15Case{Kind: "recv-fuzz", Tag: "corpus:resume-request-unknown", Items: it, Header: c15Header(it),
			Ctl: append(append([]byte{}, ds...), c15Enc(transfer.ResumeRequest{FileID: "x", StreamID: 4242})...)})
		// open finding: End before the files completed, then every stream ends
		add(c15Case{Kind: "recv-fuzz", Tag: "corpus:end-before-completion", Items: it, Header: c15Header(it),
			Ctl: append(append([]byte{}, ds...), c15Enc(nil)...), Data: [][]byte{nil}})
	}
	// --- sender: acknowledgement stream scripts
	srcRoot := filepath.Join(cfg.out, "c15src")
	mkSrc := func(items []c15Item, tag int) (string, manifest.Manifest, []uint64) {
		dir := filepath.Join(srcRoot, fmt.Sprint(tag))
		for _, it := range items {
			p := filepath.Join(dir, filepath.FromSlash(it.Path))
			os.MkdirAll(filepath.Dir(p), 0755)
			os.WriteFile(p, c15Payload(it, 0, it.Size), 0644)
		}
		m, err := manifest.Scan(dir)
		if err != nil {
			panic(err)
		}
		var keys []uint64
		for _, fi := range m.Items {
			if !fi.IsDir {
				keys = append(keys, transfer.VerifFileKey(fi))
			}
		}
		return dir, m, keys
	}
	for t := 0; t < 6*scale; t++ {
		items := c15GenItems(rng, 1+rng.Intn(2))
		dir, m, keys := mkSrc(items, t)
		mj, _ := json.Marshal(m)
		done := func(k uint64, ok bool) c15Rec {
			msg := ""
			if !ok && rng.Bool() {
				msg = "disk full"
			}
			return c15Rec{"FileDone", c15Enc(transfer.FileDone{StreamID: k, OK: ok, ErrMsg: msg})}
		}
		var allOk []c15Rec
		for _, k := range keys {
			allOk = append(allOk, done(k, true))
		}
		scripts := [][]c15Rec{
			allOk,
			nil,
			allOk[:len(allOk)-1],
			append(append([]c15Rec{}, allOk[:len(allOk)-1]...), done(keys[len(keys)-1], false)),
			append([]c15Rec{done(999, true)}, allOk...),
			append(append([]c15Rec{}, allOk...), c15Rec{"Garbage", []byte{0x42, 1, 2}}),
			{{"Garbage", []byte{0x77}}},
			{{"End", c15Enc(nil)}},
			{{"FileBegin", c15Enc(transfer.FileBegin{RelPath: "q", FileSize: 1, ChunkSize: 1})}},
			{{"FileResumeInfo", c15Enc(transfer.FileResumeInfo{FileID: "zz", StreamID: keys[0], TotalChunks: 3, Bitmap: []byte{7}})}, done(keys[0], false)},
			{{"Trunc", done(keys[0], true).b[:5]}},
			{{"CreditBatch", c15Enc(transfer.CreditBatch{Entries: []transfer.Credit{{StreamID: 1, Credits: 1}}})}},
		}
		for _, s := range scripts {
			add(c15Case{Kind: "send-ack", Tag: "ack-script", Items: items, SrcDir: dir, Manifest: mj, Ctl: c15Cat(s), Streams: 1 + rng.Intn(2), Data: [][]byte{c15KeysBytes(keys)}})
		}
		// oracle only: with resume on, mutated honest acknowledgements
		for k := 0; k < 5; k++ {
			var recs []c15Rec
			for i, fi := range m.Items {
				_ = i
				if fi.IsDir {
					continue
				}
				key := transfer.VerifFileKey(fi)
				total := uint32((fi.Size + 7) / 8)
				recs = append(recs, c15Rec{"FileResumeInfo", c15Enc(transfer.FileResumeInfo{FileID: fi.ID, StreamID: key, TotalChunks: total, Bitmap: make([]byte, (total+7)/8), LastVerifiedChunk: total})})
				recs = append(recs, done(key, true))
			}
			b, tag := mutate(c15Cat(recs), boundsOf(recs))
			if k == 0 {
				b, tag = c15Cat(recs), "honest"
			}
			add(c15Case{Kind: "send-fuzz", Tag: "ack:" + tag, Resume: true, Items: items, SrcDir: dir, Manifest: mj, Ctl: b, Streams: 1 + rng.Intn(3)})
		}
	}
	// --- sender: acknowledgement soups (oracle only): well-formed records in any order and
	// multiplicity - repeated and stray FileDone / FileResumeInfo / credits - then the stream ends
	for t := 0; t < 20*scale; t++ {
		items := c15GenItems(rng, 1+rng.Intn(3))
		dir, m, keys := mkSrc(items, 1000+t)
		mj, _ := json.Marshal(m)
		pool := append([]uint64{}, keys...)
		pool = append(pool, 999, 0, keys[0]+1)
		var recs []c15Rec
		for n := 1 + rng.Intn(8); n > 0; n-- {
			k := pool[rng.Intn(len(pool))]
			reps := 1
			if rng.Intn(3) == 0 {
				reps = 2 + rng.Intn(3)
			}
			for ; reps > 0; reps-- {
				switch rng.Intn(5) {
				case 0, 1, 2:
					recs = append(recs, c15Rec{"FileDone", c15Enc(transfer.FileDone{StreamID: k, OK: rng.Intn(4) != 0})})
				case 3:
					recs = append(recs, c15Rec{"FileResumeInfo", c15Enc(transfer.FileResumeInfo{FileID: "zz", StreamID: k, TotalChunks: 1, Bitmap: []byte{0}})})
				default:
					recs = append(recs, c15Rec{"CreditBatch", c15Enc(transfer.CreditBatch{Entries: []transfer.Credit{{StreamID: k, Credits: 1}}})})
				}
			}
		}
		add(c15Case{Kind: "send-fuzz", Tag: "ack-soup", Resume: rng.Bool(), Items: items, SrcDir: dir, Manifest: mj, Ctl: c15Cat(recs), Streams: 1 + rng.Intn(3)})
	}
	// --- legacy stream decoders (oracle only)
	legacyFile := func(name string, data []byte) []byte {
		var bb bytes.Buffer
		bb.WriteString("SBX1")
		binary.Write(&bb, binary.BigEndian, uint16(len(name)))
		bb.WriteString(name)
		binary.Write(&bb, binary.BigEndian, uint64(len(data)))
		bb.Write(data)
		binary.Write(&bb, binary.BigEndian, crc32.ChecksumIEEE(data))
		return bb.Bytes()
	}
	dumb := func(name string, n int) []byte {
		var bb bytes.Buffer
		binary.Write(&bb, binary.BigEndian, uint16(len(name)))
		bb.WriteString(name)
		binary.Write(&bb, binary.BigEndian, uint64(n))
		bb.Write(make([]byte, n))
		return bb.Bytes()
	}
	legacyManifest := func(items []c15Item, cs uint32) []byte {
		var bb bytes.Buffer
		mj, _ := json.Marshal(c15Manifest(items))
		bb.WriteString("SBM1")
		binary.Write(&bb, binary.BigEndian, uint32(len(mj)))
		bb.Write(mj)
		for _, it := range items {
			bb.WriteByte(2)
			binary.Write(&bb, binary.BigEndian, uint16(len(it.Path)))
			bb.WriteString(it.Path)
			binary.Write(&bb, binary.BigEndian, uint64(it.Size))
			binary.Write(&bb, binary.BigEndian, cs)
			for off, idx := int64(0), uint32(0); off < it.Size; off, idx = off+int64(cs), idx+1 {
				l := int64(cs)
				if it.Size-off < l {
					l = it.Size - off
				}
				p := c15Payload(it, off, l)
				binary.Write(&bb, binary.BigEndian, idx)
				binary.Write(&bb, binary.BigEndian, uint32(l))
				binary.Write(&bb, binary.BigEndian, crc32.Checksum(p, c15crcTable))
				bb.Write(p)
			}
			bb.WriteString("EOF1")
		}
		bb.WriteByte(0xff)
		return bb.Bytes()
	}
	for t := 0; t < 12*scale; t++ {
		lf := legacyFile("n.bin", rng.Bytes(rng.Intn(300)))
		dm := dumb("bench", rng.Intn(3000))
		lm := legacyManifest(c15GenItems(rng, 1+rng.Intn(2)), uint32(rng.Pick(4, 8, 64)))
		for _, x := range []struct {
			kind string
			b    []byte
		}{{"legacy-file", lf}, {"dumb", dm}, {"legacy-manifest", lm}} {
			b, tag := x.b, "honest"
			if t > 0 {
				b, tag = mutate(x.b, []int{0, 4, 6, 8, len(x.b) / 2, len(x.b)})
			}
			if x.kind == "legacy-manifest" && len(b) >= 8 && binary.BigEndian.Uint32(b[4:8]) > 1<<30 && string(b[:4]) == "SBM1" {
				tag = "len-max:legacy.json"
			}
			if x.kind == "legacy-manifest" && c15LegacyChunkSize(b) > 1<<20 {
				tag = "chunk-size"
			}
			add(c15Case{Kind: x.kind, Tag: tag, Ctl: b})
		}
	}
	{
		// open finding (legacy, test-only API): the windowed receiver sizes its pool buffers by the chunk size of the file record
		its := []c15Item{{Path: "f", Size: 9}}
		lm := legacyManifest(its, 48<<20)
		add(c15Case{Kind: "legacy-manifest", Tag: "chunk-size", Ctl: lm})
	}
	add(c15Case{Kind: "legacy-manifest", Tag: "len-max:legacy.json", Ctl: []byte("SBM1\xff\xff\xff\xff")})
	for _, e := range extreme {
		add(e)
	}
	// --- sender: resume reports whose fields are each plausible but do not fit together (oracle
	// only; generated LAST so that every script above stays what it was): a file of 13-38 chunks;
	// bitmap shorter / longer than the chunk count needs, chunk count off by one, verification
	// chunk at or beyond the end.  (The scripted peer closes its streams right after the last
	// record, so whether the sender gets far enough to use a bad report before it fails on the
	// ended control stream is a race: a change that mishandles such a report is reported on
	// some runs only.)
	for t := 0; t < 6*scale; t++ {
		items := []c15Item{{Path: "big.bin", Size: int64(100 + rng.Intn(200)), ID: fmt.Sprintf("%016x", rng.U64())}}
		dir, m, keys := mkSrc(items, 2000+t)
		mj, _ := json.Marshal(m)
		var fi manifest.FileItem
		for _, it := range m.Items {
			if !it.IsDir {
				fi = it
			}
		}
		total := uint32((fi.Size + 7) / 8)
		need := int((total + 7) / 8)
		for _, v := range []struct {
			db   int
			dt   int
			last uint32
		}{{-1, 0, 0}, {-need + 1, 0, total - 1}, {-need + 1, 0, 0}, {1, 0, 0}, {0, 1, total}, {0, -1, 0}, {0, 0, total + 5}, {0, 0, 0xffffffff}, {-1, -8, 1}, {0, 0, total - 1}} {
			if need+v.db < 0 {
				continue
			}
			bm := make([]byte, need+v.db)
			for i := range bm {
				bm[i] = byte(rng.Intn(256))
			}
			if len(bm) == need && total%8 != 0 {
				bm[need-1] &= byte(1<<(total%8) - 1) // no bit beyond the chunk count
			}
			recs := []c15Rec{
				{"FileResumeInfo", c15Enc(transfer.FileResumeInfo{FileID: fi.ID, StreamID: keys[0], TotalChunks: uint32(int(total) + v.dt), Bitmap: bm, LastVerifiedChunk: v.last})},
				{"FileDone", c15Enc(transfer.FileDone{StreamID: keys[0], OK: true})},
			}
			add(c15Case{Kind: "send-fuzz", Tag: "ack:resume-report-inconsistent", Resume: true, Items: items, SrcDir: dir, Manifest: mj, Ctl: c15Cat(recs), Streams: 1 + rng.Intn(3)})
		}
	}

	// ---- run them ----
	results, crashes := c15Children(cfg, eps)
	w := c15Watchdog(cfg.tier)
	for _, c := range eps {
		rep.Evaluations++
		rep.Count(c.Kind + ":" + strings.SplitN(c.Tag, ":", 2)[0])
		replay := map[string]any{"kind": c.Kind, "tag": c.Tag, "resume": c.Resume, "items": c.Items,
			"header_hex": fmt.Sprintf("%x", c15TruncB(c.Header, 300)), "control_hex": fmt.Sprintf("%x", c15TruncB(c.Ctl, 600)), "seed": cfg.seed, "case": c.ID}
		var dh []string
		for _, d := range c.Data {
			dh = append(dh, fmt.Sprintf("%x", c15TruncB(d, 300)))
		}
		replay["data_hex"] = dh
		rep.CaseIndex[fmt.Sprint(c.ID)] = replay
		side := "recv"
		if strings.HasPrefix(c.Kind, "send") {
			side = "send"
		} else if !strings.HasPrefix(c.Kind, "recv") {
			side = c.Kind
		}
		tagClass := strings.TrimPrefix(c.Tag, "corpus:")
		if text, crashed := crashes[c.ID]; crashed {
			rep.Violate(c15PanicSig(side, text)+":"+tagClass, fmt.Sprintf("%s endpoint process died on a %s script: %s", side, c.Tag, text), replay)
			if c.Kind == "recv-ctl" || c.Kind == "recv-data" {
				c15EmitStrict(cf, c, c15Result{Out: c15OutPanic})
			}
			continue
		}
		r, ok := results[c.ID]
		if !ok {
			rep.Notes = append(rep.Notes, fmt.Sprintf("case %d (%s %s) produced no result", c.ID, c.Kind, c.Tag))
			continue
		}
		rep.TracesValidated++
		if len(c.Ctl)+len(c.Header) > 1 && c.Tag != "honest" {
			rep.Nontrivial(c.Kind + string(c.Header) + string(c.Ctl) + fmt.Sprint(c.Data))
		}
		switch r.Out {
		case c15OutPanic:
			rep.Violate(c15PanicSig(side, r.Panic)+":"+tagClass, fmt.Sprintf("%s endpoint panicked on a %s script: %s", side, c.Tag, r.Panic), replay)
		case c15OutHang:
			sig := "hang:" + side + ":" + tagClass
			if side == "recv" && c15HasEnd(c.Ctl) && !c.Complete {
				sig = "hang:recv:end-before-completion"
			}
			rep.Violate(sig, fmt.Sprintf("%s endpoint did not return within %s after every stream had ended (%s script)", side, w, c.Tag), replay)
		}
		if c.MidFrame && r.Out != c15OutPanic && r.Out != c15OutHang && r.Phase != 0 {
			rep.Violate("hang:recv:data-stream-ended-mid-frame", fmt.Sprintf("a data stream ended inside a frame (byte-progress callback: %v) but the receiver kept waiting until the control stream ended too (returned only in phase %d)", c.Delta, r.Phase), replay)
		}
		if c.MustErr != "" && r.Out == c15OutOk {
			rep.Violate("accepted:"+side+":"+c.MustErr, fmt.Sprintf("%s endpoint returned nil for a script that violates the %s guard", side, c.MustErr), replay)
		}
		if c.Tag == "honest" && r.Out != c15OutOk {
			rep.Violate("honest:"+side, fmt.Sprintf("an unmutated %s transcript is rejected: out=%d %s", c.Kind, r.Out, r.Err), replay)
		}
		measured := c.Mem || !(strings.HasPrefix(c.Kind, "recv") || strings.HasPrefix(c.Kind, "send"))
		if measured && r.Out != c15OutPanic {
			extra := uint64(0)
			if strings.HasPrefix(c.Kind, "recv") {
				extra = uint64(len(c.Data))*c15MaxAcceptedChunk(c.Ctl) + 1<<20 // one pool buffer per data stream + the endpoint's own fixed state
			}
			if c.Kind == "legacy-file" || c.Kind == "legacy-manifest" {
				extra = 1 << 20
			}
			if c.Kind == "dumb" {
				extra = 2 << 20
			}
			if c15AllocViolates(r.Recvd, r.Alloc, extra) {
				rep.Violate("alloc:"+side+":"+tagClass, fmt.Sprintf("%s allocated %d bytes for %d bytes received (%s script)", c.Kind, r.Alloc, r.Recvd, c.Tag), replay)
			}
		}
		if c.Kind == "recv-ctl" || c.Kind == "recv-data" || c.Kind == "send-ack" {
			c15EmitStrict(cf, c, r)
		}
		if c.ID%97 == 0 {
			rep.Sample(map[string]any{"kind": c.Kind, "tag": c.Tag, "out": r.Out, "ms": r.Ms, "control_len": len(c.Ctl)})
		}
	}
	cf.Close()
	return rep
}

// c15MaxAcceptedChunk: the largest chunk size the receiver accepts among the
// FileBegin records of a control script (it sizes the per-stream pool buffer).
func c15MaxAcceptedChunk(b []byte) uint64 {
	var max uint64
	for len(b) > 0 {
		typ, msg, n, err := transfer.VerifDecodeControl(b)
		if err != nil || n == 0 {
			break
		}
		if typ == transfer.VerifTypeFileBegin {
			if fb := msg.(transfer.FileBegin); fb.ChunkSize <= transfer.VerifMaxChunkSize && uint64(fb.ChunkSize) > max {
				max = uint64(fb.ChunkSize)
			}
		}
		if typ == transfer.VerifTypeEnd {
			break
		}
		b = b[n:]
	}
	return max
}

// c15LegacyChunkSize: the chunk size announced by the first file record of a
// legacy manifest stream (0 if the stream does not get that far).
func c15LegacyChunkSize(b []byte) uint32 {
	if len(b) < 8 || string(b[:4]) != "SBM1" {
		return 0
	}
	o := 8 + int(binary.BigEndian.Uint32(b[4:8]))
	for o >= 8 && o+3 <= len(b) && b[o] == 1 { // directory records
		o += 3 + int(binary.BigEndian.Uint16(b[o+1:]))
	}
	if o < 8 || o+3 > len(b) || b[o] != 2 {
		return 0
	}
	o += 3 + int(binary.BigEndian.Uint16(b[o+1:])) + 8
	if o+4 > len(b) {
		return 0
	}
	return binary.BigEndian.Uint32(b[o:])
}

func c15KnownType(t byte) bool {
	switch t {
	case transfer.VerifTypeFileBegin, transfer.VerifTypeCredit, transfer.VerifTypeFileEnd, transfer.VerifTypeFileDone, transfer.VerifTypeFileResumeInfo,
		transfer.VerifTypeResumeRequest, transfer.VerifTypeCreditBatch, transfer.VerifTypeDataStreams, transfer.VerifTypeEnd:
		return true
	}
	return false
}

func c15KeysBytes(keys []uint64) []byte {
	b := make([]byte, 8*len(keys))
	for i, k := range keys {
		binary.BigEndian.PutUint64(b[8*i:], k)
	}
	return b
}

func c15EmitStrict(cf *hx.CasesFile, c c15Case, r c15Result) {
	switch c.Kind {
	case "recv-ctl":
		cf.Add(fmt.Sprintf("C15.RC %d %s %s %s %d", c.ID, hx.B(c.Resume), c15CoqItems(c.Items), hx.Bytes(c.Ctl), r.Out))
	case "recv-data":
		cf.Add(fmt.Sprintf("C15.RD %d %s %s %s %s %d %d", c.ID, hx.B(c.Resume), c15CoqItems(c.Items), hx.Bytes(c.Ctl), hx.Bytes(c.Data[0]), r.Phase, r.Out))
	case "send-ack":
		var ks []string
		for i := 0; i+8 <= len(c.Data[0]); i += 8 {
			ks = append(ks, fmt.Sprint(binary.BigEndian.Uint64(c.Data[0][i:])))
		}
		cf.Add(fmt.Sprintf("C15.AK %d %s %s %d", c.ID, hx.List(ks), hx.Bytes(c.Ctl), r.Out))
	}
}

// c15HasEnd: the control bytes decode, record by record, up to an End record.
func c15HasEnd(b []byte) bool {
	for len(b) > 0 {
		typ, _, n, err := transfer.VerifDecodeControl(b)
		if err != nil || n == 0 {
			return false
		}
		if typ == transfer.VerifTypeEnd {
			return true
		}
		b = b[n:]
	}
	return false
}

func c15TruncB(b []byte, n int) []byte {
	if len(b) > n {
		return b[:n]
	}
	return b
}

func init() {
	runners["C15"] = runC15
	runners["C15child"] = runC15Child
}

package main

import (
	"bytes"
	"fmt"
	"io"
	"os"
	"path/filepath"
	"sort"
	"strings"
	"sync"
	"sync/atomic"
	"time"

	"github.com/sheerbytes/sheerbytes/internal/transfer"
	"github.com/sheerbytes/sheerbytes/internal/verifhook"
	"github.com/sheerbytes/sheerbytes/verifharness/internal/hx"
)

// C05 / C04: crash points.  A real transfer runs with a hook handler that, at
// every hook point of the receiver (chunk written, chunk marked, sidecar tmp
// written, sidecar renamed, finalize), (a) records the event and (b) copies the
// output directory - resume metadata FIRST, data files after - into a snapshot:
// exactly what a SIGKILL at that instant would leave on disk (completed
// syscalls survive a kill; the data files only ever gain correct bytes, so
// copying them after the metadata can only make the snapshot look like a later
// kill instant).  Extra flushes are triggered from the handler at random chunk
// events (the path FlushAllFlushers takes on SIGINT), so flushes race writers.
//
// C05 oracle: every snapshot's loadable sidecars mark only chunks whose bytes in
// the snapshot's data file equal the source.  Torn variants: the .tmp file cut
// at every length must never be loaded in place of the sidecar.
// C04 oracle: fetching the same tree again into a snapshot (a chain of up to 3
// interruptions) succeeds with an identical tree, the receiver advertises
// exactly the chunks its metadata marks, and the sender skips them.

type crashEvent struct {
	name string
	file string
	idx  uint32
	snap int // snapshot number or -1
}

type crashRun struct {
	mu        sync.Mutex
	events    []crashEvent
	snapDirs  []string
	outDir    string
	snapRoot  string
	rng       *hx.Rand
	flushProb int
	maxSnaps  int
	active    bool
	// straggler: one chunk write is held back until a few later chunks of the same run
	// were written and marked (a slow stream) - interrupted runs then have HOLES below
	// the highest completed chunk, as a multi-stream transfer over a real network has
	straggle bool
	victim   uint32
	held     bool
	marks    int64
}

func copyTree(src, dst string, metaFirst bool) error {
	// resume metadata first
	var files []string
	filepath.Walk(src, func(p string, info os.FileInfo, err error) error {
		if err != nil || info.IsDir() {
			return nil
		}
		files = append(files, p)
		return nil
	})
	sort.SliceStable(files, func(i, j int) bool {
		mi := strings.Contains(files[i], ".thruflux_resumedata")
		mj := strings.Contains(files[j], ".thruflux_resumedata")
		if mi != mj {
			return mi == metaFirst
		}
		return files[i] < files[j]
	})
	for _, p := range files {
		rel, _ := filepath.Rel(src, p)
		b, err := os.ReadFile(p)
		if err != nil {
			continue // renamed away meanwhile (the .tmp file)
		}
		q := filepath.Join(dst, rel)
		os.MkdirAll(filepath.Dir(q), 0755)
		if err := os.WriteFile(q, b, 0644); err != nil {
			return err
		}
	}
	// keep empty directories
	filepath.Walk(src, func(p string, info os.FileInfo, err error) error {
		if err == nil && info.IsDir() {
			rel, _ := filepath.Rel(src, p)
			os.MkdirAll(filepath.Join(dst, rel), 0755)
		}
		return nil
	})
	return nil
}

func (cr *crashRun) handler(name string, args ...any) {
	if !strings.HasPrefix(name, "recv.chunk") && !strings.HasPrefix(name, "sidecar.") && name != "recv.finalize" {
		return
	}
	if name == "recv.chunk.marked" {
		atomic.AddInt64(&cr.marks, 1)
	}
	if name == "recv.chunk.before_write" && cr.straggle && len(args) > 1 {
		if idx, ok := args[1].(uint32); ok && idx == cr.victim {
			cr.mu.Lock()
			first := !cr.held && cr.active
			cr.held = true
			cr.mu.Unlock()
			if first {
				start := atomic.LoadInt64(&cr.marks)
				dl := time.Now().Add(60 * time.Millisecond)
				for atomic.LoadInt64(&cr.marks) < start+3 && time.Now().Before(dl) {
					time.Sleep(200 * time.Microsecond)
				}
			}
		}
	}
	cr.mu.Lock()
	if !cr.active {
		cr.mu.Unlock()
		return
	}
	ev := crashEvent{name: name, snap: -1}
	if len(args) > 0 {
		if s, ok := args[0].(string); ok {
			ev.file = s
		}
	}
	if len(args) > 1 {
		if i, ok := args[1].(uint32); ok {
			ev.idx = i
		}
	}
	take := len(cr.snapDirs) < cr.maxSnaps && (strings.HasPrefix(name, "sidecar.") || cr.rng.Intn(3) == 0)
	flush := (name == "recv.chunk.written" || name == "recv.chunk.before_write") && cr.rng.Intn(100) < cr.flushProb
	if name == "recv.chunk.before_write" {
		// a kill right before the write: flush first so that whatever the memory bitmap
		// claims at this instant is what the snapshot's metadata says
		take = take && flush
	}
	var dir string
	if take {
		ev.snap = len(cr.snapDirs)
		dir = filepath.Join(cr.snapRoot, fmt.Sprintf("snap%03d", ev.snap))
		cr.snapDirs = append(cr.snapDirs, dir)
	}
	cr.events = append(cr.events, ev)
	cr.mu.Unlock()
	if flush {
		// not from inside Flush itself (sidecar.* hooks run under the sidecar mutex)
		transfer.FlushAllFlushers()
	}
	if take {
		copyTree(cr.outDir, dir, true)
	}
}

// sidecarClaims loads every sidecar of dir with the real LoadSidecar and returns
// for each the chunks it marks.
type sidecarView struct {
	path      string
	fileID    string
	chunkSize uint32
	fileSize  int64
	total     uint32
	bits      []bool
}

func loadSidecars(dir string) []sidecarView {
	var out []sidecarView
	meta := filepath.Join(dir, ".thruflux_resumedata")
	entries, _ := os.ReadDir(meta)
	for _, e := range entries {
		if !strings.HasSuffix(e.Name(), ".sbxmap") {
			continue
		}
		sc, err := transfer.LoadSidecar(filepath.Join(meta, e.Name()))
		if err != nil {
			continue // unreadable: ignored by the receiver as well
		}
		v := sidecarView{path: e.Name(), fileID: sc.FileID, chunkSize: sc.ChunkSize, fileSize: sc.FileSize, total: sc.TotalChunks}
		for i := uint32(0); i < sc.TotalChunks; i++ {
			v.bits = append(v.bits, sc.IsComplete(i))
		}
		out = append(out, v)
	}
	return out
}

func bitsString(b []bool) string {
	var sb strings.Builder
	for _, x := range b {
		if x {
			sb.WriteByte('1')
		} else {
			sb.WriteByte('0')
		}
	}
	return sb.String()
}

type c05workload struct {
	seed    uint64
	cs      int
	streams int
	files   int
}

func runCrashWorkload(base string, w c05workload, rep *hx.Report, cf *hx.CasesFile, id *int, chain int, prop string) {
	r := hx.NewRand(w.seed)
	tree := genTree(r, w.cs, w.files)
	if len(tree.files) == 0 {
		tree.files = append(tree.files, treeFile{"only.bin", r.Bytes(3*w.cs + 1)})
	}
	dir := filepath.Join(base, fmt.Sprintf("w%d", w.seed))
	src := filepath.Join(dir, "src", "root")
	os.RemoveAll(dir)
	defer os.RemoveAll(dir)
	tree.materialise(src)
	srcDigest, _ := digestTree(src)
	byRel := map[string][]byte{}
	for _, f := range tree.files {
		byRel[f.rel] = f.data
	}
	// item ids: sidecars are named by manifest item id; map id -> rel path via a scan
	res0 := runXferForManifest(src)
	idToRel := map[string]string{}
	for _, it := range res0.Items {
		idToRel[it.ID] = it.RelPath
	}

	type pending struct {
		dir   string
		depth int
		label string
	}
	queue := []pending{{dir: "", depth: 0, label: "fresh"}}
	resumed := 0
	for len(queue) > 0 {
		p := queue[0]
		queue = queue[1:]
		out := filepath.Join(dir, fmt.Sprintf("out_%d_%d", p.depth, resumed))
		resumed++
		os.MkdirAll(out, 0755)
		if p.dir != "" {
			copyTree(p.dir, out, true)
		}
		// what the metadata found on disk claims before this run
		before := loadSidecars(out)
		// now and then the user has tidied up in between: a partly received data file is gone
		// (or cut short) while its metadata is still there. That metadata may not be used.
		tampered := map[string]bool{}
		if p.depth > 0 && r.Intn(5) == 0 {
			for _, sv := range before {
				rel, ok := idToRel[sv.fileID]
				if !ok || tampered[rel] || r.Intn(2) == 0 {
					continue
				}
				fp := filepath.Join(out, filepath.FromSlash(rel))
				if st, err := os.Stat(fp); err == nil {
					if r.Intn(2) == 0 || st.Size() < 2 {
						os.Remove(fp)
					} else {
						os.Truncate(fp, st.Size()/2)
					}
					tampered[rel] = true
					rep.Count("data-file-removed-or-cut-before-resume")
				}
			}
		}
		// the state this run starts from: which metadata files are there (byte for byte) and
		// whether the data file each of them describes is there at its full length
		beforeMeta := map[string][]byte{}
		intact := map[string]bool{}
		for _, sv := range before {
			if b, err := os.ReadFile(filepath.Join(out, ".thruflux_resumedata", sv.path)); err == nil {
				beforeMeta[sv.path] = b
			}
			if rel, ok := idToRel[sv.fileID]; ok {
				if st, err := os.Stat(filepath.Join(out, filepath.FromSlash(rel))); err == nil && st.Size() == sv.fileSize {
					intact[rel] = true
				}
			}
		}
		cr := &crashRun{outDir: out, snapRoot: filepath.Join(dir, fmt.Sprintf("snaps_%d_%d", p.depth, resumed)), rng: r.Fork(uint64(resumed)), flushProb: 35, maxSnaps: 40, active: true}
		if w.streams > 1 && cr.rng.Intn(2) == 0 {
			cr.straggle, cr.victim = true, uint32(cr.rng.Intn(3))
			rep.Count("run-with-straggling-chunk")
		}
		verifhook.Set(cr.handler)
		var recvSkipped, sendSkipped sync.Map
		csRun := w.cs
		if p.depth > 0 && cr.rng.Intn(3) == 0 {
			// the sender picks its chunk size per run: a resumed fetch may come with another one,
			// and metadata recorded for the old geometry must then not be applied
			csRun = []int{w.cs*2 + 1, w.cs + 1, w.cs * 2}[cr.rng.Intn(3)]
			rep.Count("resume-with-other-chunk-size")
		}
		// now and then the interrupted fetch is repeated WITHOUT resume into the directory that still
		// holds the metadata of the earlier attempt: that metadata is not read, but it stays on disk
		// and a kill during this run leaves it there for the next resumed fetch
		noResume := p.depth > 0 && len(before) > 0 && cr.rng.Intn(4) == 0
		if noResume {
			rep.Count("refetch-without-resume-over-old-metadata")
		}
		res := runXfer(src, out, xferCfg{chunkSize: csRun, streams: w.streams, resume: !noResume, timeout: 8 * time.Second,
			recvOpts: func(o *transfer.Options) {
				o.ResumeStatsFn = func(rel string, skipped, total, verified uint32, totalBytes int64, cs uint32) {
					recvSkipped.Store(rel, skipped)
				}
			},
			sendOpts: func(o *transfer.Options) {
				o.ResumeStatsFn = func(rel string, skipped, total, verified uint32, totalBytes int64, cs uint32) {
					sendSkipped.Store(rel, skipped)
				}
			}})
		cr.mu.Lock()
		cr.active = false
		cr.mu.Unlock()
		verifhook.Set(nil)
		rep.Evaluations++
		rep.Count(fmt.Sprintf("run-depth-%d", p.depth))
		// ---- C04: the (possibly resumed) run must succeed with an identical tree ----
		if !res.sendDone || !res.recvDone {
			rep.Violate("resume-hang", fmt.Sprintf("run from %s did not finish (workload %+v)", p.label, w), map[string]any{"workload": fmt.Sprintf("%+v", w), "from": p.label})
		} else if res.sendErr != nil || res.recvErr != nil {
			rep.Violate("resume-failed", fmt.Sprintf("run from %s failed: sender=%v receiver=%v (workload %+v)", p.label, res.sendErr, res.recvErr, w), map[string]any{"workload": fmt.Sprintf("%+v", w), "from": p.label})
		} else {
			od, _ := digestTree(out)
			if d := diffTrees(srcDigest, od); len(d) > 0 {
				rep.Violate("resume-wrong-tree", fmt.Sprintf("run from %s reported success but %v (workload %+v)", p.label, d, w), map[string]any{"workload": fmt.Sprintf("%+v", w), "from": p.label})
			}
		}
		// advertised = what the metadata marked (receiver counts the set bits it loaded)
		for _, sv := range before {
			rel, ok := idToRel[sv.fileID]
			if !ok || tampered[rel] || !intact[rel] {
				continue // metadata of a data file that is gone or cut (also inherited from an earlier kill point) is rightly not used
			}
			want := uint32(0)
			for _, b := range sv.bits {
				if b {
					want++
				}
			}
			if v, ok := recvSkipped.Load(rel); ok && want > 0 && int(sv.chunkSize) != csRun && v.(uint32) > 0 {
				rep.Violate("foreign-geometry-advertised", fmt.Sprintf("%s: metadata recorded for chunk size %d was advertised (%d chunks) to a run with chunk size %d", rel, sv.chunkSize, v.(uint32), csRun), map[string]any{"workload": fmt.Sprintf("%+v", w), "from": p.label})
			}
			if v, ok := recvSkipped.Load(rel); ok && want > 0 && sv.fileSize == int64(len(byRel[rel])) && int(sv.chunkSize) == csRun {
				if v.(uint32) != want {
					rep.Violate("advertised-differs", fmt.Sprintf("%s: metadata marks %d chunks, receiver advertised %d", rel, want, v.(uint32)), map[string]any{"workload": fmt.Sprintf("%+v", w), "from": p.label})
				}
				rep.Count("resume-advertised-checked")
			}
		}
		// ---- C05: every snapshot's metadata is honest ----
		cr.mu.Lock()
		snaps := append([]string{}, cr.snapDirs...)
		events := append([]crashEvent{}, cr.events...)
		cr.mu.Unlock()
		// ---- C04: finished work is not requested again: no chunk the loaded metadata marked
		// (same file, size and geometry) is received and written a second time in a resumed run
		// (these runs use no verification tail, and honest metadata never fails verification)
		if !noResume && res.sendDone && res.recvDone && res.sendErr == nil && res.recvErr == nil {
			for _, sv := range before {
				rel, ok := idToRel[sv.fileID]
				if !ok || tampered[rel] || !intact[rel] || sv.fileSize != int64(len(byRel[rel])) || int(sv.chunkSize) != csRun {
					continue
				}
				again := []uint32{}
				for _, e := range events {
					if e.name == "recv.chunk.written" && e.file == rel && int(e.idx) < len(sv.bits) && sv.bits[e.idx] {
						again = append(again, e.idx)
					}
				}
				rep.Count("resume-resend-checked")
				if len(again) > 0 {
					rep.Violate("recorded-chunks-sent-again", fmt.Sprintf("%s: the metadata found before the run from %s marked %d chunks complete, yet chunks %v were transferred and written again", rel, p.label, len(sv.bits), again),
						map[string]any{"workload": fmt.Sprintf("%+v", w), "from": p.label, "file": rel, "again": again})
				}
			}
		}
		holeResumes := 0
		for si, sd := range snaps {
			rep.Evaluations++
			rep.Count("snapshot")
			snapHasHole := false
			// atomic replacement: whatever is found under a sidecar's FINAL name at any
			// instant is a complete valid version (the previous one or the new one), never
			// a torn or empty file
			if ents, err := os.ReadDir(filepath.Join(sd, ".thruflux_resumedata")); err == nil {
				for _, e := range ents {
					if !strings.HasSuffix(e.Name(), ".sbxmap") {
						continue
					}
					full := filepath.Join(sd, ".thruflux_resumedata", e.Name())
					if _, lerr := transfer.LoadSidecar(full); lerr != nil {
						st, _ := os.Stat(full)
						var size int64 = -1
						if st != nil {
							size = st.Size()
						}
						ev := "?"
						for _, x := range events {
							if x.snap == si {
								ev = x.name
							}
						}
						rep.Violate("metadata-not-atomic", fmt.Sprintf("snapshot %d (taken at %s) of run from %s: %s exists under its final name but is not a valid sidecar (%d bytes: %v) - a kill here loses the previous valid version (workload %+v)", si, ev, p.label, e.Name(), size, lerr, w),
							map[string]any{"workload": fmt.Sprintf("%+v", w), "from": p.label, "snapshot": si, "taken_at": ev, "sidecar": e.Name()})
					}
				}
			}
			for _, sv := range loadSidecars(sd) {
				rel, ok := idToRel[sv.fileID]
				if !ok {
					continue
				}
				srcData := byRel[rel]
				got, _ := os.ReadFile(filepath.Join(sd, filepath.FromSlash(rel)))
				if int64(len(got)) != sv.fileSize {
					// the data file is gone or cut (by the user before this run, or inherited from a kill
					// point of such a run) and the receiver has not reached this file yet: if the metadata
					// file is still, byte for byte, the one found before the run, it is not this receiver's
					// claim (it is discarded when the file begins, or by the next resume: C06). Metadata the
					// receiver has written in this run, and any metadata beside a full-length data file,
					// must be honest.
					if now, err := os.ReadFile(filepath.Join(sd, ".thruflux_resumedata", sv.path)); err == nil && bytes.Equal(now, beforeMeta[sv.path]) && beforeMeta[sv.path] != nil {
						rep.Count("snapshot-with-inherited-stale-metadata")
						continue
					}
				}
				marked := 0
				for i, b := range sv.bits {
					if !b {
						continue
					}
					marked++
					lo := i * int(sv.chunkSize)
					hi := lo + int(sv.chunkSize)
					if hi > len(srcData) {
						hi = len(srcData)
					}
					if lo > len(srcData) || hi > len(got) || !bytes.Equal(got[lo:hi], srcData[lo:hi]) {
						rep.Violate("metadata-claims-unwritten-chunk", fmt.Sprintf("snapshot %d of run from %s: %s chunk %d is marked complete but the file does not hold the source bytes (workload %+v)", si, p.label, rel, i, w),
							map[string]any{"workload": fmt.Sprintf("%+v", w), "from": p.label, "snapshot": si, "file": rel, "chunk": i})
					}
				}
				hole, seenUnset := false, false
				for _, b := range sv.bits {
					if !b {
						seenUnset = true
					} else if seenUnset {
						hole = true
					}
				}
				if hole {
					rep.Count("snapshot-metadata-with-hole")
					snapHasHole = true
				}
				if marked > 0 && marked < len(sv.bits) {
					rep.Nontrivial(fmt.Sprintf("%d/%d/%s/%s", w.seed, si, rel, bitsString(sv.bits)))
				}
			}
			// torn .tmp files are never taken for the sidecar: cut each at every length
			meta := filepath.Join(sd, ".thruflux_resumedata")
			entries, _ := os.ReadDir(meta)
			for _, e := range entries {
				if !strings.HasSuffix(e.Name(), ".tmp") {
					continue
				}
				full, _ := os.ReadFile(filepath.Join(meta, e.Name()))
				rep.Count("tmp-file-in-snapshot")
				for cut := 0; cut < len(full); cut += 1 + len(full)/24 {
					tp := filepath.Join(meta, "torn.sbxmap")
					os.WriteFile(tp, full[:cut], 0644)
					if _, err := transfer.LoadSidecar(tp); err == nil {
						rep.Violate("torn-metadata-accepted", fmt.Sprintf("a %d-byte prefix of a %d-byte sidecar is accepted by LoadSidecar", cut, len(full)), map[string]any{"prefix": cut, "len": len(full)})
					}
					os.Remove(tp)
				}
			}
			// resume from a sample of the kill points, and preferably from those whose
			// metadata has a hole below its highest recorded chunk (chunks completed out of order)
			wantHole := snapHasHole && holeResumes < 2 && len(queue) < 9
			if wantHole {
				holeResumes++
				rep.Count("resume-from-metadata-with-hole")
			}
			if p.depth < chain && ((si%5 == 2 && len(queue) < 6) || wantHole) {
				queue = append(queue, pending{dir: sd, depth: p.depth + 1, label: fmt.Sprintf("%s>kill@%d", p.label, si)})
			}
		}
		// trace for the model: Write / Mark / flush events in the order the hooks fired
		{
			fileIdx := map[string]int{}
			var names []string
			for _, f := range tree.files {
				fileIdx[f.rel] = len(names)
				names = append(names, f.rel)
			}
			var evs []string
			for _, e := range events {
				fi := fileIdx[e.file]
				switch e.name {
				case "recv.chunk.written":
					evs = append(evs, fmt.Sprintf("Crash.Write %d %d", fi, e.idx))
				case "recv.chunk.marked":
					evs = append(evs, fmt.Sprintf("Crash.Mark %d %d", fi, e.idx))
				}
			}
			if len(evs) > 0 && len(evs) < 400 {
				*id++
				cf.Add(fmt.Sprintf("C05.TR %d %s", *id, hx.List(parenAll(evs))))
				rep.CaseIndex[fmt.Sprint(*id)] = map[string]any{"workload": fmt.Sprintf("%+v", w), "from": p.label, "events": len(evs)}
				rep.TracesValidated++
			}
		}
		if resumed < 3 {
			rep.Sample(map[string]any{"workload": fmt.Sprintf("%+v", w), "from": p.label, "snapshots": len(snaps), "hook_events": len(events)})
		}
	}
}

func runC05(cfg config) *hx.Report { return runCrash(cfg, "C05") }
func runC04(cfg config) *hx.Report { return runCrash(cfg, "C04") }

func runCrash(cfg config, prop string) *hx.Report {
	rep := hx.NewReport(prop)
	rep.Rule = "workloads (tree seed, chunk size, streams) run with the real endpoints; at hook points (chunk written / marked, sidecar tmp written / renamed, finalize) the output directory is snapshotted = the disk a SIGKILL there would leave; extra metadata flushes are injected at random chunk writes; some interrupted fetches are repeated without resume over the metadata the earlier attempt left; before some resumed runs a partly received data file is removed or cut short while its metadata stays. Each snapshot is (C05) checked chunk by chunk against the source and (C04) resumed from, up to 3 interruptions deep. Non-trivial = a snapshot whose metadata marks some but not all chunks of a file; distinct by (workload, snapshot, bitmap)"
	cf := &hx.CasesFile{Dir: cfg.out, Name: prop, Module: "C05", Imports: []string{"Model.Crash", "Corr.C05"}, PerShard: 40}
	base, _ := os.MkdirTemp("", "c05")
	defer os.RemoveAll(base)
	rng := hx.NewRand(cfg.seed)
	n := 14
	chain := 2
	if cfg.tier == "thorough" {
		n, chain = 40, 3
	}
	id := 0
	for i := 0; i < n; i++ {
		w := c05workload{seed: rng.U64() % 100000, cs: rng.Pick(3, 16, 64), streams: 1 + rng.Intn(4), files: 1 + rng.Intn(4)}
		runCrashWorkload(base, w, rep, cf, &id, chain, prop)
	}
	cf.Close()
	return rep
}

func runXferForManifest(src string) (m struct {
	Items []struct{ ID, RelPath string }
}) {
	mm, err := scanManifest(src)
	if err != nil {
		return
	}
	for _, it := range mm.Items {
		m.Items = append(m.Items, struct{ ID, RelPath string }{it.ID, it.RelPath})
	}
	return
}

var _ = io.EOF

func init() {
	runners["C05"] = runC05
	runners["C04"] = runC04
}

// Package memnet is an in-memory implementation of transfer.Conn / transfer.Stream
// for the harness: buffered byte streams with
//   - QUIC-like stream visibility (a stream reaches the peer's accept queue only
//     when its first byte is written or it is closed) or mock-like (at open),
//   - fault injection: cut a stream or the whole connection at a byte position
//     with a graceful or abrupt error, flip a bit at a position,
//   - per-stream hold/release so that the harness chooses arrival orders.
// It does only what a network can do: lose, cut, corrupt, delay.
package memnet

import (
	"context"
	"errors"
	"io"
	"net"
	"sort"
	"sync"
)

type Mode struct {
	VisibleAtOpen bool // true = like the repo's MockTransport; false = like QUIC
	BufferLimit   int  // bytes buffered per direction before Write blocks (0 = unlimited)
}

// ErrGraceful mimics quic-go's text for a remote CloseWithError(0, ...).
var ErrGraceful = errors.New("Application error 0x0 (remote)")

// ErrAbrupt mimics a lost connection.
var ErrAbrupt = errors.New("timeout: no recent network activity")

type pipe struct {
	mu      sync.Mutex
	cond    *sync.Cond
	buf     []byte
	closed  bool  // writer closed (FIN)
	err     error // reset / connection error (both directions of use)
	rerr    error // what the READER of this pipe sees when the connection ended (overrides err)
	werr    error // what the WRITER of this pipe sees when the connection ended (overrides err)
	written int64 // total bytes ever written
	read    int64
	limit   int
	// fault plan
	cutAt   int64 // cut when `written` reaches this (-1 = never)
	cutErr  error
	flipAt  int64 // flip lowest bit of the byte at this offset (-1 = never)
	hold    bool  // reader side does not see data while held
	onCut   func()
}

func newPipe(limit int) *pipe {
	p := &pipe{limit: limit, cutAt: -1, flipAt: -1}
	p.cond = sync.NewCond(&p.mu)
	return p
}

func (p *pipe) write(b []byte) (int, error) {
	p.mu.Lock()
	defer p.mu.Unlock()
	n := 0
	for len(b) > 0 {
		if p.werr != nil {
			return n, p.werr
		}
		if p.err != nil {
			return n, p.err
		}
		if p.closed {
			return n, io.ErrClosedPipe
		}
		if p.limit > 0 && len(p.buf) >= p.limit {
			p.cond.Wait()
			continue
		}
		chunk := len(b)
		if p.limit > 0 && chunk > p.limit-len(p.buf) {
			chunk = p.limit - len(p.buf)
		}
		if p.cutAt >= 0 && p.written+int64(chunk) >= p.cutAt {
			chunk = int(p.cutAt - p.written)
			if chunk < 0 {
				chunk = 0
			}
			p.appendLocked(b[:chunk])
			n += chunk
			p.err = p.cutErr
			cb := p.onCut
			p.onCut = nil
			p.cond.Broadcast()
			if cb != nil {
				p.mu.Unlock()
				cb()
				p.mu.Lock()
			}
			return n, p.err
		}
		p.appendLocked(b[:chunk])
		n += chunk
		b = b[chunk:]
		p.cond.Broadcast()
	}
	return n, nil
}

func (p *pipe) appendLocked(b []byte) {
	start := p.written
	p.buf = append(p.buf, b...)
	p.written += int64(len(b))
	if p.flipAt >= start && p.flipAt < p.written {
		p.buf[len(p.buf)-int(p.written-p.flipAt)] ^= 1
	}
}

func (p *pipe) readInto(ctx context.Context, b []byte) (int, error) {
	p.mu.Lock()
	defer p.mu.Unlock()
	for {
		if !p.hold && len(p.buf) > 0 {
			n := copy(b, p.buf)
			p.buf = p.buf[n:]
			p.read += int64(n)
			p.cond.Broadcast()
			return n, nil
		}
		if !p.hold && p.rerr != nil {
			return 0, p.rerr
		}
		if !p.hold && p.err != nil {
			return 0, p.err
		}
		if !p.hold && p.closed {
			return 0, io.EOF
		}
		p.cond.Wait()
	}
}

func (p *pipe) closeWrite() {
	p.mu.Lock()
	p.closed = true
	p.cond.Broadcast()
	p.mu.Unlock()
}

func (p *pipe) failSide(err error, reader bool) {
	p.mu.Lock()
	if reader && p.rerr == nil {
		p.rerr = err
	}
	if !reader && p.werr == nil {
		p.werr = err
	}
	p.cond.Broadcast()
	p.mu.Unlock()
}

func (p *pipe) fail(err error) {
	p.mu.Lock()
	if p.err == nil {
		p.err = err
	}
	p.cond.Broadcast()
	p.mu.Unlock()
}

// Stream is one end of a bidirectional stream.
type Stream struct {
	id      uint64
	in, out *pipe
	conn    *Conn
	once    sync.Once
	announce func() // makes the stream visible to the peer (QUIC mode)
	rclosed bool
	mu      sync.Mutex
}

func (s *Stream) StreamID() uint64 { return s.id }

func (s *Stream) Read(b []byte) (int, error) {
	s.mu.Lock()
	if s.rclosed {
		s.mu.Unlock()
		return 0, io.ErrClosedPipe
	}
	s.mu.Unlock()
	if len(b) == 0 {
		return 0, nil
	}
	return s.in.readInto(context.Background(), b)
}

func (s *Stream) Write(b []byte) (int, error) {
	if s.announce != nil {
		s.once.Do(s.announce)
	}
	return s.out.write(b)
}

func (s *Stream) Close() error {
	if s.announce != nil {
		s.once.Do(s.announce)
	}
	s.out.closeWrite()
	s.mu.Lock()
	s.rclosed = true
	s.mu.Unlock()
	// unblock a reader of this end
	s.in.fail(io.ErrClosedPipe)
	return nil
}

// Fault plan on the bytes this end WRITES.
func (s *Stream) CutAfter(n int64, err error, onCut func()) {
	s.out.mu.Lock()
	s.out.cutAt, s.out.cutErr, s.out.onCut = n, err, onCut
	s.out.mu.Unlock()
}
func (s *Stream) FlipBitAt(off int64) {
	s.out.mu.Lock()
	s.out.flipAt = off
	s.out.mu.Unlock()
}
// FailNow makes the peer's reads of this direction fail with err once the bytes
// already written have been consumed (buffered data is delivered first).
func (s *Stream) FailNow(err error) { s.out.fail(err) }

func (s *Stream) Written() int64 {
	s.out.mu.Lock()
	defer s.out.mu.Unlock()
	return s.out.written
}

// Incoming reports how many bytes the peer has written into this end's incoming
// direction so far (whether or not they were read yet).
func (s *Stream) Incoming() int64 {
	s.in.mu.Lock()
	defer s.in.mu.Unlock()
	return s.in.written
}

// Consumed reports how many of the bytes this end has written the peer has read.
func (s *Stream) Consumed() int64 {
	s.out.mu.Lock()
	defer s.out.mu.Unlock()
	return s.out.read
}

// CloseWrite ends this end's outgoing direction (the peer reads EOF after the
// buffered bytes) and leaves its incoming direction open.
func (s *Stream) CloseWrite() {
	if s.announce != nil {
		s.once.Do(s.announce)
	}
	s.out.closeWrite()
}

// HoldIncoming stops this end from seeing incoming bytes until released.
func (s *Stream) HoldIncoming(h bool) {
	s.in.mu.Lock()
	s.in.hold = h
	s.in.cond.Broadcast()
	s.in.mu.Unlock()
}

// Conn is one end of a connection.
type Conn struct {
	mu       sync.Mutex
	mode     Mode
	peer     *Conn
	accept   chan *Stream
	streams  []*Stream // streams opened or accepted at this end
	nextID   uint64
	closed   bool
	closeErr error
	OnOpen   func(s *Stream) // called for every stream this end opens (to install fault plans)
	pending  map[uint64]func()
	doneCh   chan struct{}
}

// Pair returns the two ends of a connection.
func Pair(mode Mode) (*Conn, *Conn) {
	a := &Conn{mode: mode, accept: make(chan *Stream, 1024), doneCh: make(chan struct{})}
	b := &Conn{mode: mode, accept: make(chan *Stream, 1024), doneCh: make(chan struct{})}
	a.peer, b.peer = b, a
	return a, b
}

func (c *Conn) OpenStream(ctx context.Context) (*Stream, error) {
	c.mu.Lock()
	if c.closed {
		err := c.closeErr
		c.mu.Unlock()
		if err == nil {
			err = io.ErrClosedPipe
		}
		return nil, err
	}
	id := c.nextID
	c.nextID++
	ab, ba := newPipe(c.mode.BufferLimit), newPipe(c.mode.BufferLimit)
	local := &Stream{id: id, in: ba, out: ab, conn: c}
	remote := &Stream{id: id, in: ab, out: ba, conn: c.peer}
	c.streams = append(c.streams, local)
	peer := c.peer
	c.mu.Unlock()
	deliver := func() {
		peer.mu.Lock()
		peer.streams = append(peer.streams, remote)
		closed := peer.closed
		peer.mu.Unlock()
		if !closed {
			peer.accept <- remote
		}
	}
	if c.mode.VisibleAtOpen {
		deliver()
	} else {
		// RFC 9000 3.2: a frame for stream N implicitly opens all lower-numbered
		// streams of the same type, so they become visible in id order
		c.mu.Lock()
		if c.pending == nil {
			c.pending = map[uint64]func(){}
		}
		c.pending[id] = deliver
		c.mu.Unlock()
		local.announce = func() {
			c.mu.Lock()
			var ids []uint64
			for k := range c.pending {
				if k <= id {
					ids = append(ids, k)
				}
			}
			sort.Slice(ids, func(i, j int) bool { return ids[i] < ids[j] })
			var fs []func()
			for _, k := range ids {
				fs = append(fs, c.pending[k])
				delete(c.pending, k)
			}
			c.mu.Unlock()
			for _, f := range fs {
				f()
			}
		}
	}
	if c.OnOpen != nil {
		c.OnOpen(local)
	}
	return local, nil
}

func (c *Conn) AcceptStream(ctx context.Context) (*Stream, error) {
	select {
	case s := <-c.accept:
		return s, nil
	case <-ctx.Done():
		return nil, ctx.Err()
	case <-c.doneCh:
		c.mu.Lock()
		err := c.closeErr
		c.mu.Unlock()
		if err == nil {
			err = io.ErrClosedPipe
		}
		return nil, err
	}
}

// Fail breaks the whole connection at both ends with err (what each side sees).
func (c *Conn) Fail(local, remote error) {
	c.failEnd(local)
	c.peer.failEnd(remote)
}

func (c *Conn) failEnd(err error) {
	c.mu.Lock()
	if c.closed {
		c.mu.Unlock()
		return
	}
	c.closed = true
	c.closeErr = err
	streams := append([]*Stream{}, c.streams...)
	close(c.doneCh)
	c.mu.Unlock()
	for _, s := range streams {
		// this end reads from s.in and writes to s.out: each sees ITS side's error even though the
		// peer (which writes s.in and reads s.out) is told something else
		s.in.failSide(err, true)
		s.out.failSide(err, false)
	}
}

func (c *Conn) Close() error {
	// closing a connection is seen by the peer as a graceful application close
	c.Fail(io.ErrClosedPipe, ErrGraceful)
	return nil
}

func (c *Conn) RemoteAddr() net.Addr { return &net.UDPAddr{IP: net.IPv4(127, 0, 0, 1), Port: 9} }

func (c *Conn) Streams() []*Stream {
	c.mu.Lock()
	defer c.mu.Unlock()
	return append([]*Stream{}, c.streams...)
}

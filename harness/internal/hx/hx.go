// Package hx holds what every property runner of the harness shares: the
// seeded PRNG, the Coq term emitter for cases files, and the result report.
package hx

import (
	"encoding/json"
	"fmt"
	"os"
	"path/filepath"
	"sort"
	"strings"
)

// Rand is splitmix64: every random choice of a run derives from VERIF_SEED.
type Rand struct{ s uint64 }

func NewRand(seed uint64) *Rand { return &Rand{s: seed*0x9E3779B97F4A7C15 + 0x1234567} }

func (r *Rand) U64() uint64 {
	r.s += 0x9E3779B97F4A7C15
	z := r.s
	z = (z ^ (z >> 30)) * 0xBF58476D1CE4E5B9
	z = (z ^ (z >> 27)) * 0x94D049BB133111EB
	return z ^ (z >> 31)
}

// Intn returns a value in [0,n).
func (r *Rand) Intn(n int) int {
	if n <= 0 {
		return 0
	}
	return int(r.U64() % uint64(n))
}

func (r *Rand) Bool() bool { return r.U64()&1 == 1 }

func (r *Rand) Pick(xs ...int) int { return xs[r.Intn(len(xs))] }

func (r *Rand) Bytes(n int) []byte {
	b := make([]byte, n)
	for i := range b {
		b[i] = byte(r.U64())
	}
	return b
}

// Fork derives an independent stream (so that adding cases to one generator
// does not shift another).
func (r *Rand) Fork(tag uint64) *Rand { return NewRand(r.s ^ (tag * 0xD6E8FEB86659FD93)) }

// ---- Coq terms ----

func Z(v int64) string {
	if v < 0 {
		return fmt.Sprintf("(%d)", v)
	}
	return fmt.Sprintf("%d", v)
}

func ZU(v uint64) string { return fmt.Sprintf("%d", v) }

func B(b bool) string {
	if b {
		return "true"
	}
	return "false"
}

// Bytes renders a byte string as a Coq `list Z`.  Long runs of one byte are
// written as `rep n b` (Lib/Bytes.v) so that 64 KiB texts do not become 64 Ki
// list cells for the parser.
func Bytes(b []byte) string {
	plain := func(seg []byte) string {
		var sb strings.Builder
		sb.WriteByte('[')
		for i, c := range seg {
			if i > 0 {
				sb.WriteString("; ")
			}
			fmt.Fprintf(&sb, "%d", c)
		}
		sb.WriteByte(']')
		return sb.String()
	}
	var parts []string
	start := 0
	i := 0
	for i < len(b) {
		j := i
		for j < len(b) && b[j] == b[i] {
			j++
		}
		if j-i >= 64 {
			if i > start {
				parts = append(parts, plain(b[start:i]))
			}
			parts = append(parts, fmt.Sprintf("rep %d %d", j-i, b[i]))
			start = j
		}
		i = j
	}
	if start < len(b) || len(parts) == 0 {
		parts = append(parts, plain(b[start:]))
	}
	if len(parts) == 1 && strings.HasPrefix(parts[0], "[") {
		return parts[0]
	}
	return "(" + strings.Join(parts, " ++ ") + ")"
}

func Str(s string) string { return Bytes([]byte(s)) }

func List(items []string) string { return "[" + strings.Join(items, "; ") + "]" }

func OptZ(ok bool, v int64) string {
	if !ok {
		return "None"
	}
	return "(Some " + Z(v) + ")"
}

// CasesFile accumulates the cases of one correspondence and writes them as
// shards `cases_<name>_<k>.v`; each shard evaluates `<module>.mismatches` by
// vm_compute inside coqc and prints the ids of the cases where the model and
// the implementation differ.
type CasesFile struct {
	Dir, Name, Module string
	Imports           []string
	PerShard          int
	items             []string
	shards            int
	Total             int
}

func (c *CasesFile) Add(term string) {
	c.items = append(c.items, term)
	c.Total++
	if c.PerShard > 0 && len(c.items) >= c.PerShard {
		c.flush()
	}
}

func (c *CasesFile) flush() {
	if len(c.items) == 0 {
		return
	}
	var sb strings.Builder
	sb.WriteString("From Coq Require Import ZArith List.\nImport ListNotations.\nOpen Scope Z_scope.\n")
	for _, im := range c.Imports {
		fmt.Fprintf(&sb, "From TF Require Import %s.\n", im)
	}
	fmt.Fprintf(&sb, "Definition cases : list %s.case := [\n  %s\n].\n", c.Module, strings.Join(c.items, ";\n  "))
	fmt.Fprintf(&sb, "Definition M := Eval vm_compute in %s.mismatches cases.\nPrint M.\n", c.Module)
	p := filepath.Join(c.Dir, fmt.Sprintf("cases_%s_%d.v", c.Name, c.shards))
	if err := os.WriteFile(p, []byte(sb.String()), 0644); err != nil {
		panic(err)
	}
	c.shards++
	c.items = nil
}

func (c *CasesFile) Close() { c.flush() }

// ---- report ----

type Violation struct {
	Signature string `json:"signature"` // class of the failing case (matched against known_findings.json)
	What      string `json:"what"`
	Replay    any    `json:"replay"`
}

type Report struct {
	Property           string         `json:"property"`
	Evaluations        int            `json:"evaluations"`
	DistinctNontrivial int            `json:"distinct_nontrivial"`
	Rule               string         `json:"rule"`
	Samples            []any          `json:"samples"`
	Distribution       map[string]int `json:"distribution"`
	TracesValidated    int            `json:"traces_validated_against_impl"`
	Violations         []Violation    `json:"violations"`
	CaseIndex          map[string]any `json:"case_index,omitempty"` // case id -> input, so a model/impl mismatch can be replayed
	Notes              []string       `json:"notes,omitempty"`
	distinct           map[string]bool
}

// Current is the report of the running property (read by the harness's global
// deadline watchdog, which turns a hung run into a reported violation).
var Current *Report

func NewReport(prop string) *Report {
	r := &Report{Property: prop, Distribution: map[string]int{}, CaseIndex: map[string]any{}, distinct: map[string]bool{}}
	Current = r
	return r
}

func (r *Report) Count(kind string) { r.Distribution[kind]++ }

// Nontrivial records a case that is non-trivial by the property's rule; key
// identifies it so that duplicates are counted once.
func (r *Report) Nontrivial(key string) {
	if !r.distinct[key] {
		r.distinct[key] = true
		r.DistinctNontrivial++
	}
}

func (r *Report) Sample(s any) {
	if len(r.Samples) < 6 {
		r.Samples = append(r.Samples, s)
	}
}

func (r *Report) Violate(sig, what string, replay any) {
	// keep the report small: at most 5 violations per signature
	n := 0
	for _, v := range r.Violations {
		if v.Signature == sig {
			n++
		}
	}
	if n < 5 {
		r.Violations = append(r.Violations, Violation{sig, what, replay})
	}
	r.Count("violation:" + sig)
}

func (r *Report) Write(dir string) {
	keys := make([]string, 0, len(r.Distribution))
	for k := range r.Distribution {
		keys = append(keys, k)
	}
	sort.Strings(keys)
	b, err := json.MarshalIndent(r, "", " ")
	if err != nil {
		panic(err)
	}
	if err := os.WriteFile(filepath.Join(dir, "report.json"), b, 0644); err != nil {
		panic(err)
	}
}

package main

import (
	"context"
	"crypto/tls"
	"encoding/hex"
	"fmt"
	"io"
	"log/slog"
	"net"
	"sort"
	"strings"
	"sync"
	"time"

	"github.com/quic-go/quic-go"
	"github.com/sheerbytes/sheerbytes/internal/app"
	"github.com/sheerbytes/sheerbytes/internal/ice"
	"github.com/sheerbytes/sheerbytes/internal/quictransport"
	"github.com/sheerbytes/sheerbytes/internal/transferquic"
	"github.com/sheerbytes/sheerbytes/internal/verifhook"
	"github.com/sheerbytes/sheerbytes/verifharness/internal/hx"
)

// C09: connection racing.  The REAL ice.Prober.ProbeAndDial (prober built
// without STUN through the shim) dials a real loopback QUIC listener that is
// reachable under several addresses (127.0.0.1, 127.0.0.2, 127.0.0.3, ::1),
// next to unreachable (black-hole), invalid, duplicate and "turn:"-prefixed
// candidates.  The hook points (after tr.Dial, before the caller's select,
// before the dials are spawned) hold every goroutine until the schedule of the
// case releases it, so the completion order of the parallel handshakes, the
// moment the caller looks at its channels and the moment the outer context is
// cancelled are forced.  Connections are identified on both sides by a TLS
// exporter value.  After the run the harness waits a grace period and looks at
// the listener: which connections are still open there, and is that exactly the
// one the caller got.  The trace (observed dial results + forced releases +
// server-side completion order) is also emitted for Model/Race.v.

const c09Watchdog = 10 * time.Second
const c09Grace = 3 * time.Second

type c09cand struct {
	Kind string `json:"kind"` // r reachable, u unreachable (black hole), i invalid
	Addr int    `json:"addr"` // address id (distinct per distinct address text)
	Turn bool   `json:"turn"`
	str  string
}

func (c c09cand) z() int64 {
	v := int64(2 * c.Addr)
	if c.Turn {
		v++
	}
	return v
}

// one step of a schedule
type c09op struct {
	Op string `json:"op"` // W wait Arg ms with everything held, M release the caller, R release dial goroutine of candidate Z, C cancel the outer context, P pairing: wait for the acceptor's first connection and release a dial that is (Arg=1) / is not (Arg=0) that connection
	Z  int64  `json:"z"`
	A  int    `json:"arg,omitempty"`
}

type c09case struct {
	Kind      string    `json:"kind"`
	TurnOnly  bool      `json:"turn_only"`
	Cands     []c09cand `json:"candidates"`
	Prog      []c09op   `json:"schedule"`
	SpawnMs   int       `json:"delay_before_spawn_ms,omitempty"`
	FastFail  bool      `json:"short_handshake_timeout,omitempty"`
	Auth      bool      `json:"authenticate,omitempty"`
	HoldFirst bool      `json:"hold_caller_until_alldone,omitempty"`
}

// ---- hook controller ----
type c09dial struct {
	addr    string
	conn    *quic.Conn
	err     error
	release chan struct{}
	id      string
}

type c09ctl struct {
	mu       sync.Mutex
	cond     *sync.Cond
	dials    map[string]*c09dial // candidate text -> arrival at the hook after tr.Dial
	mainArr  int                 // number of times the caller reached the select
	mainRel  chan struct{}
	spawnMs  int
	updates  map[string][]ice.ProbeState
	finished bool
	dupDial  []string // a candidate text that reached the hook twice (dialled twice)
}

func newC09ctl() *c09ctl {
	c := &c09ctl{dials: map[string]*c09dial{}, mainRel: make(chan struct{}, 8), updates: map[string][]ice.ProbeState{}}
	c.cond = sync.NewCond(&c.mu)
	return c
}

func c09connID(conn *quic.Conn) string {
	if conn == nil {
		return ""
	}
	cs := conn.ConnectionState()
	b, err := cs.TLS.ExportKeyingMaterial("verif-c09-identity", nil, 12)
	if err != nil {
		return ""
	}
	return hex.EncodeToString(b)
}

func (c *c09ctl) hook(name string, args ...any) {
	switch name {
	case "ice.dial_done":
		d := &c09dial{addr: args[0].(string), release: make(chan struct{})}
		if cn, ok := args[1].(*quic.Conn); ok && cn != nil {
			d.conn = cn
			d.id = c09connID(cn)
		}
		if e, ok := args[2].(error); ok && e != nil {
			d.err = e
		}
		c.mu.Lock()
		fin := c.finished
		if !fin && c.dials[d.addr] != nil {
			c.dupDial = append(c.dupDial, d.addr)
			fin = true // let the second dial of the same candidate run freely
		}
		if !fin {
			c.dials[d.addr] = d
		}
		c.cond.Broadcast()
		c.mu.Unlock()
		if !fin {
			<-d.release
		}
	case "ice.before_select":
		c.mu.Lock()
		fin := c.finished
		c.mainArr++
		c.cond.Broadcast()
		c.mu.Unlock()
		if !fin {
			<-c.mainRel
		}
	case "ice.before_spawn":
		if c.spawnMs > 0 {
			time.Sleep(time.Duration(c.spawnMs) * time.Millisecond)
		}
	}
}

func (c *c09ctl) onUpdate(u ice.ProbeUpdate) {
	c.mu.Lock()
	c.updates[u.Addr] = append(c.updates[u.Addr], u.State)
	c.cond.Broadcast()
	c.mu.Unlock()
}

// waitFor blocks until pred (evaluated under the lock) holds or the watchdog expires.
func (c *c09ctl) waitFor(d time.Duration, pred func() bool) bool {
	deadline := time.Now().Add(d)
	stop := make(chan struct{})
	go func() {
		t := time.NewTicker(5 * time.Millisecond)
		defer t.Stop()
		for {
			select {
			case <-stop:
				return
			case <-t.C:
				c.mu.Lock()
				c.cond.Broadcast()
				c.mu.Unlock()
			}
		}
	}()
	defer close(stop)
	c.mu.Lock()
	defer c.mu.Unlock()
	for !pred() {
		if time.Now().After(deadline) {
			return false
		}
		c.cond.Wait()
	}
	return true
}

func (c *c09ctl) hasState(addr string, states ...ice.ProbeState) bool {
	for _, s := range c.updates[addr] {
		for _, w := range states {
			if s == w {
				return true
			}
		}
	}
	return false
}

// ---- environment shared by all races of a run ----
type c09env struct {
	tlsSrv  *tls.Config
	v6      bool
	logger  *slog.Logger
	hole    *net.UDPConn // bound, never read: packets vanish
	holeAdr string
}

func newC09env() *c09env {
	e := &c09env{tlsSrv: quictransport.ServerConfig(), logger: slog.New(slog.NewTextHandler(io.Discard, nil))}
	if c, err := net.ListenUDP("udp6", &net.UDPAddr{IP: net.IPv6loopback}); err == nil {
		e.v6 = true
		c.Close()
	}
	h, err := net.ListenUDP("udp4", &net.UDPAddr{IP: net.IPv4(127, 0, 0, 1)})
	if err != nil {
		panic(err)
	}
	e.hole = h
	e.holeAdr = h.LocalAddr().String()
	return e
}

type c09srvConn struct {
	conn *quic.Conn
	id   string
}

type c09result struct {
	events      []string
	classes     []string // ((k, z), class)
	ret         string
	prim        string
	violations  [][2]string
	established int
	closedLate  int
	orphans     int
	diverged    string
	skipCorr    bool
	summary     map[string]any
}

// phases as ProbeAndDial computes them
func c09plan(cs []c09cand, turnOnly bool) [][]c09cand {
	seen := map[string]bool{}
	var d, t []c09cand
	for _, c := range cs {
		if seen[c.str] {
			continue
		}
		seen[c.str] = true
		if c.Turn {
			t = append(t, c)
		} else {
			d = append(d, c)
		}
	}
	var out [][]c09cand
	if !turnOnly && len(d) > 0 {
		out = append(out, d)
	}
	if len(t) > 0 {
		out = append(out, t)
	}
	return out
}

func (e *c09env) run(cs c09case) (res c09result) {
	res.summary = map[string]any{}
	viol := func(sig, what string) { res.violations = append(res.violations, [2]string{sig, what}) }

	// listener: one dual-stack UDP socket, reachable under several addresses
	network, laddr := "udp", &net.UDPAddr{}
	if !e.v6 {
		network, laddr = "udp4", &net.UDPAddr{IP: net.IPv4zero}
	}
	lsock, err := net.ListenUDP(network, laddr)
	if err != nil {
		panic(err)
	}
	ltr := &quic.Transport{Conn: lsock}
	ln, err := ltr.Listen(e.tlsSrv, quictransport.DefaultServerQUICConfig())
	if err != nil {
		panic(err)
	}
	port := lsock.LocalAddr().(*net.UDPAddr).Port
	hosts := []string{"127.0.0.1", "127.0.0.2", "127.0.0.3", "[::1]"}
	if !e.v6 {
		hosts[3] = "127.0.0.4"
	}
	// candidate texts
	cands := make([]c09cand, len(cs.Cands))
	for i, c := range cs.Cands {
		switch c.Kind {
		case "r":
			c.str = fmt.Sprintf("%s:%d", hosts[c.Addr%len(hosts)], port)
		case "u":
			c.str = e.holeAdr
		default:
			c.str = fmt.Sprintf("no-such-address-%d", c.Addr)
		}
		if c.Turn {
			c.str = "turn:" + c.str
		}
		cands[i] = c
	}
	phases := c09plan(cands, cs.TurnOnly)
	phaseOf := map[string]int{}
	byZ := map[int64]c09cand{}
	for k, p := range phases {
		for _, c := range p {
			phaseOf[c.str] = k
			byZ[c.z()] = c
		}
	}

	// acceptor: every connection whose server-side handshake completes, in that order
	var smu sync.Mutex
	var srv []c09srvConn
	actx, acancel := context.WithCancel(context.Background())
	accDone := make(chan struct{})
	go func() {
		defer close(accDone)
		for {
			c, err := ln.Accept(actx)
			if err != nil {
				return
			}
			smu.Lock()
			srv = append(srv, c09srvConn{c, c09connID(c)})
			smu.Unlock()
		}
	}()

	ctl := newC09ctl()
	ctl.spawnMs = cs.SpawnMs
	verifhook.Set(ctl.hook)
	defer verifhook.Set(nil)

	prober, err := ice.VerifC09NewProber(cs.TurnOnly, e.logger)
	if err != nil {
		panic(err)
	}
	qcfg := quictransport.DefaultClientQUICConfig()
	if cs.FastFail {
		qcfg.HandshakeIdleTimeout = 1200 * time.Millisecond
	}
	octx, ocancel := context.WithCancel(context.Background())
	type pdres struct {
		conn *quic.Conn
		err  error
	}
	resCh := make(chan pdres, 1)
	strs := make([]string, len(cands))
	for i, c := range cands {
		strs[i] = c.str
	}
	go func() {
		c, err := prober.ProbeAndDial(octx, strs, quictransport.ClientConfig(), qcfg, ctl.onUpdate)
		resCh <- pdres{c, err}
	}()

	// ---- mirror of the caller's enabling conditions (what the code as modelled does) ----
	type gstate int
	const (
		gDial gstate = iota
		gHeldConn
		gHeldErr
		gDone
	)
	status := map[string]gstate{}
	won := make([]bool, len(phases))
	ch := make([]string, len(phases))
	cur := 0
	mainAt := "none" // none | hook | select | returned
	mainSeen := 0
	cancelled := false
	var ret *pdres
	drainPending := map[int]bool{}
	ev := func(s string) { res.events = append(res.events, s) }
	stuck := false

	allDone := func(k int) bool {
		for _, c := range phases[k] {
			if status[c.str] != gDone {
				return false
			}
		}
		return true
	}
	diverge := func(s string) {
		if res.diverged == "" {
			res.diverged = s
		}
	}
	unexpected := map[string]bool{}
	// record arrivals that happened (dial goroutines reaching the hook)
	absorb := func() {
		ctl.mu.Lock()
		defer ctl.mu.Unlock()
		for a, d := range ctl.dials {
			if k, ok := phaseOf[a]; (!ok || k > cur) && !unexpected[a] {
				unexpected[a] = true
				viol("plan:unexpected-dial", fmt.Sprintf("candidate %s was dialled although it is not part of the phase that is running (turn-only / direct-before-relay / duplicates)", a))
				diverge("a candidate outside the running phase was dialled")
			}
			if status[a] == gDial {
				if k, ok := phaseOf[a]; ok && k <= cur {
					if d.conn != nil {
						status[a] = gHeldConn
					} else {
						status[a] = gHeldErr
					}
				}
			}
		}
		// invalid candidates fail without reaching the hook
		for k := 0; k <= cur && k < len(phases); k++ {
			for _, c := range phases[k] {
				if c.Kind == "i" && status[c.str] == gDial && ctl.hasState(c.str, ice.ProbeStateFailed) {
					status[c.str] = gDone
				}
			}
		}
	}
	emitted := map[string]bool{}
	emitArrivals := func() {
		if res.diverged != "" {
			return
		}
		absorb()
		var keys []string
		for a, st := range status {
			if !emitted[a] && (st == gHeldConn || (st == gDone && byStr(cands, a).Kind == "i")) {
				keys = append(keys, a)
			}
		}
		sort.Strings(keys)
		for _, a := range keys {
			emitted[a] = true
			c := byStr(cands, a)
			if c.Kind == "i" {
				ev(fmt.Sprintf("Race.DialFail %d %d", phaseOf[a], c.z()))
			} else {
				ev(fmt.Sprintf("Race.DialOk %d %d", phaseOf[a], c.z()))
			}
		}
	}
	waitMain := func() bool { // the caller reaches the select of the next phase, or returns
		deadline := time.After(c09Watchdog)
		for {
			select {
			case r := <-resCh:
				ret = &r
				mainAt = "returned"
				return true
			case <-deadline:
				return false
			case <-time.After(2 * time.Millisecond):
			}
			ctl.mu.Lock()
			n := ctl.mainArr
			ctl.mu.Unlock()
			if n > mainSeen {
				mainSeen = n
				mainAt = "hook"
				return true
			}
		}
	}
	// after something changed while the caller sits in the select: does an arm fire?
	var callerMoves func()
	callerMoves = func() {
		if mainAt != "select" {
			return
		}
		k := cur
		switch {
		case ch[k] != "":
			ev("Race.Take")
			if !waitMain() {
				stuck = true
				viol("stuck:caller", "the caller did not take the connection handed to the result channel")
				return
			}
			if mainAt != "returned" || ret.conn == nil {
				diverge("a connection was in the result channel but the caller did not return it")
			}
			cancelled = true
		case allDone(k) || cancelled:
			if allDone(k) {
				ev("Race.AllDoneArm")
			} else {
				ev("Race.CtxArm")
				drainPending[k] = true
			}
			if !waitMain() {
				stuck = true
				viol("stuck:caller", "the caller did not leave the select although allDone/ctx.Done was ready")
				return
			}
			if k+1 < len(phases) {
				if mainAt != "hook" {
					diverge("the caller returned instead of starting the next phase")
				} else {
					cur = k + 1
				}
			} else {
				if mainAt != "returned" || ret.conn != nil {
					diverge("the caller did not return an error after the last phase")
				}
				cancelled = true
			}
		}
	}
	releaseMain := func() {
		if mainAt != "hook" {
			return
		}
		mainAt = "select"
		ctl.mainRel <- struct{}{}
		callerMoves()
	}
	releaseDial := func(a string) {
		ctl.mu.Lock()
		d := ctl.dials[a]
		ctl.mu.Unlock()
		if d == nil || (status[a] != gHeldConn && status[a] != gHeldErr) {
			return
		}
		k := phaseOf[a]
		z := byStr(cands, a).z()
		close(d.release)
		if d.conn == nil {
			ev(fmt.Sprintf("Race.DialFail %d %d", k, z))
			if !ctl.waitFor(c09Watchdog, func() bool {
				return ctl.hasState(a, ice.ProbeStateFailed, ice.ProbeStateCanceled)
			}) {
				stuck = true
				viol("stuck:goroutine", "a failed dial goroutine did not finish")
			}
			status[a] = gDone
		} else {
			ev(fmt.Sprintf("Race.Deliver %d %d", k, z))
			expectPush := !won[k]
			okc := ctl.waitFor(c09Watchdog, func() bool {
				return ctl.hasState(a, ice.ProbeStateWon) || d.conn.Context().Err() != nil
			})
			if !okc {
				stuck = true
				viol("stuck:goroutine", "a dial goroutine holding an established connection neither handed it over nor closed it within the watchdog (blocked, or the connection was simply left open)")
			}
			ctl.mu.Lock()
			pushed := ctl.hasState(a, ice.ProbeStateWon)
			ctl.mu.Unlock()
			if okc && pushed != expectPush {
				if pushed {
					diverge("a later winner was handed to the result channel instead of being closed")
				} else {
					diverge("the first winner of the phase closed its connection instead of handing it over")
				}
			}
			if expectPush {
				won[k] = true
				ch[k] = a
			}
			status[a] = gDone
		}
		if mainAt == "select" && k == cur {
			callerMoves()
		}
	}

	// ---- run the schedule ----
	if !waitMain() {
		viol("stuck:caller", "ProbeAndDial neither reached its select nor returned")
		stuck = true
	}
	if len(phases) == 0 && mainAt == "returned" {
		cancelled = true
	}
	waitArr := func(a string) bool {
		ok := ctl.waitFor(c09Watchdog, func() bool {
			if ctl.dials[a] != nil {
				return true
			}
			for x := range ctl.dials {
				if k, planned := phaseOf[x]; !planned || k > cur {
					return true // a dial the plan does not contain at this point: stop waiting, absorb reports it
				}
			}
			return false
		})
		absorb()
		ctl.mu.Lock()
		defer ctl.mu.Unlock()
		return ok && ctl.dials[a] != nil
	}
	// reachable candidates of the running phase arrive promptly: wait for them so that
	// the schedule decides the order, not the network
	settle := func() {
		if mainAt == "returned" || cur >= len(phases) {
			emitArrivals()
			return
		}
		for k := 0; k <= cur; k++ {
			for _, c := range phases[k] {
				if status[c.str] == gDial && (c.Kind == "r" || (c.Kind == "u" && cancelled)) {
					waitArr(c.str)
				}
				if c.Kind == "i" {
					a := c.str
					ctl.waitFor(c09Watchdog, func() bool { return ctl.hasState(a, ice.ProbeStateFailed) })
				}
			}
		}
		emitArrivals()
	}
	var pairPrimary string
	for _, op := range cs.Prog {
		if stuck || res.diverged != "" {
			break
		}
		settle()
		switch op.Op {
		case "M":
			if cs.HoldFirst {
				time.Sleep(15 * time.Millisecond) // let allDone close before the caller looks
			}
			releaseMain()
		case "R":
			c, ok := byZ[op.Z]
			if !ok {
				continue
			}
			if phaseOf[c.str] > cur {
				continue
			}
			if !waitArr(c.str) {
				continue
			}
			emitArrivals()
			releaseDial(c.str)
		case "W":
			// wall-clock wait with everything else held: handshakes that complete LATE.
			// Nothing the model knows can move the caller during the wait.
			time.Sleep(time.Duration(op.A) * time.Millisecond)
			if mainAt == "select" && ch[cur] == "" && !allDone(cur) && !cancelled {
				moved := false
				select {
				case r := <-resCh:
					ret = &r
					mainAt = "returned"
					moved = true
				default:
				}
				ctl.mu.Lock()
				n := ctl.mainArr
				ctl.mu.Unlock()
				if n > mainSeen {
					mainSeen = n
					mainAt = "hook"
					moved = true
				}
				if moved {
					diverge(fmt.Sprintf("the caller left its select after %d ms although no connection had been handed over, not all dials were over and the context was live", op.A))
				}
			}
		case "C":
			if !cancelled {
				ocancel()
				cancelled = true
				ev("Race.Cancel")
				callerMoves()
			}
		case "P":
			// wait until the accepting side has its first connection, then let a dial win that is / is not it
			okp := false
			dl := time.Now().Add(c09Watchdog)
			for time.Now().Before(dl) {
				smu.Lock()
				if len(srv) > 0 {
					pairPrimary = srv[0].id
					okp = true
				}
				smu.Unlock()
				if okp {
					break
				}
				time.Sleep(2 * time.Millisecond)
			}
			if !okp {
				continue
			}
			var pick string
			var keys []string
			for a, st := range status {
				if st == gHeldConn && phaseOf[a] == cur {
					keys = append(keys, a)
				}
			}
			sort.Strings(keys)
			for _, a := range keys {
				ctl.mu.Lock()
				same := ctl.dials[a].id == pairPrimary
				ctl.mu.Unlock()
				if same == (op.A == 1) {
					pick = a
					break
				}
			}
			if pick != "" {
				releaseDial(pick)
			}
		}
	}
	// ---- finalisation: let everything run to the end ----
	for round := 0; round < 64 && !stuck && res.diverged == ""; round++ {
		settle()
		if mainAt == "hook" {
			releaseMain()
			continue
		}
		var held []string
		for a, st := range status {
			if st == gHeldConn || st == gHeldErr {
				held = append(held, a)
			}
		}
		sort.Strings(held)
		if len(held) > 0 {
			releaseDial(held[0])
			continue
		}
		// anything still dialling (unreachable candidates: until cancelled or timed out)
		pending := ""
		for k := 0; k <= cur && k < len(phases); k++ {
			for _, c := range phases[k] {
				if status[c.str] == gDial {
					pending = c.str
				}
			}
		}
		if pending != "" {
			if !waitArr(pending) {
				stuck = true
				viol("stuck:goroutine", "a dial goroutine never returned from tr.Dial")
			}
			absorb()
			continue
		}
		if mainAt == "select" {
			callerMoves()
			if mainAt == "select" {
				stuck = true
				viol("stuck:caller", "all dials are over but ProbeAndDial does not return")
			}
			continue
		}
		break
	}
	ctl.mu.Lock()
	ctl.finished = true
	for _, d := range ctl.dials {
		select {
		case <-d.release:
		default:
			close(d.release)
		}
	}
	ctl.mu.Unlock()
	for i := 0; i < 4; i++ {
		select {
		case ctl.mainRel <- struct{}{}:
		default:
		}
	}
	if res.diverged != "" || stuck {
		// the code left the modelled behaviour: let everything run freely to its end
		ocancelLater := time.AfterFunc(5*time.Second, ocancel)
		defer ocancelLater.Stop()
	}
	if ret == nil {
		select {
		case r := <-resCh:
			ret = &r
		case <-time.After(c09Watchdog):
			viol("stuck:caller", "ProbeAndDial did not return")
			ret = &pdres{nil, fmt.Errorf("no return")}
		}
	}
	// the drainers of phases left through the context arm
	for k := range phases {
		if drainPending[k] {
			ev(fmt.Sprintf("Race.Drain %d", k))
		}
	}

	// ---- observation: grace period, then look at the listener ----
	retID := c09connID(ret.conn)
	type estc struct {
		c c09cand
		d *c09dial
		k int
	}
	var est []estc
	ctl.mu.Lock()
	for a, d := range ctl.dials {
		if d.conn != nil {
			est = append(est, estc{byStr(cands, a), d, phaseOf[a]})
		}
	}
	ctl.mu.Unlock()
	sort.Slice(est, func(i, j int) bool { return est[i].c.str < est[j].c.str })
	res.established = len(est)
	srvOpen := func(id string) (found, open bool) {
		smu.Lock()
		defer smu.Unlock()
		for _, s := range srv {
			if s.id == id {
				return true, s.conn.Context().Err() == nil
			}
		}
		return false, false
	}
	deadline := time.Now().Add(c09Grace)
	for {
		bad := false
		for _, x := range est {
			if x.d.id == retID && ret.conn != nil {
				if f, _ := srvOpen(x.d.id); !f {
					bad = true // the winner's server side has not been accepted yet
				}
				continue
			}
			if x.d.conn.Context().Err() == nil {
				bad = true // not closed by the dialing side (yet)
			} else if _, o := srvOpen(x.d.id); o && time.Now().Before(deadline.Add(-c09Grace+500*time.Millisecond)) {
				bad = true // closed by the dialing side: give the close half a second to reach the listener
			}
		}
		if !bad || time.Now().After(deadline) {
			break
		}
		time.Sleep(10 * time.Millisecond)
	}
	// classes for the model (dialing side's own view, no timing involved)
	retK, retZ := -1, int64(0)
	for k, p := range phases {
		for _, c := range p {
			class := 0
			ctl.mu.Lock()
			d := ctl.dials[c.str]
			ctl.mu.Unlock()
			if d != nil && d.conn != nil {
				class = 1
				if d.conn.Context().Err() != nil {
					class = 2
				}
				if ret.conn != nil && d.id == retID {
					retK, retZ = k, c.z()
				}
			}
			res.classes = append(res.classes, fmt.Sprintf("((%d%%nat, %d), %d)", k, c.z(), class))
		}
	}
	res.ret = "None"
	if ret.conn != nil {
		if retK < 0 {
			viol("returned:unknown", "ProbeAndDial returned a connection no dial goroutine produced")
			res.skipCorr = true
		} else {
			res.ret = fmt.Sprintf("(Some (%d%%nat, %d))", retK, retZ)
		}
	}
	// server-side completion order and the acceptor's commitment
	res.prim = "None"
	smu.Lock()
	srvSnap := append([]c09srvConn{}, srv...)
	smu.Unlock()
	for n, s := range srvSnap {
		var m *estc
		for i := range est {
			if est[i].d.id == s.id {
				m = &est[i]
			}
		}
		if m == nil {
			res.orphans++
			if n == 0 {
				res.skipCorr = true
			}
			continue
		}
		ev(fmt.Sprintf("Race.SrvUp %d %d", m.k, m.c.z()))
		if n == 0 {
			ev("Race.Accept")
			res.prim = fmt.Sprintf("(Some (%d%%nat, %d))", m.k, m.c.z())
		}
	}

	ctl.mu.Lock()
	for _, a := range ctl.dupDial {
		viol("plan:candidate-dialled-twice", fmt.Sprintf("candidate %s was dialled by two goroutines (duplicates in the candidate list are not removed)", a))
	}
	ctl.mu.Unlock()
	// ---- the property, evaluated on what the real code left behind ----
	openAtListener := 0
	var openDesc []string
	for _, s := range srvSnap {
		if s.conn.Context().Err() == nil {
			openAtListener++
			tag := "orphan"
			for _, x := range est {
				if x.d.id == s.id {
					tag = x.c.str
				}
			}
			if s.id == retID && ret.conn != nil {
				tag += "(returned)"
			}
			openDesc = append(openDesc, tag)
		}
	}
	sort.Strings(openDesc)
	res.summary["open_at_listener"] = openDesc
	res.summary["returned"] = ret.conn != nil
	res.summary["established"] = len(est)
	if ret.conn != nil {
		if ret.conn.Context().Err() != nil {
			viol("returned:closed", "the connection ProbeAndDial returned is already closed")
		}
		if f, o := srvOpen(retID); !f || !o {
			viol("returned:not-at-listener", "the connection ProbeAndDial returned is not open at the listener")
		}
	}
	for _, x := range est {
		if ret.conn != nil && x.d.id == retID {
			continue
		}
		_, so := srvOpen(x.d.id)
		co := x.d.conn.Context().Err() == nil
		if so && !co {
			// the dialing side did call CloseWithError; the listener has not seen the close
			// within the grace period (delivery is quic-go's business, seen about once in
			// 4000 races here): counted, not a violation of ProbeAndDial
			res.closedLate++
		}
		if co {
			if ret.conn != nil {
				viol("leak:late-winner", fmt.Sprintf("%s established a connection after the winner was taken; %v after ProbeAndDial returned nobody has closed it and nobody holds it (still open at the listener=%v)", x.c.str, c09Grace, so))
			} else {
				viol("leak:no-winner", fmt.Sprintf("ProbeAndDial returned an error, yet the connection established by %s is still open %v later (still open at the listener=%v)", x.c.str, c09Grace, so))
			}
		}
	}
	wasCancelled := false
	for _, op := range cs.Prog {
		if op.Op == "C" {
			wasCancelled = true
		}
	}
	if ret.conn == nil && len(est) > 0 && !wasCancelled {
		sig := "lost:conn-available"
		if cs.SpawnMs > 0 {
			sig = "lost:early-alldone"
		}
		viol(sig, fmt.Sprintf("ProbeAndDial returned an error (%T) without the context being cancelled although %d dial(s) succeeded", ret.err, len(est)))
	}
	if ret.conn == nil && !wasCancelled && !stuck && !cs.FastFail { // with the short handshake timeout a reachable dial may legitimately time out on a starved machine
		// reachable candidates that were eligible must not all be missed
		elig := 0
		for _, p := range phases {
			for _, c := range p {
				if c.Kind == "r" {
					elig++
				}
			}
		}
		if elig > 0 && len(est) == 0 {
			sig := "lost:conn-available"
			if cs.SpawnMs > 0 {
				sig = "lost:early-alldone"
			}
			viol(sig, fmt.Sprintf("ProbeAndDial gave up with an error although %d reachable candidate(s) were being dialled and the context was not cancelled", elig))
		}
	}
	// ---- both sides: authentication on "their" connection ----
	if cs.Auth && ret.conn != nil && len(srvSnap) > 0 {
		primary := srvSnap[0]
		same := primary.id == retID
		res.summary["acceptor_primary_is_winner"] = same
		tctx, tcancel := context.WithTimeout(context.Background(), 6*time.Second)
		sconn, _ := transferquic.NewDialer(ret.conn, e.logger).Dial(tctx, "peer")
		rconn, _ := transferquic.NewDialer(primary.conn, e.logger).Dial(tctx, "peer")
		errS := make(chan error, 1)
		errR := make(chan error, 1)
		go func() { errS <- app.VerifC09Authenticate(tctx, sconn, "join-code-c09", true) }()
		go func() { errR <- app.VerifC09Authenticate(tctx, rconn, "join-code-c09", false) }()
		var es, er error
		select {
		case er = <-errR:
			if er != nil {
				// nobody will ever serve the sender's stream: no need to sit out its timeout
				tcancel()
			}
			es = <-errS
		case es = <-errS:
			er = <-errR
		}
		tcancel()
		res.summary["auth_sender_ok"] = es == nil
		res.summary["auth_receiver_ok"] = er == nil
		if !same {
			name := func(id string) string {
				for _, x := range est {
					if x.d.id == id {
						return x.c.str
					}
				}
				return "a connection whose dial was abandoned"
			}
			viol("pairing:acceptor-primary-abandoned", fmt.Sprintf("the accepting side committed to the first connection it accepted (%s), the dialing side to %s and closed the other one; the acceptor's transport authentication succeeded=%v, the dialer's cannot complete because nobody serves its connection", name(primary.id), name(retID), er == nil))
		} else if es != nil || er != nil {
			viol("pairing:auth-failed-on-same-connection", fmt.Sprintf("both sides use the same connection but transport authentication failed (acceptor ok=%v, dialer ok=%v)", er == nil, es == nil))
		}
	}

	// ---- tear down ----
	if ret.conn != nil {
		ret.conn.CloseWithError(0, "")
	}
	for _, x := range est {
		x.d.conn.CloseWithError(0, "harness cleanup")
	}
	ocancel()
	acancel()
	ln.Close()
	<-accDone
	for _, s := range srvSnap {
		s.conn.CloseWithError(0, "harness cleanup")
	}
	prober.Close()
	ltr.Close()
	lsock.Close()
	return res
}

func byStr(cs []c09cand, a string) c09cand {
	for _, c := range cs {
		if c.str == a {
			return c
		}
	}
	return c09cand{}
}

// ---- case generation ----
func c09perm(r *hx.Rand, n int) []int {
	p := make([]int, n)
	for i := range p {
		p[i] = i
	}
	for i := n - 1; i > 0; i-- {
		j := r.Intn(i + 1)
		p[i], p[j] = p[j], p[i]
	}
	return p
}

// reachable candidates with distinct addresses (optionally relay-prefixed), in random order
func c09reach(r *hx.Rand, n int, turn bool) []c09cand {
	p := c09perm(r, 4)
	var out []c09cand
	for i := 0; i < n && i < 4; i++ {
		out = append(out, c09cand{Kind: "r", Addr: p[i], Turn: turn})
	}
	return out
}

func c09noise(r *hx.Rand, cs []c09cand, turn bool) []c09cand {
	// duplicates, unreachable and invalid candidates mixed in
	out := append([]c09cand{}, cs...)
	if r.Intn(2) == 0 && len(cs) > 0 {
		out = append(out, cs[r.Intn(len(cs))])
	}
	if r.Intn(3) == 0 {
		out = append(out, c09cand{Kind: "u", Addr: 7, Turn: turn})
	}
	if r.Intn(3) == 0 {
		out = append(out, c09cand{Kind: "i", Addr: 8 + r.Intn(2), Turn: turn})
	}
	for i := len(out) - 1; i > 0; i-- {
		j := r.Intn(i + 1)
		out[i], out[j] = out[j], out[i]
	}
	return out
}

func c09releases(cs []c09cand, order []int) []c09op {
	var ops []c09op
	for _, i := range order {
		ops = append(ops, c09op{Op: "R", Z: cs[i].z()})
	}
	return ops
}

func c09insert(ops []c09op, pos int, op c09op) []c09op {
	out := append([]c09op{}, ops[:pos]...)
	out = append(out, op)
	return append(out, ops[pos:]...)
}

func c09corpus() []c09case {
	a := c09cand{Kind: "r", Addr: 0}
	b := c09cand{Kind: "r", Addr: 1}
	c := c09cand{Kind: "r", Addr: 3}
	var out []c09case
	// fixed by the late-winner fix: the winner is taken, then a second dial completes
	out = append(out, c09case{Kind: "corpus:late-winner", Cands: []c09cand{a, b},
		Prog: []c09op{{Op: "M"}, {Op: "R", Z: a.z()}, {Op: "R", Z: b.z()}}})
	out = append(out, c09case{Kind: "corpus:late-winner", Cands: []c09cand{b, c, a},
		Prog: []c09op{{Op: "M"}, {Op: "R", Z: c.z()}, {Op: "R", Z: a.z()}, {Op: "R", Z: b.z()}}})
	// the context is cancelled while the caller waits; a dial completes afterwards
	out = append(out, c09case{Kind: "corpus:cancelled-winner", Cands: []c09cand{a, b},
		Prog: []c09op{{Op: "M"}, {Op: "C"}, {Op: "R", Z: b.z()}, {Op: "R", Z: a.z()}}})
	// the only dial hands over its connection and finishes before the caller looks:
	// result channel and allDone are both ready (the select picks at random)
	for i := 0; i < 8; i++ {
		out = append(out, c09case{Kind: "corpus:alldone-race", Cands: []c09cand{a}, HoldFirst: true,
			Prog: []c09op{{Op: "R", Z: a.z()}, {Op: "M"}}})
	}
	// the goroutine waiting on the WaitGroup runs before the first wg.Add
	out = append(out, c09case{Kind: "corpus:early-alldone", Cands: []c09cand{a, b}, SpawnMs: 40,
		Prog: []c09op{{Op: "M"}, {Op: "R", Z: a.z()}, {Op: "R", Z: b.z()}}})
	out = append(out, c09case{Kind: "corpus:early-alldone", Cands: []c09cand{c}, SpawnMs: 40,
		Prog: []c09op{{Op: "M"}, {Op: "R", Z: c.z()}}})
	return out
}

func c09generate(r *hx.Rand, tier string) []c09case {
	mul := 1
	if tier == "thorough" {
		mul = 8
	}
	var out []c09case
	// F1-F3: several reachable addresses, every position of the caller within the completion order
	for n := 0; n < 100*mul; n++ {
		k := 2 + r.Intn(3)
		cs := c09reach(r, k, false)
		ops := c09releases(cs, c09perm(r, k))
		ops = c09insert(ops, r.Intn(k+1), c09op{Op: "M"})
		kind := "race"
		full := c09noise(r, cs, false)
		out = append(out, c09case{Kind: kind, Cands: full, Prog: ops})
	}
	// F4: outer cancellation while waiting, dials complete afterwards
	for n := 0; n < 24*mul; n++ {
		k := 1 + r.Intn(3)
		cs := c09reach(r, k, false)
		ops := c09releases(cs, c09perm(r, k))
		ops = append([]c09op{{Op: "M"}, {Op: "C"}}, ops...)
		out = append(out, c09case{Kind: "cancel", Cands: c09noise(r, cs, false), Prog: ops})
	}
	// F5: nothing reachable
	for n := 0; n < 2*mul; n++ {
		cs := []c09cand{{Kind: "u", Addr: 7}, {Kind: "i", Addr: 8}}
		if r.Bool() {
			cs = append(cs, c09cand{Kind: "i", Addr: 9, Turn: true})
		}
		out = append(out, c09case{Kind: "all-fail", Cands: cs, FastFail: true, Prog: []c09op{{Op: "M"}}})
	}
	// F6: phases - direct candidates before relay candidates, turn-only
	for n := 0; n < 24*mul; n++ {
		kd, kt := 1+r.Intn(2), 1+r.Intn(2)
		var c c09case
		switch n % 3 {
		case 0: // direct phase fails, relay phase wins
			c.Kind = "phase:relay-after-direct-failed"
			c.FastFail = true
			tc := c09reach(r, kt, true)
			c.Cands = append([]c09cand{{Kind: "i", Addr: 8}}, tc...)
			if r.Bool() {
				c.Cands = append(c.Cands, c09cand{Kind: "u", Addr: 7})
			}
			c.Prog = append([]c09op{{Op: "M"}, {Op: "M"}}, c09releases(tc, c09perm(r, kt))...)
		case 1: // turn-only: direct candidates are not dialled at all
			c.Kind = "phase:turn-only"
			c.TurnOnly = true
			tc := c09reach(r, kt, true)
			c.Cands = append(c09reach(r, kd, false), tc...)
			c.Prog = c09insert(c09releases(tc, c09perm(r, kt)), r.Intn(kt+1), c09op{Op: "M"})
		default: // a direct candidate wins, the relay phase never starts
			c.Kind = "phase:direct-wins"
			dc := c09reach(r, kd, false)
			c.Cands = append(c09reach(r, kt, true), dc...)
			c.Prog = c09insert(c09releases(dc, c09perm(r, kd)), r.Intn(kd+1), c09op{Op: "M"})
		}
		out = append(out, c)
	}
	// F7: channel and allDone ready together
	for n := 0; n < 10*mul; n++ {
		cs := c09reach(r, 1, false)
		full := append([]c09cand{}, cs...)
		if r.Bool() {
			full = append(full, c09cand{Kind: "i", Addr: 8})
		}
		out = append(out, c09case{Kind: "alldone-and-channel", Cands: full, HoldFirst: true,
			Prog: []c09op{{Op: "R", Z: cs[0].z()}, {Op: "M"}}})
	}
	// F8: the caller is slow to spawn the dials
	for n := 0; n < 4*mul; n++ {
		k := 1 + r.Intn(3)
		cs := c09reach(r, k, false)
		out = append(out, c09case{Kind: "slow-spawn", Cands: cs, SpawnMs: 30,
			Prog: append([]c09op{{Op: "M"}}, c09releases(cs, c09perm(r, k))...)})
	}
	// F10: a handshake that completes late (the others held meanwhile): a direct candidate
	// answering slowly while relay candidates exist, or a slow one among several direct ones
	waits := []int{1200, 2600}
	if tier == "thorough" {
		waits = []int{300, 1200, 2600, 5500, 11000}
	}
	for _, w := range waits {
		dc := c09reach(r, 1, false)
		tc := c09reach(r, 1, true)
		out = append(out, c09case{Kind: "late:direct-slow-relay-present", Cands: append(append([]c09cand{}, tc...), dc...),
			Prog: []c09op{{Op: "M"}, {Op: "W", A: w}, {Op: "R", Z: dc[0].z()}}})
		if tier == "thorough" {
			cs := c09reach(r, 2, false)
			out = append(out, c09case{Kind: "late:one-of-two-direct", Cands: cs,
				Prog: []c09op{{Op: "M"}, {Op: "W", A: w}, {Op: "R", Z: cs[1].z()}, {Op: "R", Z: cs[0].z()}}})
		}
	}
	// F9: both sides - which connection does the acceptor commit to, which one the dialer
	for n := 0; n < 12*mul; n++ {
		k := 2 + r.Intn(3)
		cs := c09reach(r, k, false)
		agree := 1
		if n%4 == 3 {
			agree = 0
		}
		out = append(out, c09case{Kind: fmt.Sprintf("pairing:agree=%d", agree), Cands: cs, Auth: true,
			Prog: []c09op{{Op: "M"}, {Op: "P", A: agree}}})
	}
	return out
}

func (c c09case) describe() string {
	var cs []string
	for _, x := range c.Cands {
		s := fmt.Sprintf("%s%d", x.Kind, x.Addr)
		if x.Turn {
			s = "turn:" + s
		}
		cs = append(cs, s)
	}
	var ops []string
	for _, o := range c.Prog {
		switch o.Op {
		case "R":
			ops = append(ops, fmt.Sprintf("R%d", o.Z))
		case "P":
			ops = append(ops, fmt.Sprintf("P%d", o.A))
		default:
			ops = append(ops, o.Op)
		}
	}
	return fmt.Sprintf("%s turnOnly=%v cands=[%s] schedule=[%s]", c.Kind, c.TurnOnly, strings.Join(cs, " "), strings.Join(ops, " "))
}

func runC09(cfg config) *hx.Report {
	rep := hx.NewReport("C09")
	rep.Rule = "races of the real ProbeAndDial against a real loopback QUIC listener reachable under up to 4 addresses, with duplicate, unreachable, invalid and turn:-prefixed candidates; schedules (release order of the dial goroutines after tr.Dial, position of the caller's select, outer cancellation, slow spawn, acceptor-first pairing) forced through hook points; corpus of the old failing replays first; non-trivial = at least two dials succeeded or a phase change happened; distinct by (candidates, schedule)"
	cf := &hx.CasesFile{Dir: cfg.out, Name: "C09", Module: "C09", Imports: []string{"Model.Race", "Corr.C09"}, PerShard: 300}
	env := newC09env()
	defer env.hole.Close()
	rng := hx.NewRand(cfg.seed)
	cases := append(c09corpus(), c09generate(rng, cfg.tier)...)
	t0 := time.Now()
	stuckCases := 0
	for id, cs := range cases {
		if stuckCases >= 3 {
			rep.Notes = append(rep.Notes, fmt.Sprintf("stopped after %d cases: three races got stuck", id))
			break
		}
		res := env.run(cs)
		for _, v := range res.violations {
			if strings.HasPrefix(v[0], "stuck:") {
				stuckCases++
				break
			}
		}
		rep.Evaluations++
		rep.TracesValidated++
		rep.Count(cs.Kind)
		if res.orphans > 0 {
			rep.Count("server-side-orphans")
		}
		if res.closedLate > 0 {
			rep.Count("closed-by-dialer-but-listener-saw-no-close-in-time")
		}
		desc := cs.describe()
		if res.established >= 2 || strings.HasPrefix(cs.Kind, "phase:") {
			rep.Nontrivial(desc)
		}
		zs := make([]string, len(cs.Cands))
		for i, c := range cs.Cands {
			zs[i] = fmt.Sprint(c.z())
		}
		if !res.skipCorr {
			cf.Add(fmt.Sprintf("C09.Race %d %s %s %s %s %s %s", id+1, hx.B(cs.TurnOnly), hx.List(zs), hx.List(res.events), res.ret, hx.List(res.classes), res.prim))
		} else {
			rep.Count("not-emitted-for-the-model")
		}
		rep.CaseIndex[fmt.Sprint(id+1)] = map[string]any{"case": cs, "trace": res.events, "diverged": res.diverged}
		seen := map[string]bool{}
		for _, v := range res.violations {
			if seen[v[0]] {
				continue
			}
			seen[v[0]] = true
			rep.Violate(v[0], desc+": "+v[1], map[string]any{"case": cs, "trace": res.events, "observed": res.summary})
		}
		if id%17 == 3 {
			rep.Sample(map[string]any{"case": desc, "trace": res.events, "observed": res.summary})
		}
	}
	cf.Close()
	rep.Notes = append(rep.Notes, fmt.Sprintf("%d races in %.1fs", len(cases), time.Since(t0).Seconds()))
	return rep
}

func init() { runners["C09"] = runC09 }

package main

import (
	"context"
	"fmt"
	"os"
	"path/filepath"
	"strings"
	"sync/atomic"
	"time"

	"github.com/sheerbytes/sheerbytes/internal/transfer"
	"github.com/sheerbytes/sheerbytes/pkg/manifest"
	"github.com/sheerbytes/sheerbytes/verifharness/internal/hx"
	"github.com/sheerbytes/sheerbytes/verifharness/internal/memnet"
)

// C02 (both real endpoints): one fault per run, injected by the in-memory
// transport (cut or close a stream / the connection at a byte position, flip a
// payload bit), by the caller (cancel either side at a moment of the transfer)
// or by the environment (source file shrinks or vanishes after the scan, output
// path obstructed).  Oracle = the property: whoever reports success must be
// right (receiver success => identical tree; sender success => the receiver
// confirmed every file, i.e. its tree is complete), and both sides return
// within the watchdog once the connection is gone.

type e2eFault struct {
	kind string
	at   int64
	s    int
	note string
}

func runC02e2e(cfg config, rep *hx.Report, n int) {
	rng := hx.NewRand(cfg.seed).Fork(9)
	base, _ := os.MkdirTemp("", "c02e")
	defer os.RemoveAll(base)
	nFlip := n / 4 // further runs: a payload or checksum bit flipped in a RESUMED transfer
	for i := 0; i < n+nFlip; i++ {
		if tooManyHangs(rep) {
			continue
		}
		cs := rng.Pick(3, 16, 64)
		streams := 1 + rng.Intn(4)
		resume := rng.Bool()
		// a resumed transfer: the output directory holds part of every file and honest metadata
		primed := rng.Intn(2) == 0
		if i >= n {
			resume, primed = true, true
		}
		seed := rng.U64() % 1000000
		tr := hx.NewRand(seed)
		tree := genTree(tr, cs, 5)
		if len(tree.files) == 0 {
			tree.files = append(tree.files, treeFile{"only.bin", tr.Bytes(3*cs + 1)})
		}
		dir := filepath.Join(base, fmt.Sprintf("e%d", i))
		src := filepath.Join(dir, "src", "root")
		out := filepath.Join(dir, "out")
		os.RemoveAll(dir)
		tree.materialise(src)
		os.MkdirAll(out, 0755)
		total := 0
		for _, f := range tree.files {
			total += len(f.data)
		}
		kinds := []string{"cut-data-graceful", "cut-data-abrupt", "cut-control-s2r", "cut-control-r2s", "flip-data", "cancel-sender", "cancel-receiver",
			"source-shrinks", "source-vanishes", "output-obstructed", "conn-lost", "conn-closed-code0"}
		f := e2eFault{kind: kinds[rng.Intn(len(kinds))], at: int64(rng.Intn(total + 60)), s: rng.Intn(streams)}
		if i >= n {
			f.kind, f.at = "flip-data", int64(rng.Pick(4, 4, 4, 0, 1, 2, 3))
		}
		if resume && primed {
			if k := seedPrior(src, out, cs, rng); k > 0 {
				f.note = fmt.Sprintf("resumed: %d chunks already there", k)
				rep.Count("e2e-resumed-from-prior-state")
			}
		}
		var scancel, rcancel context.CancelFunc
		var fired atomic.Bool
		c := xferCfg{chunkSize: cs, streams: streams, resume: resume, quicLike: rng.Intn(3) == 0, timeout: 8 * time.Second}
		c.cancelSender = func(cf context.CancelFunc) { scancel = cf }
		c.cancelReceiver = func(cf context.CancelFunc) { rcancel = cf }
		c.onConns = func(a, b *memnet.Conn) {
			nOpen := 0
			a.OnOpen = func(s *memnet.Stream) {
				idx := nOpen
				nOpen++
				switch {
				case idx == 0 && f.kind == "cut-control-s2r":
					s.CutAfter(f.at%200+8, memnet.ErrAbrupt, func() { fired.Store(true) })
				case idx == 0 && f.kind == "conn-lost":
					s.CutAfter(f.at%300+12, memnet.ErrAbrupt, func() { fired.Store(true); a.Fail(memnet.ErrAbrupt, memnet.ErrAbrupt) })
				case idx == 0 && f.kind == "conn-closed-code0":
					s.CutAfter(f.at%300+12, memnet.ErrGraceful, func() { fired.Store(true); a.Fail(memnet.ErrGraceful, memnet.ErrGraceful) })
				case idx == 1+f.s && f.kind == "cut-data-graceful":
					s.CutAfter(f.at%int64(total/streams+21), memnet.ErrGraceful, func() { fired.Store(true) })
				case idx == 1+f.s && f.kind == "cut-data-abrupt":
					s.CutAfter(f.at%int64(total/streams+21), memnet.ErrAbrupt, func() { fired.Store(true) })
				case idx == 1+f.s && f.kind == "flip-data":
					// the checksum field (bytes 16..19) or the first payload byte of the first frame on that
					// stream; the property is about payload / checksum corruption, not about frame headers
					s.FlipBitAt(16 + f.at%5)
				case idx == 1+f.s && f.kind == "cancel-sender":
					s.CutAfter(f.at%int64(total/streams+21), memnet.ErrAbrupt, nil)
					s.CutAfter(-1, nil, nil)
				}
			}
		}
		switch f.kind {
		case "source-shrinks":
			c.sendOpts = func(o *transfer.Options) {
				o.OnFileStart = func(rel string, size int64, _ transfer.RuntimeParams) {
					if size > 1 && !fired.Swap(true) {
						os.Truncate(filepath.Join(src, filepath.FromSlash(rel)), size/2)
					}
				}
			}
		case "source-vanishes":
			c.sendOpts = func(o *transfer.Options) {
				o.OnFileStart = func(rel string, size int64, _ transfer.RuntimeParams) {
					if size > 0 && !fired.Swap(true) {
						os.Remove(filepath.Join(src, filepath.FromSlash(rel)))
					}
				}
			}
		case "output-obstructed":
			// an entry of the wrong kind sits on an output path: a directory where a file
			// (empty or not) should go, a regular file where a directory should go (an
			// empty directory of the tree, or the parent directory of a file)
			type obst struct{ how, rel string }
			var cands []obst
			for _, tf := range tree.files {
				cands = append(cands, obst{"dir-at-file", tf.rel})
				if k := strings.LastIndex(tf.rel, "/"); k > 0 {
					cands = append(cands, obst{"file-at-dir", tf.rel[:k]})
				}
			}
			for _, d := range tree.dirs {
				cands = append(cands, obst{"file-at-dir", d}, obst{"file-at-dir", d})
			}
			if len(cands) > 0 {
				o := cands[rng.Intn(len(cands))]
				target := filepath.Join(out, filepath.FromSlash(o.rel))
				if o.how == "dir-at-file" {
					os.MkdirAll(filepath.Join(target, "blocker"), 0755)
				} else {
					os.MkdirAll(filepath.Dir(target), 0755)
					os.WriteFile(target, []byte("in the way"), 0644)
				}
				f.note = strings.TrimSpace(f.note + " " + o.how + ":" + o.rel)
				fired.Store(true)
			}
		case "cancel-sender", "cancel-receiver":
			delay := time.Duration(rng.Intn(4000)) * time.Microsecond
			who := f.kind
			go func() {
				time.Sleep(delay)
				fired.Store(true)
				if who == "cancel-sender" && scancel != nil {
					scancel()
				} else if rcancel != nil {
					rcancel()
				}
			}()
		case "cut-control-r2s":
			inner := c.onConns
			c.onConns = func(a, b *memnet.Conn) {
				inner(a, b)
				// the receiver does not open streams; its writes go out on the accepted control stream:
				// cut what it writes there through the peer-side stream list once it exists
				go func() {
					for k := 0; k < 2000; k++ {
						ss := b.Streams()
						if len(ss) > 0 {
							ss[0].CutAfter(f.at%60+1, memnet.ErrAbrupt, func() { fired.Store(true) })
							return
						}
						time.Sleep(50 * time.Microsecond)
					}
				}()
			}
		}
		if resume && primed {
			// as the application does by default: the last recorded chunk is sent again
			inner := c.sendOpts
			c.sendOpts = func(o *transfer.Options) {
				if inner != nil {
					inner(o)
				}
				o.ResumeVerifyTail = 1
			}
		}
		srcDigest, _ := digestTree(src) // before a source fault changes it
		res := runXfer(src, out, c)
		rep.Evaluations++
		rep.Count("e2e:" + f.kind)
		desc := map[string]any{"tree_seed": seed, "cs": cs, "streams": streams, "resume": resume, "fault": f.kind, "at": f.at, "stream": f.s, "quic_like": c.quicLike, "detail": f.note}
		sOK := res.sendDone && res.sendErr == nil
		rOK := res.recvDone && res.recvErr == nil
		if fired.Load() {
			rep.Nontrivial(fmt.Sprintf("%d:%s:%d", seed, f.kind, f.at))
		}
		switch {
		case sOK && rOK:
			rep.Count("e2e-outcome:both-success")
		case !sOK && !rOK:
			rep.Count("e2e-outcome:both-fail")
		default:
			rep.Count("e2e-outcome:split")
		}
		if !res.sendDone || !res.recvDone {
			rep.Violate("no-stop:"+f.kind, fmt.Sprintf("after fault %s (at %d) a side had not returned within 8 s: sender returned=%v receiver returned=%v", f.kind, f.at, res.sendDone, res.recvDone), desc)
			continue
		}
		if rOK || sOK {
			dd, _ := digestTree(out)
			if f.kind == "output-obstructed" {
				delete(dd, "") // nothing special; the blocker would show as a difference anyway
			}
			if diff := diffTrees(srcDigest, dd); len(diff) > 0 {
				who := "receiver"
				if !rOK {
					who = "sender"
				}
				rep.Violate("false-success:"+f.kind, fmt.Sprintf("%s reported success after fault %s but the tree differs: %v", who, f.kind, diff), desc)
			}
		}
		if i < 3 {
			rep.Sample(map[string]any{"e2e": f.kind, "sender_ok": sOK, "receiver_ok": rOK, "ms": res.dur.Milliseconds()})
		}
		os.RemoveAll(dir)
	}
}

// seedPrior leaves in out what an interrupted earlier fetch of src would have left: for every
// file a number of its chunks (a prefix, sometimes with a hole, sometimes all of them) and
// metadata that says exactly that.  Returns the number of chunks recorded.
func seedPrior(src, out string, cs int, r *hx.Rand) int {
	m, err := manifest.Scan(src)
	if err != nil {
		return 0
	}
	recorded := 0
	for _, it := range m.Items {
		if it.IsDir || it.Size == 0 || r.Intn(5) == 0 {
			continue
		}
		data, err := os.ReadFile(filepath.Join(src, filepath.FromSlash(it.RelPath)))
		if err != nil {
			continue
		}
		total := (len(data) + cs - 1) / cs
		have := 1 + r.Intn(total)
		op := filepath.Join(out, filepath.FromSlash(it.RelPath))
		os.MkdirAll(filepath.Dir(op), 0755)
		buf := make([]byte, len(data))
		sc, err := transfer.LoadOrCreateSidecar(transfer.SidecarPath(out, "", transfer.VerifSidecarIdentifier(it)), it.ID, it.Size, uint32(cs))
		if err != nil {
			continue
		}
		for k := 0; k < have; k++ {
			if have > 2 && k == have-2 && r.Intn(4) == 0 {
				continue // completed out of order: a hole below the last recorded chunk
			}
			lo, hi := k*cs, (k+1)*cs
			if hi > len(data) {
				hi = len(data)
			}
			copy(buf[lo:hi], data[lo:hi])
			sc.MarkComplete(uint32(k))
			recorded++
		}
		os.WriteFile(op, buf, 0644)
		if err := sc.Flush(); err != nil {
			panic(err)
		}
	}
	return recorded
}

package main

import (
	"context"
	"crypto/sha256"
	"encoding/binary"
	"encoding/hex"
	"encoding/json"
	"errors"
	"fmt"
	"hash/crc32"
	"io"
	"io/fs"
	"os"
	"path/filepath"
	"sort"
	"strings"
	"sync/atomic"
	"time"

	"github.com/sheerbytes/sheerbytes/internal/app"
	"github.com/sheerbytes/sheerbytes/internal/transfer"
	"github.com/sheerbytes/sheerbytes/internal/verifhook"
	"github.com/sheerbytes/sheerbytes/pkg/manifest"
	"github.com/sheerbytes/sheerbytes/verifharness/internal/hx"
	"github.com/sheerbytes/sheerbytes/verifharness/internal/memnet"
)

// C07: the receiver never touches anything outside its output directory.
//
//  (i)  path/filepath Clean/Join/Dir/IsAbs, strings.Trim, validateRelPath,
//       SidecarPath, sidecarIdentifier, validateManifestPaths and resumeSidecarDirs
//       on generated strings vs Model/Path.v + Model/PathFs.v (P* cases);
//  (ii) a scripted (hostile or odd) sender against the real RecvManifestMultiStream
//       in a sandbox directory nested below decoy files, both root-dir modes, resume
//       on/off, and runs of the real sender; the real clearResumeData with hostile
//       offered root names (RX / AX cases).
// Property oracle (independent of the Coq model): snapshot (type, size, mtime,
// digest) of everything around the output directory before vs after - any entry
// outside it that was created, modified or deleted is a violation; and any path
// field accepted by the validators that Go's own filepath.Rel places outside.

func init() { runners["C07"] = runC07 }

// ---------- generators ----------

var c07Segs = []string{".", "..", "", "a", "b.c", "..a", "a..", "...", "x..y", "\\", "..\\", "..\\..", "é", "a b", "\x00", ".hidden", "~", "-", "UP", "0", "d1", "f_1", " ", "\t"}

func c07Seg(r *hx.Rand) string {
	switch r.Intn(40) {
	case 0:
		return strings.Repeat("L", 255)
	case 1:
		return strings.Repeat("M", 256)
	case 2:
		return string(r.Bytes(1 + r.Intn(4)))
	case 3:
		return c07Segs[r.Intn(len(c07Segs))] + c07Segs[r.Intn(len(c07Segs))]
	}
	return c07Segs[r.Intn(len(c07Segs))]
}

// c07Path: slash-joined segments with "."/".."/empty segments, leading/trailing/double slashes.
func c07Path(r *hx.Rand) string {
	switch r.Intn(60) {
	case 0:
		return ""
	case 1:
		return "/"
	case 2:
		return strings.Repeat("x", 1024)
	case 3:
		return strings.Repeat("y", 1025)
	case 4:
		return strings.Repeat("d/", 511) + "zz"
	case 5:
		return strings.Repeat("../", 1+r.Intn(6)) + "x"
	case 6, 7, 8, 9:
		return c07Hostile(r)
	}
	n := 1 + r.Intn(6)
	parts := make([]string, n)
	for i := range parts {
		parts[i] = c07Seg(r)
	}
	p := strings.Join(parts, "/")
	if r.Intn(6) == 0 {
		p = "/" + p
	}
	if r.Intn(8) == 0 {
		p += "/"
	}
	return p
}

// a plain, legal name
func c07Name(r *hx.Rand) string {
	names := []string{"a", "b.txt", "x..y", "..a", "a..", "...", "sp ace", "é", "UP", "0", "f_1", "back\\slash", ".hidden", "~", "-d"}
	return names[r.Intn(len(names))]
}

func c07LegalRel(r *hx.Rand) string {
	n := 1 + r.Intn(3)
	parts := make([]string, n)
	for i := range parts {
		parts[i] = c07Name(r)
	}
	return strings.Join(parts, "/")
}

var c07Traversals = []string{"../x", "../../x", "a/../../x", "..", "../", "a/../..", "../../../x/y", "./../x", "a//../../x",
	"../../../../x", "../../../../../../x", "a/b/../../../x", "../l2/../x", "../.thruflux_resumedata/x", "..\\x/../../x"}

// strings that look hostile; some are legal names, the others must be rejected (and in no case may anything escape)
var c07Odd = []string{"/abs", "/", "a/./b", "a//b", "a/", ".", "a..b", "..a", "a..", "...", "..\\x", "a\\..\\b", "....//x", "\x00", "a/\x00/b", " ", "é/..x"}

// parent references spelled with another platform's separator: legal single names here (one odd
// segment each) - unless something turns the separators into real ones after validation
var c07Foreign = []string{"..\\x", "..\\..\\x", "..\\..\\..\\x", "..\\..\\..\\..\\..\\x", "d\\..\\..\\..\\x", "..\\l2\\..\\..\\x", "sub/..\\..\\..\\x", "..\\.thruflux_resumedata\\x", "..\\..\\decoy.txt"}

func c07Hostile(r *hx.Rand) string {
	if r.Intn(6) == 1 {
		return c07Foreign[r.Intn(len(c07Foreign))]
	}
	if r.Intn(6) == 0 {
		// a traversal inside a path that is also too long (1024 is the protocol's limit):
		// whichever check comes first must not hide the other
		t := c07Traversals[r.Intn(len(c07Traversals))]
		switch r.Intn(4) {
		case 0:
			return t + "/" + strings.Repeat("p", 1030)
		case 1:
			return strings.Repeat("q/", 520) + strings.Repeat("../", 523) + "x"
		case 2:
			return t + "/" + strings.Repeat("r", 1024-len(t)-1) // exactly 1024 bytes
		default:
			return strings.Repeat("../", 2) + strings.Repeat("L", 255) + "/" + strings.Repeat("M", 255) + "/" + strings.Repeat("N", 255) + "/" + strings.Repeat("O", 255) + "/x"
		}
	}
	if r.Intn(3) > 0 {
		return c07Traversals[r.Intn(len(c07Traversals))]
	}
	return c07Odd[r.Intn(len(c07Odd))]
}

// ---------- Go-side containment (filepath.Rel), independent of the model ----------

func c07Inside(out, p string) bool {
	rel, err := filepath.Rel(filepath.Clean(out), filepath.Clean(p))
	if err != nil {
		return false
	}
	return rel != ".." && !strings.HasPrefix(rel, "../")
}

// ---------- Coq terms ----------

func c07Items(items []manifest.FileItem) string {
	xs := make([]string, len(items))
	for i, it := range items {
		xs[i] = fmt.Sprintf("(Item %s %s %s %s)", hx.Str(it.RelPath), hx.Str(it.ID), hx.B(it.IsDir), hx.Z(it.Size))
	}
	return hx.List(xs)
}

func c07StrList(xs []string) string {
	ys := make([]string, len(xs))
	for i, x := range xs {
		ys[i] = hx.Str(x)
	}
	return hx.List(ys)
}

// ---------- (i) path functions ----------

func c07Paths(cfg config, rep *hx.Report, cf *hx.CasesFile, rng *hx.Rand, id *int, n int) {
	outAbs := "/s/l1/l2/out"
	add := func(term string, idx map[string]any) {
		*id++
		rep.Evaluations++
		rep.CaseIndex[fmt.Sprint(*id)] = idx
		cf.Add(fmt.Sprintf(term, *id))
	}
	for i := 0; i < n; i++ {
		p := c07Path(rng)
		rep.Count("path-string")
		rep.Nontrivial("p:" + p)
		add(fmt.Sprintf("C07.PClean %%d %s %s %s", hx.Str(p), hx.Str(filepath.Clean(p)), hx.B(filepath.IsAbs(p))), map[string]any{"op": "Clean", "p": p})
		verr := transfer.VerifValidateRelPath(p)
		add(fmt.Sprintf("C07.PVal %%d %s %s", hx.Str(p), hx.B(verr == nil)), map[string]any{"op": "validateRelPath", "p": p})
		if verr == nil {
			rep.Count("path-accepted")
			for _, o := range []string{outAbs, "rel/out", "", ".", "../o", "/"} {
				j := filepath.Join(o, filepath.FromSlash(p))
				base := o
				if base == "" {
					base = "."
				}
				if !c07Inside(base, j) || !c07Inside(base, filepath.Dir(j)) {
					rep.Violate("validate-accepts-escaping-path", fmt.Sprintf("validateRelPath accepts %q but Join(%q, it) = %q is outside", p, o, j), map[string]any{"path": p, "out": o})
				}
			}
		}
		switch i % 4 {
		case 0:
			add(fmt.Sprintf("C07.PDir %%d %s %s", hx.Str(p), hx.Str(filepath.Dir(p))), map[string]any{"op": "Dir", "p": p})
		case 1:
			add(fmt.Sprintf("C07.PTrim %%d %s %s", hx.Str(p), hx.Str(strings.Trim(p, "/"))), map[string]any{"op": "Trim", "p": p})
		case 2:
			k := 2 + rng.Intn(2)
			el := make([]string, k)
			for j := range el {
				switch rng.Intn(5) {
				case 0:
					el[j] = ""
				case 1:
					el[j] = outAbs
				default:
					el[j] = c07Path(rng)
				}
			}
			add(fmt.Sprintf("C07.PJoin %%d %s %s", c07StrList(el), hx.Str(filepath.Join(el...))), map[string]any{"op": "Join", "elems": el})
			// Dir of a joined path (the only way the receiver uses Dir)
			jp := filepath.Join(el...)
			add(fmt.Sprintf("C07.PDir %%d %s %s", hx.Str(jp), hx.Str(filepath.Dir(jp))), map[string]any{"op": "Dir", "p": jp})
		case 3:
			o := []string{outAbs, "", "rel", "/", "a/../.."}[rng.Intn(5)]
			root := []string{"", "r", "/r/", "//", "../x", "a/b", p}[rng.Intn(7)]
			fid := []string{"", "0123456789abcdef", "../../e", "a/b", p}[rng.Intn(5)]
			add(fmt.Sprintf("C07.PSide %%d %s %s %s %s", hx.Str(o), hx.Str(root), hx.Str(fid), hx.Str(transfer.SidecarPath(o, root, fid))),
				map[string]any{"op": "SidecarPath", "out": o, "root": root, "id": fid})
			iid := []string{"", "", "id1", p}[rng.Intn(4)]
			add(fmt.Sprintf("C07.PIdent %%d %s %s %s", hx.Str(p), hx.Str(iid), hx.Str(transfer.VerifSidecarIdentifier(manifest.FileItem{RelPath: p, ID: iid}))),
				map[string]any{"op": "sidecarIdentifier", "rel": p, "id": iid})
		}
		if i%5 == 0 {
			// offered root names
			root := p
			if rng.Intn(2) == 0 {
				root = []string{"", " ", "r", "..", ".", "../../x", "a/b", "  \t", "x..y", "/"}[rng.Intn(10)]
			}
			dirs := app.VerifResumeSidecarDirs(outAbs, root)
			sort.Strings(dirs)
			add(fmt.Sprintf("C07.PResumeDirs %%d %s %s %s", hx.Str(outAbs), hx.Str(root), c07StrList(dirs)), map[string]any{"op": "resumeSidecarDirs", "root": root})
			for _, d := range dirs {
				if !c07Inside(outAbs, d) {
					rep.Violate("escape:offered-root:resume-dirs", fmt.Sprintf("resumeSidecarDirs(%q, %q) contains %q outside the output directory", outAbs, root, d), map[string]any{"out": outAbs, "offered_root": root})
				}
			}
		}
		if i%3 == 0 {
			// manifests
			m := manifest.Manifest{Root: []string{"", "r", "x..y", "..", ".", "a/b", "../../x", "/", p}[rng.Intn(9)]}
			ni := rng.Intn(4)
			for j := 0; j < ni; j++ {
				it := manifest.FileItem{RelPath: c07LegalRel(rng), ID: "0123456789abcdef", IsDir: rng.Intn(3) == 0, Size: int64(rng.Intn(100))}
				switch rng.Intn(6) {
				case 0:
					it.RelPath = c07Path(rng)
				case 1:
					it.ID = []string{"", "../../e", "a/b", "..", ".", "x\\y", c07Path(rng)}[rng.Intn(7)]
				}
				m.Items = append(m.Items, it)
			}
			merr := transfer.VerifValidateManifestPaths(m)
			add(fmt.Sprintf("C07.PManifest %%d %s %s %s", hx.Str(m.Root), c07Items(m.Items), hx.B(merr == nil)), map[string]any{"op": "validateManifestPaths", "manifest": fmt.Sprintf("%q", fmt.Sprint(m))})
			if merr == nil {
				rep.Count("manifest-accepted")
				c07ManifestOracle(rep, outAbs, m)
			} else {
				rep.Count("manifest-rejected")
			}
		}
	}
}

// every path the receiver derives from an ACCEPTED manifest, checked with filepath.Rel
func c07ManifestOracle(rep *hx.Report, out string, m manifest.Manifest) {
	rooted := filepath.Join(out, m.Root)
	bad := func(field, p string) {
		rep.Violate("manifest-accepts-escaping-"+field, fmt.Sprintf("validateManifestPaths accepts a manifest whose %s leads to %q outside %q", field, p, out), map[string]any{"manifest_root": m.Root, "items": fmt.Sprintf("%q", fmt.Sprint(m.Items))})
	}
	if !c07Inside(out, rooted) {
		bad("root", rooted)
	}
	for _, base := range []string{out, rooted} {
		for _, it := range m.Items {
			p := filepath.Join(base, filepath.FromSlash(it.RelPath))
			if !c07Inside(out, p) || !c07Inside(out, filepath.Dir(p)) {
				bad("item-path", p)
			}
			sp := transfer.SidecarPath(base, "", transfer.VerifSidecarIdentifier(it))
			if !c07Inside(out, sp) || !c07Inside(out, filepath.Dir(sp)) {
				bad("item-id", sp)
			}
		}
	}
}

// ---------- (ii) sandbox, snapshots ----------

type c07Entry struct {
	Kind   int // 0 dir, 1 file, 2 other
	Size   int64
	MTime  int64
	Digest string
}

func c07Snapshot(root string) map[string]c07Entry {
	out := map[string]c07Entry{}
	_ = filepath.WalkDir(root, func(p string, d fs.DirEntry, err error) error {
		if err != nil {
			return nil
		}
		info, ierr := d.Info()
		if ierr != nil {
			return nil
		}
		e := c07Entry{MTime: info.ModTime().UnixNano()}
		switch {
		case d.IsDir():
			e.Kind = 0
		case info.Mode().IsRegular():
			e.Kind = 1
			e.Size = info.Size()
			if b, rerr := os.ReadFile(p); rerr == nil {
				h := sha256.Sum256(b)
				e.Digest = hex.EncodeToString(h[:8])
			}
		default:
			e.Kind = 2
		}
		out[p] = e
		return nil
	})
	return out
}

type c07Change struct {
	Path string `json:"path"`
	What string `json:"what"` // created | deleted | modified
}

// entries created, deleted or (files) modified; directory mtimes are derived facts
// (an entry appeared or vanished inside) and are not reported separately
func c07Diff(before, after map[string]c07Entry) []c07Change {
	var ch []c07Change
	for p, a := range after {
		b, ok := before[p]
		if !ok {
			ch = append(ch, c07Change{p, "created"})
			continue
		}
		if a.Kind != b.Kind || (a.Kind != 0 && (a.Size != b.Size || a.Digest != b.Digest || a.MTime != b.MTime)) {
			ch = append(ch, c07Change{p, "modified"})
		}
	}
	for p := range before {
		if _, ok := after[p]; !ok {
			ch = append(ch, c07Change{p, "deleted"})
		}
	}
	sort.Slice(ch, func(i, j int) bool { return ch[i].Path < ch[j].Path })
	return ch
}

type c07Sandbox struct {
	caseDir, out string
	outer        []string // directories between caseDir and out
}

// out is nested: caseDir/0/1/2/3/4/5/l1/l2/out, with decoys at every level around it
func c07MakeSandbox(base string, n int, plantInside bool) (c07Sandbox, error) {
	sb := c07Sandbox{caseDir: filepath.Join(base, fmt.Sprintf("c%d", n))}
	deep := filepath.Join(sb.caseDir, "0", "1", "2", "3", "4", "5")
	l1 := filepath.Join(deep, "l1")
	l2 := filepath.Join(l1, "l2")
	sb.out = filepath.Join(l2, "out")
	if err := os.MkdirAll(sb.out, 0755); err != nil {
		return sb, err
	}
	w := func(p, content string) {
		_ = os.MkdirAll(filepath.Dir(p), 0755)
		_ = os.WriteFile(p, []byte(content), 0644)
	}
	// decoys outside out: plain files, directories, resume metadata directories with sidecars
	w(filepath.Join(l2, "secret.txt"), "secret")
	w(filepath.Join(l2, "x.sbxmap"), "not a sidecar")
	w(filepath.Join(l2, "x"), "file named x")
	w(filepath.Join(l1, "x", "keep.txt"), "keep")
	w(filepath.Join(l1, "sib", "file.txt"), "sibling")
	w(filepath.Join(deep, "x.sbxmap"), "decoy")
	w(filepath.Join(filepath.Dir(deep), "five.txt"), "five")
	for _, d := range []string{l2, l1, filepath.Join(l1, "x"), deep} {
		_, _ = transfer.CreateSidecar(filepath.Join(d, ".thruflux_resumedata", "0123456789abcdef.sbxmap"), "0123456789abcdef", 9999, 7)
		_, _ = transfer.CreateSidecar(filepath.Join(d, ".thruflux_resumedata", "x.sbxmap"), "other", 12, 4)
	}
	// a valid sidecar that mismatches whatever is requested, where an id of "../../x" points
	_, _ = transfer.CreateSidecar(filepath.Join(l2, "e.sbxmap"), "zzz", 77, 5)
	if plantInside {
		w(filepath.Join(sb.out, "old.txt"), "old")
		_, _ = transfer.CreateSidecar(filepath.Join(sb.out, ".thruflux_resumedata", "0123456789abcdef.sbxmap"), "0123456789abcdef", 9999, 7)
		_, _ = transfer.CreateSidecar(filepath.Join(sb.out, "r", ".thruflux_resumedata", "id2.sbxmap"), "id2", 4242, 3)
	}
	return sb, nil
}

// ---------- scripted sender ----------

type c07Begin struct {
	Rel      string `json:"rel"`
	Size     uint64 `json:"size"`
	Chunk    uint32 `json:"chunk"`
	SendData bool   `json:"send_data,omitempty"`
}

type c07Scn struct {
	Kind    string              `json:"kind"` // which field carries the odd/hostile string
	NoRoot  bool                `json:"no_root_dir"`
	Resume  bool                `json:"resume"`
	Root    string              `json:"root"`
	Items   []manifest.FileItem `json:"items"`
	Begins  []c07Begin          `json:"begins"`
	Planted bool                `json:"planted_inside"`
}

func c07RawFileBegin(b c07Begin, streamID uint64) []byte {
	var buf []byte
	buf = append(buf, transfer.VerifTypeFileBegin)
	buf = binary.BigEndian.AppendUint16(buf, uint16(len(b.Rel)))
	buf = append(buf, b.Rel...)
	buf = binary.BigEndian.AppendUint64(buf, b.Size)
	buf = binary.BigEndian.AppendUint32(buf, b.Chunk)
	buf = binary.BigEndian.AppendUint64(buf, streamID)
	buf = append(buf, 0) // HashAlgNone
	buf = binary.BigEndian.AppendUint16(buf, 0)
	buf = binary.BigEndian.AppendUint16(buf, 0)
	buf = binary.BigEndian.AppendUint32(buf, 0)
	buf = binary.BigEndian.AppendUint32(buf, 0)
	return buf
}

// the hand encoder above must agree with the real writer on a record it accepts
func c07SelfCheck() error {
	b := c07Begin{Rel: "dir/file.bin", Size: 123456, Chunk: 4096}
	want, err := transfer.VerifEncodeControl(transfer.FileBegin{RelPath: b.Rel, FileSize: b.Size, ChunkSize: b.Chunk, StreamID: 7})
	if err != nil {
		return err
	}
	if string(want) != string(c07RawFileBegin(b, 7)) {
		return fmt.Errorf("raw FileBegin encoder disagrees with writeFileBegin")
	}
	return nil
}

type c07Run struct {
	err      error
	handled  int
	timedOut bool
	m        manifest.Manifest // as the receiver decoded it
}

var c07crc = crc32.MakeTable(crc32.Castagnoli)

func c07RunScripted(out string, scn c07Scn) c07Run {
	var res c07Run
	m := manifest.Manifest{Root: scn.Root, Items: scn.Items}
	for _, it := range scn.Items {
		if it.IsDir {
			m.FolderCount++
		} else {
			m.FileCount++
			m.TotalBytes += it.Size
		}
	}
	hdr, err := transfer.VerifWriteControlHeader(m)
	if err != nil {
		res.err = err
		return res
	}
	if dm, _, derr := transfer.VerifReadControlHeader(hdr); derr == nil {
		res.m = dm
	} else {
		res.m = m
	}
	a, b := memnet.Pair(memnet.Mode{VisibleAtOpen: true, BufferLimit: 1 << 20})
	var handled int32
	sig := make(chan struct{}, 4096)
	fileDone := make(chan struct{}, 4096)
	verifhook.Set(func(name string, args ...any) {
		if name == "recv.control.handled" && len(args) == 1 {
			if t, ok := args[0].(byte); ok && t == transfer.VerifTypeFileBegin {
				atomic.AddInt32(&handled, 1)
				sig <- struct{}{}
			}
		}
	})
	defer verifhook.Set(nil)
	ctx, cancel := context.WithCancel(context.Background())
	defer cancel()
	done := make(chan error, 1)
	go func() {
		_, rerr := transfer.RecvManifestMultiStream(ctx, tconn{b}, out, transfer.Options{
			Resume: scn.Resume, NoRootDir: scn.NoRoot, HashAlg: "none", ParallelFiles: 1,
			FileDoneFn: func(string, bool) { fileDone <- struct{}{} },
		})
		done <- rerr
	}()
	finished := false
	wait := func(ch chan struct{}) bool { // true = event, false = receiver returned / watchdog
		select {
		case <-ch:
			return true
		case rerr := <-done:
			res.err, finished = rerr, true
			return false
		case <-time.After(20 * time.Second):
			res.timedOut = true
			return false
		}
	}
	cs, err := a.OpenStream(ctx)
	if err != nil {
		res.err = err
		return res
	}
	go func() { _, _ = io.Copy(io.Discard, cs) }()
	_, _ = cs.Write(hdr)
	ds, _ := transfer.VerifEncodeControl(transfer.DataStreams{Count: 1})
	_, _ = cs.Write(ds)
	var data *memnet.Stream
	itemOf := map[string]manifest.FileItem{}
	for _, it := range res.m.Items {
		if !it.IsDir {
			itemOf[it.RelPath] = it
		}
	}
	for _, bg := range scn.Begins {
		if _, werr := cs.Write(c07RawFileBegin(bg, 0)); werr != nil {
			break
		}
		if !wait(sig) {
			break
		}
		it, ok := itemOf[bg.Rel]
		if bg.SendData && ok && bg.Chunk > 0 && bg.Size > 0 {
			if data == nil {
				data, _ = a.OpenStream(ctx)
			}
			key := transfer.VerifFileKeyForItem(it)
			n := (bg.Size + uint64(bg.Chunk) - 1) / uint64(bg.Chunk)
			for idx := uint64(0); idx < n; idx++ {
				l := uint64(bg.Chunk)
				if idx == n-1 {
					l = bg.Size - idx*uint64(bg.Chunk)
				}
				payload := make([]byte, l)
				for k := range payload {
					payload[k] = byte(idx + uint64(k))
				}
				fr := binary.BigEndian.AppendUint64(nil, key)
				fr = binary.BigEndian.AppendUint32(fr, uint32(idx))
				fr = binary.BigEndian.AppendUint32(fr, uint32(l))
				fr = binary.BigEndian.AppendUint32(fr, crc32.Checksum(payload, c07crc))
				_, _ = data.Write(append(fr, payload...))
			}
			if !wait(fileDone) {
				break
			}
		} else if bg.SendData && ok {
			// an empty file completes on FileEnd, as with the real sender
			fe, _ := transfer.VerifEncodeControl(transfer.FileEnd{StreamID: transfer.VerifFileKeyForItem(it)})
			_, _ = cs.Write(fe)
			if !wait(fileDone) {
				break
			}
		}
	}
	if !finished && !res.timedOut {
		end, _ := transfer.VerifEncodeControl(nil)
		_, _ = cs.Write(end)
		// give the receiver the chance to finish on its own (all files complete), then hang up
		select {
		case rerr := <-done:
			res.err, finished = rerr, true
		case <-time.After(150 * time.Millisecond):
		}
	}
	if !finished {
		_ = cs.Close()
		if data != nil {
			_ = data.Close()
		}
		a.Close()
		select {
		case rerr := <-done:
			res.err, finished = rerr, true
		case <-time.After(300 * time.Millisecond):
			// after End the receiver no longer reads the control stream, so it does not
			// notice the hang-up while files are incomplete: end it the way the app does
			cancel()
			select {
			case rerr := <-done:
				res.err = rerr
			case <-time.After(20 * time.Second):
				res.timedOut = true
			}
		}
	}
	a.Close()
	res.handled = int(atomic.LoadInt32(&handled))
	return res
}

// ---------- scenarios ----------

func c07GenScn(r *hx.Rand, kind string) c07Scn {
	scn := c07Scn{Kind: kind, NoRoot: r.Bool(), Resume: r.Bool(), Planted: r.Intn(3) == 0}
	scn.Root = []string{"r", "r", "", "x..y", "root dir"}[r.Intn(5)]
	mkID := func(i int) string {
		switch r.Intn(6) {
		case 0:
			return ""
		case 1:
			return "id2"
		}
		return fmt.Sprintf("%016x", 0x0123456789abcdef+uint64(i))
	}
	used := map[string]bool{}
	nf := 1 + r.Intn(3)
	for i := 0; i < nf; i++ {
		rel := c07LegalRel(r)
		bad := used[rel]
		for u := range used {
			if strings.HasPrefix(u, rel+"/") || strings.HasPrefix(rel, u+"/") {
				bad = true
			}
		}
		if bad {
			rel = fmt.Sprintf("f%d", i)
		}
		used[rel] = true
		size := int64([]int{0, 1, 5, 12, 64, 100}[r.Intn(6)])
		scn.Items = append(scn.Items, manifest.FileItem{RelPath: rel, Size: size, ID: mkID(i)})
		scn.Begins = append(scn.Begins, c07Begin{Rel: rel, Size: uint64(size), Chunk: uint32([]int{4, 7, 64, 0}[r.Intn(4)])})
	}
	if r.Bool() {
		scn.Items = append(scn.Items, manifest.FileItem{RelPath: "emptydir/sub", IsDir: true})
	}
	h := c07Hostile(r)
	switch kind {
	case "benign":
	case "benign-data":
		for i := range scn.Begins {
			scn.Begins[i].SendData = true
			if scn.Begins[i].Chunk == 0 {
				scn.Begins[i].Chunk = 8
			}
		}
	case "root":
		scn.Root = h
	case "dir-item":
		scn.Items = append([]manifest.FileItem{{RelPath: h, IsDir: true}}, scn.Items...)
	case "file-item":
		scn.Items = append(scn.Items, manifest.FileItem{RelPath: h, Size: 5, ID: "feedfacefeedface"})
		scn.Begins = append([]c07Begin{{Rel: h, Size: 5, Chunk: 4}}, scn.Begins...)
	case "item-id":
		ids := []string{"../../e", "../x", "../../../x", "a/b", "/abs", "../../.thruflux_resumedata/0123456789abcdef", "..", ".", "x\\y", "../../x"}
		scn.Items[0].ID = ids[r.Intn(len(ids))]
		scn.Resume = true
		if scn.Begins[0].Chunk == 0 {
			scn.Begins[0].Chunk = 4
		}
	case "begin":
		// a FileBegin the manifest does not announce
		scn.Begins = append([]c07Begin{{Rel: h, Size: 5, Chunk: 4}}, scn.Begins...)
	case "conflict":
		// legal names that collide on disk: a directory item and a file of the same name, a file below a file
		scn.Items = append(scn.Items, manifest.FileItem{RelPath: "clash", IsDir: true}, manifest.FileItem{RelPath: "clash", Size: 3, ID: "c1"},
			manifest.FileItem{RelPath: "old.txt/under", Size: 2, ID: "c2"})
		scn.Begins = append(scn.Begins, c07Begin{Rel: "clash", Size: 3, Chunk: 4}, c07Begin{Rel: "old.txt/under", Size: 2, Chunk: 4})
		scn.Planted = true
	}
	return scn
}

func c07ScnInput(sb c07Sandbox, scn c07Scn, m manifest.Manifest) string {
	bs := make([]string, len(scn.Begins))
	for i, b := range scn.Begins {
		bs[i] = fmt.Sprintf("(Begin %s %d %d)", hx.Str(b.Rel), b.Size, b.Chunk)
	}
	return fmt.Sprintf("(RI %s %s %s %s %s %s [] false)", hx.Str(sb.out), hx.B(scn.NoRoot), hx.B(scn.Resume), hx.Str(m.Root), c07Items(m.Items), hx.List(bs))
}

func c07After(sb c07Sandbox, after map[string]c07Entry) string {
	var ps []string
	for p := range after {
		if p == sb.out || strings.HasPrefix(p, sb.out+"/") {
			ps = append(ps, p)
		}
	}
	sort.Strings(ps)
	xs := make([]string, len(ps))
	for i, p := range ps {
		e := after[p]
		xs[i] = fmt.Sprintf("(%s, %d, %d)", hx.Str(p), e.Kind, e.Size)
	}
	return hx.List(xs)
}

func c07Changes(ch []c07Change) string {
	xs := make([]string, len(ch))
	for i, c := range ch {
		xs[i] = hx.Str(c.Path)
	}
	return hx.List(xs)
}

// the property oracle on one run of the real code
func c07Oracle(rep *hx.Report, sb c07Sandbox, field string, ch []c07Change, replay any) int {
	n := 0
	for _, c := range ch {
		if c.Path == sb.out || strings.HasPrefix(c.Path, sb.out+"/") {
			continue
		}
		n++
		rel, _ := filepath.Rel(sb.out, c.Path)
		rep.Violate("escape:"+field+":"+c.What, fmt.Sprintf("receiver %s %s (= <out>/%s) outside its output directory; hostile field: %s", c.What, c.Path, rel, field), replay)
	}
	return n
}

func c07OneScripted(cfg config, rep *hx.Report, cf *hx.CasesFile, id *int, sbBase string, scn c07Scn, tag string) {
	*id++
	sb, err := c07MakeSandbox(sbBase, *id, scn.Planted)
	if err != nil {
		rep.Notes = append(rep.Notes, "sandbox: "+err.Error())
		return
	}
	before := c07Snapshot(sb.caseDir)
	run := c07RunScripted(sb.out, scn)
	after := c07Snapshot(sb.caseDir)
	ch := c07Diff(before, after)
	rep.Evaluations++
	rep.TracesValidated++
	rep.Count("recv:" + scn.Kind)
	replay := map[string]any{"scenario": scn, "out": "<sandbox>/0/1/2/3/4/5/l1/l2/out", "how": "scripted sender: control header with this manifest, DataStreams{1}, one raw FileBegin per entry of begins (StreamID 0), End, hang up; RecvManifestMultiStream(out, Options{NoRootDir, Resume})", "tag": tag}
	rep.CaseIndex[fmt.Sprint(*id)] = replay
	esc := c07Oracle(rep, sb, scn.Kind, ch, replay)
	if run.timedOut {
		rep.Notes = append(rep.Notes, fmt.Sprintf("case %d (%s): receiver did not return within the watchdog", *id, scn.Kind))
	}
	accepted := !errors.Is(run.err, transfer.ErrUnsafeManifest)
	if accepted {
		rep.Count("manifest-accepted-by-receiver")
	} else {
		rep.Count("manifest-rejected-by-receiver")
	}
	if len(ch) > 0 {
		rep.Nontrivial(fmt.Sprintf("rx:%s:%v:%v:%s:%d", scn.Kind, scn.NoRoot, scn.Resume, scn.Root, len(ch)))
	}
	setupDone := run.handled >= 1 || run.err == nil
	cf.Add(fmt.Sprintf("C07.RX %d %s %s %s %d %s %s", *id, c07ScnInput(sb, scn, run.m), hx.B(accepted), hx.B(setupDone), run.handled, c07Changes(ch), c07After(sb, after)))
	if *id%37 == 0 || esc > 0 {
		rep.Sample(map[string]any{"kind": scn.Kind, "root": scn.Root, "no_root_dir": scn.NoRoot, "resume": scn.Resume, "accepted": accepted, "handled": run.handled, "changes": len(ch), "outside": esc, "err": fmt.Sprint(run.err)})
	}
	if esc == 0 {
		_ = os.RemoveAll(sb.caseDir)
	}
}

// a transfer by the REAL sender (benign tree), both root modes, resume on/off
func c07OneReal(cfg config, rep *hx.Report, cf *hx.CasesFile, id *int, sbBase string, rng *hx.Rand) {
	*id++
	sb, err := c07MakeSandbox(sbBase, *id, false)
	if err != nil {
		return
	}
	src := filepath.Join(sb.caseDir, "src", []string{"tree", "x..y", "sp ace"}[rng.Intn(3)])
	cs := []int{4, 16, 64}[rng.Intn(3)]
	tree := genTree(rng, cs, 5)
	tree.files = append(tree.files, treeFile{"v1..2/a..b", []byte("dots")})
	if err := tree.materialise(src); err != nil {
		return
	}
	noRoot, resume := rng.Bool(), rng.Bool()
	before := c07Snapshot(sb.caseDir)
	res := runXfer(src, sb.out, xferCfg{chunkSize: cs, streams: 1 + rng.Intn(3), resume: resume, timeout: 20 * time.Second,
		recvOpts: func(o *transfer.Options) { o.NoRootDir = noRoot }})
	after := c07Snapshot(sb.caseDir)
	ch := c07Diff(before, after)
	rep.Evaluations++
	rep.TracesValidated++
	rep.Count("recv:real-sender")
	replay := map[string]any{"how": "real SendManifestMultiStream of a generated tree into the sandbox", "no_root_dir": noRoot, "resume": resume, "chunk": cs, "files": len(tree.files)}
	rep.CaseIndex[fmt.Sprint(*id)] = replay
	c07Oracle(rep, sb, "benign-real-sender", ch, replay)
	if res.recvErr != nil || res.sendErr != nil || !res.recvDone {
		rep.Notes = append(rep.Notes, fmt.Sprintf("case %d: real transfer did not succeed (send %v, recv %v); skipped in the correspondence", *id, res.sendErr, res.recvErr))
		return
	}
	m := res.manifest
	scn := c07Scn{Kind: "real", NoRoot: noRoot, Resume: resume}
	for _, it := range m.Items {
		if !it.IsDir {
			scn.Begins = append(scn.Begins, c07Begin{Rel: it.RelPath, Size: uint64(it.Size), Chunk: uint32(cs)})
		}
	}
	rep.Nontrivial(fmt.Sprintf("real:%v:%v:%d", noRoot, resume, len(ch)))
	cf.Add(fmt.Sprintf("C07.RX %d %s true true %d %s %s", *id, c07ScnInput(sb, scn, m), len(scn.Begins), c07Changes(ch), c07After(sb, after)))
	_ = os.RemoveAll(sb.caseDir)
}

// the app's clearResumeData with the root name the sender OFFERED
func c07OneApp(cfg config, rep *hx.Report, cf *hx.CasesFile, id *int, sbBase string, root string) {
	*id++
	sb, err := c07MakeSandbox(sbBase, *id, true)
	if err != nil {
		return
	}
	before := c07Snapshot(sb.caseDir)
	has := app.VerifHasResumeData(sb.out, root)
	cerr := app.VerifClearResumeData(sb.out, root)
	after := c07Snapshot(sb.caseDir)
	ch := c07Diff(before, after)
	rep.Evaluations++
	rep.TracesValidated++
	rep.Count("app:clear-resume-data")
	replay := map[string]any{"how": "hasResumeData + clearResumeData(out, offered_root) in the sandbox (the user answered 'overwrite')", "offered_root": root}
	rep.CaseIndex[fmt.Sprint(*id)] = replay
	esc := c07Oracle(rep, sb, "offered-root", ch, replay)
	rep.Nontrivial(fmt.Sprintf("app:%s:%d", root, len(ch)))
	cf.Add(fmt.Sprintf("C07.AX %d %s %s %s %s", *id, hx.Str(sb.out), hx.Str(root), c07Changes(ch), c07After(sb, after)))
	if *id%5 == 0 || esc > 0 {
		rep.Sample(map[string]any{"kind": "offered-root", "root": root, "has_resume_data": has, "err": fmt.Sprint(cerr), "changes": len(ch), "outside": esc})
	}
	if esc == 0 {
		_ = os.RemoveAll(sb.caseDir)
	}
}

// the replays of the defects found on the tree before the fix: reported again if one returns
func c07Corpus() []c07Scn {
	f := func(rel, id string, size int64) manifest.FileItem {
		return manifest.FileItem{RelPath: rel, ID: id, Size: size}
	}
	return []c07Scn{
		{Kind: "dir-item", NoRoot: true, Items: []manifest.FileItem{{RelPath: "../x/made", IsDir: true}}},
		{Kind: "dir-item", NoRoot: false, Root: "r", Items: []manifest.FileItem{{RelPath: "../../x/made", IsDir: true}}},
		{Kind: "dir-item", NoRoot: true, Items: []manifest.FileItem{{RelPath: "a/../../../x/made2", IsDir: true}}},
		{Kind: "root", NoRoot: false, Root: "../../x/newroot", Items: []manifest.FileItem{f("f", "0123456789abcdef", 5)}, Begins: []c07Begin{{Rel: "f", Size: 5, Chunk: 4}}},
		{Kind: "root", NoRoot: true, Resume: true, Root: "../..", Items: []manifest.FileItem{f("f", "0123456789abcdef", 9999)}, Begins: []c07Begin{{Rel: "f", Size: 9999, Chunk: 7}}},
		{Kind: "root", NoRoot: true, Resume: true, Root: "../../x", Items: []manifest.FileItem{f("f", "x", 5)}, Begins: []c07Begin{{Rel: "f", Size: 5, Chunk: 4}}},
		{Kind: "item-id", NoRoot: true, Resume: true, Root: "r", Items: []manifest.FileItem{f("f", "../../e", 5)}, Begins: []c07Begin{{Rel: "f", Size: 5, Chunk: 4}}},
		{Kind: "item-id", NoRoot: false, Resume: true, Root: "r", Items: []manifest.FileItem{f("f", "../../../x", 5)}, Begins: []c07Begin{{Rel: "f", Size: 5, Chunk: 4}}},
		{Kind: "item-id", NoRoot: true, Resume: true, Root: "", Items: []manifest.FileItem{f("f", "../../.thruflux_resumedata/0123456789abcdef", 5)}, Begins: []c07Begin{{Rel: "f", Size: 5, Chunk: 4}}},
		{Kind: "file-item", NoRoot: true, Items: []manifest.FileItem{f("../x/stolen", "0123456789abcdef", 5)}, Begins: []c07Begin{{Rel: "../x/stolen", Size: 5, Chunk: 4}}},
	}
}

func runC07(cfg config) *hx.Report {
	rep := hx.NewReport("C07")
	rep.Rule = "(i) strings from a segment grammar (\".\", \"..\", empty, dotted names, backslashes, NUL, long) through Clean/Join/Dir/Trim/validateRelPath/SidecarPath/sidecarIdentifier/validateManifestPaths/resumeSidecarDirs; (ii) scripted senders placing traversal or odd strings (also parent references spelled with backslashes) in exactly one of manifest.root, a directory item, a file item, item.id, FileBegin.rel_path, or none (benign, with data, name conflicts), against the real receiver in a sandbox nested 9 levels below the run directory with decoy files and resume metadata around the output directory; real-sender transfers; clearResumeData with hostile offered root names. Non-trivial = distinct string, or a run that changed at least one filesystem entry"
	if err := c07SelfCheck(); err != nil {
		rep.Violate("harness", "C07 harness self-check failed: "+err.Error(), nil)
		return rep
	}
	if cfg.replay != "" {
		// re-run one scripted scenario (the "scenario" object of a replay / case_index entry)
		var scn c07Scn
		b, err := os.ReadFile(cfg.replay)
		if err == nil {
			err = json.Unmarshal(b, &scn)
		}
		if err != nil {
			rep.Notes = append(rep.Notes, "replay: "+err.Error())
			return rep
		}
		cfr := &hx.CasesFile{Dir: cfg.out, Name: "C07rx", Module: "C07", Imports: []string{"Lib.GoInt", "Lib.Bytes", "Model.Path", "Model.PathFs", "Corr.C07"}, PerShard: 40}
		n := 0
		c07OneScripted(cfg, rep, cfr, &n, filepath.Join(cfg.out, "s"), scn, "replay")
		cfr.Close()
		return rep
	}
	cf := &hx.CasesFile{Dir: cfg.out, Name: "C07", Module: "C07", Imports: []string{"Lib.GoInt", "Lib.Bytes", "Model.Path", "Model.PathFs", "Corr.C07"}, PerShard: 150}
	rng := hx.NewRand(cfg.seed)
	id := 0
	nPaths, nScn, nReal := 1200, 300, 12
	if cfg.tier == "thorough" {
		nPaths, nScn, nReal = 7000, 2400, 120
	}
	c07Paths(cfg, rep, cf, rng.Fork(1), &id, nPaths)
	cf.Close()

	cf2 := &hx.CasesFile{Dir: cfg.out, Name: "C07rx", Module: "C07", Imports: []string{"Lib.GoInt", "Lib.Bytes", "Model.Path", "Model.PathFs", "Corr.C07"}, PerShard: 40}
	sbBase := filepath.Join(cfg.out, "s")
	_ = os.RemoveAll(sbBase)
	for i, scn := range c07Corpus() {
		c07OneScripted(cfg, rep, cf2, &id, sbBase, scn, fmt.Sprintf("corpus-%d", i))
	}
	for _, root := range []string{"../../x", "..", "../l2", "../../../../0", "r", "", "x..y", " ", "a/b", "/", "."} {
		c07OneApp(cfg, rep, cf2, &id, sbBase, root)
	}
	kinds := []string{"benign", "benign-data", "root", "dir-item", "file-item", "item-id", "begin", "conflict", "root", "dir-item", "item-id"}
	r2 := rng.Fork(2)
	for i := 0; i < nScn; i++ {
		c07OneScripted(cfg, rep, cf2, &id, sbBase, c07GenScn(r2, kinds[i%len(kinds)]), "generated")
	}
	r3 := rng.Fork(3)
	for i := 0; i < nReal; i++ {
		c07OneReal(cfg, rep, cf2, &id, sbBase, r3)
	}
	r4 := rng.Fork(4)
	for i := 0; i < nScn/10; i++ {
		c07OneApp(cfg, rep, cf2, &id, sbBase, c07Hostile(r4))
	}
	cf2.Close()
	return rep
}

package main

import (
	"bytes"
	"fmt"
	"os"
	"path/filepath"
	"sort"
	"sync"
	"time"

	"github.com/sheerbytes/sheerbytes/internal/transfer"
	"github.com/sheerbytes/sheerbytes/internal/verifhook"
	"github.com/sheerbytes/sheerbytes/verifharness/internal/hx"
)

// C19, both real endpoints (oracle only): one file per (size, chunk size) around the
// chunk boundaries is transferred; the chunks the receiver accepts and writes must be
// exactly the indexes 0..total-1 the geometry functions give, once each, the transfer
// must succeed (the receiver may not refuse a chunk the sender's geometry produces) and
// the bytes must be the source's.
func runC19e2e(cfg config, rep *hx.Report) {
	base, _ := os.MkdirTemp("", "c19e")
	defer os.RemoveAll(base)
	css := []int{1, 3, 16, 64}
	if cfg.tier == "thorough" {
		css = append(css, 2, 7, 255, 4096)
	}
	rng := hx.NewRand(cfg.seed).Fork(19)
	n := 0
	for _, cs := range css {
		sizes := []int{0, 1, cs - 1, cs, cs + 1, 2*cs - 1, 2 * cs, 2*cs + 1, 5 * cs, 8*cs + cs/2}
		seen := map[int]bool{}
		for _, size := range sizes {
			if size < 0 || seen[size] {
				continue
			}
			seen[size] = true
			n++
			dir := filepath.Join(base, fmt.Sprintf("g%d", n))
			src := filepath.Join(dir, "src", "root")
			out := filepath.Join(dir, "out")
			os.MkdirAll(src, 0755)
			os.MkdirAll(out, 0755)
			data := rng.Bytes(size)
			os.WriteFile(filepath.Join(src, "f.bin"), data, 0644)
			var mu sync.Mutex
			var written []int
			verifhook.Set(func(name string, args ...any) {
				if name == "recv.chunk.written" && len(args) >= 2 {
					if idx, ok := args[1].(uint32); ok {
						mu.Lock()
						written = append(written, int(idx))
						mu.Unlock()
					}
				}
			})
			resume := n%2 == 0
			streams := 1 + n%3
			res := runXfer(src, out, xferCfg{chunkSize: cs, streams: streams, resume: resume, timeout: 8 * time.Second})
			verifhook.Set(nil)
			rep.Evaluations++
			rep.Count("geometry-transfer")
			desc := map[string]any{"size": size, "chunk_size": cs, "streams": streams, "resume": resume, "how": "one file of this size transferred between the real endpoints"}
			total := int(transfer.VerifChunkTotal(int64(size), uint32(cs)))
			if !res.sendDone || !res.recvDone {
				rep.Violate("geometry-transfer:hang", fmt.Sprintf("size=%d cs=%d: the transfer did not finish", size, cs), desc)
				continue
			}
			if res.sendErr != nil || res.recvErr != nil {
				rep.Violate("geometry-transfer:refused", fmt.Sprintf("size=%d cs=%d (%d chunks): sender=%v receiver=%v", size, cs, total, res.sendErr, res.recvErr), desc)
				continue
			}
			got, _ := os.ReadFile(filepath.Join(out, "f.bin"))
			if !bytes.Equal(got, data) {
				rep.Violate("geometry-transfer:bytes", fmt.Sprintf("size=%d cs=%d: output has %d bytes and differs from the source", size, cs, len(got)), desc)
			}
			mu.Lock()
			w := append([]int{}, written...)
			mu.Unlock()
			sort.Ints(w)
			okIdx := len(w) == total
			for i := 0; okIdx && i < total; i++ {
				okIdx = w[i] == i
			}
			if !okIdx {
				rep.Violate("geometry-transfer:indexes", fmt.Sprintf("size=%d cs=%d: the receiver wrote chunk indexes %v, the geometry has 0..%d", size, cs, w, total-1), desc)
			}
			if total >= 2 || (size > 0 && size%cs == 0) {
				rep.Nontrivial(fmt.Sprintf("e2e:%d:%d", size, cs))
			}
		}
	}
}

package main

import (
	"bytes"
	"runtime"
	"strconv"
	"sync"
	"time"

	"github.com/sheerbytes/sheerbytes/internal/verifhook"
)

// stepper runs operations of the real code in their own goroutines and parks
// them at verifhook points until the controller resumes them, so that the
// harness decides the interleaving of the lock-delimited phases.  It only ever
// blocks a goroutine at a hook point: it never injects state.

type park struct {
	name string
	args []any
}

type task struct {
	parked   chan park
	resume   chan struct{}
	done     chan struct{}
	cur      *park // where the task is parked now (nil = finished)
	panicked any
	label    string
	hung     bool // did not reach a hook point or its end within stepTimeout
}

// stepTimeout bounds how long a resumed task may run before it parks again or
// ends; the code under test has no wait longer than 1 s between hook points.
const stepTimeout = 30 * time.Second

type stepper struct {
	mu    sync.Mutex
	tasks map[uint64]*task
}

func goid() uint64 {
	var buf [64]byte
	n := runtime.Stack(buf[:], false)
	// "goroutine 123 [running]:"
	f := bytes.Fields(buf[:n])
	id, _ := strconv.ParseUint(string(f[1]), 10, 64)
	return id
}

func newStepper() *stepper {
	st := &stepper{tasks: map[uint64]*task{}}
	verifhook.Set(func(name string, args ...any) {
		st.mu.Lock()
		t := st.tasks[goid()]
		st.mu.Unlock()
		if t == nil {
			return
		}
		t.parked <- park{name, args}
		<-t.resume
	})
	return st
}

func (st *stepper) close() { verifhook.Set(nil) }

// spawn starts f and returns once it is parked at its first hook point or done.
func (st *stepper) spawn(label string, f func()) *task {
	t := &task{parked: make(chan park), resume: make(chan struct{}), done: make(chan struct{}), label: label}
	ready := make(chan struct{})
	go func() {
		id := goid()
		st.mu.Lock()
		st.tasks[id] = t
		st.mu.Unlock()
		close(ready)
		defer func() {
			if r := recover(); r != nil {
				t.panicked = r
			}
			st.mu.Lock()
			delete(st.tasks, id)
			st.mu.Unlock()
			close(t.done)
		}()
		f()
	}()
	<-ready
	t.wait()
	return t
}

func (t *task) wait() {
	select {
	case p := <-t.parked:
		t.cur = &p
	case <-t.done:
		t.cur = nil
	case <-time.After(stepTimeout):
		t.hung = true
		t.cur = nil
	}
}

// step resumes the task until its next hook point (or its end).
func (t *task) step() {
	if t.cur == nil {
		return
	}
	t.resume <- struct{}{}
	t.wait()
}

func (t *task) finished() bool { return t.cur == nil }

// finish runs the task to completion.
func (t *task) finish() {
	for !t.finished() {
		t.step()
	}
}

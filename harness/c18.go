package main

import (
	"errors"
	"fmt"
	"io"
	"reflect"
	"strings"

	"github.com/sheerbytes/sheerbytes/internal/transfer"
	"github.com/sheerbytes/sheerbytes/pkg/manifest"
	"github.com/sheerbytes/sheerbytes/verifharness/internal/hx"
)

// C18: control-protocol round trip.  Real write*/read* pairs over an in-memory
// stream; the Go encoder's bytes must equal the model's enc_ctl, the Go decoder
// on those bytes (plus trailing bytes) must return the model's value and consume
// exactly the record; sequences of records decode to the same sequence.

func coqCtl(msg any) string {
	switch m := msg.(type) {
	case transfer.FileBegin:
		return fmt.Sprintf("(Wire.FileBegin %s %d %d %d %d %d %d %d %d)", hx.Str(m.RelPath), m.FileSize, m.ChunkSize, m.StreamID, m.HashAlg, m.StripeIndex, m.StripeCount, m.StripeStart, m.StripeChunks)
	case transfer.Credit:
		return fmt.Sprintf("(Wire.Credit %d %d)", m.StreamID, m.Credits)
	case transfer.CreditBatch:
		items := make([]string, len(m.Entries))
		for i, e := range m.Entries {
			items[i] = fmt.Sprintf("(%d, %d)", e.StreamID, e.Credits)
		}
		return fmt.Sprintf("(Wire.CreditBatch %s)", hx.List(items))
	case transfer.FileEnd:
		return fmt.Sprintf("(Wire.FileEnd %d %d)", m.StreamID, m.CRC32)
	case transfer.FileDone:
		return fmt.Sprintf("(Wire.FileDone %d %s %s)", m.StreamID, hx.B(m.OK), hx.Str(m.ErrMsg))
	case transfer.FileResumeInfo:
		return fmt.Sprintf("(Wire.FileResumeInfo %s %d %d %s %d %d)", hx.Str(m.FileID), m.StreamID, m.TotalChunks, hx.Bytes(m.Bitmap), m.LastVerifiedChunk, m.LastVerifiedHash)
	case transfer.ResumeRequest:
		return fmt.Sprintf("(Wire.ResumeRequest %s %d)", hx.Str(m.FileID), m.StreamID)
	case transfer.DataStreams:
		return fmt.Sprintf("(Wire.DataStreams %d)", m.Count)
	case nil:
		return "Wire.EndRec"
	}
	panic(fmt.Sprintf("coqCtl: %T", msg))
}

func canonCtl(msg any) any {
	switch m := msg.(type) {
	case transfer.CreditBatch:
		if len(m.Entries) == 0 {
			m.Entries = nil
		}
		return m
	case transfer.FileResumeInfo:
		if len(m.Bitmap) == 0 {
			m.Bitmap = nil
		}
		return m
	}
	return msg
}

func classifyDecodeErr(err error) string {
	if err == nil {
		return "ok"
	}
	if errors.Is(err, io.EOF) || errors.Is(err, io.ErrUnexpectedEOF) {
		return "short"
	}
	return "bad"
}

var c18u64 = []uint64{0, 1, 255, 256, 1<<32 - 1, 1 << 32, 1<<63 - 1, 1 << 63, 1<<64 - 1}
var c18u32 = []uint32{0, 1, 255, 65535, 65536, 1<<31 - 1, 1 << 31, 1<<32 - 1}
var c18u16 = []uint16{0, 1, 255, 256, 65535}

func genU64(r *hx.Rand) uint64 {
	if r.Intn(3) == 0 {
		return c18u64[r.Intn(len(c18u64))]
	}
	return r.U64()
}
func genU32(r *hx.Rand) uint32 {
	if r.Intn(3) == 0 {
		return c18u32[r.Intn(len(c18u32))]
	}
	return uint32(r.U64())
}
func genU16(r *hx.Rand) uint16 {
	if r.Intn(3) == 0 {
		return c18u16[r.Intn(len(c18u16))]
	}
	return uint16(r.U64())
}

// genRelPath: mostly legal relative paths, sometimes hostile ones.
func genRelPath(r *hx.Rand) string {
	switch r.Intn(12) {
	case 0:
		return ""
	case 1:
		return "/" + genSeg(r)
	case 2:
		return genSeg(r) + "/../" + genSeg(r)
	case 3:
		return "a..b"
	case 4:
		return strings.Repeat("x", 1024)
	case 5:
		return strings.Repeat("y", 1025)
	case 6:
		return strings.Repeat("d/", 511) + "zz"
	}
	n := 1 + r.Intn(5)
	parts := make([]string, n)
	for i := range parts {
		parts[i] = genSeg(r)
	}
	return strings.Join(parts, "/")
}

func genSeg(r *hx.Rand) string {
	alphabet := []string{"a", "b", "Z", "0", ".", " ", "-", "_", "\\", "é", "日", "\xff", "\x00", "~", ":"}
	n := 1 + r.Intn(8)
	var sb strings.Builder
	for i := 0; i < n; i++ {
		sb.WriteString(alphabet[r.Intn(len(alphabet))])
	}
	return sb.String()
}

func genText(r *hx.Rand, maxLen int) string {
	var n int
	switch r.Intn(6) {
	case 0:
		n = 0
	case 1:
		n = 1
	case 2:
		n = maxLen
	default:
		n = r.Intn(40)
	}
	if n > 1000 {
		return strings.Repeat(string([]byte{byte(r.U64())}), n)
	}
	return string(r.Bytes(n))
}

func genCtl(r *hx.Rand, big bool) any {
	switch r.Intn(9) {
	case 0:
		return transfer.FileBegin{RelPath: genRelPath(r), FileSize: genU64(r), ChunkSize: genU32(r), StreamID: genU64(r), HashAlg: byte(r.Intn(4)), StripeIndex: genU16(r), StripeCount: genU16(r), StripeStart: genU32(r), StripeChunks: genU32(r)}
	case 1:
		return transfer.Credit{StreamID: genU64(r), Credits: genU32(r)}
	case 2:
		n := r.Pick(0, 0, 1, 2, 3, 17)
		es := make([]transfer.Credit, n)
		for i := range es {
			es[i] = transfer.Credit{StreamID: genU64(r), Credits: genU32(r)}
		}
		if n == 0 && r.Bool() {
			es = nil
		}
		return transfer.CreditBatch{Entries: es}
	case 3:
		return transfer.FileEnd{StreamID: genU64(r), CRC32: genU32(r)}
	case 4:
		max := 300
		if big {
			max = 65535
		}
		return transfer.FileDone{StreamID: genU64(r), OK: r.Bool(), ErrMsg: genText(r, max)}
	case 5:
		bl := r.Pick(0, 0, 1, 2, 8, 64, 513)
		if big {
			bl = 4096
		}
		var bm []byte
		if bl > 0 {
			bm = r.Bytes(bl)
		}
		max := 200
		if big {
			max = 65535
		}
		return transfer.FileResumeInfo{FileID: genText(r, max), StreamID: genU64(r), TotalChunks: genU32(r), Bitmap: bm, LastVerifiedChunk: genU32(r), LastVerifiedHash: genU64(r)}
	case 6:
		return transfer.ResumeRequest{FileID: genText(r, 200), StreamID: genU64(r)}
	case 7:
		return transfer.DataStreams{Count: genU16(r)}
	}
	return nil
}

func ctlKind(msg any) string {
	if msg == nil {
		return "End"
	}
	return strings.TrimPrefix(fmt.Sprintf("%T", msg), "transfer.")
}

func runC18(cfg config) *hx.Report {
	rep := hx.NewReport("C18")
	rep.Rule = "records of all nine control types with boundary-heavy fields (lengths 0/1/max, numeric 0/max, legal and hostile paths), encoded by the real writer, decoded by the real reader with trailing bytes; concatenations of 1-40 records; control headers with generated manifests; truncations/mutations of valid encodings. Non-trivial = a record with at least one variable-length field non-empty or a multi-record sequence; distinct by encoded bytes"
	cf := &hx.CasesFile{Dir: cfg.out, Name: "C18", Module: "C18", Imports: []string{"Lib.GoInt", "Lib.Bytes", "Model.Wire", "Corr.C18"}, PerShard: 250}
	rng := hx.NewRand(cfg.seed)
	id := 0
	nRec, nSeq, nMut := 1200, 150, 600
	if cfg.tier == "thorough" {
		nRec, nSeq, nMut = 12000, 1500, 6000
	}
	var validEncodings [][]byte

	oneRecord := func(msg any, big bool) ([]byte, bool) {
		enc, err := transfer.VerifEncodeControl(msg)
		id++
		rep.Evaluations++
		rep.Count("enc:" + ctlKind(msg))
		rep.CaseIndex[fmt.Sprint(id)] = map[string]any{"op": "encode", "msg": fmt.Sprintf("%+v", trunc(msg))}
		if err != nil {
			cf.Add(fmt.Sprintf("C18.E %d %s Err", id, coqCtl(msg)))
			rep.Count("enc-rejected")
			return nil, false
		}
		cf.Add(fmt.Sprintf("C18.E %d %s (Ret %s)", id, coqCtl(msg), hx.Bytes(enc)))
		// decode with trailing bytes
		trail := rng.Bytes(rng.Pick(0, 0, 1, 7))
		in := append(append([]byte{}, enc...), trail...)
		_, got, consumed, derr := transfer.VerifDecodeControl(in)
		id++
		rep.Evaluations++
		rep.CaseIndex[fmt.Sprint(id)] = map[string]any{"op": "decode", "bytes_len": len(in), "msg": fmt.Sprintf("%+v", trunc(msg))}
		if derr != nil {
			cf.Add(fmt.Sprintf("C18.D %d %s %s", id, hx.Bytes(in), map[string]string{"short": "C18.XShort", "bad": "C18.XBad"}[classifyDecodeErr(derr)]))
			if withinLimits(msg) {
				rep.Violate("roundtrip", fmt.Sprintf("decoder rejects the encoder's own output for %s: %v", ctlKind(msg), derr), map[string]any{"msg": fmt.Sprintf("%+v", trunc(msg))})
			}
			return enc, true
		}
		cf.Add(fmt.Sprintf("C18.D %d %s (C18.XOk %s %d)", id, hx.Bytes(in), coqCtl(got), len(in)-consumed))
		if withinLimits(msg) {
			if !reflect.DeepEqual(canonCtl(got), canonCtl(msg)) {
				rep.Violate("roundtrip", fmt.Sprintf("decode(encode(x)) != x for %s", ctlKind(msg)), map[string]any{"msg": fmt.Sprintf("%+v", trunc(msg)), "got": fmt.Sprintf("%+v", trunc(got))})
			}
			if consumed != len(enc) {
				rep.Violate("framing", fmt.Sprintf("%s: encoder wrote %d bytes, decoder consumed %d", ctlKind(msg), len(enc), consumed), map[string]any{"msg": fmt.Sprintf("%+v", trunc(msg))})
			}
		}
		if len(enc) > 13 {
			rep.Nontrivial(string(enc))
		}
		if id%211 == 0 {
			rep.Sample(map[string]any{"record": ctlKind(msg), "encoded_len": len(enc), "value": fmt.Sprintf("%.120v", msg)})
		}
		return enc, true
	}

	// 32-bit-length fields at the boundaries of the reader's own buffering: the
	// decoder reserves controlReadStep bytes and grows from there, so lengths just
	// below / at / above its multiples (and the powers of two around them) are
	// field boundaries in their own right.  Contents are runs with distinct end
	// markers (cheap to write down for the model), each record is followed by
	// another one so that a short or long read shows as a framing error.
	step := int(transfer.VerifControlReadStep)
	var lens32 []int
	for _, k := range []int{1, 2, 3, 4} {
		for _, d := range []int{-1, 0, 1} {
			lens32 = append(lens32, k*step+d)
		}
	}
	lens32 = append(lens32, step/2, step+step/2, 255, 256, 257, 65535)
	if cfg.tier == "thorough" {
		for _, k := range []int{5, 8, 16} {
			lens32 = append(lens32, k*step-1, k*step, k*step+1)
		}
	}
	for _, n := range lens32 {
		if n <= 0 {
			continue
		}
		bm := make([]byte, n)
		for i := range bm {
			bm[i] = 0xA5
		}
		bm[0], bm[n-1] = 0x01, 0x80
		msg := transfer.FileResumeInfo{FileID: "boundary", StreamID: uint64(n), TotalChunks: uint32(n), Bitmap: bm, LastVerifiedChunk: 0x01020304, LastVerifiedHash: 0x1122334455667788}
		rep.Count("enc:bitmap-length-boundary")
		enc, ok := oneRecord(msg, true)
		if !ok {
			continue
		}
		// ... and in a sequence: the records after it must still decode
		tail1, _ := transfer.VerifEncodeControl(transfer.FileDone{StreamID: 7, OK: true})
		tail2, _ := transfer.VerifEncodeControl(nil)
		in := append(append(append([]byte{}, enc...), tail1...), tail2...)
		typ1, got1, c1, e1 := transfer.VerifDecodeControl(in)
		okSeq := e1 == nil && typ1 == transfer.VerifTypeFileResumeInfo && c1 == len(enc) && reflect.DeepEqual(canonCtl(got1), canonCtl(msg))
		if okSeq {
			typ2, got2, c2, e2 := transfer.VerifDecodeControl(in[c1:])
			okSeq = e2 == nil && typ2 == transfer.VerifTypeFileDone && c2 == len(tail1) && reflect.DeepEqual(got2, transfer.FileDone{StreamID: 7, OK: true})
			if okSeq {
				typ3, _, c3, e3 := transfer.VerifDecodeControl(in[c1+c2:])
				okSeq = e3 == nil && typ3 == transfer.VerifTypeEnd && c3 == len(tail2)
			}
		}
		rep.Evaluations++
		if !okSeq {
			rep.Violate("framing", fmt.Sprintf("FileResumeInfo with a %d-byte bitmap followed by FileDone and End does not decode to the same three records", n), map[string]any{"bitmap_len": n, "read_step": step})
		}
	}
	for i := 0; i < nRec; i++ {
		big := i%97 == 0
		msg := genCtl(rng, big)
		if enc, ok := oneRecord(msg, big); ok && len(enc) < 400 {
			validEncodings = append(validEncodings, enc)
		}
	}
	// outside the limits (documented: 16-bit length fields): a 65537-byte error text desyncs the stream
	{
		msg := transfer.FileDone{StreamID: 7, OK: false, ErrMsg: strings.Repeat("e", 65537)}
		oneRecord(msg, true)
		rep.Count("outside-limits")
	}
	// sequences
	for i := 0; i < nSeq; i++ {
		n := 1 + rng.Intn(40)
		var all []byte
		var msgs []any
		for k := 0; k < n; k++ {
			m := genCtl(rng, false)
			if !withinLimits(m) {
				continue
			}
			enc, err := transfer.VerifEncodeControl(m)
			if err != nil {
				continue
			}
			all = append(all, enc...)
			msgs = append(msgs, m)
		}
		// the real reader, record by record
		rest := all
		var items []string
		okSeq := true
		for k, m := range msgs {
			_, got, consumed, err := transfer.VerifDecodeControl(rest)
			if err != nil || !reflect.DeepEqual(canonCtl(got), canonCtl(m)) {
				rep.Violate("sequence", fmt.Sprintf("record %d of a %d-record stream decodes differently (%v)", k, len(msgs), err), map[string]any{"seq": i, "seed": cfg.seed})
				okSeq = false
				break
			}
			items = append(items, coqCtl(got))
			rest = rest[consumed:]
		}
		if okSeq && len(rest) != 0 {
			rep.Violate("sequence", "bytes left after decoding all records", map[string]any{"seq": i, "seed": cfg.seed})
		}
		if okSeq {
			id++
			cf.Add(fmt.Sprintf("C18.S %d %s %s", id, hx.Bytes(all), hx.List(items)))
			rep.CaseIndex[fmt.Sprint(id)] = map[string]any{"op": "sequence", "records": len(msgs), "seq": i}
			rep.Nontrivial(string(all))
		}
		rep.Evaluations++
		rep.Count("sequence")
	}
	// truncations and mutations of valid encodings: model decoder vs real decoder
	for i := 0; i < nMut && len(validEncodings) > 0; i++ {
		src := validEncodings[rng.Intn(len(validEncodings))]
		b := append([]byte{}, src...)
		switch rng.Intn(4) {
		case 0:
			b = b[:rng.Intn(len(b)+1)]
		case 1:
			b[rng.Intn(len(b))] ^= 1 << rng.Intn(8)
		case 2:
			b[0] = byte(rng.U64())
		default:
			b = append(b, rng.Bytes(rng.Intn(20))...)
			if len(b) > 3 {
				b[1+rng.Intn(2)] = byte(rng.U64())
			}
		}
		if hostileLength(b) {
			rep.Count("mutation-skipped-hostile-length")
			continue
		}
		_, got, consumed, err := transfer.VerifDecodeControl(b)
		id++
		rep.Evaluations++
		rep.Count("mutation:" + classifyDecodeErr(err))
		rep.CaseIndex[fmt.Sprint(id)] = map[string]any{"op": "decode-mutated", "bytes": fmt.Sprintf("%x", b)}
		switch classifyDecodeErr(err) {
		case "ok":
			cf.Add(fmt.Sprintf("C18.D %d %s (C18.XOk %s %d)", id, hx.Bytes(b), coqCtl(got), len(b)-consumed))
		case "short":
			cf.Add(fmt.Sprintf("C18.D %d %s C18.XShort", id, hx.Bytes(b)))
		default:
			cf.Add(fmt.Sprintf("C18.D %d %s C18.XBad", id, hx.Bytes(b)))
		}
	}
	// control header (magic + 32-bit length + manifest JSON)
	nHdr := 60
	if cfg.tier == "thorough" {
		nHdr = 600
	}
	// manifests whose JSON has exactly a boundary length of the reader's buffering
	exactManifest := func(target int) (manifest.Manifest, bool) {
		m := manifest.Manifest{Root: "exact"}
		jsonLen := func() int {
			enc, err := transfer.VerifWriteControlHeader(m)
			if err != nil {
				return -1
			}
			return len(enc) - 8
		}
		for i := 0; ; i++ {
			l := jsonLen()
			if l < 0 || l > target {
				return m, false
			}
			if l == target {
				return m, true
			}
			if target-l < 1100 {
				// a last item whose path is padded to the byte (one JSON byte per 'a')
				m.Items = append(m.Items, manifest.FileItem{RelPath: "z", ID: "00000000000000ff", Size: 1})
				m.TotalBytes++
				m.FileCount++
				l = jsonLen()
				if l < 0 || l > target || target-l > 1000 {
					return m, false
				}
				m.Items[len(m.Items)-1].RelPath += strings.Repeat("a", target-l)
				return m, jsonLen() == target
			}
			it := manifest.FileItem{RelPath: fmt.Sprintf("d%05d/%s", i, strings.Repeat("n", 900)), ID: fmt.Sprintf("%016x", i), Size: int64(i)}
			m.TotalBytes += it.Size
			m.FileCount++
			m.Items = append(m.Items, it)
		}
	}
	var hdrs []manifest.Manifest
	for _, k := range []int{1, 2, 3} {
		for _, d := range []int{-1, 0, 1} {
			if m, ok := exactManifest(k*step + d); ok {
				hdrs = append(hdrs, m)
				rep.Count("header:json-length-boundary")
			}
		}
	}
	for i := 0; i < nHdr+len(hdrs); i++ {
		var m manifest.Manifest
		if i < len(hdrs) {
			m = hdrs[i]
		} else {
			m = genManifest(rng, i%7 == 3)
		}
		enc, err := transfer.VerifWriteControlHeader(m)
		rep.Evaluations++
		rep.Count("header")
		if err != nil {
			continue
		}
		json := enc[8:]
		id++
		cf.Add(fmt.Sprintf("C18.EH %d %s %s", id, hx.Bytes(json), hx.Bytes(enc)))
		rep.CaseIndex[fmt.Sprint(id)] = map[string]any{"op": "header", "items": len(m.Items)}
		trail := rng.Bytes(rng.Intn(5))
		got, consumed, derr := transfer.VerifReadControlHeader(append(append([]byte{}, enc...), trail...))
		if derr != nil || consumed != len(enc) {
			rep.Violate("header", fmt.Sprintf("control header does not round-trip: err=%v consumed=%d of %d", derr, consumed, len(enc)), map[string]any{"manifest": fmt.Sprintf("%+v", m)})
			continue
		}
		if !reflect.DeepEqual(normManifest(got), normManifest(m)) {
			sig := "header-json"
			if !manifestUTF8(m) {
				sig = "header-json:non-utf8-name"
			}
			rep.Violate(sig, fmt.Sprintf("manifest changed by the header round trip (root %q, %d items)", m.Root, len(m.Items)), map[string]any{"root": fmt.Sprintf("%q", m.Root), "items": fmt.Sprintf("%q", itemPaths(m))})
		}
		rep.Nontrivial(string(enc))
	}
	// validateRelPath against the model
	for i := 0; i < 400; i++ {
		p := genRelPath(rng)
		id++
		rep.Evaluations++
		rep.Count("validate-path")
		ok := transfer.VerifValidateRelPath(p) == nil
		cf.Add(fmt.Sprintf("C18.V %d %s %s", id, hx.Str(p), hx.B(ok)))
		rep.CaseIndex[fmt.Sprint(id)] = map[string]any{"op": "validateRelPath", "path": fmt.Sprintf("%q", p)}
	}
	cf.Close()
	return rep
}

func trunc(v any) any {
	s := fmt.Sprintf("%+v", v)
	if len(s) > 300 {
		return s[:300] + "..."
	}
	return v
}

// withinLimits: the protocol's field limits (16-bit lengths for ids and error
// texts, 32-bit for bitmaps); paths are limited by validateRelPath itself.
func withinLimits(msg any) bool {
	switch m := msg.(type) {
	case transfer.FileDone:
		return len(m.ErrMsg) < 65536
	case transfer.FileResumeInfo:
		return len(m.FileID) < 65536
	case transfer.ResumeRequest:
		return len(m.FileID) < 65536
	}
	return true
}

// hostileLength: a mutated record whose length/count prefix would make the
// real reader allocate gigabytes (that is C15's finding, exercised there in a
// child process under a memory limit).
func hostileLength(b []byte) bool {
	if len(b) == 0 {
		return false
	}
	u32 := func(o int) uint32 {
		if o+4 > len(b) {
			return 0
		}
		return uint32(b[o])<<24 | uint32(b[o+1])<<16 | uint32(b[o+2])<<8 | uint32(b[o+3])
	}
	switch b[0] {
	case transfer.VerifTypeCreditBatch:
		return u32(1) > 1<<16
	case transfer.VerifTypeFileResumeInfo:
		if len(b) < 3 {
			return false
		}
		fl := int(b[1])<<8 | int(b[2])
		return u32(3+fl+12) > 1<<24
	}
	return false
}

func genManifest(r *hx.Rand, nonUTF8 bool) manifest.Manifest {
	m := manifest.Manifest{Root: genSegUTF8(r)}
	n := r.Intn(6)
	for i := 0; i < n; i++ {
		name := genSegUTF8(r) + "/" + genSegUTF8(r)
		if nonUTF8 && i == 0 {
			name = "bad\xff\xfename"
		}
		isDir := r.Intn(4) == 0
		it := manifest.FileItem{RelPath: name, IsDir: isDir, ID: fmt.Sprintf("%x", r.U64())}
		if !isDir {
			it.Size = int64(r.U64() % (1 << 40))
			m.TotalBytes += it.Size
			m.FileCount++
		} else {
			m.FolderCount++
		}
		m.Items = append(m.Items, it)
	}
	return m
}

func genSegUTF8(r *hx.Rand) string {
	alphabet := []string{"a", "b", "Z", "0", ".", " ", "-", "_", "é", "日", "\"", "\\", "<", "&", " "}
	n := 1 + r.Intn(6)
	var sb strings.Builder
	for i := 0; i < n; i++ {
		sb.WriteString(alphabet[r.Intn(len(alphabet))])
	}
	return sb.String()
}

func normManifest(m manifest.Manifest) manifest.Manifest {
	if len(m.Items) == 0 {
		m.Items = nil
	}
	return m
}

func manifestUTF8(m manifest.Manifest) bool {
	valid := func(s string) bool { return strings.ToValidUTF8(s, "�") == s }
	if !valid(m.Root) {
		return false
	}
	for _, it := range m.Items {
		if !valid(it.RelPath) || !valid(it.ID) {
			return false
		}
	}
	return true
}

func itemPaths(m manifest.Manifest) []string {
	var out []string
	for _, it := range m.Items {
		out = append(out, it.RelPath)
	}
	return out
}

func init() { runners["C18"] = runC18 }

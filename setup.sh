#!/bin/sh
# Build the whole framework from files on disk only (offline).
set -e
cd "$(dirname "$0")"
export GOFLAGS=-mod=mod GOPROXY=off
unset GOSUMDB GOTOOLCHAIN || true
mkdir -p run evidence
(cd tools/gotrans && go build -o ../../run/gotrans .)
./run/gotrans "${VERIF_REPO:-/repo}" coq/Gen
(cd coq && coq_makefile -f _CoqProject -o Makefile >/dev/null && timeout 3000 make -j16)
cp "${VERIF_REPO:-/repo}/go.sum" harness/go.sum
[ "$(realpath "${VERIF_REPO:-/repo}")" = /repo ] || (cd harness && go mod edit -replace github.com/sheerbytes/sheerbytes="$(realpath "$VERIF_REPO")")
(cd harness && go build -tags verif -o ../run/harness .)
echo "setup ok"

#!/usr/bin/env python3
"""Regenerates the table of seeded changes in DESIGN.md (between the markers) from seeded/*/meta.json."""
import json, glob, os, re
V = os.path.dirname(os.path.dirname(os.path.abspath(__file__)))
rows = []
for d in sorted(glob.glob(os.path.join(V, "seeded", "*"))):
    mp = os.path.join(d, "meta.json")
    if not os.path.exists(mp):
        continue
    m = json.load(open(mp))
    what = m.get("short") or ""
    if not what:
        s = (m.get("summary") or "").strip().split("\n")
        what = s[0]
        what = re.sub(r"^C\d\d change \(?[a-z]\)?\s*[:-]\s*", "", what)
        if what.lower().startswith("seeded change for"):
            # take the first line after a 'change' heading
            for l in s[1:]:
                l = l.strip(" -=")
                if len(l) > 25 and not l.lower().startswith(("file", "what", "=")):
                    what = l
                    break
    what = what.strip()[:150].replace("|", "/")
    det = m.get("detected_by")
    if isinstance(det, list):
        det = ", ".join(det) if det else "**not detected**"
    how = m.get("how_detected", "")
    rows.append("| %s | %s | %s | %s%s |" % (os.path.basename(d), m.get("property"), what, det, (" - " + how) if how else ""))
table = "| id | property | change | reported by (quick tier) |\n|----|----------|--------|--------------------------|\n" + "\n".join(rows)
p = os.path.join(V, "DESIGN.md")
s = open(p).read()
a, b = "<!-- seeded-table-begin -->", "<!-- seeded-table-end -->"
i, j = s.index(a), s.index(b)
s = s[:i + len(a)] + "\n" + table + "\n" + s[j:]
open(p, "w").write(s)
print("%d seeded changes" % len(rows))

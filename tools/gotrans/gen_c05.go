package main

import (
	"go/ast"
	"strings"
)

// C05: the write-then-mark order of the LEGACY windowed receiver
// (manifestproto.go receiveFileChunksWindowed), whose chunk writer is an
// anonymous goroutine literal: the statements of the literal that contains the
// MarkComplete call, reduced to tokens - "call:<name>" for a call statement or the
// call of an `if x := f(); ...` header, "ret-on-err" for an `if ... err != nil {
// ...; return }` guard.  Proofs/CallsC05.v proves that the positional write is
// followed by such a guard before the mark, so that a failed write is never
// recorded as a complete chunk.

func init() { extraGens = append(extraGens, genC05) }

func c05tokens(list []ast.Stmt) []string {
	var out []string
	var callsIn func(n ast.Node)
	callsIn = func(n ast.Node) {
		ast.Inspect(n, func(m ast.Node) bool {
			if _, ok := m.(*ast.FuncLit); ok {
				return false
			}
			if c, ok := m.(*ast.CallExpr); ok {
				for _, a := range c.Args {
					callsIn(a)
				}
				if nm := calleeName(c); nm != "" {
					out = append(out, "call:"+nm)
				}
				return false
			}
			return true
		})
	}
	for _, s := range list {
		switch x := s.(type) {
		case *ast.IfStmt:
			if x.Init != nil {
				callsIn(x.Init)
			}
			guard := false
			if be, ok := x.Cond.(*ast.BinaryExpr); ok && be.Op.String() == "!=" {
				if id, ok := be.X.(*ast.Ident); ok && id.Name == "err" {
					if nb := len(x.Body.List); nb > 0 {
						if _, ok := x.Body.List[nb-1].(*ast.ReturnStmt); ok {
							guard = true
						}
					}
				}
			}
			if guard {
				out = append(out, "ret-on-err")
			} else {
				out = append(out, c05tokens(x.Body.List)...)
			}
		case *ast.DeferStmt:
			// runs at exit
		default:
			callsIn(s)
		}
	}
	return out
}

func genC05(c *genCtx) {
	const file = "internal/transfer/manifestproto.go"
	var sb strings.Builder
	sb.WriteString(genHeader + "From Coq Require Import List String.\nImport ListNotations.\nOpen Scope string_scope.\n\n")
	sb.WriteString(c.run("windowed_writer", func() string {
		fd := findFunc(c.files[file], "receiveFileChunksWindowed")
		if fd == nil {
			failf("receiveFileChunksWindowed not found")
		}
		var lit *ast.FuncLit
		ast.Inspect(fd.Body, func(n ast.Node) bool {
			fl, ok := n.(*ast.FuncLit)
			if !ok {
				return true
			}
			has := false
			ast.Inspect(fl.Body, func(m ast.Node) bool {
				if inner, ok := m.(*ast.FuncLit); ok && inner != fl {
					return false
				}
				if ce, ok := m.(*ast.CallExpr); ok && calleeName(ce) == "MarkComplete" {
					has = true
				}
				return true
			})
			if has && lit == nil {
				lit = fl
			}
			return true
		})
		if lit == nil {
			failf("no function literal of receiveFileChunksWindowed calls MarkComplete")
		}
		return "(* statements of the chunk-writer goroutine of receiveFileChunksWindowed (the literal that calls MarkComplete), source order *)\n" +
			"Definition windowed_writer : list string := " + c17strs(c05tokens(lit.Body.List)) + ".\n"
	}))
	if !c.failed() {
		c.write("CallsC05.v", sb.String())
	}
}

package main

import (
	"fmt"
	"go/ast"
	"go/token"
	"go/types"
	"sort"
	"strings"
)

// C08: call-order skeletons (Gen/AuthOrder.v) of the four functions that must
// authenticate a connection before they transfer on it, in the language of
// Model/AuthOrder.v.  What is kept of a body:
//
//   control flow       if/else, switch, select -> PIf (choice);  for, range -> PLoop;
//                      return / exitWith(..) / os.Exit(..) / panic(..) -> PExit;
//                      break, continue -> PBreak (not inside switch/select: unsupported)
//   authentication     `if err := authenticateTransport(_, X, CODE, ROLE); err != nil { B }`
//                      -> PAuth X CODE ROLE B          (any other shape of that call proves nothing)
//   assignments        to the variables that can flow into a transfer call (backward
//                      slice from the sinks), right-hand side flattened to atoms:
//                      x, x.f, x[i], x[a:b], &x, x.(T) -> AVar x;  append / NewMultiConn /
//                      composite literal -> union;  make / new / nil / literals -> nothing;
//                      dialExtraConns / acceptExtraConns -> ASrc;  any other call or a
//                      channel receive -> AOpaque
//   uses               every call that is a sink, or that is handed a sliced variable
//                      -> PUse callee atoms   (Proofs/AuthOrder.v lists the harmless callees)
//   helpers            `return r0, ..` -> PUse "return" atoms(r0); PExit
//
// Function literals (goroutines, deferred closures) are not followed; the
// translation FAILS if one contains a sink, an authentication, or assigns to a
// sliced variable, or if a sliced variable is shadowed in a nested scope.

var c08sinkArg = map[string]int{
	"SendManifestMultiStream": 1, "RecvManifestMultiStream": 1, "NewMultiConn": 0,
	"sendDumbData": 1, "sendDumbDataMulti": 1, "recvDumbDiscard": 1, "recvDumbDiscardMulti": 1,
	"SendManifest": 1, "RecvManifest": 1,
}
var c08sources = map[string]bool{"dialExtraConns": true, "acceptExtraConns": true}
var c08exits = map[string]bool{"exitWith": true, "Exit": true, "panic": true, "Fatal": true, "Fatalf": true}

func init() { extraGens = append(extraGens, genC08) }

type c08fn struct {
	helper bool
	rel    map[string]bool
	scopes []map[string]bool
	inSw   int
}

func c08q(s string) string { return "\"" + strings.ReplaceAll(s, "\"", "\"\"") + "\"" }

type c08atom struct{ kind, name string }

func c08atomsCoq(as []c08atom) string {
	var out []string
	seen := map[string]bool{}
	for _, a := range as {
		k := a.kind + " " + a.name
		if seen[k] {
			continue
		}
		seen[k] = true
		out = append(out, fmt.Sprintf("%s %s", a.kind, c08q(a.name)))
	}
	return "[" + strings.Join(out, "; ") + "]"
}

// atoms of a connection-valued expression
func c08atoms(e ast.Expr) []c08atom {
	switch x := e.(type) {
	case nil:
		return nil
	case *ast.Ident:
		if x.Name == "nil" || x.Name == "_" || x.Name == "true" || x.Name == "false" {
			return nil
		}
		return []c08atom{{"AVar", x.Name}}
	case *ast.SelectorExpr:
		return c08atoms(x.X)
	case *ast.IndexExpr:
		return c08atoms(x.X)
	case *ast.SliceExpr:
		return c08atoms(x.X)
	case *ast.ParenExpr:
		return c08atoms(x.X)
	case *ast.StarExpr:
		return c08atoms(x.X)
	case *ast.TypeAssertExpr:
		return c08atoms(x.X)
	case *ast.UnaryExpr:
		if x.Op == token.ARROW {
			return []c08atom{{"AOpaque", "<-"}}
		}
		return c08atoms(x.X)
	case *ast.BasicLit, *ast.FuncLit, *ast.BinaryExpr, *ast.ArrayType, *ast.MapType, *ast.ChanType, *ast.FuncType, *ast.InterfaceType, *ast.StructType:
		return nil
	case *ast.KeyValueExpr:
		return c08atoms(x.Value)
	case *ast.CompositeLit:
		var out []c08atom
		for _, el := range x.Elts {
			out = append(out, c08atoms(el)...)
		}
		return out
	case *ast.CallExpr:
		nm := calleeName(x)
		switch {
		case nm == "append" || nm == "NewMultiConn":
			var out []c08atom
			for _, a := range x.Args {
				out = append(out, c08atoms(a)...)
			}
			return out
		case nm == "make" || nm == "new" || nm == "len" || nm == "cap":
			return nil
		case c08sources[nm]:
			return []c08atom{{"ASrc", nm}}
		}
		if nm == "" {
			nm = "?"
		}
		return []c08atom{{"AOpaque", nm}}
	}
	failf("C08 skeleton: unsupported expression %T", e)
	return nil
}

func c08vars(as []c08atom) []string {
	var out []string
	for _, a := range as {
		if a.kind == "AVar" {
			out = append(out, a.name)
		}
	}
	return out
}

func c08lhsName(e ast.Expr) (name string, simple bool) {
	if id, ok := e.(*ast.Ident); ok {
		return id.Name, true
	}
	as := c08atoms(e)
	if len(as) == 1 && as[0].kind == "AVar" {
		return as[0].name, false
	}
	return "", false
}

// authentication pattern
func c08authCall(e ast.Expr) *ast.CallExpr {
	if c, ok := e.(*ast.CallExpr); ok && calleeName(c) == "authenticateTransport" {
		return c
	}
	return nil
}

func c08isAuthIf(s *ast.IfStmt) (x, code, role string, ok bool) {
	as, isAs := s.Init.(*ast.AssignStmt)
	if !isAs || len(as.Lhs) != 1 || len(as.Rhs) != 1 || s.Else != nil {
		return
	}
	call := c08authCall(as.Rhs[0])
	errv, isId := as.Lhs[0].(*ast.Ident)
	if call == nil || !isId || len(call.Args) != 4 {
		return
	}
	cond, isBin := s.Cond.(*ast.BinaryExpr)
	if !isBin || cond.Op != token.NEQ {
		return
	}
	l, lok := cond.X.(*ast.Ident)
	r, rok := cond.Y.(*ast.Ident)
	if !lok || !rok || l.Name != errv.Name || r.Name != "nil" {
		return
	}
	cx, isCx := call.Args[1].(*ast.Ident)
	if !isCx {
		return
	}
	return cx.Name, types.ExprString(call.Args[2]), types.ExprString(call.Args[3]), true
}

// ---- pass 1: the slice of relevant variables ----

func (g *c08fn) slice(body *ast.BlockStmt) {
	g.rel = map[string]bool{}
	add := func(vs []string) bool {
		ch := false
		for _, v := range vs {
			if !g.rel[v] {
				g.rel[v] = true
				ch = true
			}
		}
		return ch
	}
	for changed := true; changed; {
		changed = false
		ast.Inspect(body, func(n ast.Node) bool {
			switch x := n.(type) {
			case *ast.FuncLit:
				return false
			case *ast.CallExpr:
				nm := calleeName(x)
				if i, ok := c08sinkArg[nm]; ok && i < len(x.Args) {
					changed = add(c08vars(c08atoms(x.Args[i]))) || changed
				}
				if nm == "authenticateTransport" && len(x.Args) > 1 {
					changed = add(c08vars(c08atoms(x.Args[1]))) || changed
				}
			case *ast.ReturnStmt:
				if g.helper && len(x.Results) > 0 {
					changed = add(c08vars(c08atoms(x.Results[0]))) || changed
				}
			case *ast.AssignStmt:
				for i, l := range x.Lhs {
					nm, _ := c08lhsName(l)
					if nm == "" || !g.rel[nm] {
						continue
					}
					rhs := x.Rhs[0]
					if len(x.Rhs) == len(x.Lhs) {
						rhs = x.Rhs[i]
					}
					changed = add(c08vars(c08atoms(rhs))) || changed
				}
			case *ast.ValueSpec:
				for i, id := range x.Names {
					if g.rel[id.Name] && i < len(x.Values) {
						changed = add(c08vars(c08atoms(x.Values[i]))) || changed
					}
				}
			case *ast.RangeStmt:
				for _, kv := range []ast.Expr{x.Key, x.Value} {
					if kv == nil {
						continue
					}
					if nm, _ := c08lhsName(kv); nm != "" && g.rel[nm] {
						changed = add(c08vars(c08atoms(x.X))) || changed
					}
				}
			}
			return true
		})
	}
}

// ---- pass 2: translation ----

func c08seq(ps []string) string {
	var keep []string
	for _, p := range ps {
		if p != "" && p != "PSkip" {
			keep = append(keep, p)
		}
	}
	if len(keep) == 0 {
		return "PSkip"
	}
	out := keep[len(keep)-1]
	for i := len(keep) - 2; i >= 0; i-- {
		out = fmt.Sprintf("(PSeq %s %s)", keep[i], out)
	}
	return out
}

func c08if(a, b string) string {
	if a == "PSkip" && b == "PSkip" {
		return "PSkip"
	}
	return fmt.Sprintf("(PIf %s %s)", a, b)
}

func c08loop(body string) string {
	if body == "PSkip" {
		return "PSkip"
	}
	return fmt.Sprintf("(PLoop %s)", body)
}

// exitWith is a local closure of the receiver's runTransfer: it counts as an
// exit only if its body ends in os.Exit(..)
func c08checkExitWith(body *ast.BlockStmt) {
	used, ok := false, false
	ast.Inspect(body, func(n ast.Node) bool {
		switch x := n.(type) {
		case *ast.CallExpr:
			if id, isId := x.Fun.(*ast.Ident); isId && id.Name == "exitWith" {
				used = true
			}
		case *ast.AssignStmt:
			if len(x.Lhs) == 1 && len(x.Rhs) == 1 {
				if id, isId := x.Lhs[0].(*ast.Ident); isId && id.Name == "exitWith" {
					fl, isFl := x.Rhs[0].(*ast.FuncLit)
					if !isFl || len(fl.Body.List) == 0 {
						failf("C08 skeleton: exitWith is not a function literal")
					}
					last, isEx := fl.Body.List[len(fl.Body.List)-1].(*ast.ExprStmt)
					if !isEx {
						failf("C08 skeleton: exitWith does not end in os.Exit")
					}
					c, isCall := last.X.(*ast.CallExpr)
					sel, isSel := c.Fun.(*ast.SelectorExpr)
					if !isCall || !isSel || sel.Sel.Name != "Exit" || types.ExprString(sel.X) != "os" {
						failf("C08 skeleton: exitWith does not end in os.Exit")
					}
					if ok {
						failf("C08 skeleton: exitWith is assigned twice")
					}
					ok = true
				}
			}
		}
		return true
	})
	if used && !ok {
		failf("C08 skeleton: exitWith is called but not defined as a closure ending in os.Exit")
	}
}

func (g *c08fn) checkFuncLit(fl *ast.FuncLit) {
	ast.Inspect(fl.Body, func(n ast.Node) bool {
		switch x := n.(type) {
		case *ast.CallExpr:
			nm := calleeName(x)
			if _, ok := c08sinkArg[nm]; ok || nm == "authenticateTransport" {
				failf("C08 skeleton: %s is called inside a function literal (not followed)", nm)
			}
		case *ast.AssignStmt:
			if x.Tok == token.ASSIGN {
				for _, l := range x.Lhs {
					if nm, _ := c08lhsName(l); nm != "" && g.rel[nm] {
						failf("C08 skeleton: a function literal assigns to %s", nm)
					}
				}
			}
		}
		return true
	})
}

// uses: PUse for every sink call and every call handed a relevant variable, inner calls first
func (g *c08fn) uses(e ast.Node) []string {
	var out []string
	if e == nil {
		return nil
	}
	var walk func(n ast.Node)
	walk = func(n ast.Node) {
		ast.Inspect(n, func(m ast.Node) bool {
			switch x := m.(type) {
			case *ast.FuncLit:
				g.checkFuncLit(x)
				return false
			case *ast.CallExpr:
				for _, a := range x.Args {
					walk(a)
				}
				walk(x.Fun)
				nm := calleeName(x)
				if i, ok := c08sinkArg[nm]; ok {
					if i >= len(x.Args) {
						failf("C08 skeleton: sink %s without its connection argument", nm)
					}
					out = append(out, fmt.Sprintf("(PUse %s %s)", c08q(nm), c08atomsCoq(c08atoms(x.Args[i]))))
					return false
				}
				if nm == "authenticateTransport" || nm == "append" || nm == "len" || nm == "cap" || nm == "make" || c08sources[nm] {
					return false
				}
				var as []c08atom
				for _, a := range x.Args {
					for _, at := range c08atoms(a) {
						if at.kind == "AVar" && g.rel[at.name] {
							as = append(as, at)
						}
					}
				}
				if sel, ok := x.Fun.(*ast.SelectorExpr); ok {
					for _, at := range c08atoms(sel.X) {
						if at.kind == "AVar" && g.rel[at.name] {
							as = append(as, at)
						}
					}
				}
				if len(as) > 0 {
					if nm == "" {
						nm = "?"
					}
					out = append(out, fmt.Sprintf("(PUse %s %s)", c08q(nm), c08atomsCoq(as)))
				}
				return false
			}
			return true
		})
	}
	walk(e)
	return out
}

func (g *c08fn) declare(name string) {
	if !g.rel[name] {
		return
	}
	cur := g.scopes[len(g.scopes)-1]
	if cur[name] {
		return
	}
	for _, sc := range g.scopes[:len(g.scopes)-1] {
		if sc[name] {
			failf("C08 skeleton: variable %s is shadowed in a nested scope", name)
		}
	}
	cur[name] = true
}

func (g *c08fn) block(list []ast.Stmt) string {
	g.scopes = append(g.scopes, map[string]bool{})
	defer func() { g.scopes = g.scopes[:len(g.scopes)-1] }()
	var ps []string
	for _, s := range list {
		ps = append(ps, g.stmt(s))
	}
	return c08seq(ps)
}

func (g *c08fn) assign(lhs []ast.Expr, rhs []ast.Expr, define bool) string {
	var ps []string
	for _, r := range rhs {
		ps = append(ps, g.uses(r)...)
	}
	for i, l := range lhs {
		nm, simple := c08lhsName(l)
		if nm == "" || !g.rel[nm] {
			continue
		}
		var r ast.Expr
		if len(rhs) == len(lhs) {
			r = rhs[i]
		} else if len(rhs) == 1 {
			r = rhs[0]
		}
		as := c08atoms(r)
		if !simple { // x.f = v, x[i] = v: weak update
			as = append([]c08atom{{"AVar", nm}}, as...)
		} else if define {
			g.declare(nm)
		}
		ps = append(ps, fmt.Sprintf("(PAssign %s %s)", c08q(nm), c08atomsCoq(as)))
	}
	return c08seq(ps)
}

func (g *c08fn) stmt(s ast.Stmt) string {
	switch x := s.(type) {
	case nil, *ast.EmptyStmt, *ast.IncDecStmt:
		return "PSkip"
	case *ast.BlockStmt:
		return g.block(x.List)
	case *ast.ExprStmt:
		if c, ok := x.X.(*ast.CallExpr); ok && c08exits[calleeName(c)] {
			return c08seq(append(g.uses(x.X), "PExit"))
		}
		return c08seq(g.uses(x.X))
	case *ast.SendStmt:
		return c08seq(append(g.uses(x.Chan), g.uses(x.Value)...))
	case *ast.AssignStmt:
		return g.assign(x.Lhs, x.Rhs, x.Tok == token.DEFINE)
	case *ast.DeclStmt:
		gd, ok := x.Decl.(*ast.GenDecl)
		if !ok || gd.Tok != token.VAR {
			return "PSkip"
		}
		var ps []string
		for _, sp := range gd.Specs {
			vs := sp.(*ast.ValueSpec)
			var lhs []ast.Expr
			for _, id := range vs.Names {
				lhs = append(lhs, id)
			}
			if len(vs.Values) == 0 {
				for _, id := range vs.Names {
					if g.rel[id.Name] {
						g.declare(id.Name)
						ps = append(ps, fmt.Sprintf("(PAssign %s [])", c08q(id.Name)))
					}
				}
				continue
			}
			ps = append(ps, g.assign(lhs, vs.Values, true))
		}
		return c08seq(ps)
	case *ast.IfStmt:
		if cx, code, role, ok := c08isAuthIf(x); ok {
			g.scopes = append(g.scopes, map[string]bool{})
			fail := g.block(x.Body.List)
			g.scopes = g.scopes[:len(g.scopes)-1]
			return fmt.Sprintf("(PAuth %s %s %s %s)", c08q(cx), c08q(code), c08q(role), fail)
		}
		g.scopes = append(g.scopes, map[string]bool{})
		defer func() { g.scopes = g.scopes[:len(g.scopes)-1] }()
		var ps []string
		if x.Init != nil {
			ps = append(ps, g.stmt(x.Init))
		}
		ps = append(ps, g.uses(x.Cond)...)
		thn := g.block(x.Body.List)
		els := "PSkip"
		if x.Else != nil {
			els = g.stmt(x.Else)
		}
		ps = append(ps, c08if(thn, els))
		return c08seq(ps)
	case *ast.ForStmt:
		g.scopes = append(g.scopes, map[string]bool{})
		defer func() { g.scopes = g.scopes[:len(g.scopes)-1] }()
		var ps []string
		if x.Init != nil {
			ps = append(ps, g.stmt(x.Init))
		}
		sw := g.inSw
		g.inSw = 0
		body := c08seq(append(append(g.uses(x.Cond), g.block(x.Body.List)), g.stmt(x.Post)))
		g.inSw = sw
		ps = append(ps, c08loop(body))
		return c08seq(ps)
	case *ast.RangeStmt:
		g.scopes = append(g.scopes, map[string]bool{})
		defer func() { g.scopes = g.scopes[:len(g.scopes)-1] }()
		ps := g.uses(x.X)
		var head []string
		for _, kv := range []ast.Expr{x.Key, x.Value} {
			if kv == nil {
				continue
			}
			if nm, _ := c08lhsName(kv); nm != "" && g.rel[nm] {
				if x.Tok == token.DEFINE {
					g.declare(nm)
				}
				head = append(head, fmt.Sprintf("(PAssign %s %s)", c08q(nm), c08atomsCoq(c08atoms(x.X))))
			}
		}
		sw := g.inSw
		g.inSw = 0
		body := c08seq(append(head, g.block(x.Body.List)))
		g.inSw = sw
		return c08seq(append(ps, c08loop(body)))
	case *ast.SwitchStmt, *ast.TypeSwitchStmt, *ast.SelectStmt:
		g.scopes = append(g.scopes, map[string]bool{})
		defer func() { g.scopes = g.scopes[:len(g.scopes)-1] }()
		var ps []string
		var clauses []ast.Stmt
		switch y := x.(type) {
		case *ast.SwitchStmt:
			if y.Init != nil {
				ps = append(ps, g.stmt(y.Init))
			}
			ps = append(ps, g.uses(y.Tag)...)
			clauses = y.Body.List
		case *ast.TypeSwitchStmt:
			if y.Init != nil {
				ps = append(ps, g.stmt(y.Init))
			}
			ps = append(ps, g.stmt(y.Assign))
			clauses = y.Body.List
		case *ast.SelectStmt:
			clauses = y.Body.List
		}
		g.inSw++
		choice := "PSkip"
		for i := len(clauses) - 1; i >= 0; i-- {
			var body string
			switch c := clauses[i].(type) {
			case *ast.CaseClause:
				var us []string
				for _, e := range c.List {
					us = append(us, g.uses(e)...)
				}
				body = c08seq(append(us, g.block(c.Body)))
			case *ast.CommClause:
				g.scopes = append(g.scopes, map[string]bool{})
				head := "PSkip"
				if c.Comm != nil {
					head = g.stmt(c.Comm)
				}
				body = c08seq([]string{head, g.block(c.Body)})
				g.scopes = g.scopes[:len(g.scopes)-1]
			}
			choice = c08if(body, choice)
		}
		g.inSw--
		return c08seq(append(ps, choice))
	case *ast.ReturnStmt:
		var ps []string
		for _, r := range x.Results {
			ps = append(ps, g.uses(r)...)
		}
		if g.helper && len(x.Results) > 0 {
			ps = append(ps, fmt.Sprintf("(PUse \"return\" %s)", c08atomsCoq(c08atoms(x.Results[0]))))
		}
		return c08seq(append(ps, "PExit"))
	case *ast.BranchStmt:
		if x.Label != nil || (x.Tok != token.BREAK && x.Tok != token.CONTINUE) {
			failf("C08 skeleton: unsupported branch statement %s", x.Tok)
		}
		if g.inSw > 0 {
			failf("C08 skeleton: break/continue inside switch/select is not supported")
		}
		return "PBreak"
	case *ast.DeferStmt:
		// runs at function exit; must not transfer or authenticate
		ast.Inspect(x.Call, func(n ast.Node) bool {
			if c, ok := n.(*ast.CallExpr); ok {
				nm := calleeName(c)
				if _, isSink := c08sinkArg[nm]; isSink || nm == "authenticateTransport" {
					failf("C08 skeleton: %s in a deferred call", nm)
				}
			}
			if fl, ok := n.(*ast.FuncLit); ok {
				g.checkFuncLit(fl)
				return false
			}
			return true
		})
		return "PSkip"
	case *ast.GoStmt:
		return c08seq(g.uses(x.Call))
	}
	failf("C08 skeleton: unsupported statement %T", s)
	return ""
}

func c08skeleton(f *ast.File, file, recv, fn, out string, helper bool) string {
	fd := findMethod(f, recv, fn)
	if fd == nil {
		failf("function %s not found in %s", fn, file)
	}
	g := &c08fn{helper: helper}
	c08checkExitWith(fd.Body)
	g.slice(fd.Body)
	g.scopes = []map[string]bool{{}}
	body := g.block(fd.Body.List)
	var rel []string
	for v := range g.rel {
		rel = append(rel, v)
	}
	sort.Strings(rel)
	return fmt.Sprintf("(* %s in %s; tracked variables: %s *)\nDefinition %s : prog :=\n  %s.\n",
		fn, file, strings.Join(rel, " "), out, body)
}

// call sites of sinks / authenticateTransport anywhere in the file, outside the
// bodies of the sink functions themselves
func c08sites(f *ast.File) (sinks, auths int) {
	for _, d := range f.Decls {
		fd, ok := d.(*ast.FuncDecl)
		if !ok || fd.Body == nil {
			continue
		}
		if _, isSink := c08sinkArg[fd.Name.Name]; isSink || fd.Name.Name == "authenticateTransport" {
			continue
		}
		ast.Inspect(fd.Body, func(n ast.Node) bool {
			if c, ok := n.(*ast.CallExpr); ok {
				nm := calleeName(c)
				if _, isSink := c08sinkArg[nm]; isSink {
					sinks++
				}
				if nm == "authenticateTransport" {
					auths++
				}
			}
			return true
		})
	}
	return
}

func genC08(c *genCtx) {
	const sf, rf = "internal/app/snapshot_sender.go", "internal/app/snapshot_receiver.go"
	var sb strings.Builder
	sb.WriteString(genHeader + "From Coq Require Import List String.\nFrom TF Require Import Model.AuthOrder.\nImport ListNotations.\nOpen Scope string_scope.\n\n")
	fs := c.load(sf)
	fr := c.load(rf)
	specs := []struct {
		f                   *ast.File
		file, recv, fn, out string
		helper              bool
	}{
		{fs, sf, "SnapshotSender", "runICEQUICTransfer", "sk_sender_main", false},
		{fs, sf, "SnapshotSender", "dialExtraConns", "sk_sender_extra", true},
		{fr, rf, "snapshotReceiver", "runTransfer", "sk_receiver_main", false},
		{fr, rf, "snapshotReceiver", "acceptExtraConns", "sk_receiver_extra", true},
	}
	for _, sp := range specs {
		sp := sp
		sb.WriteString(c.run(sp.out, func() string { return c08skeleton(sp.f, sp.file, sp.recv, sp.fn, sp.out, sp.helper) }))
		sb.WriteString("\n")
	}
	sb.WriteString(c.run("c08sites", func() string {
		ss, sa := c08sites(fs)
		rs, ra := c08sites(fr)
		return fmt.Sprintf("(* call sites in the whole file (outside the bodies of the transfer functions themselves) *)\nDefinition sender_file_sink_sites : nat := %d.\nDefinition sender_file_auth_sites : nat := %d.\nDefinition receiver_file_sink_sites : nat := %d.\nDefinition receiver_file_auth_sites : nat := %d.\n", ss, sa, rs, ra)
	}))
	if !c.failed() {
		c.write("AuthOrder.v", sb.String())
	}
}

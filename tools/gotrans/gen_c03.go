package main

import (
	"go/ast"
	"strings"
)

// C03: program-order facts of the sender and the receiver that the liveness
// argument (Model/Gate.v) relies on, read off the source on every run:
//   - the sender writes FileBegin (activateNext) before any chunk of that file
//     can be taken (nextChunkToSend) and FileEnd only through sendFileEnd;
//   - the receiver's data streams are accepted in a goroutine of their own
//     (AcceptStream inside a `go func`), not on the path to the main loop;
//   - handleResumeRequest does not wait on the file registry.
// Proofs/GateSrc.v proves the expected shapes, so a changed source breaks a proof.

func init() { extraGens = append(extraGens, genC03) }

// callsOutsideGo lists calls named `name` in body that are NOT inside a `go`
// statement's function literal, and those that are.
func countCalls(body *ast.BlockStmt, name string) (outside, inside int) {
	var walk func(n ast.Node, inGo bool)
	walk = func(n ast.Node, inGo bool) {
		if n == nil {
			return
		}
		ast.Inspect(n, func(m ast.Node) bool {
			if g, ok := m.(*ast.GoStmt); ok {
				walk(g.Call, true)
				return false
			}
			if c, ok := m.(*ast.CallExpr); ok && calleeName(c) == name {
				if inGo {
					inside++
				} else {
					outside++
				}
			}
			return true
		})
	}
	walk(body, false)
	return
}

func genC03(c *genCtx) {
	const file = "internal/transfer/multistream.go"
	var sb strings.Builder
	sb.WriteString(genHeader + "From Coq Require Import List String ZArith.\nImport ListNotations.\nOpen Scope string_scope.\n\n")
	for _, sp := range []callSpec{
		{file: file, fn: "SendManifestMultiStream", closure: "nextTask", out: "sk_send_nexttask",
			names: []string{"activateNext", "waitReady", "nextChunkToSend", "trySendEnd", "sendFileEnd"}},
		{file: file, fn: "SendManifestMultiStream", closure: "activateNext", out: "sk_send_activate",
			names: []string{"Next", "writeFileBegin", "startResume"}},
		{file: file, fn: "RecvManifestMultiStream", closure: "handleResumeRequest", out: "sk_recv_resumereq",
			names: []string{"wait", "buildResumeInfo"}},
		{file: file, fn: "RecvManifestMultiStream", closure: "handleFileBegin", out: "sk_recv_begin_signal",
			names: []string{"validateRelPath", "signal", "buildResumeInfo"}},
	} {
		sp := sp
		sb.WriteString(c.run(sp.out, func() string { return callSkeleton(c.files, sp) }))
		sb.WriteString("\n")
	}
	sb.WriteString(c.run("recv_accept_calls", func() string {
		fd := findMethod(c.files[file], "", "RecvManifestMultiStream")
		if fd == nil {
			failf("RecvManifestMultiStream not found")
		}
		out, in := countCalls(fd.Body, "AcceptStream")
		return "(* AcceptStream calls of RecvManifestMultiStream: on its own path (the control stream) / inside goroutines (the data streams) *)\n" +
			"Definition recv_accept_outside_go : nat := " + itoa(out) + ".\nDefinition recv_accept_inside_go : nat := " + itoa(in) + ".\n"
	}))
	if !c.failed() {
		c.write("GateSrc.v", sb.String())
	}
}

func itoa(n int) string {
	s := ""
	if n == 0 {
		return "0"
	}
	for n > 0 {
		s = string(rune('0'+n%10)) + s
		n /= 10
	}
	return s
}

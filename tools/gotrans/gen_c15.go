package main

import (
	"fmt"
	"strings"
)

// C15: the limits that bound what a peer can make the decoders reserve
// (controlproto.go readLenPrefixedControl / readCreditBatch, the chunk-size
// limit checked by handleFileBegin) and the legacy stream constants.
func init() { extraGens = append(extraGens, genC15) }

func genC15(c *genCtx) {
	c.load("internal/app/dumb_transfer.go")
	wanted := []string{"controlReadStep", "creditBatchStep", "maxChunkSize", "bufferSize", "dumbCopyBufferSize"}
	var sb strings.Builder
	sb.WriteString(genHeader + "From TF Require Import Lib.GoInt.\nOpen Scope Z_scope.\n\n")
	for _, w := range wanted {
		w := w
		sb.WriteString(c.run("const "+w, func() string {
			v, ok := c.consts[w]
			if !ok || v.isStr {
				failf("constant %s not found or not an integer literal", w)
			}
			return fmt.Sprintf("Definition c_%s : Z := %s.\n", w, coqZ(v.n))
		}))
	}
	if !c.failed() {
		c.write("C15.v", sb.String())
	}
}

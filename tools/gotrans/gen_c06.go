package main

import (
	"go/ast"
	"strings"
)

// C06 / C05: under which conditions handleFileBegin (RecvManifestMultiStream) removes the
// resume-metadata files of the item it begins.  For every call os.Remove(x) in the closure
// whose argument is a SidecarPath(...) call or one of the identifiers it was assigned to,
// the conjuncts of the enclosing if-conditions are emitted, outermost first ("else:" marks an
// else branch).  Proofs/BeginMeta.v proves from them that the stale-data rule is applied in
// both modes of the receiver, which is what Model/BeginDisk.v assumes.

func init() { extraGens = append(extraGens, genC06) }

func c06coqString(s string) string { return "\"" + strings.ReplaceAll(s, "\"", "\"\"") + "\"" }

func c06conjuncts(e ast.Expr) []string {
	if be, ok := e.(*ast.BinaryExpr); ok && be.Op.String() == "&&" {
		return append(c06conjuncts(be.X), c06conjuncts(be.Y)...)
	}
	if pe, ok := e.(*ast.ParenExpr); ok {
		return c06conjuncts(pe.X)
	}
	return []string{c17src(e)}
}

func genC06(c *genCtx) {
	const file = "internal/transfer/multistream.go"
	var sb strings.Builder
	sb.WriteString(genHeader + "From Coq Require Import List String.\nImport ListNotations.\nOpen Scope string_scope.\n\n")
	sb.WriteString(c.run("begin_meta_removals", func() string {
		fd := findFunc(c.files[file], "RecvManifestMultiStream")
		if fd == nil {
			failf("RecvManifestMultiStream not found")
		}
		cl := findClosure(fd.Body, "handleFileBegin")
		if cl == nil {
			failf("closure handleFileBegin not found")
		}
		// identifiers assigned from SidecarPath(...)
		metaVars := map[string]string{}
		ast.Inspect(cl.Body, func(n ast.Node) bool {
			if as, ok := n.(*ast.AssignStmt); ok {
				for i, r := range as.Rhs {
					if ce, ok := r.(*ast.CallExpr); ok && calleeName(ce) == "SidecarPath" && i < len(as.Lhs) {
						if id, ok := as.Lhs[i].(*ast.Ident); ok {
							metaVars[id.Name] = c17src(ce)
						}
					}
				}
			}
			return true
		})
		// the path expression a removal is about ("" if it is not a metadata path)
		metaPath := func(e ast.Expr) string {
			switch x := e.(type) {
			case *ast.Ident:
				return metaVars[x.Name]
			case *ast.CallExpr:
				if calleeName(x) == "SidecarPath" {
					return c17src(x)
				}
			}
			return ""
		}
		var out [][]string
		var paths []string
		var walk func(list []ast.Stmt, guards []string)
		var walkStmt func(s ast.Stmt, guards []string)
		walkStmt = func(s ast.Stmt, guards []string) {
			switch x := s.(type) {
			case *ast.IfStmt:
				if x.Init != nil {
					walkStmt(x.Init, guards)
				}
				conj := c06conjuncts(x.Cond)
				walk(x.Body.List, append(append([]string{}, guards...), conj...))
				if x.Else != nil {
					eg := append(append([]string{}, guards...), "else:"+c17src(x.Cond))
					switch e := x.Else.(type) {
					case *ast.BlockStmt:
						walk(e.List, eg)
					default:
						walkStmt(e, eg)
					}
				}
			case *ast.BlockStmt:
				walk(x.List, guards)
			case *ast.ForStmt:
				walk(x.Body.List, append(append([]string{}, guards...), "loop"))
			case *ast.RangeStmt:
				walk(x.Body.List, append(append([]string{}, guards...), "loop"))
			default:
				ast.Inspect(s, func(n ast.Node) bool {
					if _, ok := n.(*ast.FuncLit); ok {
						return false
					}
					if ce, ok := n.(*ast.CallExpr); ok {
						if se, ok := ce.Fun.(*ast.SelectorExpr); ok && se.Sel.Name == "Remove" && len(ce.Args) == 1 && metaPath(ce.Args[0]) != "" {
							if id, ok := se.X.(*ast.Ident); ok && id.Name == "os" {
								out = append(out, append([]string{}, guards...))
								paths = append(paths, metaPath(ce.Args[0]))
							}
						}
					}
					return true
				})
			}
		}
		walk = func(list []ast.Stmt, guards []string) {
			for _, s := range list {
				walkStmt(s, guards)
			}
		}
		walk(cl.Body.List, nil)
		if len(out) == 0 {
			failf("handleFileBegin removes no metadata file")
		}
		var items []string
		for k, g := range out {
			qs := make([]string, len(g))
			for i, a := range g {
				qs[i] = c06coqString(a)
			}
			items = append(items, "("+c06coqString(paths[k])+", ["+strings.Join(qs, "; ")+"])")
		}
		// the definition of the stale-data flag
		staleCond := ""
		ast.Inspect(cl.Body, func(n ast.Node) bool {
			ifs, ok := n.(*ast.IfStmt)
			if !ok || len(ifs.Body.List) != 1 {
				return true
			}
			if as, ok := ifs.Body.List[0].(*ast.AssignStmt); ok && len(as.Lhs) == 1 && len(as.Rhs) == 1 {
				if id, ok := as.Lhs[0].(*ast.Ident); ok && id.Name == "staleData" && c17src(as.Rhs[0]) == "true" {
					staleCond = c17src(ifs.Cond)
					if ifs.Init != nil {
						staleCond = c17src(ifs.Init) + "; " + staleCond
					}
				}
			}
			return true
		})
		if staleCond == "" {
			failf("no `if ... { staleData = true }` in handleFileBegin")
		}
		return "(* every os.Remove of a metadata path in handleFileBegin: (path expression, conjuncts of the enclosing conditions, outermost first) *)\n" +
			"Definition begin_meta_removals : list (string * list string) :=\n  [" + strings.Join(items, ";\n   ") + "].\n\n" +
			"(* the only place that sets staleData *)\nDefinition stale_data_when : string := " + c06coqString(staleCond) + ".\n"
	}))
	if !c.failed() {
		c.write("BeginMeta.v", sb.String())
	}
}

// gotrans: a deliberately tiny Go-AST -> Gallina translator.
//
// It regenerates /verif/coq/Gen/*.v from /repo's *current working tree* on every
// check run, so that the Coq proofs over those files are re-checked against what
// the code says now.  Supported Go subset (anything else is a translation
// failure, reported as a broken correspondence, never silently skipped):
//
//   - package-level constants with literal / arithmetic / conversion initialisers
//   - functions and statement ranges ("snippets") over fixed-width integers and
//     bools: `:=`, `=`, `var x T`, `if` / `else` (early return or assignment-only
//     bodies), `return`, + - * / %, comparisons, && || !, integer conversions
//   - every arithmetic node is wrapped in the wrap function of its static type
//     (u32, i64, ...), `/` and `%` become go_quot / go_rem guarded by an explicit
//     `Panic` on a zero divisor, `return x, err` with a non-nil err becomes `Err`.
package main

import (
	"fmt"
	"go/ast"
	"go/parser"
	"go/token"
	"math/big"
	"os"
	"path/filepath"
	"sort"
	"strconv"
	"strings"
)

type failure struct{ msg string }

func failf(format string, a ...any) { panic(failure{fmt.Sprintf(format, a...)}) }

// ---------- constants ----------

type constVal struct {
	isStr bool
	s     string
	n     *big.Int
	typ   string // "" = untyped
}

type constEnv map[string]constVal

var timeUnits = map[string]int64{"Nanosecond": 1, "Microsecond": 1e3, "Millisecond": 1e6, "Second": 1e9, "Minute": 60e9, "Hour": 3600e9}

var intTypes = map[string]int{"int64": -64, "int32": -32, "int": -64, "uint64": 64, "uint32": 32, "uint16": 16, "uint8": 8, "byte": 8, "uint": 64}

func wrapBig(n *big.Int, typ string) *big.Int {
	w, ok := intTypes[typ]
	if !ok {
		return n
	}
	bits := w
	if bits < 0 {
		bits = -bits
	}
	mod := new(big.Int).Lsh(big.NewInt(1), uint(bits))
	r := new(big.Int).Mod(n, mod)
	if w < 0 {
		half := new(big.Int).Lsh(big.NewInt(1), uint(bits-1))
		if r.Cmp(half) >= 0 {
			r.Sub(r, mod)
		}
	}
	return r
}

func evalConst(e ast.Expr, env constEnv) constVal {
	switch x := e.(type) {
	case *ast.BasicLit:
		switch x.Kind {
		case token.INT:
			n, ok := new(big.Int).SetString(strings.ReplaceAll(x.Value, "_", ""), 0)
			if !ok {
				failf("bad int literal %s", x.Value)
			}
			return constVal{n: n}
		case token.STRING:
			s, err := strconv.Unquote(x.Value)
			if err != nil {
				failf("bad string literal %s", x.Value)
			}
			return constVal{isStr: true, s: s}
		case token.CHAR:
			s, err := strconv.Unquote(x.Value)
			if err != nil {
				failf("bad char literal")
			}
			return constVal{n: big.NewInt(int64([]rune(s)[0]))}
		}
	case *ast.ParenExpr:
		return evalConst(x.X, env)
	case *ast.Ident:
		if v, ok := env[x.Name]; ok {
			return v
		}
		failf("unknown constant %s", x.Name)
	case *ast.SelectorExpr:
		if id, ok := x.X.(*ast.Ident); ok && id.Name == "time" {
			if u, ok := timeUnits[x.Sel.Name]; ok {
				return constVal{n: big.NewInt(u), typ: "int64"}
			}
		}
		failf("unsupported selector in constant")
	case *ast.CallExpr:
		if id, ok := x.Fun.(*ast.Ident); ok && len(x.Args) == 1 {
			if _, ok := intTypes[id.Name]; ok {
				v := evalConst(x.Args[0], env)
				return constVal{n: wrapBig(v.n, id.Name), typ: id.Name}
			}
		}
		failf("unsupported call in constant")
	case *ast.UnaryExpr:
		v := evalConst(x.X, env)
		switch x.Op {
		case token.SUB:
			return constVal{n: wrapBig(new(big.Int).Neg(v.n), v.typ), typ: v.typ}
		case token.XOR:
			return constVal{n: wrapBig(new(big.Int).Not(v.n), v.typ), typ: v.typ}
		}
	case *ast.BinaryExpr:
		a, b := evalConst(x.X, env), evalConst(x.Y, env)
		typ := a.typ
		if typ == "" {
			typ = b.typ
		}
		r := new(big.Int)
		switch x.Op {
		case token.ADD:
			r.Add(a.n, b.n)
		case token.SUB:
			r.Sub(a.n, b.n)
		case token.MUL:
			r.Mul(a.n, b.n)
		case token.SHL:
			r.Lsh(a.n, uint(b.n.Int64()))
			typ = a.typ
		case token.OR:
			r.Or(a.n, b.n)
		case token.QUO:
			r.Quo(a.n, b.n)
		default:
			failf("unsupported constant operator %s", x.Op)
		}
		return constVal{n: wrapBig(r, typ), typ: typ}
	}
	failf("unsupported constant expression %T", e)
	return constVal{}
}

func collectConsts(f *ast.File, env constEnv) {
	for _, d := range f.Decls {
		gd, ok := d.(*ast.GenDecl)
		if !ok || gd.Tok != token.CONST {
			continue
		}
		for _, sp := range gd.Specs {
			vs := sp.(*ast.ValueSpec)
			for i, name := range vs.Names {
				if i >= len(vs.Values) {
					continue
				}
				func() {
					defer func() {
						if r := recover(); r != nil {
							if _, ok := r.(failure); !ok {
								panic(r)
							}
						}
					}()
					v := evalConst(vs.Values[i], env)
					if vs.Type != nil {
						if id, ok := vs.Type.(*ast.Ident); ok {
							v.typ = id.Name
						}
					}
					env[name.Name] = v
				}()
			}
		}
	}
}

func coqBytes(s string) string {
	parts := make([]string, len(s))
	for i := 0; i < len(s); i++ {
		parts[i] = strconv.Itoa(int(s[i]))
	}
	return "[" + strings.Join(parts, "; ") + "]"
}

func coqZ(n *big.Int) string {
	if n.Sign() < 0 {
		return "(" + n.String() + ")"
	}
	return n.String()
}

// ---------- functions / snippets ----------

type tenv struct {
	vars   map[string]string // coq identifier -> go type ("bool", "int64", ...)
	consts constEnv
}

func flat(e ast.Expr) (string, bool) {
	switch x := e.(type) {
	case *ast.Ident:
		return x.Name, true
	case *ast.SelectorExpr:
		if p, ok := flat(x.X); ok {
			return p + "_" + x.Sel.Name, true
		}
	}
	return "", false
}

var wrapName = map[string]string{"int64": "i64", "int": "i64", "int32": "i32", "uint64": "u64", "uint": "u64", "uint32": "u32", "uint16": "u16", "uint8": "u8", "byte": "u8"}

func (t *tenv) typeOf(e ast.Expr) string {
	switch x := e.(type) {
	case *ast.BasicLit:
		return ""
	case *ast.ParenExpr:
		return t.typeOf(x.X)
	case *ast.Ident, *ast.SelectorExpr:
		name, ok := flat(x)
		if !ok {
			failf("unsupported operand")
		}
		if ty, ok := t.vars[name]; ok {
			return ty
		}
		if c, ok := t.consts[name]; ok {
			return c.typ
		}
		if name == "true" || name == "false" {
			return "bool"
		}
		failf("unknown identifier %s", name)
	case *ast.CallExpr:
		if id, ok := x.Fun.(*ast.Ident); ok {
			if _, ok := intTypes[id.Name]; ok {
				return id.Name
			}
		}
		failf("unsupported call")
	case *ast.UnaryExpr:
		if x.Op == token.NOT {
			return "bool"
		}
		return t.typeOf(x.X)
	case *ast.BinaryExpr:
		switch x.Op {
		case token.EQL, token.NEQ, token.LSS, token.LEQ, token.GTR, token.GEQ, token.LAND, token.LOR:
			return "bool"
		}
		a := t.typeOf(x.X)
		if a != "" {
			return a
		}
		return t.typeOf(x.Y)
	}
	failf("unsupported expression %T", e)
	return ""
}

// tr returns the Gallina term for e and the list of boolean Gallina terms that,
// when true, mean the Go evaluation panics (zero divisor).
func (t *tenv) tr(e ast.Expr) (string, []string) {
	switch x := e.(type) {
	case *ast.BasicLit:
		v := evalConst(x, t.consts)
		return coqZ(v.n), nil
	case *ast.ParenExpr:
		return t.tr(x.X)
	case *ast.Ident, *ast.SelectorExpr:
		name, _ := flat(x)
		if _, ok := t.vars[name]; ok {
			return name, nil
		}
		if c, ok := t.consts[name]; ok && !c.isStr {
			return coqZ(c.n), nil
		}
		if name == "true" || name == "false" {
			return name, nil
		}
		failf("unknown identifier %s", name)
	case *ast.CallExpr:
		id, ok := x.Fun.(*ast.Ident)
		if !ok || len(x.Args) != 1 {
			failf("unsupported call")
		}
		w, ok := wrapName[id.Name]
		if !ok {
			failf("unsupported call %s", id.Name)
		}
		a, g := t.tr(x.Args[0])
		return fmt.Sprintf("(%s %s)", w, a), g
	case *ast.UnaryExpr:
		a, g := t.tr(x.X)
		switch x.Op {
		case token.NOT:
			return fmt.Sprintf("(negb %s)", a), g
		case token.SUB:
			ty := t.typeOf(x.X)
			if ty == "" {
				return fmt.Sprintf("(- %s)", a), g
			}
			return fmt.Sprintf("(%s (- %s))", wrapName[ty], a), g
		}
		failf("unsupported unary operator %s", x.Op)
	case *ast.BinaryExpr:
		a, ga := t.tr(x.X)
		b, gb := t.tr(x.Y)
		g := append(append([]string{}, ga...), gb...)
		switch x.Op {
		case token.EQL:
			if t.typeOf(x.X) == "bool" {
				return fmt.Sprintf("(Bool.eqb %s %s)", a, b), g
			}
			return fmt.Sprintf("(%s =? %s)", a, b), g
		case token.NEQ:
			if t.typeOf(x.X) == "bool" {
				return fmt.Sprintf("(negb (Bool.eqb %s %s))", a, b), g
			}
			return fmt.Sprintf("(negb (%s =? %s))", a, b), g
		case token.LSS:
			return fmt.Sprintf("(%s <? %s)", a, b), g
		case token.LEQ:
			return fmt.Sprintf("(%s <=? %s)", a, b), g
		case token.GTR:
			return fmt.Sprintf("(%s <? %s)", b, a), g
		case token.GEQ:
			return fmt.Sprintf("(%s <=? %s)", b, a), g
		case token.LAND:
			if len(gb) > 0 {
				failf("division under && is not supported")
			}
			return fmt.Sprintf("(%s && %s)%%bool", a, b), g
		case token.LOR:
			if len(gb) > 0 {
				failf("division under || is not supported")
			}
			return fmt.Sprintf("(%s || %s)%%bool", a, b), g
		}
		ty := t.typeOf(x)
		w := ""
		if ty != "" {
			w = wrapName[ty]
			if w == "" {
				failf("arithmetic on unsupported type %s", ty)
			}
		}
		var body string
		switch x.Op {
		case token.ADD:
			body = fmt.Sprintf("%s + %s", a, b)
		case token.SUB:
			body = fmt.Sprintf("%s - %s", a, b)
		case token.MUL:
			body = fmt.Sprintf("%s * %s", a, b)
		case token.QUO:
			body = fmt.Sprintf("go_quot %s %s", a, b)
			g = append(g, fmt.Sprintf("(%s =? 0)", b))
		case token.REM:
			body = fmt.Sprintf("go_rem %s %s", a, b)
			g = append(g, fmt.Sprintf("(%s =? 0)", b))
		default:
			failf("unsupported operator %s", x.Op)
		}
		if w == "" {
			return "(" + body + ")", g
		}
		return fmt.Sprintf("(%s (%s))", w, body), g
	}
	failf("unsupported expression %T", e)
	return "", nil
}

func guardWrap(g []string, body string) string {
	if len(g) == 0 {
		return body
	}
	return fmt.Sprintf("if (%s)%%bool then Panic else %s", strings.Join(g, " || "), body)
}

func endsInReturn(stmts []ast.Stmt) bool {
	if len(stmts) == 0 {
		return false
	}
	_, ok := stmts[len(stmts)-1].(*ast.ReturnStmt)
	return ok
}

func assignedVars(stmts []ast.Stmt) ([]string, bool) {
	seen := map[string]bool{}
	var out []string
	for _, s := range stmts {
		as, ok := s.(*ast.AssignStmt)
		if !ok || as.Tok != token.ASSIGN || len(as.Lhs) != 1 {
			return nil, false
		}
		name, ok := flat(as.Lhs[0])
		if !ok {
			return nil, false
		}
		if !seen[name] {
			seen[name] = true
			out = append(out, name)
		}
	}
	return out, true
}

func tuple(vs []string) string {
	if len(vs) == 1 {
		return vs[0]
	}
	return "(" + strings.Join(vs, ", ") + ")"
}

func tuplePat(vs []string) string {
	if len(vs) == 1 {
		return vs[0]
	}
	return "'(" + strings.Join(vs, ", ") + ")"
}

// stmts translates a statement list; `final` is the term to use when the list
// falls off its end (snippets: `Ret var`; assignment-only bodies: `Ret tuple`).
func (t *tenv) stmts(list []ast.Stmt, final string, ind string) string {
	if len(list) == 0 {
		if final == "" {
			failf("control reaches the end of a function without return")
		}
		return final
	}
	s, rest := list[0], list[1:]
	switch x := s.(type) {
	case *ast.ReturnStmt:
		switch len(x.Results) {
		case 1:
			e, g := t.tr(x.Results[0])
			return guardWrap(g, "Ret "+e)
		case 2:
			if id, ok := x.Results[1].(*ast.Ident); ok && id.Name == "nil" {
				e, g := t.tr(x.Results[0])
				return guardWrap(g, "Ret "+e)
			}
			return "Err"
		}
		failf("unsupported return arity %d", len(x.Results))
	case *ast.DeclStmt:
		gd := x.Decl.(*ast.GenDecl)
		if gd.Tok != token.VAR || len(gd.Specs) != 1 {
			failf("unsupported declaration")
		}
		vs := gd.Specs[0].(*ast.ValueSpec)
		if len(vs.Names) != 1 || len(vs.Values) > 1 {
			failf("unsupported var declaration")
		}
		ty := ""
		if id, ok := vs.Type.(*ast.Ident); ok {
			ty = id.Name
		}
		val := "0"
		var g []string
		if len(vs.Values) == 1 {
			val, g = t.tr(vs.Values[0])
			if ty == "" {
				ty = t.typeOf(vs.Values[0])
			}
		}
		t.vars[vs.Names[0].Name] = ty
		return guardWrap(g, fmt.Sprintf("let %s := %s in\n%s%s", vs.Names[0].Name, val, ind, t.stmts(rest, final, ind)))
	case *ast.AssignStmt:
		if len(x.Lhs) != 1 || len(x.Rhs) != 1 {
			failf("unsupported multi-assignment")
		}
		name, ok := flat(x.Lhs[0])
		if !ok {
			failf("unsupported assignment target")
		}
		val, g := t.tr(x.Rhs[0])
		switch x.Tok {
		case token.DEFINE:
			ty := t.typeOf(x.Rhs[0])
			if ty == "" {
				ty = "int"
			}
			t.vars[name] = ty
		case token.ASSIGN:
			if _, ok := t.vars[name]; !ok {
				failf("assignment to unknown variable %s", name)
			}
			if t.typeOf(x.Rhs[0]) == "" && t.vars[name] != "bool" {
				// untyped constant assigned to a typed variable: already a literal
			}
		default:
			failf("unsupported assignment operator %s", x.Tok)
		}
		return guardWrap(g, fmt.Sprintf("let %s := %s in\n%s%s", name, val, ind, t.stmts(rest, final, ind)))
	case *ast.IfStmt:
		if x.Init != nil {
			failf("if with init statement is not supported")
		}
		c, gc := t.tr(x.Cond)
		thenRet := endsInReturn(x.Body.List)
		var elseList []ast.Stmt
		hasElse := x.Else != nil
		if hasElse {
			switch e := x.Else.(type) {
			case *ast.BlockStmt:
				elseList = e.List
			case *ast.IfStmt:
				elseList = []ast.Stmt{e}
			}
		}
		if thenRet {
			thenT := t.stmts(x.Body.List, "", ind+"  ")
			elseT := t.stmts(append(append([]ast.Stmt{}, elseList...), rest...), final, ind)
			return guardWrap(gc, fmt.Sprintf("if %s then %s\n%selse %s", c, thenT, ind, elseT))
		}
		// assignment-only branches: thread the assigned variables through a bind
		av, ok1 := assignedVars(x.Body.List)
		ev, ok2 := assignedVars(elseList)
		if !ok1 || !ok2 {
			failf("unsupported if body (neither early return nor assignments only)")
		}
		seen := map[string]bool{}
		var vs []string
		for _, v := range append(av, ev...) {
			if !seen[v] {
				seen[v] = true
				vs = append(vs, v)
			}
		}
		if len(vs) == 0 {
			return guardWrap(gc, t.stmts(rest, final, ind))
		}
		thenT := t.stmts(x.Body.List, "Ret "+tuple(vs), ind+"  ")
		elseT := "Ret " + tuple(vs)
		if hasElse {
			elseT = t.stmts(elseList, "Ret "+tuple(vs), ind+"  ")
		}
		return guardWrap(gc, fmt.Sprintf("bind (if %s then %s else %s) (fun %s =>\n%s%s)", c, thenT, elseT, tuplePat(vs), ind, t.stmts(rest, final, ind)))
	}
	failf("unsupported statement %T", s)
	return ""
}

type param struct{ name, typ string }

func findFunc(f *ast.File, name string) *ast.FuncDecl {
	for _, d := range f.Decls {
		if fd, ok := d.(*ast.FuncDecl); ok && fd.Name.Name == name && fd.Recv == nil {
			return fd
		}
	}
	return nil
}

func findClosure(body *ast.BlockStmt, name string) *ast.FuncLit {
	var out *ast.FuncLit
	ast.Inspect(body, func(n ast.Node) bool {
		as, ok := n.(*ast.AssignStmt)
		if !ok || len(as.Lhs) != 1 || len(as.Rhs) != 1 {
			return true
		}
		if id, ok := as.Lhs[0].(*ast.Ident); ok && id.Name == name {
			if fl, ok := as.Rhs[0].(*ast.FuncLit); ok && out == nil {
				out = fl
			}
		}
		return true
	})
	return out
}

func paramsOf(ft *ast.FuncType) []param {
	var ps []param
	for _, fld := range ft.Params.List {
		id, ok := fld.Type.(*ast.Ident)
		if !ok {
			failf("unsupported parameter type")
		}
		for _, n := range fld.Names {
			ps = append(ps, param{n.Name, id.Name})
		}
	}
	return ps
}

func emitDef(name string, ps []param, body string, doc string) string {
	var names []string
	for _, p := range ps {
		names = append(names, p.name)
	}
	var sb strings.Builder
	fmt.Fprintf(&sb, "(* %s *)\n", doc)
	var binders []string
	var zs, bs []string
	for _, p := range ps {
		if p.typ == "bool" {
			bs = append(bs, p.name)
		} else {
			zs = append(zs, p.name)
		}
	}
	_ = names
	for _, p := range ps {
		if p.typ == "bool" {
			binders = append(binders, fmt.Sprintf("(%s : bool)", p.name))
		} else {
			binders = append(binders, fmt.Sprintf("(%s : Z)", p.name))
		}
	}
	_, _ = zs, bs
	fmt.Fprintf(&sb, "Definition %s %s : res Z :=\n  %s.\n", name, strings.Join(binders, " "), body)
	return sb.String()
}

type funcSpec struct{ file, fn, out string }

type snipSpec struct {
	file, fn, closure, variable, out string
	free                             []param // flattened names, e.g. begin_FileSize
	deep                             bool    // search nested blocks (goroutine bodies) for the definition
	guardBefore                      bool    // include the `if ... { return ..., err }` statement(s) preceding the definition that mention a free variable
}

func translateFunc(files map[string]*ast.File, consts constEnv, sp funcSpec) string {
	f := files[sp.file]
	fd := findFunc(f, sp.fn)
	if fd == nil {
		failf("function %s not found in %s", sp.fn, sp.file)
	}
	ps := paramsOf(fd.Type)
	t := &tenv{vars: map[string]string{}, consts: consts}
	for _, p := range ps {
		t.vars[p.name] = p.typ
	}
	body := t.stmts(fd.Body.List, "", "  ")
	return emitDef(sp.out, ps, body, fmt.Sprintf("generated from func %s in %s", sp.fn, sp.file))
}

func mentions(n ast.Node, names map[string]bool) bool {
	found := false
	ast.Inspect(n, func(m ast.Node) bool {
		if e, ok := m.(ast.Expr); ok {
			if s, ok := flat(e); ok && names[s] {
				found = true
			}
		}
		return !found
	})
	return found
}

func assigns(s ast.Stmt, v string) bool {
	found := false
	ast.Inspect(s, func(m ast.Node) bool {
		if as, ok := m.(*ast.AssignStmt); ok {
			for _, l := range as.Lhs {
				if n, ok := flat(l); ok && n == v {
					found = true
				}
			}
		}
		return !found
	})
	return found
}

func translateSnippet(files map[string]*ast.File, consts constEnv, sp snipSpec) string {
	f := files[sp.file]
	fd := findFunc(f, sp.fn)
	if fd == nil {
		failf("function %s not found in %s", sp.fn, sp.file)
	}
	body := fd.Body
	where := sp.fn
	if sp.closure != "" {
		fl := findClosure(fd.Body, sp.closure)
		if fl == nil {
			failf("closure %s not found in %s", sp.closure, sp.fn)
		}
		body = fl.Body
		where += "/" + sp.closure
	}
	findIn := func(b *ast.BlockStmt) int {
		for i, s := range b.List {
			if as, ok := s.(*ast.AssignStmt); ok && as.Tok == token.DEFINE && len(as.Lhs) == 1 {
				if id, ok := as.Lhs[0].(*ast.Ident); ok && id.Name == sp.variable {
					return i
				}
			}
		}
		return -1
	}
	idx := findIn(body)
	if idx < 0 && sp.deep {
		var hit *ast.BlockStmt
		ast.Inspect(body, func(n ast.Node) bool {
			if b, ok := n.(*ast.BlockStmt); ok && hit == nil && findIn(b) >= 0 {
				hit = b
			}
			return hit == nil
		})
		if hit != nil {
			body = hit
			idx = findIn(hit)
		}
	}
	if idx < 0 {
		failf("definition of %s not found in %s", sp.variable, where)
	}
	freeNames := map[string]bool{}
	for _, p := range sp.free {
		freeNames[p.name] = true
	}
	var list []ast.Stmt
	if sp.guardBefore {
		// every earlier top-level `if cond { return ..., <non-nil> }` whose condition
		// only talks about the free variables is a guard of the computation
		for _, s := range body.List[:idx] {
			is, ok := s.(*ast.IfStmt)
			if !ok || is.Init != nil || is.Else != nil || !endsInReturn(is.Body.List) || len(is.Body.List) != 1 {
				continue
			}
			if mentions(is.Cond, freeNames) {
				list = append(list, is)
			}
		}
	}
	list = append(list, body.List[idx])
	for j := idx + 1; j < len(body.List); j++ {
		is, ok := body.List[j].(*ast.IfStmt)
		if !ok || !assigns(is, sp.variable) {
			break
		}
		list = append(list, is)
	}
	t := &tenv{vars: map[string]string{}, consts: consts}
	for _, p := range sp.free {
		t.vars[p.name] = p.typ
	}
	term := t.stmts(list, "Ret "+sp.variable, "  ")
	return emitDef(sp.out, sp.free, term, fmt.Sprintf("generated from the definition of %s in %s (%s)", sp.variable, where, sp.file))
}

// genCtx is what a per-property generator (gen_cxx.go, registered through
// extraGens in its init) gets: the repository path, a loader for further source
// files, the constant environment, the failure-catching runner and the writer.
type genCtx struct {
	repo   string
	files  map[string]*ast.File
	load   func(rel string) *ast.File
	consts constEnv
	run    func(name string, f func() string) string
	write  func(name, content string)
	failed func() bool
}

var extraGens []func(*genCtx)

const genHeader = "(* GENERATED by /verif/tools/gotrans from /repo's working tree - do not edit *)\n"

func main() {
	if len(os.Args) != 3 {
		fmt.Fprintln(os.Stderr, "usage: gotrans <repo> <outdir>")
		os.Exit(2)
	}
	repo, out := os.Args[1], os.Args[2]
	fset := token.NewFileSet()
	files := map[string]*ast.File{}
	load := func(rel string) {
		f, err := parser.ParseFile(fset, filepath.Join(repo, rel), nil, parser.SkipObjectResolution)
		if err != nil {
			fmt.Fprintf(os.Stderr, "GOTRANS-FAIL parse %s: %v\n", rel, err)
			os.Exit(1)
		}
		files[rel] = f
	}
	srcs := []string{
		"internal/transfer/multistream.go", "internal/transfer/manifestproto.go", "internal/transfer/sidecar.go",
		"internal/transfer/controlproto.go", "internal/transfer/fileproto.go", "internal/transfer/hash.go",
		"internal/transfer/params.go", "internal/app/transfer_concurrency.go", "internal/peers/hub.go",
	}
	for _, s := range srcs {
		load(s)
	}
	consts := constEnv{}
	// two passes so that constants may refer to constants of other files
	for pass := 0; pass < 2; pass++ {
		for _, s := range srcs {
			collectConsts(files[s], consts)
		}
	}

	failed := false
	run := func(name string, f func() string) string {
		var res string
		func() {
			defer func() {
				if r := recover(); r != nil {
					if fl, ok := r.(failure); ok {
						fmt.Fprintf(os.Stderr, "GOTRANS-FAIL %s: %s\n", name, fl.msg)
						failed = true
						return
					}
					panic(r)
				}
			}()
			res = f()
		}()
		return res
	}

	// ---- Gen/Consts.v ----
	wanted := []string{
		"controlMagic", "controlTypeFileBegin", "controlTypeCredit", "controlTypeFileEnd", "controlTypeFileDone",
		"controlTypeFileResumeInfo", "controlTypeResumeRequest", "controlTypeCreditBatch", "controlTypeDataStreams",
		"controlTypeEnd", "maxRelPathLength", "DefaultChunkSize", "maxFileSize", "dataChunkHeaderLen",
		"sidecarMagic", "sidecarVersion", "sidecarSuffix", "sidecarDir", "HashAlgNone", "HashAlgCRC32C",
		"HashAlgXXHash64", "manifestMagicBytes", "magicBytes", "maxFilenameLength", "recordTypeDir", "recordTypeFile",
		"recordTypeEnd", "resumeHashUnknown", "eofMagic",
	}
	var cb strings.Builder
	cb.WriteString("(* GENERATED by /verif/tools/gotrans from /repo's working tree - do not edit *)\nFrom TF Require Import Lib.GoInt.\nOpen Scope Z_scope.\n\n")
	for _, w := range wanted {
		v, ok := consts[w]
		if !ok {
			fmt.Fprintf(os.Stderr, "GOTRANS-FAIL const %s: not found or not a literal constant\n", w)
			failed = true
			continue
		}
		if v.isStr {
			fmt.Fprintf(&cb, "Definition c_%s : list Z := %s. (* %q *)\n", w, coqBytes(v.s), v.s)
		} else {
			fmt.Fprintf(&cb, "Definition c_%s : Z := %s.\n", w, coqZ(v.n))
		}
	}
	// ---- Gen/Geometry.v ----
	var gb strings.Builder
	gb.WriteString("(* GENERATED by /verif/tools/gotrans from /repo's working tree - do not edit *)\nFrom TF Require Import Lib.GoInt.\nOpen Scope Z_scope.\n\n")
	funcs := []funcSpec{
		{"internal/transfer/multistream.go", "chunkTotal", "chunkTotal"},
		{"internal/transfer/multistream.go", "chunkSizeForIndex", "chunkSizeForIndex"},
	}
	for _, sp := range funcs {
		sp := sp
		gb.WriteString(run(sp.out, func() string { return translateFunc(files, consts, sp) }))
		gb.WriteString("\n")
	}
	snips := []snipSpec{
		{file: "internal/transfer/multistream.go", fn: "RecvManifestMultiStream", closure: "handleFileBegin", variable: "totalChunks", out: "recvTotalChunks",
			free: []param{{"begin_FileSize", "uint64"}, {"begin_ChunkSize", "uint32"}}},
		{file: "internal/transfer/multistream.go", fn: "RecvManifestMultiStreamLegacy", closure: "buildResumeInfo", variable: "totalChunks", out: "legacyResumeTotalChunks",
			free: []param{{"begin_FileSize", "uint64"}, {"begin_ChunkSize", "uint32"}}},
		{file: "internal/transfer/sidecar.go", fn: "CreateSidecar", variable: "totalChunks", out: "sidecarTotalChunks", guardBefore: true,
			free: []param{{"fileSize", "int64"}, {"chunkSize", "uint32"}}},
		{file: "internal/transfer/manifestproto.go", fn: "sendFileChunksWindowed", variable: "totalChunks", out: "windowedSendTotalChunks", guardBefore: true,
			free: []param{{"fileSize", "int64"}, {"chunkSize", "uint32"}}},
		{file: "internal/transfer/manifestproto.go", fn: "receiveFileChunksWindowed", variable: "totalChunks", out: "windowedRecvTotalChunks", guardBefore: true,
			free: []param{{"fileSize", "uint64"}, {"chunkSize", "uint32"}}},
	}
	snips = append(snips,
		snipSpec{file: "internal/transfer/multistream.go", fn: "SendManifestMultiStream", variable: "offset", out: "sendOffset", deep: true,
			free: []param{{"chunkIndex", "uint32"}, {"state_chunkSize", "uint32"}}},
		snipSpec{file: "internal/transfer/multistream.go", fn: "RecvManifestMultiStream", variable: "offset", out: "recvOffset", deep: true,
			free: []param{{"chunkIndex", "uint32"}, {"state_chunkSize", "uint32"}}},
	)
	for _, sp := range snips {
		sp := sp
		gb.WriteString(run(sp.out, func() string { return translateSnippet(files, consts, sp) }))
		gb.WriteString("\n")
	}
	// ---- Gen/Budget.v ----
	var bb strings.Builder
	bb.WriteString("(* GENERATED by /verif/tools/gotrans from /repo's working tree - do not edit *)\nFrom TF Require Import Lib.GoInt.\nOpen Scope Z_scope.\n\n")
	_ = sort.Strings

	write := func(name, content string) {
		p := filepath.Join(out, name)
		old, err := os.ReadFile(p)
		if err == nil && string(old) == content {
			return // keep mtime: make does not rebuild dependents
		}
		if err := os.WriteFile(p, []byte(content), 0644); err != nil {
			fmt.Fprintf(os.Stderr, "GOTRANS-FAIL write %s: %v\n", p, err)
			os.Exit(1)
		}
	}
	if failed {
		os.Exit(1)
	}
	{
		var sb strings.Builder
		sb.WriteString("(* GENERATED by /verif/tools/gotrans from /repo's working tree - do not edit *)\nFrom Coq Require Import List String.\nImport ListNotations.\nOpen Scope string_scope.\n\n")
		specs := []callSpec{
			{file: "internal/transfer/multistream.go", fn: "RecvManifestMultiStream", closure: "readDataStream", out: "sk_recv_reader",
				names: []string{"readFullWithTimeout", "readFullWithTimeoutDelta", "Checksum", "openFile", "writeAtWithTimeout", "markChunkComplete", "finalizeFile"}},
			{file: "internal/transfer/sidecar.go", fn: "Flush", recv: "Sidecar", out: "sk_sidecar_flush",
				names: []string{"Lock", "Marshal", "WriteFile", "Rename", "=s_dirty"}},
			{file: "internal/transfer/multistream.go", fn: "RecvManifestMultiStream", closure: "handleFileBegin", out: "sk_recv_filebegin",
				names: []string{"validateRelPath", "MkdirAll", "OpenFile", "Truncate", "LoadOrCreateSidecarWithFallback"}},
		}
		for _, sp := range specs {
			sp := sp
			sb.WriteString(run(sp.out, func() string { return callSkeleton(files, sp) }))
			sb.WriteString("\n")
		}
		if !failed {
			write("Calls.v", sb.String())
		}
	}
	for _, g := range extraGens {
		g(&genCtx{repo: repo, files: files, consts: consts, run: run, write: write, failed: func() bool { return failed },
			load: func(rel string) *ast.File {
				if f, ok := files[rel]; ok {
					return f
				}
				load(rel)
				for pass := 0; pass < 2; pass++ {
					collectConsts(files[rel], consts)
				}
				return files[rel]
			}})
	}
	if failed {
		os.Exit(1)
	}
	write("HubLocks.v", lockSkeletons(files["internal/peers/hub.go"], "Hub", "h.mu", []string{"h.sessions", "h.byPeerID", "sessionPeers", "peerIDMap"}))
	write("Consts.v", cb.String())
	write("Geometry.v", gb.String())
}

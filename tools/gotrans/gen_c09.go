package main

import (
	"fmt"
	"go/ast"
	"go/token"
)

// C09: structural facts of internal/ice/ice.go ProbeAndDial/probeWithTransport
// that Model/Race.v (fx = true) relies on, read off the source on every run:
// capacity of the result channel, hand-over by compare-and-swap with the loser
// closing its connection, wg.Add before the goroutine that waits, the allDone arm
// re-checking the channel, the context arm starting a drainer.  Proofs/RaceGen.v
// proves the expected values, so a changed source breaks a proof obligation.

func init() { extraGens = append(extraGens, genC09) }

func c09closure(body *ast.BlockStmt, name string) *ast.FuncLit {
	var out *ast.FuncLit
	ast.Inspect(body, func(n ast.Node) bool {
		if as, ok := n.(*ast.AssignStmt); ok && len(as.Lhs) == 1 && len(as.Rhs) == 1 {
			if id, ok := as.Lhs[0].(*ast.Ident); ok && id.Name == name {
				if fl, ok := as.Rhs[0].(*ast.FuncLit); ok && out == nil {
					out = fl
				}
			}
		}
		return out == nil
	})
	return out
}

func c09isCall(n ast.Node, recv, method string) bool {
	c, ok := n.(*ast.CallExpr)
	if !ok {
		return false
	}
	sel, ok := c.Fun.(*ast.SelectorExpr)
	if !ok || sel.Sel.Name != method {
		return false
	}
	if recv == "" {
		return true
	}
	id, ok := sel.X.(*ast.Ident)
	return ok && id.Name == recv
}

func c09contains(n ast.Node, pred func(ast.Node) bool) bool {
	found := false
	if n == nil {
		return false
	}
	ast.Inspect(n, func(m ast.Node) bool {
		if m != nil && pred(m) {
			found = true
		}
		return !found
	})
	return found
}

func c09recvFrom(n ast.Node, ch string) bool {
	u, ok := n.(*ast.UnaryExpr)
	if !ok || u.Op != token.ARROW {
		return false
	}
	id, ok := u.X.(*ast.Ident)
	return ok && id.Name == ch
}

func genC09(c *genCtx) {
	body := c.run("C09 race shape", func() string {
		f := c.load("internal/ice/ice.go")
		fd := findMethod(f, "Prober", "ProbeAndDial")
		if fd == nil {
			failf("ProbeAndDial not found")
		}
		pw := c09closure(fd.Body, "probeWithTransport")
		if pw == nil {
			failf("closure probeWithTransport not found")
		}
		dc := c09closure(pw.Body, "dialCandidate")
		if dc == nil {
			failf("closure dialCandidate not found")
		}
		b := func(v bool) string {
			if v {
				return "true"
			}
			return "false"
		}
		// capacity of resultCh
		capv := "-1"
		for _, s := range pw.Body.List {
			as, ok := s.(*ast.AssignStmt)
			if !ok || len(as.Lhs) != 1 || len(as.Rhs) != 1 {
				continue
			}
			if id, ok := as.Lhs[0].(*ast.Ident); !ok || id.Name != "resultCh" {
				continue
			}
			call, ok := as.Rhs[0].(*ast.CallExpr)
			if !ok {
				continue
			}
			if fn, ok := call.Fun.(*ast.Ident); !ok || fn.Name != "make" {
				continue
			}
			capv = "0"
			if len(call.Args) == 2 {
				if lit, ok := call.Args[1].(*ast.BasicLit); ok && lit.Kind == token.INT {
					capv = lit.Value
				} else {
					failf("capacity of resultCh is not an integer literal")
				}
			}
		}
		if capv == "-1" {
			failf("resultCh := make(...) not found in probeWithTransport")
		}
		// wg.Add at the top level before the goroutine that calls wg.Wait, and not inside a loop
		addIdx, waitIdx, addInLoop := -1, -1, false
		for i, s := range pw.Body.List {
			switch x := s.(type) {
			case *ast.ExprStmt:
				if c09isCall(x.X, "wg", "Add") && addIdx < 0 {
					addIdx = i
				}
			case *ast.GoStmt:
				if c09contains(x.Call, func(n ast.Node) bool { return c09isCall(n, "wg", "Wait") }) && waitIdx < 0 {
					waitIdx = i
				}
			case *ast.RangeStmt:
				if c09contains(x.Body, func(n ast.Node) bool { return c09isCall(n, "wg", "Add") }) {
					addInLoop = true
				}
			case *ast.ForStmt:
				if c09contains(x.Body, func(n ast.Node) bool { return c09isCall(n, "wg", "Add") }) {
					addInLoop = true
				}
			}
		}
		addFirst := addIdx >= 0 && waitIdx >= 0 && addIdx < waitIdx && !addInLoop
		// hand-over: if won.CompareAndSwap(..) { resultCh <- conn ... } else { conn.CloseWithError(..) }
		cas := false
		ast.Inspect(dc.Body, func(n ast.Node) bool {
			is, ok := n.(*ast.IfStmt)
			if !ok {
				return true
			}
			if !c09isCall(is.Cond, "", "CompareAndSwap") || is.Else == nil {
				return true
			}
			send := c09contains(is.Body, func(m ast.Node) bool {
				s, ok := m.(*ast.SendStmt)
				if !ok {
					return false
				}
				id, ok := s.Chan.(*ast.Ident)
				return ok && id.Name == "resultCh"
			})
			closes := c09contains(is.Else, func(m ast.Node) bool { return c09isCall(m, "conn", "CloseWithError") })
			sendElsewhere := false
			_ = sendElsewhere
			if send && closes {
				cas = true
			}
			return true
		})
		// no other send into resultCh outside that if
		sends := 0
		ast.Inspect(dc.Body, func(n ast.Node) bool {
			if s, ok := n.(*ast.SendStmt); ok {
				if id, ok := s.Chan.(*ast.Ident); ok && id.Name == "resultCh" {
					sends++
				}
			}
			return true
		})
		// the caller's select
		var sel *ast.SelectStmt
		for _, s := range pw.Body.List {
			if x, ok := s.(*ast.SelectStmt); ok {
				sel = x
			}
		}
		if sel == nil {
			failf("the caller's select not found in probeWithTransport")
		}
		recheck, drains, arms := false, false, 0
		for _, cl := range sel.Body.List {
			cc := cl.(*ast.CommClause)
			arms++
			if cc.Comm == nil {
				continue
			}
			isRecv := func(ch string) bool {
				return c09contains(cc.Comm, func(n ast.Node) bool { return c09recvFrom(n, ch) })
			}
			bodyBlock := &ast.BlockStmt{List: cc.Body}
			if isRecv("allDone") {
				recheck = c09contains(bodyBlock, func(n ast.Node) bool {
					s, ok := n.(*ast.SelectStmt)
					return ok && c09contains(s, func(m ast.Node) bool { return c09recvFrom(m, "resultCh") })
				})
			}
			if c09contains(cc.Comm, func(n ast.Node) bool { return c09isCall(n, "ctx", "Done") }) {
				drains = c09contains(bodyBlock, func(n ast.Node) bool {
					g, ok := n.(*ast.GoStmt)
					return ok && c09contains(g.Call, func(m ast.Node) bool { return c09recvFrom(m, "allDone") }) &&
						c09contains(g.Call, func(m ast.Node) bool { return c09recvFrom(m, "resultCh") }) &&
						c09contains(g.Call, func(m ast.Node) bool { return c09isCall(m, "", "CloseWithError") })
				})
			}
		}
		return fmt.Sprintf("Definition result_chan_cap : Z := %s.\nDefinition wg_add_before_wait : bool := %s.\nDefinition handover_is_cas : bool := %s.\nDefinition handover_sends : Z := %d.\nDefinition alldone_rechecks_channel : bool := %s.\nDefinition ctx_arm_starts_drainer : bool := %s.\nDefinition caller_select_arms : Z := %d.\n",
			capv, b(addFirst), b(cas), sends, b(recheck), b(drains), arms)
	})
	c.write("RaceSrc.v", genHeader+"(* structural facts of internal/ice/ice.go ProbeAndDial/probeWithTransport (C09) *)\nFrom Coq Require Import ZArith Bool.\nOpen Scope Z_scope.\n\n"+body)
}

package main

import (
	"fmt"
	"go/ast"
	"go/token"
	"sort"
	"strings"
)

// C16: the server's flag defaults (the ServerConfig literal at the top of
// config.parseServerConfigWithFlagSet) and the client's default --max-receivers
// (the `maxReceivers := N` at the top of sender.Run) as Gallina constants, so
// that "the documented defaults admit the default client" is a proof obligation
// over the current source (Gen/C16.v, proved in Proofs/Config.v).

func init() { extraGens = append(extraGens, genC16) }

func mustFunc(f *ast.File, name string) *ast.FuncDecl {
	fd := findFunc(f, name)
	if fd == nil {
		failf("function %s not found", name)
	}
	return fd
}

func genC16(c *genCtx) {
	body := c.run("C16", func() string {
		var sb strings.Builder
		sb.WriteString("From TF Require Import Lib.GoInt.\nOpen Scope Z_scope.\n\n")
		cfg := c.load("internal/config/config.go")
		fd := mustFunc(cfg, "parseServerConfigWithFlagSet")
		var lit *ast.CompositeLit
		ast.Inspect(fd.Body, func(n ast.Node) bool {
			if cl, ok := n.(*ast.CompositeLit); ok && lit == nil {
				if id, ok := cl.Type.(*ast.Ident); ok && id.Name == "ServerConfig" {
					lit = cl
				}
			}
			return lit == nil
		})
		if lit == nil {
			failf("ServerConfig literal not found in parseServerConfigWithFlagSet")
		}
		vals := map[string]string{}
		for _, el := range lit.Elts {
			kv, ok := el.(*ast.KeyValueExpr)
			if !ok {
				failf("ServerConfig literal is not keyed")
			}
			v := evalConst(kv.Value, c.consts)
			if v.isStr || v.n == nil {
				failf("default of %s is not an integer constant", kv.Key.(*ast.Ident).Name)
			}
			vals[kv.Key.(*ast.Ident).Name] = v.n.String()
		}
		want := []string{"MaxSessions", "MaxReceiversPerSender", "MaxMessageBytes", "WSConnectsPerMin", "WSConnectsBurst", "WSMsgsPerSec", "WSMsgsBurst",
			"SessionCreatesPerMin", "SessionCreatesBurst", "MaxWSConnections", "WSIdleTimeout", "SessionTimeout", "TurnCredentialTTL"}
		for _, k := range want {
			if _, ok := vals[k]; !ok {
				failf("no default for ServerConfig.%s", k)
			}
		}
		keys := make([]string, 0, len(vals))
		for k := range vals {
			keys = append(keys, k)
		}
		sort.Strings(keys)
		sb.WriteString("(* defaults of the thruserv flags: internal/config/config.go parseServerConfigWithFlagSet (durations in ns) *)\n")
		for _, k := range keys {
			fmt.Fprintf(&sb, "Definition srv_default_%s : Z := %s.\n", k, vals[k])
		}
		snd := c.load("internal/cli/sender/sender.go")
		run := mustFunc(snd, "Run")
		found := ""
		ast.Inspect(run.Body, func(n ast.Node) bool {
			as, ok := n.(*ast.AssignStmt)
			if !ok || found != "" || as.Tok != token.DEFINE || len(as.Lhs) != 1 || len(as.Rhs) != 1 {
				return true
			}
			if id, ok := as.Lhs[0].(*ast.Ident); ok && id.Name == "maxReceivers" {
				found = evalConst(as.Rhs[0], c.consts).n.String()
			}
			return true
		})
		if found == "" {
			failf("`maxReceivers := N` not found in sender.Run")
		}
		fmt.Fprintf(&sb, "\n(* default --max-receivers of `thru host`: internal/cli/sender/sender.go Run *)\nDefinition cli_default_max_receivers : Z := %s.\n", found)
		return sb.String()
	})
	if !c.failed() {
		c.write("C16.v", genHeader+body)
	}
}

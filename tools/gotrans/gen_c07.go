package main

import (
	"fmt"
	"go/ast"
	"sort"
	"strings"
)

// C07: (a) call-order skeletons of the places where the receiver turns a
// sender-controlled string into a filesystem call, (b) for each anchored source
// file the complete list of calls into package os that create, modify or delete
// (enclosing top-level function, callee), so that the hand-written enumeration in
// Model/PathFs.v is checked against the source on every run: a new call site
// changes Gen/C07.v and breaks Proofs/CallsC07.v.

func init() { extraGens = append(extraGens, genC07) }

var c07Mutating = map[string]bool{
	"MkdirAll": true, "Mkdir": true, "MkdirTemp": true, "OpenFile": true, "Create": true, "CreateTemp": true,
	"Truncate": true, "Remove": true, "RemoveAll": true, "Rename": true, "WriteFile": true, "Symlink": true,
	"Link": true, "Chmod": true, "Chown": true, "Lchown": true, "Chtimes": true,
}

func c07OsSites(f *ast.File) []string {
	var out []string
	for _, d := range f.Decls {
		fd, ok := d.(*ast.FuncDecl)
		if !ok || fd.Body == nil {
			continue
		}
		var local []string
		ast.Inspect(fd.Body, func(n ast.Node) bool {
			c, ok := n.(*ast.CallExpr)
			if !ok {
				return true
			}
			if se, ok := c.Fun.(*ast.SelectorExpr); ok {
				if id, ok := se.X.(*ast.Ident); ok && (id.Name == "os" || id.Name == "ioutil") && c07Mutating[se.Sel.Name] {
					local = append(local, fmt.Sprintf("(%q, %q)", fd.Name.Name, se.Sel.Name))
				}
			}
			return true
		})
		out = append(out, local...)
	}
	sort.Strings(out)
	return out
}

func genC07(c *genCtx) {
	var sb strings.Builder
	sb.WriteString(genHeader + "From Coq Require Import List String.\nImport ListNotations.\nOpen Scope string_scope.\n\n")
	c.load("internal/app/snapshot_receiver.go")
	c.load("internal/transfer/multistream.go")
	c.load("internal/transfer/sidecar.go")
	c.load("internal/transfer/manifestproto.go")
	c.load("internal/transfer/fileproto.go")
	c.load("internal/transfer/controlproto.go")
	fsn := []string{"MkdirAll", "Mkdir", "OpenFile", "Create", "Truncate", "Remove", "RemoveAll", "Rename", "WriteFile"}
	specs := []callSpec{
		{file: "internal/transfer/multistream.go", fn: "RecvManifestMultiStream", out: "sk_c07_recv",
			names: append([]string{"readControlHeader", "validateManifestPaths", "Join"}, fsn...)},
		{file: "internal/transfer/multistream.go", fn: "RecvManifestMultiStream", closure: "handleFileBegin", out: "sk_c07_filebegin",
			names: append([]string{"validateRelPath", "Join", "Dir", "SidecarPath", "LoadOrCreateSidecarWithFallback"}, fsn...)},
		{file: "internal/transfer/multistream.go", fn: "RecvManifestMultiStream", closure: "buildResumeInfo", out: "sk_c07_resumeinfo",
			names: append([]string{"Join", "SidecarPath", "LoadOrCreateSidecarWithFallback"}, fsn...)},
		{file: "internal/transfer/sidecar.go", fn: "LoadOrCreateSidecarWithFallback", out: "sk_c07_loadorcreate",
			names: append([]string{"loadValid", "CreateSidecar"}, fsn...)},
		{file: "internal/transfer/sidecar.go", fn: "LoadOrCreateSidecarWithFallback", closure: "loadValid", out: "sk_c07_loadvalid",
			names: append([]string{"LoadSidecar"}, fsn...)},
		{file: "internal/transfer/sidecar.go", fn: "CreateSidecar", out: "sk_c07_create",
			names: append([]string{"Flush"}, fsn...)},
		{file: "internal/transfer/sidecar.go", fn: "Flush", recv: "Sidecar", out: "sk_c07_flush",
			names: append([]string{"Dir"}, fsn...)},
		{file: "internal/transfer/sidecar.go", fn: "SidecarPath", out: "sk_c07_sidecarpath",
			names: append([]string{"Trim", "Join"}, fsn...)},
		{file: "internal/app/snapshot_receiver.go", fn: "clearResumeData", out: "sk_c07_clear",
			names: append([]string{"resumeSidecarDirs"}, fsn...)},
		{file: "internal/app/snapshot_receiver.go", fn: "resumeSidecarDirs", out: "sk_c07_resumedirs",
			names: append([]string{"add", "TrimSpace", "ValidateRootName"}, fsn...)},
		{file: "internal/app/snapshot_receiver.go", fn: "resumeSidecarDirs", closure: "add", out: "sk_c07_resumedirs_add",
			names: append([]string{"Dir", "SidecarPath"}, fsn...)},
		{file: "internal/transfer/manifestproto.go", fn: "validateManifestPaths", out: "sk_c07_validate_manifest",
			names: []string{"ValidateRootName", "validateRelPath", "validateItemID"}},
	}
	for _, sp := range specs {
		sp := sp
		sb.WriteString(c.run(sp.out, func() string { return callSkeleton(c.files, sp) }))
		sb.WriteString("\n")
	}
	for _, f := range []struct{ file, name string }{
		{"internal/transfer/multistream.go", "os_sites_multistream"},
		{"internal/transfer/sidecar.go", "os_sites_sidecar"},
		{"internal/transfer/manifestproto.go", "os_sites_manifestproto"},
		{"internal/transfer/fileproto.go", "os_sites_fileproto"},
		{"internal/transfer/controlproto.go", "os_sites_controlproto"},
		{"internal/app/snapshot_receiver.go", "os_sites_snapshot_receiver"},
	} {
		f := f
		sb.WriteString(c.run(f.name, func() string {
			return fmt.Sprintf("(* every creating/modifying/deleting call into package os in %s: (enclosing function, callee), sorted *)\nDefinition %s : list (string * string) := [%s].\n",
				f.file, f.name, strings.Join(c07OsSites(c.files[f.file]), "; "))
		}))
		sb.WriteString("\n")
	}
	if !c.failed() {
		c.write("C07.v", sb.String())
	}
}

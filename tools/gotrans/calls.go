package main

import (
	"fmt"
	"go/ast"
	"strings"
)

// Call-order skeletons: the calls (by callee name) of a function or of a named
// closure inside it, in source order, each tagged with whether it sits on an
// error path (inside an `if` body that ends in `return`).  The Coq side proves
// ordering facts about them ("the positional write precedes the bitmap mark",
// "the tmp file is written before the rename", "authentication precedes the
// transfer"), which ties the program-order guards of the hand-written models to
// the source text.

type callWalker struct {
	names map[string]bool
	out   []string
}

func calleeName(c *ast.CallExpr) string {
	switch f := c.Fun.(type) {
	case *ast.Ident:
		return f.Name
	case *ast.SelectorExpr:
		return f.Sel.Name
	}
	return ""
}

func (w *callWalker) expr(n ast.Node, errPath bool) {
	if n == nil {
		return
	}
	ast.Inspect(n, func(m ast.Node) bool {
		switch x := m.(type) {
		case *ast.FuncLit:
			return false // separate control flow
		case *ast.CallExpr:
			// arguments are evaluated before the call
			for _, a := range x.Args {
				w.expr(a, errPath)
			}
			if nm := calleeName(x); w.names[nm] {
				w.out = append(w.out, fmt.Sprintf("(%q, %v)", nm, errPath))
			}
			w.expr(x.Fun, errPath)
			return false
		}
		return true
	})
}

func (w *callWalker) stmts(list []ast.Stmt, errPath bool) {
	for _, s := range list {
		w.stmt(s, errPath)
	}
}

func blockReturns(b *ast.BlockStmt) bool {
	if b == nil || len(b.List) == 0 {
		return false
	}
	_, ok := b.List[len(b.List)-1].(*ast.ReturnStmt)
	return ok
}

func (w *callWalker) stmt(s ast.Stmt, errPath bool) {
	switch x := s.(type) {
	case *ast.IfStmt:
		if x.Init != nil {
			w.stmt(x.Init, errPath)
		}
		w.expr(x.Cond, errPath)
		w.stmts(x.Body.List, errPath || blockReturns(x.Body))
		if x.Else != nil {
			w.stmt(x.Else, errPath)
		}
	case *ast.BlockStmt:
		w.stmts(x.List, errPath)
	case *ast.ForStmt:
		if x.Init != nil {
			w.stmt(x.Init, errPath)
		}
		w.expr(x.Cond, errPath)
		w.stmts(x.Body.List, errPath)
	case *ast.RangeStmt:
		w.expr(x.X, errPath)
		w.stmts(x.Body.List, errPath)
	case *ast.SwitchStmt:
		for _, c := range x.Body.List {
			w.stmts(c.(*ast.CaseClause).Body, errPath)
		}
	case *ast.SelectStmt:
		for _, c := range x.Body.List {
			cc := c.(*ast.CommClause)
			if cc.Comm != nil {
				w.stmt(cc.Comm, errPath)
			}
			w.stmts(cc.Body, errPath)
		}
	case *ast.ExprStmt:
		w.expr(x.X, errPath)
	case *ast.AssignStmt:
		for _, r := range x.Rhs {
			w.expr(r, errPath)
		}
		for _, l := range x.Lhs {
			if nm, ok := flat(l); ok && w.names["="+nm] {
				w.out = append(w.out, fmt.Sprintf("(%q, %v)", "="+nm, errPath))
			}
		}
	case *ast.ReturnStmt:
		for _, r := range x.Results {
			w.expr(r, errPath)
		}
	case *ast.DeferStmt:
		// runs at function end: not part of the straight-line order
	case *ast.GoStmt:
		w.expr(x.Call, errPath)
	case *ast.DeclStmt:
		if gd, ok := x.Decl.(*ast.GenDecl); ok {
			for _, sp := range gd.Specs {
				if vs, ok := sp.(*ast.ValueSpec); ok {
					for _, v := range vs.Values {
						w.expr(v, errPath)
					}
				}
			}
		}
	}
}

type callSpec struct {
	file, fn, recv, closure, out string
	names                       []string
}

func findMethod(f *ast.File, recv, name string) *ast.FuncDecl {
	for _, d := range f.Decls {
		fd, ok := d.(*ast.FuncDecl)
		if !ok || fd.Name.Name != name {
			continue
		}
		if recv == "" && fd.Recv == nil {
			return fd
		}
		if recv != "" && fd.Recv != nil && len(fd.Recv.List) == 1 {
			if st, ok := fd.Recv.List[0].Type.(*ast.StarExpr); ok {
				if id, ok := st.X.(*ast.Ident); ok && id.Name == recv {
					return fd
				}
			}
		}
	}
	return nil
}

func callSkeleton(files map[string]*ast.File, sp callSpec) string {
	fd := findMethod(files[sp.file], sp.recv, sp.fn)
	if fd == nil {
		failf("function %s not found in %s", sp.fn, sp.file)
	}
	body := fd.Body
	if sp.closure != "" {
		fl := findClosure(fd.Body, sp.closure)
		if fl == nil {
			failf("closure %s not found in %s", sp.closure, sp.fn)
		}
		body = fl.Body
	}
	w := &callWalker{names: map[string]bool{}}
	for _, n := range sp.names {
		w.names[n] = true
	}
	w.stmts(body.List, false)
	return fmt.Sprintf("(* calls of %s%s in %s, source order; true = on an error path *)\nDefinition %s : list (string * bool) := [%s].\n",
		sp.fn, map[bool]string{true: "/" + sp.closure, false: ""}[sp.closure != ""], sp.file, sp.out, strings.Join(w.out, "; "))
}

package main

import (
	"bytes"
	"fmt"
	"go/ast"
	"go/printer"
	"go/token"
	"strings"
)

// C17 (files): how SendManifestMultiStream uses the hybrid scheduler, read off
// internal/transfer/multistream.go on every run.  Model/Sched.v's usage machine
// (uinit / UNext / UDone) assumes exactly this pattern:
//   - every call on `sched`, with the named closure it sits in, in source order
//     (Add of every file up front; Next then Add inside activateNext; Remove
//     inside sendFileEnd, after the wait for the receiver's FileDone);
//   - the FileMeta of the up-front Add leaves StartedAt unset (pending), the one
//     re-added by activateNext has StartedAt and LastScheduledAt assigned first;
//   - the fill loop of nextTask that calls activateNext is bounded by
//     len(activeFiles) < parallelStreams.
// Proofs/SchedUse.v proves the expected shapes, so a changed source breaks a
// proof obligation.

func init() { extraGens = append(extraGens, genC17) }

func c17src(n ast.Node) string {
	var b bytes.Buffer
	printer.Fprint(&b, token.NewFileSet(), n)
	return strings.Join(strings.Fields(b.String()), " ")
}

// namedClosures maps every function literal assigned to an identifier
// (name := func ...) to that name.
func c17namedClosures(body *ast.BlockStmt) map[*ast.FuncLit]string {
	out := map[*ast.FuncLit]string{}
	ast.Inspect(body, func(n ast.Node) bool {
		if as, ok := n.(*ast.AssignStmt); ok && len(as.Lhs) == 1 && len(as.Rhs) == 1 {
			if id, ok := as.Lhs[0].(*ast.Ident); ok {
				if fl, ok := as.Rhs[0].(*ast.FuncLit); ok {
					out[fl] = id.Name
				}
			}
		}
		return true
	})
	return out
}

// c17calls lists, in source order, the calls selected by pick together with the
// innermost enclosing NAMED closure ("" = the function body itself); anonymous
// literals (go func(){...}()) inherit the name of the closure around them.
func c17calls(body *ast.BlockStmt, named map[*ast.FuncLit]string, pick func(*ast.CallExpr) string) [][2]string {
	var out [][2]string
	var walk func(n ast.Node, ctx string)
	walk = func(n ast.Node, ctx string) {
		ast.Inspect(n, func(m ast.Node) bool {
			switch x := m.(type) {
			case *ast.FuncLit:
				c := ctx
				if nm, ok := named[x]; ok {
					c = nm
				}
				walk(x.Body, c)
				return false
			case *ast.CallExpr:
				for _, a := range x.Args {
					walk(a, ctx)
				}
				if nm := pick(x); nm != "" {
					out = append(out, [2]string{ctx, nm})
				}
				walk(x.Fun, ctx)
				return false
			}
			return true
		})
	}
	walk(body, "")
	return out
}

func c17pairs(ps [][2]string) string {
	items := make([]string, len(ps))
	for i, p := range ps {
		items[i] = fmt.Sprintf("(%q, %q)", p[0], p[1])
	}
	return "[" + strings.Join(items, "; ") + "]"
}

func c17strs(ss []string) string {
	items := make([]string, len(ss))
	for i, s := range ss {
		items[i] = fmt.Sprintf("%q", s)
	}
	return "[" + strings.Join(items, "; ") + "]"
}

func genC17(c *genCtx) {
	const file = "internal/transfer/multistream.go"
	var sb strings.Builder
	sb.WriteString(genHeader + "From Coq Require Import List String.\nImport ListNotations.\nOpen Scope string_scope.\n\n")
	sb.WriteString(c.run("sched_use", func() string {
		fd := findFunc(c.files[file], "SendManifestMultiStream")
		if fd == nil {
			failf("SendManifestMultiStream not found")
		}
		named := c17namedClosures(fd.Body)
		onSched := func(x *ast.CallExpr) string {
			if sel, ok := x.Fun.(*ast.SelectorExpr); ok {
				if id, ok := sel.X.(*ast.Ident); ok && id.Name == "sched" {
					return sel.Sel.Name
				}
			}
			return ""
		}
		var out strings.Builder
		out.WriteString("(* every call on the scheduler in SendManifestMultiStream: (enclosing named closure, method), source order *)\n")
		out.WriteString("Definition sched_calls : list (string * string) := " + c17pairs(c17calls(fd.Body, named, onSched)) + ".\n\n")

		// the order of events inside sendFileEnd (its goroutine included)
		sfe := findClosure(fd.Body, "sendFileEnd")
		if sfe == nil {
			failf("closure sendFileEnd not found")
		}
		interesting := map[string]bool{"writeFileEnd": true, "wait": true, "Remove": true, "closeFile": true, "signalWake": true}
		calls := c17calls(sfe.Body, named, func(x *ast.CallExpr) string {
			if nm := calleeName(x); interesting[nm] {
				return nm
			}
			return ""
		})
		var names []string
		for _, p := range calls {
			names = append(names, p[1])
		}
		out.WriteString("(* calls inside sendFileEnd (and the goroutine it starts), source order *)\n")
		out.WriteString("Definition sendfileend_calls : list string := " + c17strs(names) + ".\n\n")

		// fields of the FileMeta literal added up front (outside any named closure)
		var initFields []string
		ast.Inspect(fd.Body, func(n ast.Node) bool {
			if fl, ok := n.(*ast.FuncLit); ok {
				if _, isNamed := named[fl]; isNamed {
					return false
				}
			}
			if cl, ok := n.(*ast.CompositeLit); ok && strings.HasSuffix(c17src(cl.Type), "FileMeta") {
				for _, e := range cl.Elts {
					if kv, ok := e.(*ast.KeyValueExpr); ok {
						initFields = append(initFields, c17src(kv.Key))
					}
				}
			}
			return true
		})
		out.WriteString("(* fields set in the scheduler.FileMeta literal of the up-front Add *)\n")
		out.WriteString("Definition sched_init_meta_fields : list string := " + c17strs(initFields) + ".\n\n")

		// activateNext: statements in order, reduced to meta-field assignments and scheduler calls
		an := findClosure(fd.Body, "activateNext")
		if an == nil {
			failf("closure activateNext not found")
		}
		var steps []string
		for _, st := range an.Body.List {
			switch x := st.(type) {
			case *ast.AssignStmt:
				for _, l := range x.Lhs {
					if sel, ok := l.(*ast.SelectorExpr); ok {
						if id, ok := sel.X.(*ast.Ident); ok && id.Name == "meta" {
							steps = append(steps, "meta."+sel.Sel.Name)
						}
					}
				}
				for _, r := range x.Rhs {
					if ce, ok := r.(*ast.CallExpr); ok {
						if nm := onSched(ce); nm != "" {
							steps = append(steps, "sched."+nm)
						}
					}
				}
			case *ast.ExprStmt:
				if ce, ok := x.X.(*ast.CallExpr); ok {
					if nm := onSched(ce); nm != "" {
						steps = append(steps, "sched."+nm)
					}
				}
			}
		}
		out.WriteString("(* top-level statements of activateNext that assign a field of meta or call the scheduler, in order *)\n")
		out.WriteString("Definition activate_steps : list string := " + c17strs(steps) + ".\n\n")

		// the loop(s) of nextTask whose body calls activateNext: their conditions
		nt := findClosure(fd.Body, "nextTask")
		if nt == nil {
			failf("closure nextTask not found")
		}
		var guards []string
		ast.Inspect(nt.Body, func(n ast.Node) bool {
			if fs, ok := n.(*ast.ForStmt); ok && fs.Cond != nil {
				calls := false
				ast.Inspect(fs.Body, func(m ast.Node) bool {
					if ce, ok := m.(*ast.CallExpr); ok && calleeName(ce) == "activateNext" {
						calls = true
					}
					return true
				})
				if calls {
					guards = append(guards, c17src(fs.Cond))
				}
			}
			return true
		})
		// and every other call site of activateNext
		nAct := 0
		ast.Inspect(fd.Body, func(n ast.Node) bool {
			if ce, ok := n.(*ast.CallExpr); ok && calleeName(ce) == "activateNext" {
				nAct++
			}
			return true
		})
		out.WriteString("(* conditions of the loops of nextTask that call activateNext; number of call sites of activateNext *)\n")
		out.WriteString("Definition activate_loop_guards : list string := " + c17strs(guards) + ".\n")
		out.WriteString(fmt.Sprintf("Definition activate_call_sites : nat := %d.\n", nAct))
		return out.String()
	}))
	if !c.failed() {
		c.write("SchedUse.v", sb.String())
	}
}

"""Per-property configuration of ./check (what to build, what the evidence says)."""

PROPS = {
    "C19": {
        "proof_files": ["Proofs/Geometry.v"],
        "gen_files": ["Gen/Geometry.v", "Gen/Consts.v"],
        "corr": ["C19"],
        "trusted_base": [
            "tie to the code: TRANSLATOR - chunkTotal, chunkSizeForIndex, the five inline chunk-count expressions and both offset expressions are regenerated from /repo's Go source by gotrans on every run and the proofs are re-checked over the regenerated definitions; the translator's output for the two functions and CreateSidecar is additionally differential-tested against the real functions",
        ],
        "assumptions": [
            "Go integer semantics as modelled in Lib/GoInt.v (wrap-around conversions, truncating division, panic on zero divisor)",
            "the inline expressions are located by enclosing function/closure and assigned variable; if a locator stops matching the check reports a broken correspondence",
        ],
        "level_text": "Machine-checked theorems (Coq) that the chunk functions GENERATED from the Go source tile every file in the stated domain (all sizes 0..10 TiB, all chunk sizes 1..2^32-1 whose count fits 32 bits), with no int64/uint32 wrap and identical counts at all six sites; unbounded, so it covers what no sample can. Tie: translator re-run on every check + differential run of the real functions.",
        "level_note": "Trusted: Coq kernel, gotrans (tiny Go subset -> Gallina), Lib/GoInt.v as the meaning of Go integer ops, locators of the inline expressions. Modelled not verified: the surrounding I/O (ReadAt/WriteAt at the proved offsets).",
        "technique": "Coq proof over translator-generated Gallina (lia/nia), differential test of translator output vs real functions",
        "explanation": "theorems over generated Gallina (unbounded in size and chunk size inside the stated domain) + differential run of the real functions",
    },
}

PROPS["C17"] = {
    "proof_files": ["Proofs/Dispatch.v", "Proofs/Sched.v", "Proofs/SchedUse.v", "Proofs/DispatchPlan.v"],
    "gen_files": ["Gen/SchedUse.v"],
    "corr": ["C17"],
    "trusted_base": ["tie to the code: CORRESPONDENCE - Model/Dispatch.v is hand-written; every reachable transition of a real sendFileState (small totals, exhaustively) and random long histories are re-evaluated on the model inside coqc",
                     "tie to the code: CORRESPONDENCE - Model/Sched.v is hand-written; every call of random call sequences and of sender-pattern runs on a real scheduler.HybridScheduler (Add/UpdateRemaining/Remove/SetParallelFiles/Next with a harness clock) is replayed on the model with its result and the Snapshot() class counts; the float credits are an oracle (the model is told which pending medium/large file was chosen and checks membership)",
                     "tie to the code: TRANSLATOR - Gen/SchedUse.v (the scheduler's call sites in SendManifestMultiStream, the pending/started marking around them, Remove after the FileDone wait, the stream bound of the activateNext loop) is regenerated from multistream.go and Proofs/SchedUse.v re-proved on every run",
                     "whole sends: the real SendManifestMultiStream (real workers, real scheduler) against a recording receiver over the in-memory transport; the oracle is evaluated on the records and frames on the wire, there is no model replay of these runs"],
    "assumptions": ["one event per mutex-protected method of sendFileState; the three locked assignments of applyResumeInfo / its verification goroutine are replayed by the shim (export_verif.go), not by the closure itself",
                    "scheduler keys: ordering decisions of HybridScheduler look at RelPath only, the model's integer keys stand for RelPath order (order-preserving names in the harness); SmallSlotFrac is a dyadic rational in the correspondence runs (exact in float64)",
                    "usage machine: one UNext per activateNext call (under schedMu), one UDone per FileDone(ok) handled by sendFileEnd's goroutine (under schedMu); an activateNext whose FileBegin write fails ends the transfer and is outside the healthy-run statements"],
    "level_text": "Theorems over all event lists (any number of workers, chunks, any bitmap, any arrival time of plan and verdict) on an executable model of sendFileState, and over all usage histories (any manifest, stream count, clock, credit choices, order of slot releases) on an executable model of the hybrid scheduler as the sender uses it; both models are checked call-by-call against the real objects, the usage pattern is read off the source.",
    "level_note": "Trusted: Coq kernel, the harness/shims, gotrans for the call-site facts. Modelled not verified: the worker loop around the state machine (nextTask) and goroutine scheduling at finer than method granularity - exercised by whole sends with the wire-level oracle (tested, not proved); the scheduler's float credit arithmetic (oracle).",
    "technique": "Coq invariant proofs over event lists (dispatch state machine; scheduler usage machine with termination measure) + exhaustive transition correspondence with the real sendFileState + call-by-call correspondence with the real HybridScheduler + translator-generated call-site facts + whole-send wire oracle",
    "explanation": "state-machine models, invariants by induction over event lists",
}

PROPS["C18"] = {
    "proof_files": ["Proofs/Wire.v", "Lib/Bytes.v"],
    "gen_files": ["Gen/Consts.v"],
    "corr": ["C18"],
    "trusted_base": ["tie to the code: CORRESPONDENCE for Model/Wire.v (the real write*/read* functions are run on generated records, sequences, truncations and mutations; bytes and decoded values compared in coqc) + TRANSLATOR for the type codes, magic and limits (Gen/Consts.v)",
                     "encoding/json is an oracle: the manifest JSON inside the control header is an opaque blob in the model; its value round trip is tested by the harness, not proved"],
    "assumptions": ["streams deliver bytes in order (io.ReadFull semantics)", "field limits: paths accepted by validateRelPath, ids and error texts < 2^16 bytes, bitmaps and JSON < 2^32 bytes"],
    "level_text": "Round-trip theorems for every control record, for sequences of records, for the control header and the data-frame header, over all values within the protocol's field limits and with arbitrary trailing bytes (so each decode consumes exactly what was written). The model is compared byte-for-byte with the real encoder/decoder.",
    "level_note": "Trusted: Coq kernel, harness/shims. Modelled not verified: encoding/json (oracle), stream transport. JSON payload fidelity is tested only (partial).",
    "technique": "Coq round-trip proofs over a byte-level codec model + differential test against the real write*/read* pairs",
    "explanation": "codec model with parser combinators; dec (enc m ++ rest) = (m, rest)",
}

PROPS["C12"] = {
    "proof_files": ["Proofs/Admit.v"],
    "corr": ["C12"],
    "trusted_base": ["tie to the code: CORRESPONDENCE - Model/Admit.v is hand-written; event histories are applied to a real SnapshotSender (stub transfer function, verifhook points at transfer launch/end) and queue, slots, statuses, launches and context liveness are compared with the model after every event"],
    "assumptions": ["one event per method call of SnapshotSender (handlePeerJoined, handleManifestAccept, maybeStartTransfers, handlePeerLeft, tail of runTransfer, cleanup); 'running' = transfer function entered and not yet returned; a transfer whose context is cancelled is counted as stopping, not as running"],
    "level_text": "Invariants of the admission bookkeeping proved for all event histories over any number of receivers and any max-receivers on an executable model that is compared step by step with the real SnapshotSender.",
    "level_note": "Trusted: Coq kernel, harness/shims/hooks. Modelled not verified: the transfer function (abstract), signaling I/O, goroutine interleavings finer than method calls.",
    "technique": "Coq invariant proofs over event histories + step-by-step correspondence with the real SnapshotSender",
    "explanation": "state-machine model of admission control",
}

PROPS["C11"] = {
    "proof_files": ["Proofs/Hub.v", "Proofs/HubLeak.v", "Proofs/HubLocks.v"],
    "gen_files": ["Gen/HubLocks.v"],
    "corr": ["C11"],
    "trusted_base": ["tie to the code: CORRESPONDENCE - Model/Hub.v is hand-written at lock-phase granularity; histories run on a real peers.Hub with remove / CloseSession / Broadcast parked at verifhook points in harness-chosen orders; outputs, writer logs, routing maps and recovered panics compared in coqc"],
    "assumptions": ["preemption is represented at lock / channel-operation granularity (one model step per critical section or channel send)", "the 1 s wait for the writer in remove() always ends (writers are released by the harness)"],
    "level_text": "Invariants of the hub's routing state proved over all interleavings of the lock-delimited phases of Add/remove/CloseSession/SendTo/Broadcast/BroadcastExcept on an executable model checked history-by-history against the real hub; the refuted clauses come with witnesses replayed on the implementation.",
    "level_note": "Trusted: Coq kernel, harness, hook points. Modelled not verified: Go's scheduler below lock granularity, the WebSocket I/O of writers.",
    "technique": "Coq invariants over phase-level operation histories + forced-schedule correspondence with the real hub",
    "explanation": "phase-level model of the hub",
}

PROPS["C10"] = {
    "proof_files": ["Proofs/Hub.v", "Proofs/HubLocks.v", "Proofs/Serv.v"],
    "gen_files": ["Gen/HubLocks.v"],
    "corr": ["C10", "C11"],
    "trusted_base": ["tie to the code: CORRESPONDENCE - Model/Serv.v (frame handling on top of Model/Hub.v) is hand-written; scripts are run end to end against the real thruserv binary over WebSocket and every client's receive log is compared with the model in coqc; the hub layer is additionally tied as in C11"],
    "assumptions": ["TCP/WebSocket deliver what the server writes, in order", "sequential scripts run to quiescence; concurrency inside the hub is covered by C11's phase-level model", "'not lost while the recipient keeps reading' is formalised as: an accepted message is refused only when 256 envelopes are already buffered for that recipient"],
    "level_text": "Routing theorems (session isolation, exact addressee, broadcast = everybody else in the session, unknown addressee -> error to the author only, per-connection FIFO without duplication, loss only when the recipient's buffer is full) on the hub/server model for all histories; model compared with the real thruserv binary end to end.",
    "level_note": "Trusted: Coq kernel, harness. Modelled not verified: gorilla/websocket, net/http, JSON decoding of envelopes.",
    "technique": "Coq proofs over hub/server routing model + end-to-end differential test against the thruserv binary",
    "explanation": "routing model",
}

PROPS["C05"] = {
    "proof_files": ["Proofs/Crash.v", "Proofs/Calls.v", "Proofs/CallsC05.v"],
    "gen_files": ["Gen/Calls.v", "Gen/CallsC05.v"],
    "corr": ["C05"],
    "trusted_base": ["tie to the code: CORRESPONDENCE - Model/Crash.v is hand-written; hook traces of real receiver runs (chunk written / chunk marked per file, under injected flushes) must be accepted by the model's guarded step (write before mark), and at every hook point the output directory is snapshotted = the disk a SIGKILL there would leave, each snapshot checked chunk by chunk against the source with the real LoadSidecar",
                     "atomic rename(2) and 'completed syscalls survive SIGKILL' (page cache) are assumptions about the OS"],
    "assumptions": ["process kill, not power loss: fsync ordering is outside the property", "the data file is not edited from outside between runs"],
    "level_text": "Invariant proved for all interleavings of any number of chunk writers with metadata flushes and for a kill at every point (every prefix), carried across restarts; the model's program-order guard is validated against hook traces of the real receiver and the invariant is checked directly on kill-point snapshots of real runs.",
    "level_note": "Trusted: Coq kernel, harness, hook points (add-only). Modelled not verified: the filesystem (rename atomicity), Go scheduling below hook granularity.",
    "technique": "Coq invariant proof over crash/interleaving event lists + kill-point snapshot enumeration on real runs",
    "explanation": "crash model",
}
PROPS["C04"] = {
    "proof_files": ["Proofs/Crash.v", "Proofs/Dispatch.v", "Proofs/Geometry.v", "Proofs/Resume.v", "Proofs/ResumeFile.v", "Proofs/ResumeChain.v"],
    "gen_files": ["Gen/Geometry.v"],
    "corr": ["C05", "C17", "C06"],
    "trusted_base": ["tie to the code: CORRESPONDENCE - the crash model (as in C05), the dispatch model (as in C17) and the resume handshake model Model/Resume.v (as in C06: returned fields, chunks sent, the re-sent chunk and the final file bytes of resumed real transfers are compared with the model) are validated against the code; every kill-point snapshot of real runs is resumed from with the real endpoints, up to 3 interruptions deep, and the final tree compared with the source",
                     "tie to the code: TRANSLATOR - the chunk-count and chunk-length expressions of Model/Resume.v are Gen/Geometry.v, regenerated on every run"],
    "assumptions": ["the data file is not edited from outside between runs", "liveness of the resumed run is tested (watchdog), not proved",
                    "C04_resumed_file_identical: [o_file] is the data file once every frame the sender emitted has been written (the receiver writes every frame of a file that is still open: C06_repair_applied_partial; frames are written at index * chunk size: C19)"],
    "level_text": "Safety of resume is proved: metadata is honest along any chain of kills and restarts (crash model); with honest metadata the resumed run of a file - stale-data test, Truncate, load-or-create, the resume report, the sender's plan and verification, its main pass, the positional writes - leaves exactly the source's bytes, for every size, chunk size, bitmap, verification tail and hash function (byte-level handshake model over the generated geometry); the sender's dispatch hands out exactly the chunks the plan does not skip. That the resumed run actually succeeds is exercised on every kill-point snapshot of real runs, chains included.",
    "level_note": "Trusted: Coq kernel, harness, gotrans (geometry). PARTIAL: the second run's success (liveness) is tested, not proved (C03 proves it for the closed protocol model); the step from the crash model's abstract 'chunk i is in the file' to the byte-level 'chunk_at file i = chunk_at src i' is definitional, the two models are validated separately.",
    "technique": "Coq: crash-model invariant over kill/restart chains + byte-level theorem that a resumed file equals the source under honest metadata (list extensionality over positional writes, generated geometry) + dispatch-model theorem; resume-from-every-kill-point enumeration on real runs",
    "explanation": "composition; file-level identity theorem",
}

NOT_APPLICABLE = {}

# per-property fragments: tools/props_d/Cxx.py, each defines PROP = {...}
import glob as _glob, os as _os
for _f in sorted(_glob.glob(_os.path.join(_os.path.dirname(_os.path.abspath(__file__)), "props_d", "C*.py"))):
    _ns = {}
    exec(compile(open(_f).read(), _f, "exec"), _ns)
    PROPS[_os.path.basename(_f)[:-3]] = _ns["PROP"]

#!/usr/bin/env python3
"""Regenerates /verif/MANIFEST.json from tools/props.py (single source of truth)."""
import json, os, sys, subprocess
V = os.path.dirname(os.path.dirname(os.path.abspath(__file__)))
sys.path.insert(0, os.path.join(V, "tools"))
import props

ALL = ["C%02d" % i for i in range(1, 20)]
checks = []
for pid in ALL:
    c = props.PROPS.get(pid)
    if not c or c.get("disabled"):
        continue
    checks.append({
        "property_id": pid,
        "quick_cmd": "./check %s quick" % pid,
        "thorough_cmd": "./check %s thorough" % pid,
        "evidence_file": "/verif/evidence/%s.json" % pid,
        "replay_cmd_template": "./check %s --replay {path}" % pid,
        "engine": "coq-model+correspondence",
        "level_claimed": {"category": "proof", "text": c["level_text"], "design_ref": "DESIGN.md section 5, %s" % pid},
        "level_note": c["level_note"],
        "technique": c["technique"],
    })
na = [{"property_id": pid, "reason": props.NOT_APPLICABLE.get(pid, "check not built yet in this session (planned, see DESIGN.md section 5); no claim is made")}
      for pid in ALL if pid not in [c["property_id"] for c in checks]]
try:
    hooks = subprocess.run(["git", "-C", "/repo", "log", "--format=%H", "--grep=^verif:"], capture_output=True, text=True).stdout.split()
except Exception:
    hooks = []
m = {
    "version": 1,
    "setup_cmd": "./setup.sh",
    "hooks": {
        "guard": "verif",
        "enable": "go build -tags verif (export_verif.go shim files and internal/verifhook points are //go:build verif; without the tag verifhook.Point is an empty inlineable function)",
        "baseline_off_cmd": "cd /repo && GOFLAGS=-mod=mod GOPROXY=off go test -json -vet=off -count=1 -timeout 25m ./...",
        "source_commits": hooks,
        "add_only": True,
    },
    "engines": [{
        "name": "coq-model+correspondence",
        "path": "/verif/check",
        "serves_properties": [c["property_id"] for c in checks],
        "kind_free_text": "Coq 8.16.1 theorems over executable Gallina models (coq/), tied to /repo on every run by (a) tools/gotrans regenerating coq/Gen/*.v from the Go source and (b) a Go harness (-tags verif) whose observed outputs are re-evaluated against the model by vm_compute in coqc; the property oracle runs on the implementation to produce replays",
    }],
    "checks": checks,
    "not_applicable": na,
    "notes": "Every check: ./check <id> [quick|thorough]; honours VERIF_SEED / VERIF_TIER; rebuilds gotrans output, the property's .vo files and the harness from /repo's working tree; known findings in known_findings.json.",
}
json.dump(m, open(os.path.join(V, "MANIFEST.json"), "w"), indent=1)
print("MANIFEST.json: %d checks, %d not_applicable" % (len(checks), len(na)))

#!/usr/bin/env python3
"""Rewrite commit hashes of 'fixed' known-finding records that point to a builder branch
to the commit with the same subject on /repo's main."""
import json,subprocess,re
def sh(*a): return subprocess.run(a,capture_output=True,text=True).stdout
main={}
for l in sh('git','-C','/repo','log','--format=%h %s','main').splitlines():
    h,s=l.split(' ',1); main.setdefault(s,h)
kf=json.load(open('/verif/known_findings.json'))
for k in kf:
    c=k.get('commit')
    if not c: continue
    inmain=subprocess.run(['git','-C','/repo','merge-base','--is-ancestor',c,'main']).returncode==0
    if inmain: continue
    subj=sh('git','-C','/repo','log','-1','--format=%s',c).strip()
    if subj in main:
        new=main[subj]; print(k['property'],c,'->',new)
        k['commit']=new
        for f in ('what',):
            if f in k: k[f]=k[f].replace(c,new)
    else:
        print('NOT FOUND on main:',k['property'],c,subj)
json.dump(kf,open('/verif/known_findings.json','w'),indent=1)

#!/bin/sh
# tools/merge_builder.sh Cxx : bring a builder's framework files into /verif (no commit)
set -e
P=$1; B=/tmp/b/$P/verif
cd $B
files=$(git diff --name-only cbad41f..HEAD -- . ':!evidence' ':!known_findings.json' ':!coq/_CoqProject' ':!MANIFEST.json' ':!harness/go.mod' ':!harness/go.sum' ':!BUILDERS.md' ':!DESIGN.md' ':!tools/props.py' ':!check' ':!setup.sh')
for f in $files; do
  [ -f "$f" ] || continue
  mkdir -p /verif/$(dirname $f)
  if [ -f /verif/$f ] && ! git diff --quiet cbad41f..HEAD -- $f && ! (cd /verif && git diff --quiet cbad41f..HEAD -- $f 2>/dev/null); then
    echo "CONFLICT-CANDIDATE (changed on both sides): $f"
  fi
  cp $f /verif/$f
  echo "copied $f"
done
# _CoqProject: append lines they added
grep -vxFf /verif/coq/_CoqProject $B/coq/_CoqProject >> /verif/coq/_CoqProject || true
# known findings
python3 - "$P" <<'PY'
import json,sys,os
P=sys.argv[1]
frag='/tmp/b/%s/verif/known_findings.%s.json'%(P,P)
if os.path.exists(frag):
    mine=json.load(open('/verif/known_findings.json'))
    have={(k['property'],k['signature']) for k in mine}
    for k in json.load(open(frag)):
        if (k['property'],k['signature']) not in have:
            mine.append(k)
    json.dump(mine,open('/verif/known_findings.json','w'),indent=1)
    print("known findings merged")
PY
echo "others changed by builder (review by hand):"; git diff --name-only cbad41f..HEAD -- BUILDERS.md DESIGN.md tools/props.py check setup.sh tools/gotrans/main.go || true

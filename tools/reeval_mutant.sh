#!/bin/bash
# usage: reeval_mutant.sh <id> <property> [more properties]
# Re-runs the checks against an already confirmed seeded change (seeded/<id>/patch.diff): applies it to /repo,
# runs ./check <property> quick for each, reverts, and refreshes check_results / detected_by in meta.json.
set -u
ID=$1; shift
D=/verif/seeded/$ID
if ! git -C /repo diff --quiet; then echo "/repo is dirty, refusing"; exit 2; fi
git -C /repo apply $D/patch.diff || { echo "patch does not apply to /repo"; exit 1; }
RES=""
for q in "$@"; do
  out=$(cd /verif && timeout 2400 ./check $q quick 2>&1 | grep -v conda); rc=$?
  line=$(echo "$out" | grep -E "^VIOLATION|^check " | tr '\n' ' ' | cut -c1-400)
  echo "  $q: $line"
  if [ -f /verif/run/$q/replay-$q-1.json ]; then cp /verif/run/$q/replay-$q-1.json $D/replay-$q.json; fi
  RES="$RES|$q: $line"
done
git -C /repo checkout -- .
python3 - "$ID" "$RES" <<'PY'
import json,sys
ID,RES=sys.argv[1:3]
p='/verif/seeded/%s/meta.json'%ID
m=json.load(open(p)); m['check_results']=[r for r in RES.split('|') if r]
m['detected_by']=[r.split(':')[0].strip() for r in RES.split('|') if 'VIOLATION' in r]
json.dump(m,open(p,'w'),indent=1)
print("detected_by:",m['detected_by'])
PY
cd /verif && git checkout -- evidence 2>/dev/null

PROP = {
    "proof_files": ["Proofs/Gate.v", "Proofs/GateLive.v", "Proofs/GateMu.v", "Proofs/GateSrc.v", "Proofs/RecvLive.v", "Proofs/Recv.v", "Proofs/PathFs.v"],
    "gen_files": ["Gen/GateSrc.v", "Gen/Geometry.v", "Gen/C15.v"],
    "corr": ["C02"],
    "timeout": {"quick": 900, "thorough": 7200},
    "trusted_base": [
        "tie to the code: TRANSLATOR for the program-order facts the closed model builds in (Gen/GateSrc.v: FileBegin is written at activation before any chunk can be taken; the main loop does not wait on the file registry; only the control stream is accepted on the way to the main loop, data streams in a goroutine) - regenerated and re-proved on every run; CORRESPONDENCE for the receiver's waiting conditions (Model/Recv.v, stepped against the real receiver as in C02; honest peer programs must run to success)",
        "Model/Gate.v itself (the closed system of sender, FIFO streams with QUIC stream visibility, receiver) is hand-written; what ties it to the code is the two items above plus the watchdog runs: it is the one model of this development that is not replayed event by event against the implementation",
    ],
    "assumptions": [
        "healthy peers and a working network: reliable FIFO streams, no cancellation, no I/O error; every enabled event eventually happens only in the sense that the proof needs no fairness at all (every step decreases the measure)",
        "chunks are abstracted to their owner file; the resume exchange (ResumeRequest / FileResumeInfo, 300 ms grace period) and hashing are not part of the closed model: the sender proceeds after the grace period whatever the receiver answers",
    ],
    "level_text": "Closed model of a healthy transfer for ANY number of files, chunks per file and streams under ALL schedules: every step strictly decreases a measure (no livelock, run length bounded) and - see the theorem list in the evidence - every reachable state is final or enabled (no deadlock), so every maximal run ends in success on both sides; the pre-fix receiver deadlocks in the same model (witness). On the receiver model that is tied to the real code: the main loop never blocks, queued control records are always handled, a reader waits only for a file that has not begun, and FileBegin ends that wait. Legal names are accepted (proved). Completion of real transfers is exercised on a grid and randomly over the in-memory transport and loopback QUIC under a watchdog.",
    "level_note": "PARTIAL: liveness over a real network with real timers (quic-go, idle timeouts, the 200 ms worker poll, the 300 ms resume grace period) is tested, not proved; the closed model is tied to the code by generated program-order facts and by the receiver correspondence, not replayed as a whole. Trusted: Coq kernel, gotrans, harness, in-memory transport.",
    "technique": "Coq termination measure + deadlock-freedom invariant on a closed protocol model, local liveness lemmas on the code-tied receiver model, program-order skeletons regenerated from source, watchdog runs of real transfers (grid, legal names, late duplicates, loopback QUIC)",
    "explanation": "closed model: measure + progress; open model: local liveness",
}

PROP = {
    "proof_files": ["Proofs/ScanNames.v", "Proofs/Scan.v"],
    "corr": ["C13"],
    "trusted_base": [
        "tie to the code: CORRESPONDENCE - Model/Scan.v is hand-written; random trees are materialised on disk and the real manifest.ScanPaths / Scan / TopLevelNames / computeID and app.buildPathResolver are compared with the model item for item (path, size, mtime, is-dir, id, counters, error flag, resolver answers) inside coqc",
        "filepath.Abs/Clean/Base/Rel/Join/EvalSymlinks, WalkDir's enumeration and os.Stat/Lstat are the Go standard library and the OS: the model works on cleaned component lists and on the tree found after following a link at the given path itself",
    ],
    "assumptions": [
        "the trees are not modified while they are scanned and sent",
        "a regular file's stat size is the number of bytes readable from it (false for procfs/sysfs pseudo-files)",
        "directory entries are non-empty names without '/', different from '.' and '..', pairwise distinct within a directory (wf_node); every directory is readable (permission errors are outside the model)",
        "TotalBytes is an int64: the counter theorem assumes the sum of the file sizes is below 2^63",
        "Linux: ToSlash/FromSlash are the identity (a backslash is an ordinary name byte)",
    ],
    "level_text": "Theorems for all path lists and all trees (any depth and width, any names incl. ordinal-prefix look-alikes, repeated and overlapping paths, links and special files anywhere) on an executable model of ScanPaths, TopLevelNames, computeID and the sender's path resolver: every regular file and directory reachable beneath each given path without crossing a link is listed exactly once for that path and nothing else is listed, paths are pairwise distinct, sorted and slash-separated, sizes are the files' sizes, counters add up, every item resolves back to its source path, and the result does not depend on the order in which directories are enumerated. The model is compared with the real code on materialised trees; an independent oracle re-reads the bytes at every resolved path.",
    "level_note": "Trusted: Coq kernel, harness/shims. Modelled not verified: the Go path library and the filesystem (see trusted base); Scan (single root) is tied by correspondence and oracle only, its theorems are those of the shared walk. Tested only: that the bytes readable at the resolved path equal the listed size on a real filesystem, and that a second scan returns the same manifest. Residue: concurrent modification during the scan.",
    "technique": "Coq proofs (structural induction over trees and path lists, pigeonhole for the ordinal search, sortedness/permutation) on an executable scan/resolver model + differential test against the real ScanPaths/resolver on materialised trees with an independent read-back oracle",
    "explanation": "tree-walk model with top-level name assignment, FNV-1a ids and the resolver; exactness via path lookup, uniqueness via prefix-freeness of names",
    "timeout": {"quick": 600, "thorough": 7200},
}

PROP = {
    "proof_files": ["Proofs/Tree.v", "Proofs/Recv.v", "Proofs/Send.v", "Proofs/Geometry.v", "Proofs/Dispatch.v", "Proofs/ResumeFile.v", "Proofs/TreeBytes.v"],
    "gen_files": ["Gen/Geometry.v", "Gen/C15.v"],
    "corr": ["C02"],
    "timeout": {"quick": 900, "thorough": 7200},
    "trusted_base": [
        "tie to the code: CORRESPONDENCE for Model/Recv.v / Model/Send.v as in C02 (stepped goroutines of the real receiver; honest peer programs are re-run here) + TRANSLATOR for the chunk geometry (Gen/Geometry.v: the count, length and offset expressions of both endpoints are regenerated from the source and the tiling theorem re-proved on every run)",
        "the whole-tree comparison (paths, directories, file bytes; nothing else in the output directory but the resume-metadata directory) is made by the harness on real transfers over the in-memory transport (1-3 connections through NewMultiConn, both stream-visibility modes) and over real loopback QUIC (quic-go, TLS 1.3), both root-directory modes, resume on/off",
    ],
    "assumptions": [
        "honesty premises of the tree theorem: a frame that passes the CRC32C check carries the source's payload and length for its (file, index); the resume state a run starts from marks only chunks whose bytes are on disk (C05, C06); no manifest entry is begun twice and, without resume metadata, no index is sent twice (C17)",
        "a connection only decides on which stream a frame travels: the model has any number of streams, so any number of connections; virtual stream ids (multiconn.go) are not used by the multiplexed protocol (frames carry file keys)",
        "directory creation and 'nothing else is created' are tested (tree digest) and, for hostile names, proved in C07; the model's disk is the list of positional writes",
    ],
    "level_text": "Theorem for ALL event lists of the receiver model (all interleavings of any number of stream readers with the control reader and the main loop): success implies that every manifest file has a successful finalization with the generated chunk count for its size, and that every chunk index is covered by honest prior state or by a last write carrying the source's payload and length; with the C19 tiling (re-proved over the regenerated geometry) the chunks are exactly the file. Sender success implies every file acknowledged. The model is tied to the real receiver by stepped correspondence; whole trees are compared on real transfers over every transport and configuration.",
    "level_note": "Trusted: Coq kernel, harness, hooks, in-memory transport; quic-go for the loopback runs. Modelled not verified: byte-level file I/O (WriteAt at the proved offsets), directory creation, the legacy (test-only) transfer APIs. The `thru host`/`thru join` binaries are not run end to end (their connection setup needs STUN); their transfer path is the two functions exercised here.",
    "technique": "Coq composition theorem (receiver invariant + sender completion + generated chunk geometry) + stepped correspondence + whole-tree differential runs over in-memory and real QUIC transports",
    "explanation": "composition of receiver, sender and geometry theorems",
}

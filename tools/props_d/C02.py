PROP = {
    "proof_files": ["Proofs/Recv.v", "Proofs/Send.v"],
    "gen_files": ["Gen/Geometry.v", "Gen/C15.v"],
    "corr": ["C02"],
    "timeout": {"quick": 900, "thorough": 7200},
    "trusted_base": [
        "tie to the code: CORRESPONDENCE - Model/Recv.v and Model/Send.v are hand-written. Receiver: the real RecvManifestMultiStream is driven by a scripted peer over the in-memory transport with every goroutine (main select loop, control reader, data-stream readers) parked at verifhook points and released one at a time; the arm the main select takes is OBSERVED; the event list is replayed on the model inside coqc and result, completed counter, finalizations, positional writes and acknowledgements are compared. Sender: the real SendManifestMultiStream against a scripted receiver, the history replayed on Model/Send.v. The chunk count is the GENERATED expression (Gen/Geometry.v), the chunk-size limit the generated constant (Gen/C15.v)",
        "harness/internal/memnet (in-memory Conn/Stream with cut / close / bit-flip at byte positions) stands for the network; quic-go's error text for a remote close with code 0 is imitated (ErrGraceful)",
    ],
    "assumptions": [
        "one event per atomic action of the code: a channel operation, a mutex-protected method, the handling of one chunk frame (the positional write precedes the bitmap mark: proved over the call skeleton regenerated from the source, Props/C05)",
        "a frame that passes the CRC32C check carries the payload the sender read for that (file, index) - in-flight corruption is what crc_ok = false stands for; header fields are not covered by the CRC (QUIC/TLS integrity is assumed for them)",
        "premises of the theorems, each justified elsewhere: no manifest entry is begun twice (scheduler / C17), FileEnd at most once per file (C17_end_once), the resume metadata a FileBegin meets has no bit at or above the chunk count (C06_loaded_wellformed), without resume metadata no index is accepted twice (C17_main_pass_once)",
        "bounded TIME to stop after a fault is tested (watchdog on both real endpoints), not proved: it depends on timers and on the transport reporting the loss",
    ],
    "level_text": "Theorems over ALL event lists (every fault kind and position, every interleaving of readers, control reader and main loop, every order in which competing errors reach the main select): the receiver reports success only if the completed counter reached the number of files, the counter counts only successful finalizations, a successful finalization needs every chunk index covered by honest resume state or a CRC-verified write of this run; the sender reports success only if every file's FileDone{ok} was read and no error or cancellation occurred. Both models are checked event by event against the real endpoints.",
    "level_note": "Trusted: Coq kernel, harness, hook points (add-only), in-memory transport. PARTIAL: 'both sides stop within bounded time' is tested on the real endpoints under injected faults (8 s watchdog), not proved. Modelled not verified: quic-go, the OS, goroutine scheduling below hook granularity.",
    "technique": "Coq invariant proofs over fault/schedule event lists for receiver and sender models + stepped-goroutine correspondence with the real endpoints + end-to-end fault injection",
    "explanation": "open reactive machine; invariants by induction over event lists",
}

#!/bin/bash
# usage: confirm_mutant.sh <dir with patch.diff demo_test.go meta.json>
# Confirms in a scratch worktree of /repo: builds, existing suite passes, demo fails with the patch and passes without.
set -u
D=$(realpath "$1"); N=$(basename "$D")
export GOFLAGS=-mod=mod GOPROXY=off
WT=/tmp/confirm_$N
git -C /repo worktree remove --force $WT 2>/dev/null
git -C /repo worktree add -q --detach $WT HEAD || exit 2
PKG=$(python3 -c "import json;print(json.load(open('$D/meta.json'))['demo_pkg_dir'])")
DEMO=$(ls $D/*_test.go | head -1)
res() { echo "$1" | tee -a $D/confirm.log; }
: > $D/confirm.log
cd $WT
git apply $D/patch.diff || { res "patch does not apply"; git -C /repo worktree remove --force $WT; exit 1; }
go build ./... && go build -tags verif ./... && res "build: ok" || res "build: FAIL"
for i in 1 2 3; do
  out=$(go test -vet=off -count=1 ./... 2>&1); rc=$?
  if [ $rc -eq 0 ]; then break; fi
done
[ $rc -eq 0 ] && res "suite with patch: pass" || { res "suite with patch: FAIL"; echo "$out" | grep -E "^(--- FAIL|FAIL)" | head | tee -a $D/confirm.log; }
cp $DEMO $WT/$PKG/zz_demo_test.go
go test -vet=off -count=1 -run "$(grep -o 'func Test[A-Za-z0-9_]*' $DEMO | sed 's/func //' | paste -sd'|')" ./$PKG/ >/tmp/confirm_$N.out 2>&1 && res "demo with patch: PASS (unexpected)" || res "demo with patch: fails (expected)"
git apply -R $D/patch.diff
go test -vet=off -count=1 -run "$(grep -o 'func Test[A-Za-z0-9_]*' $DEMO | sed 's/func //' | paste -sd'|')" ./$PKG/ >/tmp/confirm_$N.out2 2>&1 && res "demo without patch: passes (expected)" || { res "demo without patch: FAILS (unexpected)"; tail -5 /tmp/confirm_$N.out2 | tee -a $D/confirm.log; }
cd /; git -C /repo worktree remove --force $WT; rm -f /tmp/confirm_$N.out /tmp/confirm_$N.out2

#!/bin/bash
# usage: eval_mutant.sh <property> <id> <dir with patch.diff, demo_test.go, notes.txt> <demo package dir> [extra properties to check]
# Copies the change into /verif/seeded/<id>, confirms it (tools/confirm_mutant.sh), then applies it to /repo,
# runs ./check <property> quick (and the extra ones), reverts, and records what was detected.
set -u
P=$1; ID=$2; SRC=$3; PKG=$4; shift 4; EXTRA="$@"
D=/verif/seeded/$ID
mkdir -p $D
cp $SRC/patch.diff $D/patch.diff
cp $(ls $SRC/*_test.go | head -1) $D/demo_test.go
sed -i "/^\/\/go:build .*demo/d; /^\/\/ +build .*demo/d" $D/demo_test.go
cp $SRC/notes.txt $D/notes.txt 2>/dev/null
python3 - "$P" "$ID" "$PKG" <<'PY'
import json,sys,os
P,ID,PKG=sys.argv[1:4]
d='/verif/seeded/'+ID
notes=open(d+'/notes.txt').read() if os.path.exists(d+'/notes.txt') else ''
json.dump({"property":P,"summary":notes[:1500],"demo_pkg_dir":PKG,"origin":"written by an independent sub-agent that saw only the property text and a scratch worktree"},open(d+'/meta.json','w'),indent=1)
PY
/verif/tools/confirm_mutant.sh $D >/dev/null 2>&1
cat $D/confirm.log
if ! git -C /repo diff --quiet; then echo "/repo is dirty, refusing"; exit 2; fi
git -C /repo apply $D/patch.diff || { echo "patch does not apply to /repo"; exit 1; }
RES=""
for q in $P $EXTRA; do
  out=$(cd /verif && timeout 1500 ./check $q quick 2>&1 | grep -v conda); rc=$?
  line=$(echo "$out" | grep -E "^VIOLATION|^check " | tr '\n' ' ' | cut -c1-400)
  echo "  $q: $line"
  if [ -f /verif/run/$q/replay-$q-1.json ]; then cp /verif/run/$q/replay-$q-1.json $D/replay-$q.json; fi
  RES="$RES|$q: $line"
done
git -C /repo checkout -- .
python3 - "$ID" "$RES" <<'PY'
import json,sys
ID,RES=sys.argv[1:3]
p='/verif/seeded/%s/meta.json'%ID
m=json.load(open(p)); m['check_results']=[r for r in RES.split('|') if r]
m['detected_by']=[r.split(':')[0].strip() for r in RES.split('|') if 'VIOLATION' in r]
m['confirmed']=open('/verif/seeded/%s/confirm.log'%ID).read().split('\n')
json.dump(m,open(p,'w'),indent=1)
print("detected_by:",m['detected_by'])
PY
# evidence files were rewritten by the runs on the mutated tree: restore the committed ones
cd /verif && git checkout -- evidence 2>/dev/null

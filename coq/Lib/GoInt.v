(* Go fixed-width integer semantics over Z, and the result type used by every
   model: a Go runtime panic is a value, never a totalisation default. *)
From Coq Require Export ZArith List Bool Lia.
From Coq Require Import ZifyBool.
Export ListNotations.
Open Scope Z_scope.

Inductive res (A : Type) : Type :=
| Ret (a : A)      (* normal return *)
| Err              (* the Go function returned a non-nil error *)
| Panic.           (* the Go runtime panicked (division by zero, index, ...) *)
Arguments Ret {A} a.
Arguments Err {A}.
Arguments Panic {A}.

Definition bind {A B} (r : res A) (f : A -> res B) : res B :=
  match r with Ret a => f a | Err => Err | Panic => Panic end.

Definition is_ret {A} (r : res A) : bool :=
  match r with Ret _ => true | _ => false end.

(* wrap-around conversions: what uintN(x) / intN(x) do to a mathematical x *)
Definition u8  (x : Z) : Z := x mod 2^8.
Definition u16 (x : Z) : Z := x mod 2^16.
Definition u32 (x : Z) : Z := x mod 2^32.
Definition u64 (x : Z) : Z := x mod 2^64.
Definition i32 (x : Z) : Z := (x + 2^31) mod 2^32 - 2^31.
Definition i64 (x : Z) : Z := (x + 2^63) mod 2^64 - 2^63.

Definition in_u8  x := 0 <= x < 2^8.
Definition in_u16 x := 0 <= x < 2^16.
Definition in_u32 x := 0 <= x < 2^32.
Definition in_u64 x := 0 <= x < 2^64.
Definition in_i64 x := - 2^63 <= x < 2^63.

Lemma u8_id x : in_u8 x -> u8 x = x.
Proof. unfold in_u8, u8; intros; apply Z.mod_small; lia. Qed.
Lemma u16_id x : in_u16 x -> u16 x = x.
Proof. unfold in_u16, u16; intros; apply Z.mod_small; lia. Qed.
Lemma u32_id x : in_u32 x -> u32 x = x.
Proof. unfold in_u32, u32; intros; apply Z.mod_small; lia. Qed.
Lemma u64_id x : in_u64 x -> u64 x = x.
Proof. unfold in_u64, u64; intros; apply Z.mod_small; lia. Qed.
Lemma i64_id x : in_i64 x -> i64 x = x.
Proof.
  unfold in_i64, i64; intros.
  rewrite Z.mod_small; lia.
Qed.

Lemma u32_range x : in_u32 (u32 x).
Proof. unfold in_u32, u32. apply Z.mod_pos_bound. lia. Qed.
Lemma u16_range x : in_u16 (u16 x).
Proof. unfold in_u16, u16. apply Z.mod_pos_bound. lia. Qed.
Lemma u8_range x : in_u8 (u8 x).
Proof. unfold in_u8, u8. apply Z.mod_pos_bound. lia. Qed.
Lemma u64_range x : in_u64 (u64 x).
Proof. unfold in_u64, u64. apply Z.mod_pos_bound. lia. Qed.

(* Go's / and % truncate toward zero *)
Definition go_quot (a b : Z) : Z := Z.quot a b.
Definition go_rem  (a b : Z) : Z := Z.rem a b.

Lemma go_quot_nonneg a b : 0 <= a -> 0 < b -> go_quot a b = a / b.
Proof. intros. unfold go_quot. apply Z.quot_div_nonneg; lia. Qed.
Lemma go_rem_nonneg a b : 0 <= a -> 0 < b -> go_rem a b = a mod b.
Proof. intros. unfold go_rem. apply Z.rem_mod_nonneg; lia. Qed.


Lemma ret_inj {A} (a b : A) : Ret a = Ret b -> a = b.
Proof. congruence. Qed.

(* Big-endian fixed-width fields over byte lists (bytes are Z in [0,256)). *)
From Coq Require Import ZArith List Lia Bool.
From TF Require Import Lib.GoInt.
Import ListNotations.
Open Scope Z_scope.

Definition p256 (n : nat) : Z := 256 ^ Z.of_nat n.

Lemma p256_0 : p256 0 = 1. Proof. reflexivity. Qed.
Lemma p256_S n : p256 (S n) = 256 * p256 n.
Proof. unfold p256. rewrite Nat2Z.inj_succ, Z.pow_succ_r by lia. reflexivity. Qed.
Lemma p256_pos n : 0 < p256 n.
Proof. unfold p256. apply Z.pow_pos_nonneg; lia. Qed.

(* big-endian encoding of x in n bytes *)
Fixpoint be (n : nat) (x : Z) : list Z :=
  match n with
  | O => []
  | S n' => (x / p256 n') mod 256 :: be n' (x mod p256 n')
  end.

Lemma be_length n : forall x, length (be n x) = n.
Proof. induction n as [|n IH]; intros x; cbn [be length]; [reflexivity|]. rewrite IH. reflexivity. Qed.

(* reading n bytes big-endian; None when fewer than n bytes are available *)
Fixpoint unbe_acc (n : nat) (l : list Z) (acc : Z) : option (Z * list Z) :=
  match n with
  | O => Some (acc, l)
  | S n' => match l with
            | b :: l' => unbe_acc n' l' (acc * 256 + b)
            | [] => None
            end
  end.
Definition unbe (n : nat) (l : list Z) : option (Z * list Z) := unbe_acc n l 0.

Lemma unbe_acc_be n : forall x rest acc, 0 <= x < p256 n ->
  unbe_acc n (be n x ++ rest) acc = Some (acc * p256 n + x, rest).
Proof.
  induction n as [|n IH]; intros x rest acc Hx.
  - cbn. rewrite p256_0 in *. f_equal. f_equal. lia.
  - cbn [be app unbe_acc].
    pose proof (p256_pos n) as Hp. rewrite p256_S in Hx.
    assert (Hq : 0 <= x / p256 n < 256).
    { split; [apply Z.div_pos; lia|apply Z.div_lt_upper_bound; lia]. }
    rewrite (Z.mod_small (x / p256 n) 256) by lia.
    rewrite IH by (apply Z.mod_pos_bound; lia).
    f_equal. f_equal. rewrite p256_S.
    pose proof (Z.div_mod x (p256 n) ltac:(lia)). nia.
Qed.

Lemma unbe_be n x rest : 0 <= x < p256 n -> unbe n (be n x ++ rest) = Some (x, rest).
Proof. intros H. unfold unbe. rewrite unbe_acc_be by exact H. f_equal. Qed.

(* every strict prefix of the input is "short" *)
Lemma unbe_acc_short n : forall l acc, (length l < n)%nat -> unbe_acc n l acc = None.
Proof.
  induction n as [|n IH]; intros l acc H; [inversion H|].
  destruct l as [|b l]; cbn [unbe_acc]; [reflexivity|]. apply IH. cbn in H. lia.
Qed.

Lemma unbe_acc_some n : forall l acc v rest, unbe_acc n l acc = Some (v, rest) ->
  exists pre, l = pre ++ rest /\ length pre = n.
Proof.
  induction n as [|n IH]; intros l acc v rest H; cbn [unbe_acc] in H.
  - inversion H; subst. exists []. split; reflexivity.
  - destruct l as [|b l]; [discriminate|]. apply IH in H. destruct H as (pre & -> & L).
    exists (b :: pre). split; [reflexivity|cbn; lia].
Qed.

(* taking n raw bytes *)
Definition take (n : nat) (l : list Z) : option (list Z * list Z) :=
  if (n <=? length l)%nat then Some (firstn n l, skipn n l) else None.

Lemma take_app (a rest : list Z) : take (length a) (a ++ rest) = Some (a, rest).
Proof.
  unfold take. rewrite app_length.
  replace (length a <=? length a + length rest)%nat with true by (symmetry; apply Nat.leb_le; lia).
  rewrite firstn_app, Nat.sub_diag, firstn_all, firstn_O, app_nil_r.
  rewrite skipn_app, Nat.sub_diag, skipn_all. reflexivity.
Qed.

Definition bytes_ok (l : list Z) : Prop := Forall (fun b => 0 <= b < 256) l.

Lemma p256_1 : p256 1 = 256. Proof. reflexivity. Qed.
Lemma p256_2 : p256 2 = 2^16. Proof. reflexivity. Qed.
Lemma p256_4 : p256 4 = 2^32. Proof. reflexivity. Qed.
Lemma p256_8 : p256 8 = 2^64. Proof. reflexivity. Qed.

(* compact notation for long runs in generated cases files *)
Definition rep (n b : Z) : list Z := repeat b (Z.to_nat n).

Global Arguments be : simpl never.
Global Arguments p256 : simpl never.
Global Arguments rep : simpl never.

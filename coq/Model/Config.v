(* C16 - executable model of what a client and the signaling server must agree on:

     * net/url percent-encoding (escape / unescape, modes encodeQueryComponent
       and encodeUserPassword), url.ParseQuery / Values.Get;
     * app.buildWebSocketURL (client) and the query parsing of thruserv's /ws
       handler (server);
     * thruserv's injectTurnCredentials / turnIssuer.Issue (server) and
       ice.parseTurnServer (client) over the part of url.Parse / URL.String they
       use;
     * the POST /session and GET /ws admission decisions of thruserv as a function
       of the server flags (instantaneous: token buckets never refill), the
       /session response, and clienthttp.CreateSession's decoding of it.

   Definitions only.  Byte strings are [list Z].  Everything net/url does that
   the model does not reproduce (fragments, non-empty paths, IPv6 literals,
   percent-escapes inside hosts, non-ASCII white space) is the explicit value
   [TUn] - never a default. *)
From Coq Require Import ZArith List Bool Lia.
From TF Require Import Lib.GoInt.
Import ListNotations.
Open Scope Z_scope.

Definition str := list Z.

(* ------------------------------------------------------------------ *)
(* strings                                                             *)

Fixpoint seqb (a b : str) : bool :=
  match a, b with
  | [], [] => true
  | x :: a', y :: b' => (x =? y) && seqb a' b'
  | _, _ => false
  end.

Fixpoint starts_with (p s : str) : bool :=
  match p, s with
  | [], _ => true
  | a :: p', b :: s' => (a =? b) && starts_with p' s'
  | _ :: _, [] => false
  end.

Definition mem (c : Z) (s : str) : bool := existsb (Z.eqb c) s.

Fixpoint count (c : Z) (s : str) : Z :=
  match s with [] => 0 | x :: t => (if x =? c then 1 else 0) + count c t end.

(* strings.Cut(s, string(c)) *)
Fixpoint cut (c : Z) (s : str) : str * str * bool :=
  match s with
  | [] => ([], [], false)
  | x :: t => if x =? c then ([], t, true)
              else let '(a, b, f) := cut c t in (x :: a, b, f)
  end.

(* split at strings.LastIndex(s, string(c)) *)
Fixpoint cut_last (c : Z) (s : str) : option (str * str) :=
  match s with
  | [] => None
  | x :: t => match cut_last c t with
              | Some (a, b) => Some (x :: a, b)
              | None => if x =? c then Some ([], t) else None
              end
  end.

Definition ends_with (c : Z) (s : str) : bool :=
  match rev s with x :: _ => x =? c | [] => false end.

(* pieces between separators c; [] gives [[]] *)
Fixpoint split_on (c : Z) (s : str) : list str :=
  match s with
  | [] => [[]]
  | x :: t => if x =? c then [] :: split_on c t
              else match split_on c t with
                   | a :: r => (x :: a) :: r
                   | [] => [[x]]
                   end
  end.

Fixpoint join_with (c : Z) (l : list str) : str :=
  match l with
  | [] => []
  | [a] => a
  | a :: r => a ++ c :: join_with c r
  end.

(* ------------------------------------------------------------------ *)
(* net/url: shouldEscape, escape, unescape                             *)

Inductive emode := EQuery | EUser.   (* encodeQueryComponent | encodeUserPassword *)

Definition between (lo hi c : Z) : bool := (lo <=? c) && (c <=? hi).
Definition is_digit (c : Z) : bool := between 48 57 c.
Definition is_alnum (c : Z) : bool := between 97 122 c || between 65 90 c || is_digit c.
Definition is_mark (c : Z) : bool := (c =? 45) || (c =? 95) || (c =? 46) || (c =? 126).      (* - _ . ~ *)
Definition is_reserved (c : Z) : bool :=                                                     (* $ & + , / : ; = ? @ *)
  (c =? 36) || (c =? 38) || (c =? 43) || (c =? 44) || (c =? 47) || (c =? 58) || (c =? 59) || (c =? 61) || (c =? 63) || (c =? 64).

Definition should_escape (m : emode) (c : Z) : bool :=
  if is_alnum c then false
  else if is_mark c then false
  else if is_reserved c then
    match m with
    | EQuery => true
    | EUser => (c =? 64) || (c =? 47) || (c =? 63) || (c =? 58)         (* @ / ? : *)
    end
  else true.

Definition upperhex (n : Z) : Z := if n <? 10 then 48 + n else 55 + n.

Definition escape_byte (m : emode) (c : Z) : str :=
  match m with
  | EQuery => if c =? 32 then [43] else
              if should_escape m c then [37; upperhex (c / 16); upperhex (c mod 16)] else [c]
  | EUser => if should_escape m c then [37; upperhex (c / 16); upperhex (c mod 16)] else [c]
  end.

Definition escape (m : emode) (s : str) : str := flat_map (escape_byte m) s.

Definition ishex (c : Z) : bool := is_digit c || between 97 102 c || between 65 70 c.
Definition unhex (c : Z) : Z :=
  if is_digit c then c - 48 else if between 97 102 c then c - 97 + 10 else if between 65 70 c then c - 65 + 10 else 0.

(* None = EscapeError *)
Fixpoint unescape (m : emode) (s : str) : option str :=
  match s with
  | [] => Some []
  | c :: t =>
    if c =? 37 then
      match t with
      | h :: l :: t' =>
        if ishex h && ishex l then option_map (cons (unhex h * 16 + unhex l)) (unescape m t') else None
      | _ => None
      end
    else option_map (cons (match m with EQuery => if c =? 43 then 32 else c | EUser => c end)) (unescape m t)
  end.

(* url.ParseQuery: pieces with ';', empty pieces and pieces with a bad escape are dropped *)
Definition parse_pair (seg : str) : option (str * str) :=
  if mem 59 seg then None else
  match seg with
  | [] => None
  | _ => let '(k, v, _) := cut 61 seg in
         match unescape EQuery k, unescape EQuery v with
         | Some k', Some v' => Some (k', v')
         | _, _ => None
         end
  end.

Definition parse_query (q : str) : list (str * str) :=
  flat_map (fun seg => match parse_pair seg with Some p => [p] | None => [] end) (split_on 38 q).

(* Values.Get: first value of the key, "" when absent *)
Fixpoint get (k : str) (kvs : list (str * str)) : str :=
  match kvs with
  | [] => []
  | (k', v) :: r => if seqb k k' then v else get k r
  end.

(* ------------------------------------------------------------------ *)
(* decimal integers: fmt %d and strconv.Atoi                           *)

Fixpoint dec_aux (fuel : nat) (n : Z) (acc : str) : str :=
  match fuel with
  | O => acc
  | S f => let acc' := (48 + n mod 10) :: acc in
           if n <? 10 then acc' else dec_aux f (n / 10) acc'
  end.
(* %d of a non-negative int *)
Definition dec (n : Z) : str := dec_aux (S (Z.to_nat (Z.log2 n))) n [].

Definition digits_val (s : str) : Z := fold_left (fun a d => a * 10 + (d - 48)) s 0.

(* strconv.Atoi: optional sign, at least one digit, no overflow of int (64 bit) *)
Definition atoi (s : str) : option Z :=
  let '(neg, ds) := match s with
                    | c :: t => if c =? 43 then (false, t) else if c =? 45 then (true, t) else (false, s)
                    | [] => (false, [])
                    end in
  match ds with
  | [] => None
  | _ => if forallb is_digit ds then
           let v := if neg then - digits_val ds else digits_val ds in
           if (- 2^63 <=? v) && (v <? 2^63) then Some v else None
         else None
  end.

(* ------------------------------------------------------------------ *)
(* the signaling URL: app.buildWebSocketURL and what the /ws handler reads *)

Definition s_join_code := [106;111;105;110;95;99;111;100;101].                 (* join_code *)
Definition s_peer_id := [112;101;101;114;95;105;100].                          (* peer_id *)
Definition s_role := [114;111;108;101].                                        (* role *)
Definition s_max_receivers := [109;97;120;95;114;101;99;101;105;118;101;114;115]. (* max_receivers *)
Definition s_sender := [115;101;110;100;101;114].
Definition s_receiver := [114;101;99;101;105;118;101;114].
Definition s_http := [104;116;116;112].
Definition s_https := [104;116;116;112;115].
Definition s_ws := [119;115].
Definition s_wss := [119;115;115].

(* strings.Replace(s, "http", "ws", 1) *)
Fixpoint replace_http (s : str) : str :=
  match s with
  | [] => []
  | x :: t => if starts_with s_http s then s_ws ++ skipn 4 s else x :: replace_http t
  end.

Definition ws_scheme (scheme : str) : str :=
  let s := replace_http scheme in
  if seqb s s_ws && seqb scheme s_https then s_wss else s.

Definition ws_query (join peer role : str) (maxr : Z) : str :=
  s_join_code ++ 61 :: escape EQuery join ++ 38 :: s_peer_id ++ 61 :: escape EQuery peer ++ 38 ::
  s_role ++ 61 :: escape EQuery role ++
  (if 0 <? maxr then 38 :: s_max_receivers ++ 61 :: dec maxr else []).

(* url.URL{Scheme, Host, Path: "/ws", RawQuery}.String() for a server URL
   scheme://host (host = host[:port], no userinfo, no path) *)
Definition ws_url (scheme host join peer role : str) (maxr : Z) : str :=
  ws_scheme scheme ++ [58;47;47] ++ host ++ [47;119;115;63] ++ ws_query join peer role maxr.

(* RawQuery as url.Parse / url.ParseRequestURI find it in a string without
   control bytes: cut the fragment (client side only), then the "?" rule *)
Definition raw_query_of (cut_fragment : bool) (s : str) : str :=
  let u := if cut_fragment then fst (fst (cut 35 s)) else s in
  if ends_with 63 u && (count 63 u =? 1) then [] else snd (fst (cut 63 u)).

(* client: wsclient.Dial parses the URL and sends path?RawQuery as the request
   target; server: ParseRequestURI, then r.URL.Query().Get for the four keys *)
Definition request_target (url : str) : str := [47;119;115;63] ++ raw_query_of true url.

Definition server_view (url : str) : str * str * str * str :=
  let kvs := parse_query (raw_query_of false (request_target url)) in
  (get s_join_code kvs, get s_peer_id kvs, get s_role kvs, get s_max_receivers kvs).

(* ------------------------------------------------------------------ *)
(* TURN URLs: the part of url.Parse / URL.String both sides use        *)

Inductive tres (A : Type) : Type :=
| TOk (a : A)
| TErr          (* the Go function returns an error *)
| TUn.          (* outside what this model reproduces *)
Arguments TOk {A} a.
Arguments TErr {A}.
Arguments TUn {A}.

Record url := {
  u_tls : bool;                          (* scheme "turns" (else "turn") *)
  u_user : option (str * option str);    (* Userinfo: name, password if set *)
  u_host : str;
  u_query : str;                         (* RawQuery *)
  u_force : bool                         (* ForceQuery *)
}.

Definition s_turn := [116;117;114;110;58].          (* turn: *)
Definition s_turns := [116;117;114;110;115;58].     (* turns: *)
Definition s_slashes := [47;47].

Definition is_space (c : Z) : bool := between 9 13 c || (c =? 32).
Fixpoint trim_left (s : str) : str :=
  match s with x :: t => if is_space x then trim_left t else s | [] => [] end.
(* strings.TrimSpace on strings whose ends are ASCII *)
Definition trim_space (s : str) : tres str :=
  let r := trim_left (rev (trim_left s)) in     (* the result, reversed *)
  match r, rev r with
  | y :: _, x :: _ => if (128 <=? x) || (128 <=? y) then TUn else TOk (rev r)
  | _, _ => TOk []
  end.

(* the prefix switch shared by injectTurnCredentials and parseTurnServer:
   scheme and what follows "scheme:" *)
Definition normalise (raw : str) : bool * str :=
  if starts_with (s_turns ++ s_slashes) raw then (true, skipn 6 raw)
  else if starts_with s_turns raw then (true, s_slashes ++ skipn 6 raw)
  else if starts_with (s_turn ++ s_slashes) raw then (false, skipn 5 raw)
  else if starts_with s_turn raw then (false, s_slashes ++ skipn 5 raw)
  else (false, s_slashes ++ raw).

Definition is_ctl (c : Z) : bool := (c <? 32) || (c =? 127).

(* shouldEscape(c, encodeHost) = false *)
Definition host_char_ok (c : Z) : bool :=
  is_alnum c || is_mark c ||
  (c =? 33) || (c =? 34) || (c =? 36) || (c =? 38) || (c =? 39) || (c =? 40) || (c =? 41) || (c =? 42) ||
  (c =? 43) || (c =? 44) || (c =? 58) || (c =? 59) || (c =? 60) || (c =? 61) || (c =? 62) || (c =? 91) || (c =? 93).

Definition parse_host (h : str) : tres str :=
  if starts_with [91] h then TUn else
  if mem 37 h then TUn else
  let port_ok := match cut_last 58 h with
                 | None => true
                 | Some (_, p) => forallb is_digit p
                 end in
  if negb port_ok then TErr else
  if existsb (fun c => (c <? 128) && negb (host_char_ok c)) h then TErr else TOk h.

Definition userinfo_char_ok (c : Z) : bool :=
  is_alnum c || is_mark c ||
  (c =? 58) || (c =? 33) || (c =? 36) || (c =? 38) || (c =? 39) || (c =? 40) || (c =? 41) || (c =? 42) ||
  (c =? 43) || (c =? 44) || (c =? 59) || (c =? 61) || (c =? 37) || (c =? 64).

Definition parse_userinfo (ui : str) : tres (str * option str) :=
  if negb (forallb userinfo_char_ok ui) then TErr else
  if mem 58 ui then
    let '(un, pw, _) := cut 58 ui in
    match unescape EUser un, unescape EUser pw with
    | Some a, Some b => TOk (a, Some b)
    | _, _ => TErr
    end
  else match unescape EUser ui with
       | Some a => TOk (a, None)
       | None => TErr
       end.

(* url.Parse of "turn(s):" ++ rest0 *)
Definition url_parse (tls : bool) (rest0 : str) : tres url :=
  if existsb is_ctl rest0 then TErr else
  if mem 35 rest0 then TUn else
  let force := ends_with 63 rest0 && (count 63 rest0 =? 1) in
  let '(rest, q) := if force then (removelast rest0, []) else (fst (fst (cut 63 rest0)), snd (fst (cut 63 rest0))) in
  if negb (starts_with s_slashes rest) then TUn else
  let '(auth, _, has_path) := cut 47 (skipn 2 rest) in
  if has_path then TUn else
  match cut_last 64 auth with
  | None =>
    match parse_host auth with
    | TOk h => TOk {| u_tls := tls; u_user := None; u_host := h; u_query := q; u_force := force |}
    | TErr => TErr
    | TUn => TUn
    end
  | Some (ui, hp) =>
    match parse_host hp with
    | TOk h =>
      match parse_userinfo ui with
      | TOk usr => TOk {| u_tls := tls; u_user := Some usr; u_host := h; u_query := q; u_force := force |}
      | TErr => TErr
      | TUn => TUn
      end
    | TErr => TErr
    | TUn => TUn
    end
  end.

Definition escape_host (h : str) : str :=
  flat_map (fun c => if c <? 128 then [c] else [37; upperhex (c / 16); upperhex (c mod 16)]) h.

Definition scheme_str (tls : bool) : str := if tls then [116;117;114;110;115] else [116;117;114;110].

(* URL.String() for Opaque = Path = Fragment = "" *)
Definition url_string (u : url) : str :=
  scheme_str (u_tls u) ++ [58;47;47] ++
  match u_user u with
  | None => []
  | Some (a, None) => escape EUser a ++ [64]
  | Some (a, Some b) => escape EUser a ++ 58 :: escape EUser b ++ [64]
  end ++
  escape_host (u_host u) ++
  (if u_force u || negb (seqb (u_query u) []) then 63 :: u_query u else []).

(* cmd/thruserv injectTurnCredentials *)
Definition inject (raw user pass : str) : tres str :=
  match trim_space raw with
  | TOk [] => TErr
  | TOk r =>
    let '(tls, rest) := normalise r in
    match url_parse tls rest with
    | TOk u =>
      match u_host u with
      | [] => TErr
      | _ => TOk (url_string {| u_tls := u_tls u; u_user := Some (user, Some pass); u_host := u_host u;
                               u_query := u_query u; u_force := u_force u |})
      end
    | TErr => TErr
    | TUn => TUn
    end
  | TErr => TErr
  | TUn => TUn
  end.

Record endpoint := {
  e_addr : str; e_user : str; e_pass : str; e_realm : str;
  e_tcp : bool; e_tls : bool; e_sni : str; e_insecure : bool
}.

Definition s_transport := [116;114;97;110;115;112;111;114;116].
Definition s_udp := [117;100;112].
Definition s_tcp := [116;99;112].
Definition s_servername := [115;101;114;118;101;114;110;97;109;101].
Definition s_sni := [115;110;105].
Definition s_insecure := [105;110;115;101;99;117;114;101].
Definition s_realm := [114;101;97;108;109].
Definition s_false := [102;97;108;115;101].

(* the host part net.SplitHostPort yields for an unbracketed host:port, "" on error *)
Definition host_of_hostport (hp : str) : str :=
  match cut_last 58 hp with
  | None => []
  | Some (h, _) => if mem 58 h || mem 91 h || mem 93 h then [] else h
  end.

(* the decisions of parseTurnServer after url.Parse, as a function of scheme,
   host[:port], userinfo and the query values *)
Definition endpoint_of (tls : bool) (host user pass : str) (kvs : list (str * str)) : tres endpoint :=
  match host with
  | [] => TErr
  | _ =>
    if negb (mem 58 host) then TErr else
    let transport := get s_transport kvs in
    if negb (seqb transport [] || seqb transport s_udp || seqb transport s_tcp) then TErr else
    if tls && seqb transport s_udp then TErr else
    let sn0 := host_of_hostport host in
    let sn1 := match get s_servername kvs with [] => sn0 | s => s end in
    let sn2 := match get s_sni kvs with [] => sn1 | s => s end in
    let ins := get s_insecure kvs in
    TOk {| e_addr := host; e_user := user; e_pass := pass; e_realm := get s_realm kvs;
           e_tcp := seqb transport s_tcp || tls; e_tls := tls; e_sni := sn2;
           e_insecure := negb (seqb ins [] || seqb ins [48] || seqb ins s_false) |}
  end.

(* internal/ice parseTurnServer *)
Definition parse_turn (raw : str) : tres endpoint :=
  match trim_space raw with
  | TOk [] => TErr
  | TOk r =>
    let '(tls, rest) := normalise r in
    match url_parse tls rest with
    | TOk u =>
      let '(user, pass) := match u_user u with
                           | None => ([], [])
                           | Some (a, None) => (a, [])
                           | Some (a, Some b) => (a, b)
                           end in
      endpoint_of (u_tls u) (u_host u) user pass (parse_query (u_query u))
    | TErr => TErr
    | TUn => TUn
    end
  | TErr => TErr
  | TUn => TUn
  end.

(* turnIssuer.Issue: all servers or nothing *)
Fixpoint inject_all (servers : list str) (user pass : str) : tres (list str) :=
  match servers with
  | [] => TOk []
  | r :: rest =>
    match inject r user pass, inject_all rest user pass with
    | TOk u, TOk us => TOk (u :: us)
    | TErr, _ => TErr
    | TOk _, TErr => TErr
    | _, _ => TUn
    end
  end.

(* username of the TURN REST credentials: "<unix expiry>:<peer id>" *)
Definition rest_username (expiry : Z) (peer : str) : str := dec expiry ++ 58 :: peer.

(* ------------------------------------------------------------------ *)
(* the grammar of documented TURN spellings and what each one means    *)

Inductive prefix := PTurn | PTurns | PTurnSl | PTurnsSl | PBare.

Record spelling := {
  sp_prefix : prefix;
  sp_host : str;
  sp_port : str;
  sp_query : list (str * str)
}.

Definition prefix_str (p : prefix) : str :=
  match p with
  | PTurn => s_turn | PTurns => s_turns
  | PTurnSl => s_turn ++ s_slashes | PTurnsSl => s_turns ++ s_slashes
  | PBare => []
  end.
Definition prefix_tls (p : prefix) : bool :=
  match p with PTurns | PTurnsSl => true | _ => false end.

Definition render_query (kvs : list (str * str)) : str :=
  join_with 38 (map (fun kv => fst kv ++ 61 :: snd kv) kvs).

Definition hostport (sp : spelling) : str := sp_host sp ++ 58 :: sp_port sp.

Definition render (sp : spelling) : str :=
  prefix_str (sp_prefix sp) ++ hostport sp ++
  match sp_query sp with [] => [] | kvs => 63 :: render_query kvs end.

Definition host_char (c : Z) : bool := is_alnum c || (c =? 45) || (c =? 46).               (* a-z A-Z 0-9 - . *)
Definition safe_char (c : Z) : bool := is_alnum c || (c =? 45) || (c =? 46) || (c =? 95).  (* ... and _ *)

Definition spelling_ok (sp : spelling) : bool :=
  negb (seqb (sp_host sp) []) && forallb host_char (sp_host sp) &&
  negb (seqb (sp_port sp) []) && forallb is_digit (sp_port sp) &&
  forallb (fun kv => negb (seqb (fst kv) []) && forallb safe_char (fst kv) && forallb safe_char (snd kv)) (sp_query sp) &&
  match sp_prefix sp with
  | PBare => negb (starts_with s_turn (render sp)) && negb (starts_with s_turns (render sp))
  | _ => true
  end.

(* the endpoint a spelling denotes, straight from its parts *)
Definition intended (sp : spelling) (user pass : str) : tres endpoint :=
  endpoint_of (prefix_tls (sp_prefix sp)) (hostport sp) user pass (sp_query sp).

(* ------------------------------------------------------------------ *)
(* server flags, admission decisions, the /session response            *)

Record flags := {
  f_max_sessions : Z; f_max_recv : Z; f_max_msg : Z;
  f_conn_rate : Z; f_conn_burst : Z;          (* --ws-connects-per-min / -burst *)
  f_msg_rate : Z; f_msg_burst : Z;
  f_sess_rate : Z; f_sess_burst : Z;          (* --session-creates-per-min / -burst *)
  f_max_ws : Z;
  f_idle : Z; f_timeout : Z;                  (* durations, ns *)
  f_turn_servers : list str; f_turn_secret : str; f_turn_ttl : Z
}.

Record sstate := {
  s_sessions : list nat;      (* per created session: receivers connected *)
  s_create_used : Z;          (* tokens taken from the (single) client address' buckets *)
  s_conn_used : Z;
  s_ws_in_use : Z
}.
Definition s0 : sstate := {| s_sessions := []; s_create_used := 0; s_conn_used := 0; s_ws_in_use := 0 |}.

(* newTokenBucket clamps burst to >= 1; no time passes *)
Definition bucket_allows (rate burst used : Z) : bool :=
  (rate <=? 0) || (used <? Z.max burst 1).

(* the max_receivers checks shared by both handlers: 0 = pass, else status *)
Definition check_maxr (f : flags) (raw : str) : Z :=
  match raw with
  | [] => 0
  | _ => match atoi raw with
         | None => 400
         | Some v => if v <? 1 then 400
                     else if (0 <? f_max_recv f) && (f_max_recv f <? v) then 429 else 0
         end
  end.

(* POST /session?max_receivers=raw : status, expires_at present, next state *)
Definition create (f : flags) (s : sstate) (maxr_raw : str) : Z * bool * sstate :=
  let st := check_maxr f maxr_raw in
  if negb (st =? 0) then (st, false, s) else
  if negb (bucket_allows (f_sess_rate f) (f_sess_burst f) (s_create_used s)) then (429, false, s) else
  let s1 := if 0 <? f_sess_rate f
            then {| s_sessions := s_sessions s; s_create_used := s_create_used s + 1;
                    s_conn_used := s_conn_used s; s_ws_in_use := s_ws_in_use s |} else s in
  if (0 <? f_max_sessions f) && (f_max_sessions f <=? Z.of_nat (length (s_sessions s1))) then (429, false, s1) else
  (201, 0 <? f_timeout f,
   {| s_sessions := s_sessions s1 ++ [O]; s_create_used := s_create_used s1;
      s_conn_used := s_conn_used s1; s_ws_in_use := s_ws_in_use s1 |}).

Fixpoint bump (n : nat) (l : list nat) : list nat :=
  match n, l with
  | O, x :: r => S x :: r
  | S n', x :: r => x :: bump n' r
  | _, [] => []
  end.

Definition turn_enabled (f : flags) : bool :=
  negb (match f_turn_servers f with [] => true | _ => false end) && negb (seqb (f_turn_secret f) []).

(* GET /ws with the query values the handler extracted; [sess] = index of the
   session the join code belongs to (None: empty or unknown code): status, next state *)
Definition connect (f : flags) (s : sstate) (join : str) (sess : option nat) (peer role maxr_raw : str)
  : Z * sstate :=
  match join with
  | [] => (400, s)
  | _ =>
  match sess with
  | None => (404, s)
  | Some i =>
    match nth_error (s_sessions s) i with
    | None => (404, s)
    | Some recvs =>
      match peer with
      | [] => (400, s)
      | _ =>
      let is_s := seqb role s_sender in
      let is_r := seqb role s_receiver in
      if negb (is_s || is_r) then (400, s) else
      let st := if is_s then check_maxr f maxr_raw else 0 in
      if negb (st =? 0) then (st, s) else
      if negb (bucket_allows (f_conn_rate f) (f_conn_burst f) (s_conn_used s)) then (429, s) else
      let used := if 0 <? f_conn_rate f then s_conn_used s + 1 else s_conn_used s in
      let s1 := {| s_sessions := s_sessions s; s_create_used := s_create_used s;
                   s_conn_used := used; s_ws_in_use := s_ws_in_use s |} in
      if (0 <? f_max_ws f) && (f_max_ws f <=? s_ws_in_use s) then (429, s1) else
      if (0 <? f_max_recv f) && is_r && (f_max_recv f <=? Z.of_nat recvs) then (429, s1) else
      (101, {| s_sessions := if is_r then bump i (s_sessions s) else s_sessions s;
               s_create_used := s_create_used s; s_conn_used := used;
               s_ws_in_use := if 0 <? f_max_ws f then s_ws_in_use s + 1 else s_ws_in_use s |})
      end
    end
  end
  end.

(* the URLs of the turn_credentials message sent after a successful connect:
   None = no message *)
Definition issued (f : flags) (user pass : str) : tres (option (list str)) :=
  if turn_enabled f then
    match inject_all (f_turn_servers f) user pass with
    | TOk l => TOk (Some l)
    | TErr => TOk None
    | TUn => TUn
    end
  else TOk None.

(* clienthttp.CreateSession on the server's answer: the status must be 2xx;
   session_id and join_code are copied; expires_at is parsed when present and
   is the zero time otherwise.  [Ret has_expiry] / [Err]. *)
Definition client_create (status : Z) (has_expires : bool) : res bool :=
  if (200 <=? status) && (status <? 300) then Ret has_expires else Err.

(* HISTORICAL: the decoder before the repair (repository commit "fix:
   CreateSession accepts a session without expires_at"): time.Parse("") failed
   when the server omitted expires_at.  Kept only for the witness in Props/C16.v. *)
Definition client_create_before_fix (status : Z) (has_expires : bool) : res bool :=
  if (200 <=? status) && (status <? 300) then (if has_expires then Ret true else Err) else Err.

(* the query string CreateSession appends *)
Definition create_query (maxr : Z) : str := if 0 <? maxr then dec maxr else [].

(* what the property asks of a configuration before anything is promised:
   the host's own --max-receivers fits the server's cap, and the per-address
   connect burst and the global connection cap leave room for two peers *)
Definition permits (f : flags) (maxr : Z) : bool :=
  ((maxr <=? 0) || (f_max_recv f <=? 0) || (maxr <=? f_max_recv f)) &&
  ((f_conn_rate f <=? 0) || (2 <=? f_conn_burst f)) &&
  ((f_max_ws f <=? 0) || (2 <=? f_max_ws f)).

(* Model of pkg/manifest/manifest.go (Scan, ScanPaths, TopLevelNames, computeID)
   and of internal/app/snapshot_sender.go buildPathResolver, over an abstract
   file tree.  Definitions only.

   Byte strings are [list Z] (Go strings are byte strings; Linux file names are
   arbitrary bytes without '/' and NUL).  Linux only: filepath.ToSlash and
   filepath.FromSlash are the identity.

   What is NOT modelled but taken from the Go standard library as given:
   filepath.Abs / Clean / Base / Rel / EvalSymlinks and the order in which
   WalkDir enumerates a directory.  An absolute, cleaned path is represented by
   its list of components ([] is "/"); a given path is represented by that list
   and by the tree os.Stat / EvalSymlinks see there, i.e. AFTER following a
   symbolic link at the given path itself ([e_stat], None = nothing there).
   Links met below a given path are not followed (WalkDir uses lstat); they are
   the [Link] leaves of the tree.  Unreadable directories (permission errors)
   are outside the model. *)
From Coq Require Import ZArith List Bool Lia.
From Coq Require String Ascii DecimalString.
From TF Require Import Lib.GoInt.
Import ListNotations.
Open Scope Z_scope.

Definition bytes := list Z.

Definition SLASH : Z := 47.
Definition USCORE : Z := 95.
Definition BAR : Z := 124.
Definition MINUS : Z := 45.

Fixpoint beq (a b : bytes) : bool :=
  match a, b with
  | [], [] => true
  | x :: a', y :: b' => (x =? y) && beq a' b'
  | _, _ => false
  end.

Fixpoint mem (x : bytes) (l : list bytes) : bool :=
  match l with
  | [] => false
  | y :: l' => beq x y || mem x l'
  end.

(* ---- fmt's %d ---- *)
Definition dec_N (n : N) : bytes :=
  map (fun a => Z.of_N (Ascii.N_of_ascii a))
      (String.list_ascii_of_string (DecimalString.NilEmpty.string_of_uint (N.to_uint n))).

Definition fmt_d (z : Z) : bytes :=
  if z <? 0 then MINUS :: dec_N (Z.to_N (- z)) else dec_N (Z.to_N z).

(* ---- the file tree ---- *)
Inductive node :=
| File (size mtime : Z)                       (* regular file: stat size = bytes readable *)
| Dir (mtime : Z) (kids : list (bytes * node))
| Link                                        (* symbolic link met by the walk (to anything or nothing) *)
| Other.                                      (* device, pipe, socket *)

Record item := mkItem { rel : bytes; size : Z; mtime : Z; isdir : bool }.

(* the WalkDir callback of Scan / ScanPaths on the entry [n] whose manifest path
   is [r], and on everything beneath it *)
Fixpoint visit (r : bytes) (n : node) {struct n} : list item :=
  match n with
  | File s m => [mkItem r s m false]
  | Dir m kids =>
      mkItem r 0 m true ::
      flat_map (fun k => visit (r ++ SLASH :: fst k) (snd k)) kids
  | Link => []
  | Other => []
  end.

Definition visit_kids (r : bytes) (kids : list (bytes * node)) : list item :=
  flat_map (fun k => visit (r ++ SLASH :: fst k) (snd k)) kids.

(* "/a/b" for [a; b] *)
Definition joinp (p : list bytes) : bytes := flat_map (fun nm => SLASH :: nm) p.
(* the path string of an absolute component list *)
Definition path_str (comps : list bytes) : bytes :=
  match comps with [] => [SLASH] | _ => joinp comps end.

(* ---- TopLevelNames ---- *)
Definition root_name : bytes := [114; 111; 111; 116].   (* "root" *)
(* filepath.Base of an absolute cleaned path, "/" replaced by "root" (the "."
   -> "current" branch is unreachable for the result of filepath.Abs) *)
Definition base_of (abs : list bytes) : bytes := last abs root_name.

Definition count (b : bytes) (l : list bytes) : nat := length (filter (beq b) l).
Definition single (all : list bytes) (b : bytes) : bool := Nat.eqb (count b all) 1.
Definition cand (n : nat) (b : bytes) : bytes := dec_N (N.of_nat n) ++ USCORE :: b.

(* for ordinal := n; ; ordinal++ { if !used[candidate] ... } ; None = out of fuel *)
Fixpoint first_free (fuel n : nat) (b : bytes) (used : list bytes) : option bytes :=
  match fuel with
  | O => None
  | S f => if mem (cand n b) used then first_free f (S n) b used else Some (cand n b)
  end.

Fixpoint assign (sg : bytes -> bool) (bs used : list bytes) : option (list bytes) :=
  match bs with
  | [] => Some []
  | b :: bs' =>
      if sg b then option_map (cons b) (assign sg bs' used)
      else match first_free (S (length used)) 1 b used with
           | None => None
           | Some k => option_map (cons k) (assign sg bs' (k :: used))
           end
  end.

(* None = the search ran out of fuel; Proofs/Scan.v shows it never does *)
Definition top_names (bs : list bytes) : option (list bytes) :=
  assign (single bs) bs (filter (single bs) bs).

(* ---- sort.Slice by RelPath (byte-wise <) ---- *)
Fixpoint ble (a b : bytes) : bool :=
  match a, b with
  | [], _ => true
  | _ :: _, [] => false
  | x :: a', y :: b' => if x <? y then true else if y <? x then false else ble a' b'
  end.

Fixpoint insert (it : item) (l : list item) : list item :=
  match l with
  | [] => [it]
  | h :: t => if ble (rel it) (rel h) then it :: l else h :: insert it t
  end.
Definition isort (l : list item) : list item := fold_right insert [] l.

(* ---- computeID: FNV-1a 64 over "path|size|mtime|isdir", 16 hex digits ---- *)
Definition fnv_offset : Z := 14695981039346656037.
Definition fnv_prime : Z := 1099511628211.
Definition fnv1a (bs : bytes) : Z :=
  fold_left (fun h b => (Z.lxor h b * fnv_prime) mod 2^64) bs fnv_offset.

Definition hexdigit (d : Z) : Z := if d <? 10 then 48 + d else 87 + d.
Fixpoint hex (n : nat) (x : Z) : bytes :=
  match n with
  | O => []
  | S n' => hexdigit ((x / 16 ^ Z.of_nat n') mod 16) :: hex n' x
  end.

Definition s_true : bytes := [116; 114; 117; 101].
Definition s_false : bytes := [102; 97; 108; 115; 101].

Definition id_input (it : item) : bytes :=
  rel it ++ BAR :: fmt_d (size it) ++ BAR :: fmt_d (mtime it) ++ BAR :: (if isdir it then s_true else s_false).
Definition compute_id (it : item) : bytes := hex 16 (fnv1a (id_input it)).

(* ---- the manifest ---- *)
Record manifest := mkManifest {
  m_items : list item;      (* sorted *)
  m_ids : list bytes;       (* ID field of each item, same order *)
  m_total : Z;              (* TotalBytes (int64) *)
  m_files : nat;            (* FileCount *)
  m_folders : nat           (* FolderCount *)
}.

(* counters exactly as the scanner accumulates them, in collection order *)
Definition acc_total (raw : list item) : Z :=
  fold_left (fun t it => if isdir it then t else i64 (t + size it)) raw 0.
Definition acc_files (raw : list item) : nat :=
  fold_left (fun c it => if isdir it then c else S c) raw O.
Definition acc_folders (raw : list item) : nat :=
  fold_left (fun c it => if isdir it then S c else c) raw O.

Definition finish (raw : list item) : manifest :=
  let items := isort raw in
  mkManifest items (map compute_id items) (acc_total raw) (acc_files raw) (acc_folders raw).

(* ---- ScanPaths ---- *)
Record entry := mkEntry { e_abs : list bytes; e_stat : option node }.

(* what one given path contributes; None = a scan error is recorded for it
   (nothing there; neither regular file nor directory) *)
Definition top_items (key : bytes) (st : option node) : option (list item) :=
  match st with
  | Some (File s m) => Some [mkItem key s m false]
  | Some (Dir m kids) => Some (visit key (Dir m kids))
  | _ => None
  end.

Fixpoint collect (keys : list bytes) (es : list entry) : list item * bool :=
  match keys, es with
  | k :: keys', e :: es' =>
      let (its, ok) := collect keys' es' in
      match top_items k (e_stat e) with
      | Some l => (l ++ its, ok)
      | None => (its, false)
      end
  | _, _ => ([], true)
  end.

(* Ret (m, true): manifest, nil error.  Ret (m, false): the manifest of what
   could be scanned together with a non-nil error (the sender refuses to start).
   Err: "no paths provided".  Panic stands for the ordinal search running out of
   fuel (never: Proofs/Scan.v top_names_some). *)
Definition scan_paths (es : list entry) : res (manifest * bool) :=
  match es with
  | [] => Err
  | _ =>
    match top_names (map (fun e => base_of (e_abs e)) es) with
    | None => Panic
    | Some keys => let (raw, ok) := collect keys es in Ret (finish raw, ok)
    end
  end.

(* ---- Scan (single root; relative paths do not carry the root's name) ---- *)
Definition scan_root (name : bytes) (st : option node) : res manifest :=
  match st with
  | Some (File s m) => Ret (finish [mkItem name s m false])
  | Some (Dir _ kids) => Ret (finish (flat_map (fun k => visit (fst k) (snd k)) kids))
  | _ => Err
  end.

(* ---- buildPathResolver ---- *)
(* strings.SplitN(r, "/", 2) *)
Fixpoint split_slash (r : bytes) : bytes * option bytes :=
  match r with
  | [] => ([], None)
  | c :: t => if c =? SLASH then ([], Some t)
              else let (k, rest) := split_slash t in (c :: k, rest)
  end.

Definition target : Type := (bytes * (list bytes * bool))%type.   (* name -> (abs, isDir) *)

(* Go map built by assignment in order: a later equal key overwrites *)
Fixpoint lookup_last (key : bytes) (ts : list target) : option (list bytes * bool) :=
  match ts with
  | [] => None
  | (k, v) :: t =>
      match lookup_last key t with
      | Some v' => Some v'
      | None => if beq k key then Some v else None
      end
  end.

Definition is_dir_stat (st : option node) : bool :=
  match st with Some (Dir _ _) => true | _ => false end.

Definition has_stat (e : entry) : bool :=
  match e_stat e with Some _ => true | None => false end.

(* Ret targets / Err (os.Stat failed for some path) *)
Definition build_resolver (es : list entry) : res (list target) :=
  match es with
  | [] => Ret []
  | _ =>
    if negb (forallb has_stat es) then Err else
    match top_names (map (fun e => base_of (e_abs e)) es) with
    | None => Panic
    | Some keys => Ret (combine keys (map (fun e => (e_abs e, is_dir_stat (e_stat e))) es))
    end
  end.

(* the closure returned by buildPathResolver; [] is the empty string (the
   sender then falls back to rootPath + relPath).  filepath.Join(abs, rest) is
   modelled for a cleaned [rest] only (components of real directory entries). *)
Definition resolve_rel (ts : list target) (r : bytes) : bytes :=
  let (key, rest) := split_slash r in
  match lookup_last key ts with
  | None => []
  | Some (abs, isd) =>
      match rest with
      | None => path_str abs
      | Some [] => path_str abs
      | Some rs => if isd then joinp abs ++ SLASH :: rs else []
      end
  end.

(* Model of internal/transfer/sidecar.go + bitmap.go: the resume metadata file.
     serialise        = the bytes Sidecar.Flush writes
     load             = LoadSidecar on the bytes of the file, step by step:
                        binary.Read = io.ReadFull (fails on a short read),
                        a length field that exceeds the rest of the file is an
                        error (before the fix for oversized allocations a short
                        bytes.Reader.Read succeeded and the next read failed),
                        reader.Read = bytes.Reader.Read (EOF when nothing is
                        left - even for an empty buffer),
                        the CRC is read AT THE CURSOR while the checksum is
                        taken over data[:len-4] (trailing bytes are possible),
                        BitmapFromBytes' length test, and (since the fix for
                        crafted metadata) the chunk-count and padding-bit tests
     load_or_create   = LoadOrCreateSidecarWithFallback: identity test, removal
                        of a foreign file, CreateSidecar
   Bytes are Z in [0,256); a file is a list of bytes.  Hand-written; tied to the
   code by Corr/C06.v.  The chunk count of CreateSidecar is the translator's
   (Gen/Geometry.v sidecarTotalChunks). *)
From Coq Require Import ZArith List Bool.
Import ListNotations.
From TF Require Import Lib.GoInt Lib.Bytes Gen.Geometry Model.CRC.
Open Scope Z_scope.

Definition zlen (l : list Z) : Z := Z.of_nat (length l).

Fixpoint bytes_eqb (a b : list Z) : bool :=
  match a, b with
  | [], [] => true
  | x :: a', y :: b' => (x =? y) && bytes_eqb a' b'
  | _, _ => false
  end.

Record sidecar := mkSc {
  sc_chunk : Z;           (* ChunkSize   uint32 *)
  sc_size : Z;            (* FileSize    int64  *)
  sc_total : Z;           (* TotalChunks uint32 *)
  sc_id : list Z;         (* FileID *)
  sc_bitmap : list Z      (* bitmap bytes, bit i = byte i/8, bit i%8 (LSB first) *)
}.

Definition sidecar_magic : list Z := [83; 66; 77; 50].   (* "SBM2" *)
Definition sidecar_version : Z := 1.

Definition body (s : sidecar) : list Z :=
  sidecar_magic ++ be 2 sidecar_version ++ be 4 (sc_chunk s) ++ be 8 (u64 (sc_size s)) ++
  be 4 (sc_total s) ++ be 2 (u16 (zlen (sc_id s))) ++ sc_id s ++
  be 4 (u32 (zlen (sc_bitmap s))) ++ sc_bitmap s.

Definition serialise (s : sidecar) : list Z := body s ++ be 4 (crc32c (body s)).

(* ---- bitmap.go ---- *)
Definition byte_len (bits : Z) : Z := (bits + 7) / 8.

Definition bit_get (bm : list Z) (bits i : Z) : bool :=
  if (i <? 0) || (bits <=? i) then false
  else Z.testbit (nth (Z.to_nat (i / 8)) bm 0) (i mod 8).

Fixpoint popcount_byte (fuel : nat) (v : Z) : Z :=
  match fuel with
  | O => 0
  | S f => if v =? 0 then 0 else (if Z.odd v then 1 else 0) + popcount_byte f (Z.shiftr v 1)
  end.
(* CountSet: every set bit of every byte, padding included *)
Definition count_set (bm : list Z) : Z := fold_right (fun b acc => popcount_byte 8 b + acc) 0 bm.

(* HighestSetBit: scans bits-1 .. 0 with Get *)
Fixpoint highest_from (bm : list Z) (bits : Z) (n : nat) : option Z :=
  match n with
  | O => None
  | S k => if bit_get bm bits (Z.of_nat k) then Some (Z.of_nat k) else highest_from bm bits k
  end.
Definition highest_set (bm : list Z) (bits : Z) : option Z := highest_from bm bits (Z.to_nat bits).

Definition zeros (n : Z) : list Z := repeat 0 (Z.to_nat n).

(* the unused high bits of the last byte are clear *)
Definition padding_clear (bm : list Z) (total : Z) : bool :=
  let r := total mod 8 in
  if r =? 0 then true else Z.shiftr (last bm 0) r =? 0.

(* ---- LoadSidecar ---- *)
(* the length test added in front of each make([]byte, n) (a length field larger
   than what is left of the file is an error), then bytes.Reader.Read(buf) with
   len(buf) = n: io.EOF when nothing is left - also for n = 0 -, otherwise the n
   bytes.  Result: bytes read, zero bytes left in the buffer (always 0 since the
   length test; kept so that the shape of the parser is that of the code), rest *)
Definition reader_read (n : Z) (l : list Z) : option (list Z * Z * list Z) :=
  if zlen l <? n then None                         (* "sidecar truncated" *)
  else match l with
       | [] => None                                (* io.EOF, also for n = 0 *)
       | _ => Some (firstn (Z.to_nat n) l, 0, skipn (Z.to_nat n) l)
       end.

Definition load (data : list Z) : option sidecar :=
  if zlen data <? 6 then None else
  if negb (bytes_eqb (firstn 4 data) sidecar_magic) then None else
  match unbe 2 (skipn 4 data) with None => None | Some (ver, r) =>
  if negb (ver =? sidecar_version) then None else
  match unbe 4 r with None => None | Some (cs, r) =>
  match unbe 8 r with None => None | Some (fs, r) =>
  match unbe 4 r with None => None | Some (total, r) =>
  match unbe 2 r with None => None | Some (idlen, r) =>
  match reader_read idlen r with None => None | Some (id, idpad, r) =>
  match unbe 4 r with None => None | Some (bmlen, r) =>
  match reader_read bmlen r with None => None | Some (bm, bmpad, r) =>
  match unbe 4 r with None => None | Some (crc, _) =>
  if negb (crc32c (firstn (length data - 4) data) =? crc) then None else
  (* BitmapFromBytes(bitmap, int(totalChunks)) *)
  if negb (bmlen =? byte_len total) then None else
  (* chunk count follows from the sizes; no bits beyond it *)
  match (if cs =? 0 then Err else sidecarTotalChunks (i64 fs) cs) with
  | Ret want =>
    if negb (total =? want) then None else
    let bmfull := bm ++ zeros bmpad in
    if negb (padding_clear bmfull total) then None else
    Some (mkSc cs (i64 fs) total (id ++ zeros idpad) bmfull)
  | _ => None
  end
  end end end end end end end end end.

(* ---- CreateSidecar / LoadOrCreateSidecarWithFallback ---- *)
Definition create (id : list Z) (size cs : Z) : res sidecar :=
  bind (sidecarTotalChunks size cs) (fun total =>
  Ret (mkSc cs size total id (zeros (byte_len total)))).

Definition identity_ok (s : sidecar) (id : list Z) (size cs : Z) : bool :=
  (sc_chunk s =? cs) && (sc_size s =? size) && bytes_eqb (sc_id s) id.

(* what loadValid does with one path: the sidecar it accepts, and whether it removed the file *)
Definition load_valid (file : option (list Z)) (id : list Z) (size cs : Z) : option sidecar * bool :=
  match file with
  | None => (None, false)                       (* no such file / empty path *)
  | Some d =>
    match load d with
    | None => (None, false)                     (* unreadable: left in place, overwritten by the next Flush *)
    | Some s => if identity_ok s id size cs then (Some s, false) else (None, true)
    end
  end.

Record loc_result := mkLoc {
  lr_sc : sidecar;
  lr_loaded : bool;         (* state taken from disk (otherwise created empty) *)
  lr_removed_primary : bool;
  lr_removed_fallback : bool
}.

Definition load_or_create (primary fallback : option (list Z)) (id : list Z) (size cs : Z) : res loc_result :=
  if cs =? 0 then Err else
  match load_valid primary id size cs with
  | (Some s, _) => Ret (mkLoc s true false false)
  | (None, rp) =>
    match load_valid fallback id size cs with
    | (Some s, _) => Ret (mkLoc s true rp false)
    | (None, rf) => bind (create id size cs) (fun s => Ret (mkLoc s false rp rf))
    end
  end.

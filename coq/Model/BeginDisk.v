(* What handleFileBegin (RecvManifestMultiStream, multistream.go) leaves ON DISK for one file
   with a non-empty item id, in both modes of the receiver:
     - the data file is opened without truncation and resized to the announced length
       (os.File.Truncate: cut, or extended with zero bytes);
     - stale-data rule: if the data file was missing or had another length, both metadata
       files of the item are removed - with resume on (since fix 3f16f06) and with resume off
       (since fix cc27423; before it a receive without resume never touched them).
   [begin_disk_old] is the behaviour before cc27423, kept for the refutation.
   Hand-written.  Tied to the code by Gen/BeginMeta.v (the guards under which handleFileBegin
   removes the item's metadata files, read off the source) and by the directed histories of
   harness/c06plain.go and the kill-point snapshots of the crash workloads (oracle only). *)
From Coq Require Import ZArith List Bool.
Import ListNotations.
From TF Require Import Lib.GoInt Lib.Bytes Model.CRC Model.Sidecar Model.Resume.
Open Scope Z_scope.

Definition stale_data (size : Z) (d : disk) : bool :=
  match d_file d with None => true | Some f => negb (zlen f =? size) end.

Definition begin_disk (size : Z) (d : disk) : disk :=
  let stale := stale_data size d in
  mkDisk (Some (resize size (match d_file d with Some f => f | None => [] end)))
         (if stale then None else d_primary d)
         (if stale then None else d_fallback d).

Definition begin_disk_old (resume : bool) (size : Z) (d : disk) : disk :=
  if resume then begin_disk size d
  else mkDisk (Some (resize size (match d_file d with Some f => f | None => [] end)))
              (d_primary d) (d_fallback d).

(* a metadata file is honest about the data file next to it: if it loads and describes this
   item, every chunk it marks is in the data file, byte for byte the source's *)
Definition meta_honest (id : list Z) (size cs : Z) (src : list Z) (file : option (list Z)) (m : option (list Z)) : Prop :=
  match m with
  | None => True
  | Some b =>
    match load b with
    | None => True
    | Some sc =>
      identity_ok sc id size cs = true ->
      forall i, 0 <= i < sc_total sc -> bit_get (sc_bitmap sc) (sc_total sc) i = true ->
      exists f, file = Some f /\ zlen f = size /\ chunk_at cs f i = chunk_at cs src i
    end
  end.

Definition disk_honest (id : list Z) (size cs : Z) (src : list Z) (d : disk) : Prop :=
  meta_honest id size cs src (d_file d) (d_primary d) /\
  meta_honest id size cs src (d_file d) (d_fallback d).

(* The multiplexed receiver (internal/transfer/multistream.go
   RecvManifestMultiStream, after the control header and the DataStreams
   announcement) as an OPEN reactive machine: its input is an arbitrary event
   list - what the control reader and the data-stream readers find on their
   streams, which goroutine moves, which arm of the main select fires, whether an
   I/O call fails, when the caller cancels - so that one induction over event
   lists covers honest peers, faulty networks, hostile peers and all schedules.

   One event = one atomic action of the code at the granularity the code itself
   guarantees (a channel operation, a mutex-protected method, the handling of one
   chunk frame: the positional write precedes the bitmap mark, see Gen/Calls.v).
   Hand-written; tied to the code by Corr/C02.v: the real receiver is driven by a
   scripted peer with every goroutine parked at verifhook points, and the hook
   trace is replayed here event by event.  The chunk count of a file is the
   GENERATED expression (Gen/Geometry.v recvTotalChunks). *)
From Coq Require Import ZArith List Bool Arith.
From TF Require Import Lib.GoInt Gen.Geometry Gen.C15.
Import ListNotations.
Open Scope Z_scope.

(* classification of a stream / connection error (the code inspects the text) *)
Inductive ekind :=
| EOFk        (* io.EOF: the stream ended at a record / frame boundary *)
| UEOF        (* io.ErrUnexpectedEOF: it ended inside a record / frame header *)
| Graceful    (* "Application error 0x0 (remote)": the peer closed with code 0 *)
| Abrupt      (* connection lost, reset, timeout *)
| Plain.      (* an error produced by the receiver itself (protocol violation, CRC, I/O) *)

(* a control record as the main loop sees it.  [fi] is the position of the
   record's path in the manifest (None: not a manifest path); [pathok] the
   verdict of validateRelPath on it (modelled and proved in Model/Path.v) *)
Inductive ctl :=
| CBegin (fi : option nat) (size cs sid : Z) (pathok : bool)
| CEnd (key : Z)
| CResumeReq (key : Z) (fid_ok : bool)
| CEndAll
| COther.                                   (* any other record type *)

(* what a data-stream reader finds next on its stream *)
Inductive item :=
| Fr (key idx len : Z) (crc_ok : bool) (tok : Z)   (* a complete chunk frame; tok names its payload *)
| Trunc (key idx len : Z) (e : ekind)              (* header complete, payload cut by error e *)
| EndOf (e : ekind).                                (* the stream ends before the next header *)

Inductive arm := ACancel | ADone | ACtlErr | ADataErr | ACtl.

Inductive ev :=
| CtlPush (c : ctl)              (* control reader: record decoded and queued (controlCh) *)
| CtlFail (e : ekind)            (* control reader: read error, offered to controlErr (cap 1) *)
| Arrive (s : nat) (it : item)   (* network: [it] is now readable on data stream s *)
| RStep (s : nat) (io_ok : bool) (* reader s handles the head of its stream; io_ok: open/write/flush succeed *)
| MainPick (a : arm) (io_ok : bool)   (* the main select takes arm a *)
| Cancel                         (* the caller's context is cancelled *)
| AckWriteFail.                  (* the acknowledgement writer fails: recvErr set, recvCtx cancelled *)

(* a manifest file: key, size, whether it has an id (sidecars need one) *)
Record mfile := { m_key : Z; m_size : Z; m_hasid : bool }.

Record fstate := {
  fs_fi : nat; fs_key : Z; fs_cs : Z; fs_total : Z; fs_remaining : Z;
  fs_sidecar : bool;
  fs_have : list Z;      (* sidecar: indices marked complete (prior ++ this run); otherwise
                            GHOST: indices accepted in this run, in order, with repetitions *)
  fs_end : bool }.

(* record of a finalization (ghost snapshot of what the file had) *)
Record finrec := { fr_fi : nat; fr_key : Z; fr_ok : bool; fr_cs : Z; fr_total : Z; fr_sidecar : bool; fr_have : list Z }.

Inductive outcome := Success | Fail | Panicked.

Inductive ack := AckDone (key : Z) (ok : bool) | AckResume (key : Z) (have : list Z).

Record st := {
  manifest : list mfile;
  resume : bool;
  prior : nat -> list Z;        (* what LoadOrCreateSidecar... yields for manifest file fi: marked indices *)
  active : list fstate;
  done_keys : list Z;
  fins : list finrec;           (* finalizations, oldest first *)
  completed : Z;
  begun : list nat;             (* GHOST: manifest positions of the accepted FileBegins, oldest first *)
  ctlq : list ctl;
  ctlerr : option ekind;
  ctl_reader_gone : bool;
  dataerrq : list (option ekind);
  doneq : bool;
  end_seen : bool;
  cancelled : bool;
  blocked : bool;               (* main loop stuck in fileReady.wait (ResumeRequest before FileBegin) *)
  inq : list (nat * list item); (* per data stream: what has arrived and was not yet handled *)
  gone : list nat;              (* readers that exited *)
  writes : list (Z * Z * Z * Z);  (* positional writes (key, idx, len, tok), oldest first *)
  acks : list ack;              (* records handed to the acknowledgement writer, oldest first *)
  result : option outcome }.

Definition init (m : list mfile) (res : bool) (pr : nat -> list Z) : st :=
  {| manifest := m; resume := res; prior := pr; active := []; done_keys := []; fins := [];
     completed := 0; begun := []; ctlq := []; ctlerr := None; ctl_reader_gone := false;
     dataerrq := []; doneq := false; end_seen := false; cancelled := false; blocked := false;
     inq := []; gone := []; writes := []; acks := []; result := None |}.

Definition nfiles (s : st) : Z := Z.of_nat (length (manifest s)).

Definition memZ (x : Z) (l : list Z) : bool := existsb (Z.eqb x) l.
Definition memN (x : nat) (l : list nat) : bool := existsb (Nat.eqb x) l.

Fixpoint find_active (k : Z) (l : list fstate) : option fstate :=
  match l with
  | [] => None
  | f :: r => if fs_key f =? k then Some f else find_active k r
  end.

Fixpoint remove_active (k : Z) (l : list fstate) : list fstate :=
  match l with
  | [] => []
  | f :: r => if fs_key f =? k then r else f :: remove_active k r
  end.

Fixpoint replace_active (f' : fstate) (l : list fstate) : list fstate :=
  match l with
  | [] => []
  | f :: r => if fs_key f =? fs_key f' then f' :: r else f :: replace_active f' r
  end.

Definition set_result (s : st) (o : outcome) : st :=
  {| manifest := manifest s; resume := resume s; prior := prior s; active := active s; done_keys := done_keys s;
     fins := fins s; completed := completed s; begun := begun s; ctlq := ctlq s; ctlerr := ctlerr s;
     ctl_reader_gone := ctl_reader_gone s; dataerrq := dataerrq s; doneq := doneq s; end_seen := end_seen s;
     cancelled := cancelled s; blocked := blocked s; inq := inq s; gone := gone s; writes := writes s;
     acks := acks s; result := Some o |}.

(* finalizeFile(state, ok): the file's state is dropped, FileDone is handed to the
   writer (unless the receive context is already cancelled), a successful
   finalization counts as completed, and the main loop is poked once every file
   of the manifest has completed *)
Definition finalize (s : st) (f : fstate) (ok io_ok : bool) : st :=
  let ok' := ok && (if fs_sidecar f then io_ok else true) in
  let c' := if ok' then completed s + 1 else completed s in
  {| manifest := manifest s; resume := resume s; prior := prior s;
     active := remove_active (fs_key f) (active s);
     done_keys := fs_key f :: done_keys s;
     fins := fins s ++ [{| fr_fi := fs_fi f; fr_key := fs_key f; fr_ok := ok'; fr_cs := fs_cs f; fr_total := fs_total f;
                           fr_sidecar := fs_sidecar f; fr_have := fs_have f |}];
     completed := c'; begun := begun s; ctlq := ctlq s; ctlerr := ctlerr s;
     ctl_reader_gone := ctl_reader_gone s; dataerrq := dataerrq s;
     doneq := doneq s || ((0 <? nfiles s) && (nfiles s <=? c'));
     end_seen := end_seen s; cancelled := cancelled s; blocked := blocked s; inq := inq s; gone := gone s;
     writes := writes s;
     acks := if cancelled s then acks s else acks s ++ [AckDone (fs_key f) ok'];
     result := result s |}.

Definition upd_active (s : st) (f : fstate) : st :=
  {| manifest := manifest s; resume := resume s; prior := prior s; active := replace_active f (active s);
     done_keys := done_keys s; fins := fins s; completed := completed s; begun := begun s; ctlq := ctlq s;
     ctlerr := ctlerr s; ctl_reader_gone := ctl_reader_gone s; dataerrq := dataerrq s; doneq := doneq s;
     end_seen := end_seen s; cancelled := cancelled s; blocked := blocked s; inq := inq s; gone := gone s;
     writes := writes s; acks := acks s; result := result s |}.

Definition push_dataerr (s : st) (e : option ekind) : st :=
  {| manifest := manifest s; resume := resume s; prior := prior s; active := active s; done_keys := done_keys s;
     fins := fins s; completed := completed s; begun := begun s; ctlq := ctlq s; ctlerr := ctlerr s;
     ctl_reader_gone := ctl_reader_gone s; dataerrq := dataerrq s ++ [e]; doneq := doneq s; end_seen := end_seen s;
     cancelled := cancelled s; blocked := blocked s; inq := inq s; gone := gone s; writes := writes s;
     acks := acks s; result := result s |}.

Fixpoint get_q (n : nat) (l : list (nat * list item)) : list item :=
  match l with
  | [] => []
  | (m, q) :: r => if Nat.eqb m n then q else get_q n r
  end.

Fixpoint set_q (n : nat) (q : list item) (l : list (nat * list item)) : list (nat * list item) :=
  match l with
  | [] => [(n, q)]
  | (m, q0) :: r => if Nat.eqb m n then (m, q) :: r else (m, q0) :: set_q n q r
  end.

Definition with_inq (s : st) (n : nat) (q : list item) (exited : bool) : st :=
  {| manifest := manifest s; resume := resume s; prior := prior s; active := active s; done_keys := done_keys s;
     fins := fins s; completed := completed s; begun := begun s; ctlq := ctlq s; ctlerr := ctlerr s;
     ctl_reader_gone := ctl_reader_gone s; dataerrq := dataerrq s; doneq := doneq s; end_seen := end_seen s;
     cancelled := cancelled s; blocked := blocked s; inq := set_q n q (inq s);
     gone := if exited then n :: gone s else gone s; writes := writes s; acks := acks s; result := result s |}.

Definition add_write (s : st) (w : Z * Z * Z * Z) : st :=
  {| manifest := manifest s; resume := resume s; prior := prior s; active := active s; done_keys := done_keys s;
     fins := fins s; completed := completed s; begun := begun s; ctlq := ctlq s; ctlerr := ctlerr s;
     ctl_reader_gone := ctl_reader_gone s; dataerrq := dataerrq s; doneq := doneq s; end_seen := end_seen s;
     cancelled := cancelled s; blocked := blocked s; inq := inq s; gone := gone s; writes := writes s ++ [w];
     acks := acks s; result := result s |}.

(* markChunkComplete *)
Definition mark (f : fstate) (idx : Z) : fstate :=
  if fs_sidecar f then
    if memZ idx (fs_have f) then f
    else {| fs_fi := fs_fi f; fs_key := fs_key f; fs_cs := fs_cs f; fs_total := fs_total f;
            fs_remaining := if 0 <? fs_remaining f then fs_remaining f - 1 else fs_remaining f;
            fs_sidecar := true; fs_have := fs_have f ++ [idx]; fs_end := fs_end f |}
  else {| fs_fi := fs_fi f; fs_key := fs_key f; fs_cs := fs_cs f; fs_total := fs_total f;
          fs_remaining := if 0 <? fs_remaining f then fs_remaining f - 1 else fs_remaining f;
          fs_sidecar := false;
          fs_have := if 0 <? fs_remaining f then fs_have f ++ [idx] else fs_have f;
          fs_end := fs_end f |}.

(* the reader exits after an error of its own: the file is failed and the error queued *)
Definition reader_fail (s : st) (n : nat) (f : fstate) (e : ekind) : st :=
  with_inq (push_dataerr (finalize s f false true) (Some e)) n [] true.

(* one frame (or stream end) handled by reader n.  Not enabled (state unchanged)
   when the reader has exited, nothing has arrived, or the head frame is for a
   file that has neither begun nor finished (the reader waits in fileReady) *)
Definition rstep (s : st) (n : nat) (io_ok : bool) : st :=
  if memN n (gone s) then s else
  match get_q n (inq s) with
  | [] => s
  | EndOf e :: _ =>
      with_inq (push_dataerr s (match e with EOFk | UEOF => None | _ => Some e end)) n [] true
  | Trunc key idx len e :: rest =>
      if len =? 0 then with_inq (push_dataerr s (Some Plain)) n [] true else
      match find_active key (active s) with
      | None => if memZ key (done_keys s) then with_inq (push_dataerr s (Some e)) n [] true else s
      | Some f =>
          if (0 <? fs_total f) && (fs_total f <=? idx) then reader_fail s n f Plain
          else if (0 <? fs_cs f) && (fs_cs f <? len) then reader_fail s n f Plain
          else if fs_cs f =? 0 then set_result s Panicked
          else reader_fail s n f e
      end
  | Fr key idx len crc_ok tok :: rest =>
      if len =? 0 then with_inq (push_dataerr s (Some Plain)) n [] true else
      match find_active key (active s) with
      | None => if memZ key (done_keys s) then with_inq s n rest false   (* late chunk of a finished file: dropped *)
                else s                                                   (* waits for the file to begin *)
      | Some f =>
          if (0 <? fs_total f) && (fs_total f <=? idx) then reader_fail s n f Plain
          else if (0 <? fs_cs f) && (fs_cs f <? len) then reader_fail s n f Plain
          else if fs_cs f =? 0 then set_result s Panicked          (* bufpool.New(0) *)
          else if negb crc_ok then reader_fail s n f Plain
          else if negb io_ok then reader_fail s n f Plain          (* open / positional write failed *)
          else
            let s1 := add_write s (key, idx, len, tok) in
            let f' := mark f idx in
            let s2 := with_inq (upd_active s1 f') n rest false in
            if fs_remaining f' =? 0 then finalize s2 f' true io_ok else s2
      end
  end.

Definition pop_ctl (s : st) : st :=
  {| manifest := manifest s; resume := resume s; prior := prior s; active := active s; done_keys := done_keys s;
     fins := fins s; completed := completed s; begun := begun s; ctlq := tl (ctlq s); ctlerr := ctlerr s;
     ctl_reader_gone := ctl_reader_gone s; dataerrq := dataerrq s; doneq := doneq s; end_seen := end_seen s;
     cancelled := cancelled s; blocked := blocked s; inq := inq s; gone := gone s; writes := writes s;
     acks := acks s; result := result s |}.

Definition add_ack (s : st) (a : ack) : st :=
  {| manifest := manifest s; resume := resume s; prior := prior s; active := active s; done_keys := done_keys s;
     fins := fins s; completed := completed s; begun := begun s; ctlq := ctlq s; ctlerr := ctlerr s;
     ctl_reader_gone := ctl_reader_gone s; dataerrq := dataerrq s; doneq := doneq s; end_seen := end_seen s;
     cancelled := cancelled s; blocked := blocked s; inq := inq s; gone := gone s; writes := writes s;
     acks := if cancelled s then acks s else acks s ++ [a]; result := result s |}.

Definition all_completed (s : st) : bool := nfiles s <=? completed s.

(* handleFileBegin *)
Definition handle_begin (s : st) (fi : option nat) (size cs sid : Z) (pathok io_ok : bool) : st :=
  if negb pathok then set_result s Fail else
  match fi with
  | None => set_result s Fail
  | Some i =>
    match nth_error (manifest s) i with
    | None => set_result s Fail
    | Some mf =>
      if negb (m_size mf =? size) then set_result s Fail
      else if (cs =? 0) || (c_maxChunkSize <? cs) then set_result s Fail   (* since e89eb9f *)
      else if negb (sid =? 0) && negb (sid =? m_key mf) then set_result s Fail
      else match find_active (m_key mf) (active s) with
      | Some _ => set_result s Fail
      | None =>
        if negb io_ok then set_result s Fail else
        match recvTotalChunks size cs with
        | Ret total =>
          let sc := resume s && m_hasid mf && (0 <? cs) in
          let have := if sc then prior s i else [] in
          let skipped := Z.min (Z.of_nat (length have)) total in
          let f := {| fs_fi := i; fs_key := m_key mf; fs_cs := cs; fs_total := total;
                      fs_remaining := total - skipped; fs_sidecar := sc; fs_have := have; fs_end := false |} in
          let s1 :=
            {| manifest := manifest s; resume := resume s; prior := prior s; active := active s ++ [f];
               done_keys := done_keys s; fins := fins s; completed := completed s; begun := begun s ++ [i];
               ctlq := ctlq s; ctlerr := ctlerr s; ctl_reader_gone := ctl_reader_gone s; dataerrq := dataerrq s;
               doneq := doneq s; end_seen := end_seen s; cancelled := cancelled s; blocked := blocked s;
               inq := inq s; gone := gone s; writes := writes s; acks := acks s; result := result s |} in
          if resume s then
            if cancelled s then set_result s1 Fail else add_ack s1 (AckResume (m_key mf) (if sc then have else []))
          else s1
        | _ => set_result s Panicked
        end
      end
    end
  end.

Definition handle_ctl (s : st) (c : ctl) (io_ok : bool) : st :=
  match c with
  | CEndAll =>
      let s1 := {| manifest := manifest s; resume := resume s; prior := prior s; active := active s;
                   done_keys := done_keys s; fins := fins s; completed := completed s; begun := begun s;
                   ctlq := ctlq s; ctlerr := ctlerr s; ctl_reader_gone := ctl_reader_gone s; dataerrq := dataerrq s;
                   doneq := doneq s; end_seen := true; cancelled := cancelled s; blocked := blocked s;
                   inq := inq s; gone := gone s; writes := writes s; acks := acks s; result := result s |} in
      if all_completed s1 then set_result s1 Success else s1
  | CBegin fi size cs sid pathok => handle_begin s fi size cs sid pathok io_ok
  | CEnd key =>
      match find_active key (active s) with
      | Some f =>
          let f' := {| fs_fi := fs_fi f; fs_key := fs_key f; fs_cs := fs_cs f; fs_total := fs_total f;
                       fs_remaining := fs_remaining f; fs_sidecar := fs_sidecar f; fs_have := fs_have f;
                       fs_end := true |} in
          if fs_remaining f =? 0 then finalize (upd_active s f') f' true io_ok else upd_active s f'
      | None => if memZ key (done_keys s) then s else set_result s Fail
      end
  | CResumeReq key fid_ok =>
      match find_active key (active s) with
      | Some f =>
          if negb fid_ok then set_result s Fail
          else if cancelled s then set_result s Fail
          else add_ack s (AckResume key (if fs_sidecar f then fs_have f else []))
      | None =>
          if memZ key (done_keys s) then s
          else set_result s Fail      (* since d3e79d7; before, the main loop waited for the file for good *)
      end
  | COther => set_result s Fail
  end.

Definition arm_enabled (s : st) (a : arm) : bool :=
  match a with
  | ACancel => cancelled s
  | ADone => doneq s
  | ACtlErr => match ctlerr s with Some _ => true | None => false end
  | ADataErr => match dataerrq s with [] => false | _ => true end
  | ACtl => match ctlq s with [] => false | _ => true end
  end.

Definition main_pick (s : st) (a : arm) (io_ok : bool) : st :=
  if blocked s then (if cancelled s then match a with ACancel => set_result s Fail | _ => s end else s) else
  if negb (arm_enabled s a) then s else
  match a with
  | ACancel => set_result s Fail
  | ADone =>
      let s1 := {| manifest := manifest s; resume := resume s; prior := prior s; active := active s;
                   done_keys := done_keys s; fins := fins s; completed := completed s; begun := begun s;
                   ctlq := ctlq s; ctlerr := ctlerr s; ctl_reader_gone := ctl_reader_gone s; dataerrq := dataerrq s;
                   doneq := false; end_seen := end_seen s; cancelled := cancelled s; blocked := blocked s;
                   inq := inq s; gone := gone s; writes := writes s; acks := acks s; result := result s |} in
      if end_seen s && all_completed s then set_result s1 Success else s1
  | ACtlErr =>
      match ctlerr s with
      | None => s
      | Some e =>
          let s1 := {| manifest := manifest s; resume := resume s; prior := prior s; active := active s;
                       done_keys := done_keys s; fins := fins s; completed := completed s; begun := begun s;
                       ctlq := ctlq s; ctlerr := None; ctl_reader_gone := ctl_reader_gone s; dataerrq := dataerrq s;
                       doneq := doneq s; end_seen := end_seen s; cancelled := cancelled s; blocked := blocked s;
                       inq := inq s; gone := gone s; writes := writes s; acks := acks s; result := result s |} in
          match e with
          | EOFk | Graceful => if all_completed s then set_result s1 Success else set_result s1 Fail
          | _ => set_result s1 Fail
          end
      end
  | ADataErr =>
      match dataerrq s with
      | [] => s
      | e :: r =>
          let s1 := {| manifest := manifest s; resume := resume s; prior := prior s; active := active s;
                       done_keys := done_keys s; fins := fins s; completed := completed s; begun := begun s;
                       ctlq := ctlq s; ctlerr := ctlerr s; ctl_reader_gone := ctl_reader_gone s; dataerrq := r;
                       doneq := doneq s; end_seen := end_seen s; cancelled := cancelled s; blocked := blocked s;
                       inq := inq s; gone := gone s; writes := writes s; acks := acks s; result := result s |} in
          match e with
          | None => s1
          | Some Graceful => if all_completed s then set_result s1 Success else set_result s1 Fail
          | Some _ => set_result s1 Fail
          end
      end
  | ACtl =>
      match ctlq s with
      | [] => s
      | c :: _ => handle_ctl (pop_ctl s) c io_ok
      end
  end.

Definition step (s : st) (e : ev) : st :=
  match result s with
  | Some _ => s                       (* the function has returned *)
  | None =>
    match e with
    | CtlPush c =>
        if ctl_reader_gone s then s else
        {| manifest := manifest s; resume := resume s; prior := prior s; active := active s; done_keys := done_keys s;
           fins := fins s; completed := completed s; begun := begun s; ctlq := ctlq s ++ [c]; ctlerr := ctlerr s;
           ctl_reader_gone := match c with CEndAll => true | _ => false end;
           dataerrq := dataerrq s; doneq := doneq s; end_seen := end_seen s; cancelled := cancelled s;
           blocked := blocked s; inq := inq s; gone := gone s; writes := writes s; acks := acks s; result := result s |}
    | CtlFail e =>
        if ctl_reader_gone s then s else
        {| manifest := manifest s; resume := resume s; prior := prior s; active := active s; done_keys := done_keys s;
           fins := fins s; completed := completed s; begun := begun s; ctlq := ctlq s;
           ctlerr := match ctlerr s with Some x => Some x | None => Some e end;
           ctl_reader_gone := true;
           dataerrq := dataerrq s; doneq := doneq s; end_seen := end_seen s; cancelled := cancelled s;
           blocked := blocked s; inq := inq s; gone := gone s; writes := writes s; acks := acks s; result := result s |}
    | Arrive n it =>
        if memN n (gone s) then s else with_inq s n (get_q n (inq s) ++ [it]) false
    | RStep n io_ok => rstep s n io_ok
    | MainPick a io_ok => main_pick s a io_ok
    | Cancel | AckWriteFail =>
        {| manifest := manifest s; resume := resume s; prior := prior s; active := active s; done_keys := done_keys s;
           fins := fins s; completed := completed s; begun := begun s; ctlq := ctlq s; ctlerr := ctlerr s;
           ctl_reader_gone := ctl_reader_gone s; dataerrq := dataerrq s; doneq := doneq s; end_seen := end_seen s;
           cancelled := true; blocked := blocked s; inq := inq s; gone := gone s; writes := writes s;
           acks := acks s; result := result s |}
    end
  end.

Definition run (s : st) (evs : list ev) : st := fold_left step evs s.

(* internal/session/session.go: the session Store.  Two Go maps (sessions by id,
   byCode: join code -> id), a ttl, and the four methods, each one atomic (the
   whole body runs under s.mu).  Hand-written; tied to the code by Corr/C14.v.

   - the clock is explicit: every method that reads time.Now() takes `now`
     (an integer; nanoseconds in the correspondence runs);
   - the random source is an oracle: Create takes the id, the first code
     candidate and the stream of further candidates the retry loop would draw;
     it returns None when the given prefix of the stream is exhausted while
     every candidate collides (the Go loop would still be spinning);
   - the Go zero time (`ExpiresAt.IsZero()`, ttl <= 0) is `None`.
   Definitions only. *)
From Coq Require Import ZArith List Bool.
Import ListNotations.
Open Scope Z_scope.

(* ---- a Go map with integer keys: association list, at most one entry per key ---- *)
Section Map.
  Context {V : Type}.
  Fixpoint lookup (k : Z) (m : list (Z * V)) : option V :=
    match m with
    | [] => None
    | (k', v) :: r => if k =? k' then Some v else lookup k r
    end.
  Fixpoint del (k : Z) (m : list (Z * V)) : list (Z * V) :=
    match m with
    | [] => []
    | (k', v) :: r => if k =? k' then del k r else (k', v) :: del k r
    end.
  Definition put (k : Z) (v : V) (m : list (Z * V)) : list (Z * V) := (k, v) :: del k m.
  Definition has (k : Z) (m : list (Z * V)) : bool :=
    match lookup k m with Some _ => true | None => false end.
End Map.

Record session := mkSession {
  s_id : Z;
  s_code : Z;
  s_created : Z;
  s_expires : option Z       (* None = the zero time: never expires *)
}.

Record store := mkStore {
  sessions : list (Z * session);   (* s.sessions *)
  by_code : list (Z * Z);          (* s.byCode *)
  ttl : Z                          (* s.ttl *)
}.

Definition new_store (t : Z) : store := mkStore [] [] t.

(* the collision-retry loop of Create *)
Fixpoint pick_code (bc : list (Z * Z)) (c : Z) (cands : list Z) : option Z :=
  if has c bc then
    match cands with
    | [] => None
    | c' :: r => pick_code bc c' r
    end
  else Some c.

Definition create (s : store) (now id c0 : Z) (cands : list Z) : option (store * session) :=
  let exp := if ttl s >? 0 then Some (now + ttl s) else None in
  match pick_code (by_code s) c0 cands with
  | None => None
  | Some c =>
    let ss := mkSession id c now exp in
    Some (mkStore (put id ss (sessions s)) (put c id (by_code s)) (ttl s), ss)
  end.

Definition expired (ss : session) (now : Z) : bool :=
  match s_expires ss with Some e => now >? e | None => false end.

(* GetByJoinCode: lazy expiry deletes both entries *)
Definition get_by_code (s : store) (code now : Z) : store * option session :=
  match lookup code (by_code s) with
  | None => (s, None)
  | Some id =>
    match lookup id (sessions s) with
    | None => (s, None)
    | Some ss =>
      if expired ss now
      then (mkStore (del id (sessions s)) (del code (by_code s)) (ttl s), None)
      else (s, Some ss)
    end
  end.

Definition delete (s : store) (id : Z) : store :=
  match lookup id (sessions s) with
  | None => s
  | Some ss => mkStore (del id (sessions s)) (del (s_code ss) (by_code s)) (ttl s)
  end.

Definition count (s : store) : Z := Z.of_nat (length (sessions s)).

(* ---- histories of method calls ---- *)
Inductive op :=
| OCreate (now id c0 : Z) (cands : list Z)
| OGet (code now : Z)
| ODelete (id : Z)
| OCount.

Inductive obs :=
| ObsCreated (ss : session)
| ObsGet (r : option session)
| ObsUnit
| ObsCount (n : Z).

Definition apply_op (s : store) (o : op) : option (store * obs) :=
  match o with
  | OCreate now id c0 cands =>
    match create s now id c0 cands with
    | Some (s', ss) => Some (s', ObsCreated ss)
    | None => None
    end
  | OGet code now => let '(s', r) := get_by_code s code now in Some (s', ObsGet r)
  | ODelete id => Some (delete s id, ObsUnit)
  | OCount => Some (s, ObsCount (count s))
  end.

(* the history as the property sees it: sessions created and not explicitly
   deleted (expiry is a matter of the clock, not of the history) *)
Definition ghost_step (g : list session) (o : op) (r : obs) : list session :=
  match o, r with
  | OCreate _ _ _ _, ObsCreated ss => ss :: g
  | ODelete id, _ => filter (fun x => negb (s_id x =? id)) g
  | _, _ => g
  end.

Definition op_time (o : op) : option Z :=
  match o with OCreate now _ _ _ => Some now | OGet _ now => Some now | _ => None end.

(* run: store, ghost, clock (time of the latest call that read it), trace of observations *)
Fixpoint run (s : store) (g : list session) (clk : Z) (ops : list op)
  : option (store * list session * Z * list obs) :=
  match ops with
  | [] => Some (s, g, clk, [])
  | o :: r =>
    match apply_op s o with
    | None => None
    | Some (s', ob) =>
      let clk' := match op_time o with Some t => Z.max clk t | None => clk end in
      match run s' (ghost_step g o ob) clk' r with
      | None => None
      | Some (s'', g'', c'', tr) => Some (s'', g'', c'', ob :: tr)
      end
    end
  end.

(* clock readings never go backwards (time.Now() is monotonic) *)
Fixpoint monotone (clk : Z) (ops : list op) : Prop :=
  match ops with
  | [] => True
  | o :: r =>
    match op_time o with
    | Some t => clk <= t /\ monotone t r
    | None => monotone clk r
    end
  end.

(* ids ever handed out; crypto/rand never repeats a 128-bit id (assumption, explicit premise) *)
Fixpoint fresh_ids (used : list Z) (ops : list op) : Prop :=
  match ops with
  | [] => True
  | OCreate _ id _ _ :: r => ~ In id used /\ fresh_ids (id :: used) r
  | _ :: r => fresh_ids used r
  end.

(* Model of the resume handshake of internal/transfer/multistream.go for ONE file
   with a non-empty item id, resume enabled:
     recv_begin   = RecvManifestMultiStream/handleFileBegin + buildResumeInfo:
                    stale-data test (file missing or other size => both metadata
                    files removed), Truncate to the announced size, load-or-create,
                    remaining = total - min(popcount, total), the FileResumeInfo
                    record (bitmap, highest marked chunk, its hash on disk)
     apply_info   = SendManifestMultiStream/startResume/applyResumeInfo: the plan
                    (bitmap, forceSendFrom) and whether the verification runs
     verdict      = the verification goroutine: sender's hash of that chunk vs
                    the reported one; mismatch => the chunk is sent again
     to_send      = what the dispatch state machine (Model/Dispatch.v) hands out
                    for that plan when the plan is known before the first take
     recv machine = the receiver's per-file completion logic (markChunkComplete,
                    markEndReceived, finalizeFile, late frames of a finished file
                    are dropped) under ANY arrival order of chunk frames and the
                    FileEnd record
   [h] is the chunk hash (hashChunk); the correspondence instantiates it with
   crc32c.  Hand-written; tied to the code by Corr/C06.v. *)
From Coq Require Import ZArith List Bool.
Import ListNotations.
From TF Require Import Lib.GoInt Lib.Bytes Gen.Geometry Model.CRC Model.Sidecar.
Open Scope Z_scope.

Definition zfirstn (n : Z) (l : list Z) := firstn (Z.to_nat n) l.
Definition zskipn (n : Z) (l : list Z) := skipn (Z.to_nat n) l.

(* bytes of chunk i *)
Definition chunk_at (cs : Z) (f : list Z) (i : Z) : list Z := zfirstn cs (zskipn (i * cs) f).

(* os.File.Truncate(size): cut or extend with zero bytes *)
Definition resize (size : Z) (f : list Z) : list Z := zfirstn size f ++ zeros (size - zlen f).

Record request := mkRq { rq_id : list Z; rq_size : Z; rq_cs : Z; rq_alg : Z }.

Record disk := mkDisk {
  d_file : option (list Z);       (* the data file left by earlier runs *)
  d_primary : option (list Z);    (* <out>/.thruflux_resumedata/<id>.sbxmap *)
  d_fallback : option (list Z)    (* <out>/<root>/.thruflux_resumedata/<id>.sbxmap *)
}.

Definition hash_unknown : Z := 2^64 - 1.

Record begin_result := mkBr {
  br_file : list Z;        (* data file after Truncate *)
  br_sc : sidecar;         (* in-memory metadata *)
  br_loaded : bool;
  br_stale : bool;
  br_total : Z;
  br_remaining : Z;
  br_last : Z;             (* FileResumeInfo.LastVerifiedChunk *)
  br_hash : Z              (* FileResumeInfo.LastVerifiedHash *)
}.

(* hashFileChunk(file, idx, cs, size, alg) for alg <> none *)
Definition hash_file_chunk (h : list Z -> Z) (f : list Z) (idx cs size : Z) : res Z :=
  if size <=? idx * cs then Err else Ret (h (chunk_at cs f idx)).

Definition recv_begin (h : list Z -> Z) (rq : request) (d : disk) : res begin_result :=
  let size := rq_size rq in let cs := rq_cs rq in
  let stale := match d_file d with None => true | Some f => negb (zlen f =? size) end in
  let file' := resize size (match d_file d with Some f => f | None => [] end) in
  bind (recvTotalChunks size cs) (fun total =>
  let p := if stale then None else d_primary d in
  let fb := if stale then None else d_fallback d in
  bind (load_or_create p fb (rq_id rq) size cs) (fun lr =>
  let sc := lr_sc lr in
  let skipped := Z.min (count_set (sc_bitmap sc)) total in
  let remaining := total - skipped in
  if total =? 0 then Ret (mkBr file' sc (lr_loaded lr) stale total remaining total 0) else
  match highest_set (sc_bitmap sc) (sc_total sc) with
  | Some hi =>
    if rq_alg rq =? 0 then Ret (mkBr file' sc (lr_loaded lr) stale total remaining hi 0)
    else bind (hash_file_chunk h file' hi cs size) (fun hv =>
         Ret (mkBr file' sc (lr_loaded lr) stale total remaining hi hv))
  | None => Ret (mkBr file' sc (lr_loaded lr) stale total remaining total 0)
  end)).

(* ---- sender ---- *)
Record plan := mkPlan {
  pl_bitmap : list Z; pl_bits : Z; pl_force : Z; pl_verify : bool; pl_chunk : Z; pl_hash : Z
}.

(* applyResumeInfo: total = the sender's chunk count, tail = ResumeVerifyTail,
   vnone = (ResumeVerify = "none"); the info fields as received *)
Definition apply_info (total alg tail : Z) (vnone : bool) (info_total : Z) (bitmap : list Z) (last hash : Z)
  : res (option plan) :=
  let tc := if info_total =? 0 then total else info_total in
  if negb (total =? 0) && negb (tc =? total) then Err else
  if (0 <? tc) && (0 <? zlen bitmap) then
    if negb (zlen bitmap =? byte_len tc) then Err else
    let completed := count_set bitmap in
    let force := if last <? tc then last + 1 else tc in
    let unknown := hash =? hash_unknown in
    let verify := negb vnone && (last <? tc) && negb (alg =? 0) && negb unknown in
    let force := if completed <? tc
                 then (if (0 <? tail) && (0 <? force) then (if force <=? tail then 0 else force - tail) else force)
                 else force in
    let force := if tc <? force then tc else force in
    let force := if unknown then
                   let t := if tail =? 0 then 1 else tail in
                   let minf := if t <? tc then tc - t else 0 in
                   if minf <? force then minf else force
                 else force in
    Ret (Some (mkPlan bitmap tc force verify last hash))
  else Ret None.

Definition plan_skips (p : option plan) (i : Z) : bool :=
  match p with
  | Some pl => bit_get (pl_bitmap pl) (pl_bits pl) i && (i <? pl_force pl)
  | None => false
  end.

(* the chunk sent again after the verification, if any *)
Definition verdict (h : list Z -> Z) (cs : Z) (src : list Z) (p : option plan) : option Z :=
  match p with
  | Some pl => if pl_verify pl && negb (h (chunk_at cs src (pl_chunk pl)) =? pl_hash pl)
               then Some (pl_chunk pl) else None
  | None => None
  end.

Fixpoint zseq (n : nat) : list Z :=
  match n with O => [] | S k => zseq k ++ [Z.of_nat k] end.

Definition main_pass (total : Z) (p : option plan) : list Z :=
  filter (fun i => negb (plan_skips p i)) (zseq (Z.to_nat total)).

(* ---- one file, both ends, every frame delivered before the file is finalised ---- *)
Fixpoint put_chunks (cs : Z) (src : list Z) (idxs : list Z) (f : list Z) : list Z :=
  match idxs with
  | [] => f
  | i :: r =>
    let f1 := zfirstn (i * cs) f ++ chunk_at cs src i ++ zskipn (i * cs + zlen (chunk_at cs src i)) f in
    put_chunks cs src r f1
  end.

Record outcome := mkOut {
  o_sent : list Z;       (* main pass, ascending *)
  o_resent : option Z;
  o_file : list Z;       (* data file when every frame was written before finalisation *)
  o_loaded : bool;
  o_total : Z;
  o_remaining : Z
}.

Definition resume_outcome (h : list Z -> Z) (rq : request) (d : disk) (src : list Z) (tail : Z) (vnone : bool)
  : res outcome :=
  bind (recv_begin h rq d) (fun br =>
  bind (chunkTotal (rq_size rq) (rq_cs rq)) (fun total =>
  bind (apply_info total (rq_alg rq) tail vnone (br_total br) (sc_bitmap (br_sc br)) (br_last br) (br_hash br)) (fun p =>
  let sent := main_pass total p in
  let rs := verdict h (rq_cs rq) src p in
  let all := sent ++ match rs with Some c => [c] | None => [] end in
  Ret (mkOut sent rs (put_chunks (rq_cs rq) src all (br_file br)) (br_loaded br) (br_total br) (br_remaining br))))).

(* ---- the receiver's per-file completion logic under any arrival order ---- *)
Inductive rev := RChunk (i : Z) | REnd.

Record rstate := mkR {
  r_bits : list bool;     (* chunks marked complete *)
  r_remaining : Z;
  r_written : list Z;     (* indices written to the file by THIS run, in order *)
  r_done : bool;          (* finalizeFile(ok) ran: FileDone{OK} sent, file closed, state dropped *)
  r_dropped : list Z      (* frames that arrived after that and were discarded *)
}.

Fixpoint set_bit (i : nat) (l : list bool) : list bool :=
  match l, i with
  | [], _ => []
  | _ :: r, O => true :: r
  | x :: r, S j => x :: set_bit j r
  end.

Definition rstep (s : rstate) (e : rev) : rstate :=
  match e with
  | RChunk i =>
    if r_done s then mkR (r_bits s) (r_remaining s) (r_written s) true (r_dropped s ++ [i])
    else
      let was := nth (Z.to_nat i) (r_bits s) false in
      let rem := if was then r_remaining s else (if 0 <? r_remaining s then r_remaining s - 1 else 0) in
      mkR (set_bit (Z.to_nat i) (r_bits s)) rem (r_written s ++ [i]) (rem =? 0) (r_dropped s)
  | REnd =>
    if r_done s then s
    else mkR (r_bits s) (r_remaining s) (r_written s) (r_remaining s =? 0) (r_dropped s)
  end.

Definition rrun (s : rstate) (evs : list rev) : rstate := fold_left rstep evs s.

Definition rinit (bits : list bool) (remaining : Z) : rstate := mkR bits remaining [] false [].

(* C07: lexical model of path/filepath on Linux (Clean, Join, Dir, IsAbs,
   strings.Trim), of transfer.SidecarPath / sidecarIdentifier, and of every
   filesystem call the production receiver makes:
     internal/transfer/multistream.go  RecvManifestMultiStream (validateManifestPaths,
        MkdirAll baseDir, directory pre-creation loop, handleFileBegin, buildResumeInfo)
     internal/transfer/sidecar.go      LoadOrCreateSidecarWithFallback / CreateSidecar / Flush
     internal/app/snapshot_receiver.go resumeSidecarDirs / clearResumeData
   Definitions only.  Byte strings are [list Z]; a cleaned path is also kept in
   structured form ([cpath]: rooted flag + segment stack, innermost first). *)
From Coq Require Import ZArith List Bool Lia.
From TF Require Import Lib.GoInt Gen.Consts Model.Path.
Import ListNotations.
Open Scope Z_scope.

Definition seg := list Z.

Record cpath := CP { rooted : bool; rsegs : list seg }.

(* one path element of filepath.Clean's loop; [stk] = elements kept so far,
   innermost first.  A ".." pops a real element; at the bottom it is dropped for a
   rooted path and kept (leading "..") for a relative one. *)
Definition step (r : bool) (stk : list seg) (s : seg) : list seg :=
  if is_empty s || is_dot s then stk
  else if is_dotdot s then
    match stk with
    | top :: rest => if r then rest else if is_dotdot top then s :: stk else rest
    | [] => if r then [] else [s]
    end
  else s :: stk.

Definition clean_from (r : bool) (stk : list seg) (p : list Z) : list seg :=
  fold_left (step r) (split p) stk.

Definition clean (p : list Z) : cpath := CP (is_abs p) (clean_from (is_abs p) [] p).

(* strings.Join(segs, "/") *)
Fixpoint intercalate (segs : list seg) : list Z :=
  match segs with
  | [] => []
  | s :: t => match t with [] => s | _ => s ++ SLASH :: intercalate t end
  end.

Definition render (c : cpath) : list Z :=
  if rooted c then SLASH :: intercalate (rev (rsegs c))
  else match rsegs c with [] => [DOT] | _ => intercalate (rev (rsegs c)) end.

(* filepath.Clean on bytes *)
Definition clean_bytes (p : list Z) : list Z := render (clean p).

(* filepath.Join: leading empty elements are dropped, the rest joined by "/" and cleaned *)
Fixpoint drop_empty (l : list (list Z)) : list (list Z) :=
  match l with
  | e :: t => if is_empty e then drop_empty t else l
  | [] => []
  end.

Definition join (elems : list (list Z)) : list Z :=
  match drop_empty elems with
  | [] => []
  | l => clean_bytes (intercalate l)
  end.

(* filepath.Dir: Clean of everything up to and including the last '/' *)
Fixpoint upto_last_slash (p : list Z) : list Z :=
  match p with
  | [] => []
  | c :: t =>
    let r := upto_last_slash t in
    if c =? SLASH then c :: r else match r with [] => [] | _ => c :: r end
  end.

Definition dir (p : list Z) : list Z := clean_bytes (upto_last_slash p).

(* strings.Trim(s, "/") *)
Fixpoint ltrim (p : list Z) : list Z :=
  match p with
  | c :: t => if c =? SLASH then ltrim t else p
  | [] => []
  end.
Definition trim_slash (p : list Z) : list Z := rev (ltrim (rev (ltrim p))).

Definition has_slash (p : list Z) : bool := existsb (fun c => c =? SLASH) p.

(* ---- confinement ---- *)

Fixpoint segs_eqb (a b : list seg) : bool :=
  match a, b with
  | [], [] => true
  | x :: a', y :: b' => beqb x y && segs_eqb a' b'
  | _, _ => false
  end.

(* a is a suffix of b *)
Fixpoint is_suffix (a b : list seg) : bool :=
  segs_eqb a b || match b with [] => false | _ :: b' => is_suffix a b' end.

(* [p] names [out] or something below it: same rootedness, the cleaned [p]
   extends the cleaned [out] by elements none of which is "..". *)
Definition confined (out p : list Z) : Prop :=
  rooted (clean p) = rooted (clean out) /\
  exists ext, rsegs (clean p) = ext ++ rsegs (clean out) /\ forallb (fun s => negb (is_dotdot s)) ext = true.

Definition confinedb (out p : list Z) : bool :=
  let co := clean out in
  let cp := clean p in
  Bool.eqb (rooted cp) (rooted co) &&
  is_suffix (rsegs co) (rsegs cp) &&
  forallb (fun s => negb (is_dotdot s)) (firstn (length (rsegs cp) - length (rsegs co)) (rsegs cp)).

(* ---- sidecar paths ---- *)

Definition s_unknown : list Z := [117; 110; 107; 110; 111; 119; 110]. (* "unknown" *)
Definition s_tmp : list Z := [46; 116; 109; 112].                      (* ".tmp" *)
Definition s_probe : list Z := [112; 114; 111; 98; 101].               (* "probe" *)

(* transfer.SidecarPath(outDir, root, fileID) *)
Definition sidecar_path (outDir root fileID : list Z) : list Z :=
  let id := if is_empty fileID then s_unknown else fileID in
  join [join [outDir; trim_slash root; c_sidecarDir]; id ++ c_sidecarSuffix].

(* FNV-1a 64 and fmt.Sprintf("%x", uint64) *)
Definition fnv64a (l : list Z) : Z :=
  fold_left (fun h b => (Z.lxor h b * 1099511628211) mod 2^64) l 14695981039346656037.

Definition hexchar (d : Z) : Z := if d <? 10 then 48 + d else 87 + d.
Fixpoint hex_digits (n : nat) (x : Z) (acc : list Z) : list Z :=
  match n with
  | O => acc
  | S n' => hex_digits n' (x / 16) (hexchar (x mod 16) :: acc)
  end.
Fixpoint strip0 (l : list Z) : list Z :=
  match l with
  | c :: t => if (c =? 48) && negb (is_empty t) then strip0 t else l
  | [] => []
  end.
Definition hex64 (x : Z) : list Z := strip0 (hex_digits 16 x []).

(* ---- what the sender controls ---- *)

Record item := Item { it_rel : list Z; it_id : list Z; it_dir : bool; it_size : Z }.
Record begin := Begin { b_rel : list Z; b_size : Z; b_chunk : Z }.

Record recv_input := RI {
  r_out : list Z;            (* the user's output directory *)
  r_no_root : bool;          (* Options.NoRootDir *)
  r_resume : bool;           (* Options.Resume *)
  r_root : list Z;           (* manifest.root *)
  r_items : list item;       (* manifest.items *)
  r_begins : list begin;     (* FileBegin records, in order of arrival *)
  r_offered_root : list Z;   (* manifest_offer.summary.root_name (signaling) *)
  r_overwrite : bool         (* the user answered "overwrite": clearResumeData runs *)
}.

(* sidecarIdentifier *)
Definition sidecar_identifier (it : item) : list Z :=
  if is_empty (it_id it) then hex64 (fnv64a (it_rel it)) else it_id it.

(* ---- validation added by the fix (transfer.ValidateRootName, validateItemID,
   validateManifestPaths) ---- *)

Definition root_ok (r : list Z) : bool :=
  is_empty r || (negb (has_slash r) && negb (is_dot r) && negb (is_dotdot r)).

Definition id_ok (i : list Z) : bool := negb (has_slash i).

Definition manifest_ok (root : list Z) (items : list item) : bool :=
  root_ok root && forallb (fun it => validate_rel_path (it_rel it) && id_ok (it_id it)) items.

(* ---- filesystem calls ---- *)

Inductive op := OMkdirAll | OOpenCreate | OTruncate | OWriteAt | ORemove | ORemoveAll | OWriteFile | ORename.

Definition rooted_dir (i : recv_input) : list Z := join [r_out i; r_root i].

Definition base_dir (i : recv_input) : list Z :=
  let b := if r_no_root i then r_out i else rooted_dir i in
  if is_empty b then [DOT] else b.

(* directories in which a sidecar of this transfer is looked up: primary, then
   (when different) the fallback under outDir/root *)
Definition sidecar_homes (i : recv_input) : list (list Z) :=
  base_dir i :: (if beqb (rooted_dir i) (base_dir i) then [] else [rooted_dir i]).

(* os.Remove of a stale/mismatching sidecar; Sidecar.Flush = MkdirAll(Dir),
   WriteFile(path.tmp), Rename(path.tmp, path) - at the primary path when created,
   at the fallback path when a valid sidecar was loaded from there *)
Definition sidecar_ops (i : recv_input) (ident : list Z) : list (op * list Z) :=
  flat_map (fun d =>
    let p := sidecar_path d [] ident in
    [(ORemove, p); (OMkdirAll, dir p); (OWriteFile, p ++ s_tmp); (ORename, p ++ s_tmp); (ORename, p)])
    (sidecar_homes i).

(* itemByRelPath / expectedFiles: the LAST non-directory item with this rel_path *)
Fixpoint lookup_file (items : list item) (rel : list Z) (acc : option item) : option item :=
  match items with
  | [] => acc
  | it :: t => lookup_file t rel (if negb (it_dir it) && beqb (it_rel it) rel then Some it else acc)
  end.

(* the input-determined checks at the top of handleFileBegin *)
Definition begin_item (i : recv_input) (b : begin) : option item :=
  if validate_rel_path (b_rel b) then
    match lookup_file (r_items i) (b_rel b) None with
    | Some it => if it_size it =? i64 (b_size b) then Some it else None
    | None => None
    end
  else None.

Definition uses_sidecar (i : recv_input) (b : begin) (it : item) : bool :=
  r_resume i && (0 <? b_chunk b) && (negb (is_empty (it_id it)) || (0 <? b_size b)).

(* a receive without resume removes the item's metadata files when it re-creates the data file
   (stale-data rule, since fix cc27423) *)
Definition plain_meta_ops (i : recv_input) (it : item) : list (op * list Z) :=
  if negb (r_resume i) && negb (is_empty (it_id it))
  then map (fun d => (ORemove, sidecar_path d [] (sidecar_identifier it))) (sidecar_homes i)
  else [].

Definition begin_ops (i : recv_input) (b : begin) (it : item) : list (op * list Z) :=
  let fp := join [base_dir i; b_rel b] in
  [(OMkdirAll, dir fp); (OOpenCreate, fp); (OTruncate, fp); (OWriteAt, fp)] ++
  plain_meta_ops i it ++
  (if uses_sidecar i b it then sidecar_ops i (sidecar_identifier it) else []).

(* a FileBegin that fails its checks ends the receive *)
Fixpoint begins_ops (i : recv_input) (bs : list begin) : list (op * list Z) :=
  match bs with
  | [] => []
  | b :: t => match begin_item i b with
              | Some it => begin_ops i b it ++ begins_ops i t
              | None => []
              end
  end.

(* RecvManifestMultiStream after the manifest has been accepted *)
Definition recv_ops (i : recv_input) : list (op * list Z) :=
  (OMkdirAll, base_dir i) ::
  map (fun it => (OMkdirAll, join [base_dir i; it_rel it])) (filter it_dir (r_items i)) ++
  begins_ops i (r_begins i).

(* strings.TrimSpace(root) != "" for ASCII white space *)
Definition is_space (c : Z) : bool :=
  (c =? 32) || ((9 <=? c) && (c <=? 13)).
Definition nonblank (r : list Z) : bool := existsb (fun c => negb (is_space c)) r.

(* resumeSidecarDirs; [gate] = does the app check the offered root name *)
Definition resume_dirs (gate : bool) (out root : list Z) : list (list Z) :=
  dir (sidecar_path out [] s_probe) ::
  (if nonblank root && (negb gate || root_ok root) then [dir (sidecar_path out root s_probe)] else []).

Definition app_ops (gate : bool) (i : recv_input) : list (op * list Z) :=
  if r_overwrite i then map (fun d => (ORemoveAll, d)) (resume_dirs gate (r_out i) (r_offered_root i)) else [].

(* everything the receiver (app + transfer) may create, modify or delete *)
Definition touched (i : recv_input) : list (op * list Z) :=
  app_ops true i ++ (if manifest_ok (r_root i) (r_items i) then recv_ops i else []).

(* the same code without the validation of root, item paths, item ids and offered
   root (the tree before the fix): FileBegin paths were already validated *)
Definition touched_unvalidated (i : recv_input) : list (op * list Z) :=
  app_ops false i ++ recv_ops i.

Definition all_confinedb (out : list Z) (ops : list (op * list Z)) : bool :=
  forallb (fun x => confinedb out (snd x)) ops.

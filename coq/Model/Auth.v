(* Model of internal/app/transport_auth.go (property C08).  Definitions only.

   CONCRETE LAYER: the 50-byte authentication message, its encoder/decoder and
   the accept decision of authAsSender / authAsReceiver, executable once an
   HMAC function `hm key data` is supplied (the correspondence supplies the
   values the real crypto/hmac computed; the proofs take it as a Section
   variable).  Bytes are Z, byte strings list Z.

   SYMBOLIC LAYER (Dolev-Yao): terms, attacker derivability, the two honest
   state machines as a set of valid traces. *)
From Coq Require Import ZArith List Bool Arith.
Import ListNotations.
Open Scope Z_scope.

(* ------------------------------------------------------------------ *)
(* Concrete layer                                                      *)
(* ------------------------------------------------------------------ *)

Definition auth_version : Z := 1.
Definition role_sender : Z := 1.
Definition role_receiver : Z := 2.
Definition nonce_size : nat := 16.
Definition mac_size : nat := 32.
Definition msg_size : nat := 50.   (* 1 + 1 + 16 + 32 *)

Definition bytes := list Z.

Fixpoint bytes_eqb (a b : bytes) : bool :=
  match a, b with
  | [], [] => true
  | x :: a', y :: b' => (x =? y) && bytes_eqb a' b'
  | _, _ => false
  end.

(* the role an honest side expects from its peer *)
Definition peer_role (role : Z) : Z := if role =? role_sender then role_receiver else role_sender.

(* what computeAuthMac feeds to HMAC: version, role, nonce *)
Definition auth_data (role : Z) (nonce : bytes) : bytes := auth_version :: role :: nonce.

Section Concrete.
  Variable hm : bytes -> bytes -> bytes.      (* HMAC-SHA256 key data *)

  (* deriveAuthKey: HMAC keyed with the join code over the TLS exporter value *)
  Definition derive_key (code ekm : bytes) : bytes := hm code ekm.
  Definition auth_mac (key : bytes) (role : Z) (nonce : bytes) : bytes := hm key (auth_data role nonce).

  (* writeAuthMessage: refuses wrong field lengths *)
  Definition encode_msg (role : Z) (nonce mac : bytes) : bytes := auth_version :: role :: nonce ++ mac.
  Definition write_msg (role : Z) (nonce mac : bytes) : option bytes :=
    if Nat.eqb (length nonce) nonce_size && Nat.eqb (length mac) mac_size
    then Some (encode_msg role nonce mac) else None.

  (* readAuthMessage on the bytes the stream delivers before it ends: exactly
     50 bytes are consumed; fewer = read error; the version byte is checked *)
  Definition decode_msg (delivered : bytes) : option (Z * bytes * bytes) :=
    if (length delivered <? msg_size)%nat then None else
    match delivered with
    | v :: r :: rest =>
      if v =? auth_version then Some (r, firstn nonce_size rest, firstn mac_size (skipn nonce_size rest)) else None
    | _ => None
    end.

  (* the accept decision of an honest side with `key` whose own role is `role` *)
  Definition verify (key : bytes) (role : Z) (delivered : bytes) : bool :=
    match decode_msg delivered with
    | None => false
    | Some (r, nonce, mac) => (r =? peer_role role) && bytes_eqb mac (auth_mac key r nonce)
    end.

  (* the message an honest side with (code, ekm, role) emits with nonce n *)
  Definition emit (code ekm : bytes) (role : Z) (nonce : bytes) : bytes :=
    encode_msg role nonce (auth_mac (derive_key code ekm) role nonce).

  (* in-flight faults on one message *)
  Inductive fault := NoFault | Flip (i : nat) | Trunc (n : nat) | Replace (bs : bytes) | Extend (bs : bytes).

  Fixpoint flip_bit (i : nat) (m : bytes) : bytes :=
    match m with
    | [] => []
    | b :: r => if (i <? 8)%nat then Z.lxor b (2 ^ Z.of_nat i) :: r else b :: flip_bit (i - 8) r
    end.

  Definition apply_fault (f : fault) (m : bytes) : bytes :=
    match f with
    | NoFault => m
    | Flip i => flip_bit i m
    | Trunc n => firstn n m
    | Replace bs => bs
    | Extend bs => m ++ bs
    end.

  (* two honest ends: sender (codeS, ekmS), receiver (codeR, ekmR); f1 hits
     message 1 on its way to the receiver, f2 message 2 on its way back.  A
     receiver that rejects sends nothing and closes, so the sender fails too.
     Result: (sender accepted, receiver accepted). *)
  Definition run (codeS codeR ekmS ekmR nS nR : bytes) (f1 f2 : fault) : bool * bool :=
    let kS := derive_key codeS ekmS in
    let kR := derive_key codeR ekmR in
    let d1 := apply_fault f1 (emit codeS ekmS role_sender nS) in
    if verify kR role_receiver d1 then
      let d2 := apply_fault f2 (emit codeR ekmR role_receiver nR) in
      (verify kS role_sender d2, true)
    else (false, false).
End Concrete.

(* HMAC (RFC 2104) key preparation: a key longer than the 64-byte block is
   hashed, then the key is padded with zero bytes to the block length. *)
Definition hmac_block : nat := 64.
Definition key_block (hash : bytes -> bytes) (k : bytes) : bytes :=
  let k' := if (hmac_block <? length k)%nat then hash k else k in
  k' ++ repeat 0 (hmac_block - length k').

(* join codes that are their own key block prefix: at most 64 bytes, no zero byte *)
Definition canonical_code (c : bytes) : Prop := (length c <= hmac_block)%nat /\ ~ In 0 c.

(* ------------------------------------------------------------------ *)
(* Symbolic layer                                                      *)
(* ------------------------------------------------------------------ *)

Inductive term :=
| TCode (c : nat)                 (* a join code (identified with its HMAC key block) *)
| TEkm (s : nat)                  (* exporter value of TLS session s *)
| TNonce (n : nat)
| TJunk (j : nat)                 (* any other byte string *)
| THmac (k d : term)              (* HMAC k d *)
| TData (ver role : Z) (n : term) (* ver || role || n *)
| TMsg (ver role : Z) (n m : term).   (* the authentication message *)

Definition key_term (c s : nat) : term := THmac (TCode c) (TEkm s).
Definition mac_term (k : term) (role : Z) (n : term) : term := THmac k (TData auth_version role n).
Definition msg_term (k : term) (role : Z) (n : term) : term := TMsg auth_version role n (mac_term k role n).

(* the attacker: closure of what it holds under everything a machine can do
   with byte strings and HMAC; there is no rule that opens an HMAC *)
Inductive derives (K : term -> Prop) : term -> Prop :=
| d_base t : K t -> derives K t
| d_nonce n : derives K (TNonce n)
| d_junk j : derives K (TJunk j)
| d_hmac k d : derives K k -> derives K d -> derives K (THmac k d)
| d_data v r n : derives K n -> derives K (TData v r n)
| d_data_inv v r n : derives K (TData v r n) -> derives K n
| d_msg v r n m : derives K n -> derives K m -> derives K (TMsg v r n m)
| d_msg_n v r n m : derives K (TMsg v r n m) -> derives K n
| d_msg_m v r n m : derives K (TMsg v r n m) -> derives K m.

Inductive event :=
| Send (p n : nat)            (* honest party p writes its proof with nonce n *)
| Accept (p : nat) (m : term) (* honest party p has verified the delivered message m *).

Section Symbolic.
  (* honest parties: each is one call of authenticateTransport *)
  Variable role_of : nat -> Z.      (* role_sender or role_receiver *)
  Variable code_of : nat -> nat.    (* the join code it holds *)
  Variable sess_of : nat -> nat.    (* the TLS session its connection is an end of *)
  Variable adv_code : nat -> Prop.  (* join codes the attacker holds *)

  Definition key_of (p : nat) : term := key_term (code_of p) (sess_of p).
  Definition msg_of (p n : nat) : term := msg_term (key_of p) (role_of p) (TNonce n).

  (* verification: version, expected role, MAC under the own key over the
     received role and nonce field (which may be any byte string) *)
  Definition accepts (p : nat) (m : term) : Prop :=
    exists nn, m = msg_term (key_of p) (peer_role (role_of p)) nn.

  (* the attacker holds its own codes and EVERY exporter value (it is an
     endpoint of the sessions it takes part in; the proofs do not need the
     others to be secret), sees every message and delivers whatever it can derive *)
  Definition init (t : term) : Prop := (exists c, adv_code c /\ t = TCode c) \/ (exists s, t = TEkm s).
  Definition know (tr : list event) (t : term) : Prop :=
    init t \/ exists p n, In (Send p n) tr /\ t = msg_of p n.

  (* traces, newest event first *)
  Inductive valid : list event -> Prop :=
  | v_nil : valid []
  | v_ssend p n tr : valid tr -> role_of p = role_sender -> valid (Send p n :: tr)
  | v_raccept p m tr : valid tr -> role_of p = role_receiver ->
      derives (know tr) m -> accepts p m -> valid (Accept p m :: tr)
  | v_rsend p n m tr : valid tr -> role_of p = role_receiver ->
      In (Accept p m) tr -> valid (Send p n :: tr)
  | v_saccept p n m tr : valid tr -> role_of p = role_sender ->
      In (Send p n) tr -> derives (know tr) m -> accepts p m -> valid (Accept p m :: tr).
End Symbolic.


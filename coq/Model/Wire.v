(* The control protocol and the data-frame header of internal/transfer
   (controlproto.go, multistream.go writeChunkFrame) as total functions on byte
   lists.  Hand-written; tied to the code by Corr/C18.v (the real write*/read*
   pairs are run on the same values and bytes).  Type codes, magic and limits
   come from Gen/Consts.v (regenerated from the Go source). *)
From Coq Require Import ZArith List Bool Lia.
From TF Require Import Lib.GoInt Lib.Bytes Gen.Consts Model.Path.
Import ListNotations.
Open Scope Z_scope.

Inductive ctl :=
| FileBegin (path : list Z) (size cs sid alg sidx scount sstart schunks : Z)
| Credit (sid credits : Z)
| CreditBatch (entries : list (Z * Z))
| FileEnd (sid crc : Z)
| FileDone (sid : Z) (ok : bool) (err : list Z)
| FileResumeInfo (fid : list Z) (sid total : Z) (bm : list Z) (lvc lvh : Z)
| ResumeRequest (fid : list Z) (sid : Z)
| DataStreams (count : Z)
| EndRec.

Definition len (l : list Z) : Z := Z.of_nat (length l).

Fixpoint enc_entries (es : list (Z * Z)) : list Z :=
  match es with
  | [] => []
  | (sid, c) :: r => be 8 sid ++ be 4 c ++ enc_entries r
  end.

(* the encoder; Err where the Go writer returns an error before writing *)
Definition enc_ctl (m : ctl) : res (list Z) :=
  match m with
  | FileBegin p size cs sid alg a b c d =>
    if validate_rel_path p then
      Ret (c_controlTypeFileBegin :: be 2 (u16 (len p)) ++ p ++ be 8 size ++ be 4 cs ++ be 8 sid ++ be 1 alg ++
           be 2 a ++ be 2 b ++ be 4 c ++ be 4 d)
    else Err
  | Credit sid c => Ret (c_controlTypeCredit :: be 8 sid ++ be 4 c)
  | CreditBatch es => Ret (c_controlTypeCreditBatch :: be 4 (u32 (Z.of_nat (length es))) ++ enc_entries es)
  | FileEnd sid crc => Ret (c_controlTypeFileEnd :: be 8 sid ++ be 4 crc)
  | FileDone sid ok err =>
    let errLen := u16 (len err) in
    Ret (c_controlTypeFileDone :: be 8 sid ++ be 1 (if ok then 1 else 0) ++ be 2 errLen ++
         (if 0 <? errLen then err else []))
  | FileResumeInfo fid sid total bm lvc lvh =>
    let bmLen := u32 (len bm) in
    Ret (c_controlTypeFileResumeInfo :: be 2 (u16 (len fid)) ++ fid ++ be 8 sid ++ be 4 total ++
         be 4 bmLen ++ (if 0 <? bmLen then bm else []) ++ be 4 lvc ++ be 8 lvh)
  | ResumeRequest fid sid => Ret (c_controlTypeResumeRequest :: be 2 (u16 (len fid)) ++ fid ++ be 8 sid)
  | DataStreams n => Ret (c_controlTypeDataStreams :: be 2 n)
  | EndRec => Ret [c_controlTypeEnd]
  end.

(* ---- decoding ---- *)
Inductive dres (A : Type) :=
| DOk (a : A) (rest : list Z)
| DShort            (* the input ended inside the record: the Go reader blocks / gets EOF *)
| DBad.             (* the Go reader returns an error (unknown type, over-long path) *)
Arguments DOk {A} a rest.
Arguments DShort {A}.
Arguments DBad {A}.

Definition dbind {A B} (r : dres A) (f : A -> list Z -> dres B) : dres B :=
  match r with DOk a rest => f a rest | DShort => DShort | DBad => DBad end.

Definition rd (n : nat) (l : list Z) : dres Z :=
  match unbe n l with Some (v, r) => DOk v r | None => DShort end.

Definition rdb (n : Z) (l : list Z) : dres (list Z) :=
  match take (Z.to_nat n) l with Some (a, r) => DOk a r | None => DShort end.

(* CreditBatch entries: [count] of them; the fuel is the input length (each
   entry consumes 12 bytes), so a hostile count cannot make the model diverge *)
Fixpoint rd_entries (fuel : nat) (count : Z) (l : list Z) (acc : list (Z * Z)) : dres (list (Z * Z)) :=
  if count <=? 0 then DOk (rev acc) l else
  match fuel with
  | O => DShort
  | S f =>
    dbind (rd 8 l) (fun sid l1 =>
    dbind (rd 4 l1) (fun c l2 =>
    rd_entries f (count - 1) l2 ((sid, c) :: acc)))
  end.

Definition dec_body (t : Z) (l : list Z) : dres ctl :=
  if t =? c_controlTypeFileBegin then
    dbind (rd 2 l) (fun plen l =>
    if c_maxRelPathLength <? plen then DBad else
    dbind (rdb plen l) (fun p l =>
    dbind (rd 8 l) (fun size l =>
    dbind (rd 4 l) (fun cs l =>
    dbind (rd 8 l) (fun sid l =>
    dbind (rd 1 l) (fun alg l =>
    dbind (rd 2 l) (fun a l =>
    dbind (rd 2 l) (fun b l =>
    dbind (rd 4 l) (fun c l =>
    dbind (rd 4 l) (fun d l =>
    DOk (FileBegin p size cs sid alg a b c d) l))))))))))
  else if t =? c_controlTypeCredit then
    dbind (rd 8 l) (fun sid l => dbind (rd 4 l) (fun c l => DOk (Credit sid c) l))
  else if t =? c_controlTypeCreditBatch then
    dbind (rd 4 l) (fun count l =>
    dbind (rd_entries (length l) count l []) (fun es l => DOk (CreditBatch es) l))
  else if t =? c_controlTypeFileEnd then
    dbind (rd 8 l) (fun sid l => dbind (rd 4 l) (fun crc l => DOk (FileEnd sid crc) l))
  else if t =? c_controlTypeFileDone then
    dbind (rd 8 l) (fun sid l =>
    dbind (rd 1 l) (fun okb l =>
    dbind (rd 2 l) (fun elen l =>
    if 0 <? elen then dbind (rdb elen l) (fun e l => DOk (FileDone sid (okb =? 1) e) l)
    else DOk (FileDone sid (okb =? 1) []) l)))
  else if t =? c_controlTypeFileResumeInfo then
    dbind (rd 2 l) (fun flen l =>
    dbind (if 0 <? flen then rdb flen l else DOk [] l) (fun fid l =>
    dbind (rd 8 l) (fun sid l =>
    dbind (rd 4 l) (fun total l =>
    dbind (rd 4 l) (fun blen l =>
    dbind (if 0 <? blen then rdb blen l else DOk [] l) (fun bm l =>
    dbind (rd 4 l) (fun lvc l =>
    dbind (rd 8 l) (fun lvh l =>
    DOk (FileResumeInfo fid sid total bm lvc lvh) l))))))))
  else if t =? c_controlTypeResumeRequest then
    dbind (rd 2 l) (fun flen l =>
    dbind (if 0 <? flen then rdb flen l else DOk [] l) (fun fid l =>
    dbind (rd 8 l) (fun sid l => DOk (ResumeRequest fid sid) l)))
  else if t =? c_controlTypeDataStreams then
    dbind (rd 2 l) (fun n l => DOk (DataStreams n) l)
  else if t =? c_controlTypeEnd then DOk EndRec l
  else DBad.

Definition dec_ctl (l : list Z) : dres ctl :=
  match l with
  | [] => DShort
  | t :: r => dec_body t r
  end.

(* decode a whole stream of records (fuel = input length: every record
   consumes at least its type byte) *)
Fixpoint dec_all (fuel : nat) (l : list Z) : option (list ctl) :=
  match l with
  | [] => Some []
  | _ => match fuel with
         | O => None
         | S f => match dec_ctl l with
                  | DOk m rest => option_map (cons m) (dec_all f rest)
                  | _ => None
                  end
         end
  end.

(* ---- control header: magic, 32-bit length, manifest JSON (opaque blob) ---- *)
Definition enc_header (json : list Z) : list Z := c_controlMagic ++ be 4 (u32 (len json)) ++ json.

Fixpoint list_eqb (a b : list Z) : bool :=
  match a, b with
  | [], [] => true
  | x :: a', y :: b' => (x =? y) && list_eqb a' b'
  | _, _ => false
  end.

Definition dec_header (l : list Z) : dres (list Z) :=
  dbind (rdb 4 l) (fun magic l =>
  if negb (list_eqb magic c_controlMagic) then DBad else
  dbind (rd 4 l) (fun n l => rdb n l)).

(* ---- data-frame header (20 bytes): file key, chunk index, length, CRC32C ---- *)
Definition enc_frame_header (key idx clen crc : Z) : list Z := be 8 key ++ be 4 idx ++ be 4 clen ++ be 4 crc.
Definition dec_frame_header (l : list Z) : dres (Z * Z * Z * Z) :=
  dbind (rd 8 l) (fun key l => dbind (rd 4 l) (fun idx l => dbind (rd 4 l) (fun clen l =>
  dbind (rd 4 l) (fun crc l => DOk (key, idx, clen, crc) l)))).

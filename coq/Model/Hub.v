(* Model of the signaling hub (internal/peers/hub.go) at the granularity of its
   lock-delimited phases: Add is atomic (one critical section); the returned
   remove function has three phases (unlink under the lock / close the channel
   outside it / garbage-collect the session entry under the lock, testing the
   CURRENT map - since fix 9142741, before it the captured one); CloseSession
   detaches under the lock and closes outside; SendTo, Broadcast and
   BroadcastExcept hold the read lock across their sends (since fix c70dc6c;
   before it the broadcasts sent after releasing the lock), so each of them is
   one atomic step.  A send on a closed channel is a Go panic: it is counted,
   never hidden.
   Representation: a session map is an entry (generation, session, attached?);
   a connection records the generation of the map it is linked in ([cgen]).
   Hand-written; tied to the code by Corr/C11.v (real Hub, phases forced through
   verifhook points) and by Gen/HubLocks.v (which statements of hub.go run under
   which lock). *)
From Coq Require Import List Arith Bool Lia.
Import ListNotations.

Record conn := mkc {
  cid : nat; cpeer : nat; csid : nat;
  cgen : option nat;      (* generation of the session map this connection is an entry of *)
  cq : list nat;          (* buffered, undelivered messages (channel contents) *)
  cclosed : bool;         (* channel closed *)
  cdeliv : list nat;      (* messages the writer goroutine has taken out of the channel *)
  cacc : list nat         (* ghost: every message ever accepted into the channel, in order *)
}.

Record smap := mkm { mgen : nat; msid : nat; matt : bool }.
Record rm := mkr { rcid : nat; rphase : nat }.           (* pending remove() *)
Record cs := mks { sidn : nat; stodo : list nat }.        (* pending CloseSession *)

Record hub := mkh {
  cap : nat;                          (* channel capacity *)
  conns : list conn;
  maps : list smap;                   (* every session map ever created *)
  bypeer : list (nat * nat * nat);    (* (session, peer, conn) *)
  rms : list rm; css : list cs;
  npanic : nat;                       (* sends on a closed channel *)
  nextgen : nat;
  bad : bool                          (* an operation was applied out of its program order *)
}.

Definition init (cap : nat) : hub := mkh cap [] [] [] [] [] 0 0 false.

Inductive op :=
| Add (sid peer c : nat)
| Rm1 (c : nat) | Rm2 (c : nat) | Rm3 (c : nat)
| Cs1 (sid : nat) | Cs2 (sid c : nat)
| SendTo (sid peer m : nat)
| Bcast (sid : nat) (except : option nat) (m : nat)
| Pop (c : nat)
| ListOp (sid : nat).

Inductive out := OUnit | OBool (b : bool) | OList (l : list nat).

(* ---- helpers ---- *)
Definition remove_nat (x : nat) (l : list nat) : list nat := filter (fun y => negb (Nat.eqb x y)) l.
Definition mem (x : nat) (l : list nat) : bool := existsb (Nat.eqb x) l.
Definition ogen_eqb (a : option nat) (g : nat) : bool := match a with Some x => Nat.eqb x g | None => false end.

Fixpoint find_conn (c : nat) (l : list conn) : option conn :=
  match l with [] => None | x :: r => if Nat.eqb (cid x) c then Some x else find_conn c r end.

Fixpoint upd_conn (c : nat) (f : conn -> conn) (l : list conn) : list conn :=
  match l with [] => [] | x :: r => if Nat.eqb (cid x) c then f x :: r else x :: upd_conn c f r end.

(* generation of the attached map of a session (the Go lookup h.sessions[sid]) *)
Fixpoint att_gen (sid : nat) (l : list smap) : option nat :=
  match l with
  | [] => None
  | m :: r => if Nat.eqb (msid m) sid && matt m then Some (mgen m) else att_gen sid r
  end.

Definition detach_sid (sid : nat) (l : list smap) : list smap :=
  map (fun m => if Nat.eqb (msid m) sid && matt m then mkm (mgen m) (msid m) false else m) l.

Definition members (g : nat) (l : list conn) : list nat :=
  map cid (filter (fun x => ogen_eqb (cgen x) g) l).

Fixpoint bp_find (sid peer : nat) (l : list (nat * nat * nat)) : option nat :=
  match l with
  | [] => None
  | (s, p, c) :: r => if Nat.eqb s sid && Nat.eqb p peer then Some c else bp_find sid peer r
  end.
Definition bp_del (sid peer : nat) (l : list (nat * nat * nat)) :=
  filter (fun e => match e with (s, p, _) => negb (Nat.eqb s sid && Nat.eqb p peer) end) l.
Definition bp_del_sid (sid : nat) (l : list (nat * nat * nat)) :=
  filter (fun e => match e with (s, _, _) => negb (Nat.eqb s sid) end) l.

Definition set_conns h v := mkh (cap h) v (maps h) (bypeer h) (rms h) (css h) (npanic h) (nextgen h) (bad h).
Definition set_maps h v := mkh (cap h) (conns h) v (bypeer h) (rms h) (css h) (npanic h) (nextgen h) (bad h).
Definition set_bypeer h v := mkh (cap h) (conns h) (maps h) v (rms h) (css h) (npanic h) (nextgen h) (bad h).
Definition set_rms h v := mkh (cap h) (conns h) (maps h) (bypeer h) v (css h) (npanic h) (nextgen h) (bad h).
Definition set_css h v := mkh (cap h) (conns h) (maps h) (bypeer h) (rms h) v (npanic h) (nextgen h) (bad h).
Definition set_bad h := mkh (cap h) (conns h) (maps h) (bypeer h) (rms h) (css h) (npanic h) (nextgen h) true.
Definition add_panic h := mkh (cap h) (conns h) (maps h) (bypeer h) (rms h) (css h) (S (npanic h)) (nextgen h) (bad h).

Definition c_close (x : conn) : conn := mkc (cid x) (cpeer x) (csid x) (cgen x) (cq x) true (cdeliv x) (cacc x).
Definition c_unlink (x : conn) : conn := mkc (cid x) (cpeer x) (csid x) None (cq x) (cclosed x) (cdeliv x) (cacc x).
Definition c_push (m : nat) (x : conn) : conn := mkc (cid x) (cpeer x) (csid x) (cgen x) (cq x ++ [m]) (cclosed x) (cdeliv x) (cacc x ++ [m]).
Definition c_pop (x : conn) : conn :=
  match cq x with
  | m :: r => mkc (cid x) (cpeer x) (csid x) (cgen x) r (cclosed x) (cdeliv x ++ [m]) (cacc x)
  | [] => x
  end.

Definition close_conn (c : nat) (h : hub) : hub := set_conns h (upd_conn c c_close (conns h)).
Definition unlink_conn (c : nat) (h : hub) : hub := set_conns h (upd_conn c c_unlink (conns h)).

(* `select { case pc.send <- env: default: }` *)
Definition enqueue (c m : nat) (h : hub) : hub :=
  match find_conn c (conns h) with
  | None => set_bad h
  | Some x =>
    if cclosed x then add_panic h
    else if length (cq x) <? cap h then set_conns h (upd_conn c (c_push m) (conns h))
    else h
  end.

Fixpoint find_rm (c : nat) (l : list rm) : option rm :=
  match l with [] => None | r :: t => if Nat.eqb (rcid r) c then Some r else find_rm c t end.
Definition del_rm (c : nat) (l : list rm) := filter (fun r => negb (Nat.eqb (rcid r) c)) l.
Fixpoint find_cs (s : nat) (l : list cs) : option cs :=
  match l with [] => None | r :: t => if Nat.eqb (sidn r) s then Some r else find_cs s t end.
Definition del_cs (s : nat) (l : list cs) := filter (fun r => negb (Nat.eqb (sidn r) s)) l.

Definition linked_in (c g : nat) (h : hub) : bool :=
  match find_conn c (conns h) with Some x => ogen_eqb (cgen x) g | None => false end.

Definition step (h : hub) (o : op) : hub * out :=
  match o with
  | Add sid peer c =>
    match find_conn c (conns h) with
    | Some _ => (set_bad h, OUnit)          (* connection ids are unique *)
    | None =>
      (* ensure a session map *)
      let '(h2, g) := match att_gen sid (maps h) with
                      | Some g => (h, g)
                      | None => (mkh (cap h) (conns h) (maps h ++ [mkm (nextgen h) sid true]) (bypeer h)
                                     (rms h) (css h) (npanic h) (S (nextgen h)) (bad h), nextgen h)
                      end in
      (* last write wins *)
      let h3 := match bp_find sid peer (bypeer h2) with
                | Some old =>
                  let h' := if linked_in old g h2 then unlink_conn old (close_conn old h2) else h2 in
                  set_bypeer h' (bp_del sid peer (bypeer h'))
                | None => h2
                end in
      let h4 := set_conns h3 (conns h3 ++ [mkc c peer sid (Some g) [] false [] []]) in
      (set_bypeer h4 (bypeer h4 ++ [(sid, peer, c)]), OUnit)
    end
  | Rm1 c =>
    match find_conn c (conns h), find_rm c (rms h) with
    | Some x, None =>
      match att_gen (csid x) (maps h) with
      | None => (h, OBool false)                              (* session gone: remove() returns *)
      | Some g =>
        if negb (ogen_eqb (cgen x) g) then (h, OBool false)   (* replaced: remove() returns *)
        else
          let h1 := unlink_conn c h in
          let h2 := match bp_find (csid x) (cpeer x) (bypeer h1) with
                    | Some c' => if Nat.eqb c' c then set_bypeer h1 (bp_del (csid x) (cpeer x) (bypeer h1)) else h1
                    | None => h1
                    end in
          (set_rms h2 (rms h2 ++ [mkr c 1]), OBool true)
      end
    | _, _ => (set_bad h, OUnit)
    end
  | Rm2 c =>
    match find_rm c (rms h) with
    | Some r => if Nat.eqb (rphase r) 1
                then (set_rms (close_conn c h) (map (fun r' => if Nat.eqb (rcid r') c then mkr c 2 else r') (rms h)), OUnit)
                else (set_bad h, OUnit)
    | None => (set_bad h, OUnit)
    end
  | Rm3 c =>
    match find_rm c (rms h), find_conn c (conns h) with
    | Some r, Some x =>
      if negb (Nat.eqb (rphase r) 2) then (set_bad h, OUnit) else
      let empty := match att_gen (csid x) (maps h) with
                   | Some g => match members g (conns h) with [] => true | _ => false end
                   | None => false
                   end in
      let h1 := set_rms h (del_rm c (rms h)) in
      if empty then (set_bypeer (set_maps h1 (detach_sid (csid x) (maps h1))) (bp_del_sid (csid x) (bypeer h1)), OUnit)
      else (h1, OUnit)
    | _, _ => (set_bad h, OUnit)
    end
  | Cs1 sid =>
    match find_cs sid (css h) with
    | Some _ => (set_bad h, OUnit)
    | None =>
      match att_gen sid (maps h) with
      | None => (h, OList [])
      | Some g =>
        let todo := members g (conns h) in
        let h1 := set_bypeer (set_maps h (detach_sid sid (maps h))) (bp_del_sid sid (bypeer h)) in
        (match todo with [] => h1 | _ => set_css h1 (css h1 ++ [mks sid todo]) end, OList todo)
      end
    end
  | Cs2 sid c =>
    match find_cs sid (css h) with
    | Some r =>
      if mem c (stodo r) then
        let todo := remove_nat c (stodo r) in
        let h1 := close_conn c h in
        (set_css h1 (match todo with [] => del_cs sid (css h1)
                                   | _ => map (fun r' => if Nat.eqb (sidn r') sid then mks sid todo else r') (css h1) end), OUnit)
      else (set_bad h, OUnit)
    | None => (set_bad h, OUnit)
    end
  | SendTo sid peer m =>
    match bp_find sid peer (bypeer h) with
    | None => (h, OBool false)
    | Some c =>
      match att_gen sid (maps h) with
      | None => (h, OBool false)
      | Some g => if linked_in c g h then (enqueue c m h, OBool true) else (h, OBool false)
      end
    end
  | Bcast sid except m =>
    match att_gen sid (maps h) with
    | None => (h, OList [])
    | Some g =>
      let ex := match except with Some p => bp_find sid p (bypeer h) | None => None end in
      let todo := match ex with Some c => remove_nat c (members g (conns h)) | None => members g (conns h) end in
      (fold_left (fun h' c => enqueue c m h') todo h, OList todo)
    end
  | Pop c =>
    match find_conn c (conns h) with
    | Some x => (set_conns h (upd_conn c c_pop (conns h)), OUnit)
    | None => (set_bad h, OUnit)
    end
  | ListOp sid =>
    match att_gen sid (maps h) with
    | None => (h, OList [])
    | Some g => (h, OList (members g (conns h)))
    end
  end.

Fixpoint run (h : hub) (ops : list op) : hub * list out :=
  match ops with
  | [] => (h, [])
  | o :: r => let '(h1, x) := step h o in let '(h2, xs) := run h1 r in (h2, x :: xs)
  end.

(* CRC-32C (Castagnoli, reflected, as hash/crc32 with crc32.Castagnoli computes
   it) bit by bit over Z.  Used by Model/Sidecar.v: the model must accept and
   reject the same sidecar bytes as LoadSidecar. *)
From Coq Require Import ZArith List.
Import ListNotations.
Open Scope Z_scope.

Definition crc_poly : Z := 0x82F63B78.

(* one shift of the reflected shift register *)
Definition crc_step (c : Z) : Z :=
  Z.lxor (Z.shiftr c 1) (if Z.odd c then crc_poly else 0).

Definition crc_step8 (c : Z) : Z :=
  crc_step (crc_step (crc_step (crc_step (crc_step (crc_step (crc_step (crc_step c))))))).

Definition crc_byte (c b : Z) : Z := crc_step8 (Z.lxor c b).

Definition crc_raw (c : Z) (l : list Z) : Z := fold_left crc_byte l c.

Definition crc32c (l : list Z) : Z := Z.lxor (crc_raw 0xFFFFFFFF l) 0xFFFFFFFF.

(* C15: what the decoders of internal/transfer do with ARBITRARY bytes.

   Part 1 (this file builds on Model/Wire.v, it does not change it): every
   control-record decoder, the control header and the legacy stream headers as
   total functions that return, next to the Ok/Short/Bad result of Wire.v, the
   list of ALLOCATION REQUESTS the Go reader makes whose size is chosen by the
   peer (make([]T, n) with n read from the wire, and the string(buf) copies of
   fields that were read completely).  Fixed-size scratch buffers (1..20 bytes
   per field) are not listed.

   After the repository fix "length-prefixed control fields are read
   incrementally" a 32-bit length (manifest JSON, resume bitmap) or entry count
   (CreditBatch) reserves c_controlReadStep bytes / c_creditBatchStep entries up
   front and doubles the buffer each time it has been FILLED; [grow_allocs] is
   that loop (controlproto.go readLenPrefixedControl / readCreditBatch).

   Hand-written; tied to the code by Corr/C15.v.  Limits come from Gen/C15.v and
   Gen/Consts.v (regenerated from the Go source on every run). *)
From Coq Require Import ZArith List Bool Lia.
From TF Require Import Lib.GoInt Lib.Bytes Gen.Consts Gen.C15 Model.Path Model.Wire.
Import ListNotations.
Open Scope Z_scope.

Definition zsum (l : list Z) : Z := fold_right Z.add 0 l.

(* ---- the doubling read loop ----
   [cap] units are already reserved; [n] are wanted; [avail] of them can be
   read before the input ends.  A further buffer is reserved only after the
   current one was filled.  Fuel: the capacity doubles, 40 steps exceed any
   32-bit length (Proofs/WireDec.v grow_caps_fuel shows it is never exhausted). *)
Fixpoint grow_caps (fuel : nat) (cap n avail : Z) : list Z :=
  match fuel with
  | O => []
  | S f =>
    if (avail <? cap) || (n <=? cap) then []
    else let next := Z.min (2 * cap) n in next :: grow_caps f next n avail
  end.

Definition grow_fuel : nat := 40.

Definition grow_allocs (first n avail : Z) : list Z :=
  if n <=? 0 then []
  else let c0 := Z.min first n in c0 :: grow_caps grow_fuel c0 n (Z.min avail n).

(* [rdb] guarded by a comparison in Z, so that evaluating the model on a hostile
   32-bit length never builds a unary number of that size (same function:
   Proofs/WireDec.v rdbz_rdb) *)
Definition rdbz (n : Z) (l : list Z) : dres (list Z) :=
  if len l <? n then DShort else rdb n l.

(* ---- instrumented decoding: (allocation requests, result) ---- *)
Definition adres (A : Type) : Type := (list Z * dres A)%type.

Definition abind {A B} (r : adres A) (f : A -> list Z -> adres B) : adres B :=
  match r with
  | (al, DOk a rest) => let r2 := f a rest in (al ++ fst r2, snd r2)
  | (al, DShort) => (al, DShort)
  | (al, DBad) => (al, DBad)
  end.

Definition aret {A} (a : A) (l : list Z) : adres A := ([], DOk a l).
Definition abad {A} : adres A := ([], @DBad A).

(* fixed-width field: scratch buffer only *)
Definition ard (n : nat) (l : list Z) : adres Z := ([], rd n l).

(* buf := make([]byte, n); ReadFull; string(buf)   (n is a 16-bit length) *)
Definition ardb_str (n : Z) (l : list Z) : adres (list Z) :=
  match rdb n l with
  | DOk a r => ([n; n], DOk a r)
  | x => ([n], x)
  end.

(* readLenPrefixedControl(s, n) *)
Definition ardb_grow (n : Z) (l : list Z) : adres (list Z) :=
  (grow_allocs c_controlReadStep n (len l), rdbz n l).

(* readCreditBatch after the count: 16 bytes of memory per entry, 12 on the wire *)
Definition ard_entries (count : Z) (l : list Z) : adres (list (Z * Z)) :=
  (map (Z.mul 16) (grow_allocs c_creditBatchStep count (len l / 12)),
   rd_entries (length l) count l []).

Definition adec_body (t : Z) (l : list Z) : adres ctl :=
  if t =? c_controlTypeFileBegin then
    abind (ard 2 l) (fun plen l =>
    if c_maxRelPathLength <? plen then abad else
    abind (ardb_str plen l) (fun p l =>
    abind (ard 8 l) (fun size l =>
    abind (ard 4 l) (fun cs l =>
    abind (ard 8 l) (fun sid l =>
    abind (ard 1 l) (fun alg l =>
    abind (ard 2 l) (fun a l =>
    abind (ard 2 l) (fun b l =>
    abind (ard 4 l) (fun c l =>
    abind (ard 4 l) (fun d l =>
    aret (FileBegin p size cs sid alg a b c d) l))))))))))
  else if t =? c_controlTypeCredit then
    abind (ard 8 l) (fun sid l => abind (ard 4 l) (fun c l => aret (Credit sid c) l))
  else if t =? c_controlTypeCreditBatch then
    abind (ard 4 l) (fun count l =>
    abind (ard_entries count l) (fun es l => aret (CreditBatch es) l))
  else if t =? c_controlTypeFileEnd then
    abind (ard 8 l) (fun sid l => abind (ard 4 l) (fun crc l => aret (FileEnd sid crc) l))
  else if t =? c_controlTypeFileDone then
    abind (ard 8 l) (fun sid l =>
    abind (ard 1 l) (fun okb l =>
    abind (ard 2 l) (fun elen l =>
    if 0 <? elen then abind (ardb_str elen l) (fun e l => aret (FileDone sid (okb =? 1) e) l)
    else aret (FileDone sid (okb =? 1) []) l)))
  else if t =? c_controlTypeFileResumeInfo then
    abind (ard 2 l) (fun flen l =>
    abind (if 0 <? flen then ardb_str flen l else aret [] l) (fun fid l =>
    abind (ard 8 l) (fun sid l =>
    abind (ard 4 l) (fun total l =>
    abind (ard 4 l) (fun blen l =>
    abind (if 0 <? blen then ardb_grow blen l else aret [] l) (fun bm l =>
    abind (ard 4 l) (fun lvc l =>
    abind (ard 8 l) (fun lvh l =>
    aret (FileResumeInfo fid sid total bm lvc lvh) l))))))))
  else if t =? c_controlTypeResumeRequest then
    abind (ard 2 l) (fun flen l =>
    abind (if 0 <? flen then ardb_str flen l else aret [] l) (fun fid l =>
    abind (ard 8 l) (fun sid l => aret (ResumeRequest fid sid) l)))
  else if t =? c_controlTypeDataStreams then
    abind (ard 2 l) (fun n l => aret (DataStreams n) l)
  else if t =? c_controlTypeEnd then aret EndRec l
  else abad.

Definition adec_ctl (l : list Z) : adres ctl :=
  match l with
  | [] => ([], DShort)
  | t :: r => adec_body t r
  end.

(* the control header: 4-byte magic, 32-bit length, JSON read incrementally *)
Definition adec_header (l : list Z) : adres (list Z) :=
  abind ([], rdb 4 l) (fun magic l =>
  if negb (list_eqb magic c_controlMagic) then abad else
  abind (ard 4 l) (fun n l => ardb_grow n l)).

(* a whole control stream, record by record: all allocation requests, and how
   the stream ends (None = every record decoded and the input ended on a record
   boundary; Some false = ended inside a record; Some true = undecodable) *)
Fixpoint adec_stream (fuel : nat) (l : list Z) : list Z * option bool :=
  match l with
  | [] => ([], None)
  | _ => match fuel with
         | O => ([], Some true)
         | S f => match adec_ctl l with
                  | (al, DOk _ rest) => let r := adec_stream f rest in (al ++ fst r, snd r)
                  | (al, DShort) => (al, Some false)
                  | (al, DBad) => (al, Some true)
                  end
         end
  end.

(* ---- legacy stream headers (fileproto.go RecvFile, manifestproto.go
   RecvManifest / readRelPath, internal/app/dumb_transfer.go) ---- *)

(* RecvFile: "SBX1", 16-bit name length (<= 256), name, 64-bit size (<= 10 TiB) *)
Definition validate_filename (n : list Z) : bool :=
  negb (match n with [] => true | _ => false end) &&
  negb (existsb (fun b => (b =? 47) || (b =? 92)) n) &&
  negb (list_eqb n [46]) && negb (list_eqb n [46; 46]) &&
  (len n <=? c_maxFilenameLength).

Definition adec_file_header (l : list Z) : adres (list Z * Z) :=
  abind ([], rdb 4 l) (fun magic l =>
  if negb (list_eqb magic c_magicBytes) then abad else
  abind (ard 2 l) (fun nlen l =>
  if c_maxFilenameLength <? nlen then abad else
  abind (ardb_str nlen l) (fun name l =>
  if negb (validate_filename name) then abad else
  abind (ard 8 l) (fun size l =>
  if c_maxFileSize <? size then abad else aret (name, size) l)))).

(* RecvManifest: "SBM1", 32-bit length, JSON (now read incrementally) *)
Definition adec_legacy_manifest_header (l : list Z) : adres (list Z) :=
  abind ([], rdb 4 l) (fun magic l =>
  if negb (list_eqb magic c_manifestMagicBytes) then abad else
  abind (ard 4 l) (fun n l => ardb_grow n l)).

(* recvDumbDiscardReader: 16-bit name length (no limit below 65535), name, 64-bit size *)
Definition adec_dumb_header (l : list Z) : adres (list Z * Z) :=
  abind (ard 2 l) (fun nlen l =>
  abind (match rdb nlen l with DOk a r => ([nlen], DOk a r) | x => ([nlen], x) end) (fun name l =>
  abind (ard 8 l) (fun size l => aret (name, size) l))).

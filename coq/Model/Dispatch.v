(* Model of internal/transfer/multistream.go sendFileState: the per-file
   dispatch state machine of the sender.  One event per mutex-protected method
   (nextChunkToSend / markChunkDone / trySendEnd) and per locked assignment of
   applyResumeInfo and its verification goroutine.  Any number of workers = any
   event list.  Hand-written; tied to the code by Corr/C17.v. *)
From Coq Require Import List Arith Bool Lia.
Import ListNotations.

Record st := mk {
  total : nat;
  nextChunk : nat;
  inFlight : nat;
  scheduleDone : bool;
  endSent : bool;
  verifyPending : bool;
  resendPending : bool;
  resendChunk : nat;
  plan : option (list bool * nat)   (* bitmap (one bool per chunk), forceSendFrom *)
}.

Definition init (n : nat) : st := mk n 0 0 false false false false 0 None.

Inductive ev :=
| Take | Finish | TryEnd
| VerifyStart
| PlanSet (bm : list bool) (force : nat)
| VerdictMismatch (c : nat)
| VerdictOk.

Inductive out :=
| OTake (skipped : list nat) (r : option nat)
| OEnd (b : bool)
| OUnit.

Definition plan_skips (p : option (list bool * nat)) (idx : nat) : bool :=
  match p with
  | Some (bm, force) => nth idx bm false && (idx <? force)
  | None => false
  end.

Definition set_sched (s : st) (b : bool) : st :=
  mk (total s) (nextChunk s) (inFlight s) b (endSent s) (verifyPending s) (resendPending s) (resendChunk s) (plan s).
Definition set_next (s : st) (n : nat) : st :=
  mk (total s) n (inFlight s) (scheduleDone s) (endSent s) (verifyPending s) (resendPending s) (resendChunk s) (plan s).
Definition set_inflight (s : st) (n : nat) : st :=
  mk (total s) (nextChunk s) n (scheduleDone s) (endSent s) (verifyPending s) (resendPending s) (resendChunk s) (plan s).
Definition set_end (s : st) (b : bool) : st :=
  mk (total s) (nextChunk s) (inFlight s) (scheduleDone s) b (verifyPending s) (resendPending s) (resendChunk s) (plan s).
Definition set_verify (s : st) (b : bool) : st :=
  mk (total s) (nextChunk s) (inFlight s) (scheduleDone s) (endSent s) b (resendPending s) (resendChunk s) (plan s).
Definition set_resend (s : st) (b : bool) (c : nat) : st :=
  mk (total s) (nextChunk s) (inFlight s) (scheduleDone s) (endSent s) (verifyPending s) b c (plan s).
Definition set_plan (s : st) (p : option (list bool * nat)) : st :=
  mk (total s) (nextChunk s) (inFlight s) (scheduleDone s) (endSent s) (verifyPending s) (resendPending s) (resendChunk s) p.

(* the `for s.nextChunk < s.totalChunks` loop of nextChunkToSend *)
Fixpoint take_loop (fuel : nat) (s : st) (skipped : list nat) : st * out :=
  match fuel with
  | O => (set_sched s true, OTake skipped None)
  | S f =>
    if nextChunk s <? total s then
      let idx := nextChunk s in
      let s1 := set_next s (S idx) in
      if plan_skips (plan s) idx then take_loop f s1 (skipped ++ [idx])
      else
        let s2 := set_inflight s1 (S (inFlight s1)) in
        let s3 := if total s2 <=? nextChunk s2 then set_sched s2 true else s2 in
        (s3, OTake skipped (Some idx))
    else (set_sched s true, OTake skipped None)
  end.

Definition take_resend (s : st) : st * out :=
  let s1 := set_resend s false (resendChunk s) in
  (set_inflight s1 (S (inFlight s1)), OTake [] (Some (resendChunk s))).

Definition can_end (s : st) : bool :=
  scheduleDone s && (inFlight s =? 0) && negb (endSent s) && negb (resendPending s).

Definition step (s : st) (e : ev) : st * out :=
  match e with
  | Take =>
    if scheduleDone s then
      if resendPending s then take_resend s else (s, OTake [] None)
    else if resendPending s then take_resend s
    else take_loop (total s - nextChunk s) s []
  | Finish =>
    let s1 := if 0 <? inFlight s then set_inflight s (inFlight s - 1) else s in
    if verifyPending s1 then (s1, OEnd false)
    else if can_end s1 then (set_end s1 true, OEnd true)
    else (s1, OEnd false)
  | TryEnd =>
    if verifyPending s then (s, OEnd false)
    else if can_end s then (set_end s true, OEnd true)
    else (s, OEnd false)
  | VerifyStart => (set_verify s true, OUnit)
  | PlanSet bm force => (set_plan s (Some (bm, force)), OUnit)
  | VerdictMismatch c => (set_verify (set_resend s true c) false, OUnit)
  | VerdictOk => (set_verify s false, OUnit)
  end.

Fixpoint run (s : st) (evs : list ev) : st * list out :=
  match evs with
  | [] => (s, [])
  | e :: r => let '(s1, o) := step s e in let '(s2, os) := run s1 r in (s2, o :: os)
  end.

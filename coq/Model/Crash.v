(* Crash model of the receiver's resume metadata (internal/transfer/sidecar.go
   Flush, multistream.go data-stream reader): what a SIGKILL at any instant
   leaves on disk.  Per file: which chunks are in the data file with the source
   bytes ([written]), the in-memory bitmap ([mem]), the sidecar on disk ([disk],
   always a complete serialisation: it is only ever replaced by rename), the
   .tmp file of a flush in progress ([tmp], possibly torn).
   Program order is part of [step]'s guard: a reader marks chunk i only after
   its positional write of chunk i returned; Flush holds the sidecar mutex from
   serialising the bitmap until after the rename, so no Mark happens inside a
   flush.  Any number of readers, any interleaving, any kill point = any event
   list.  Hand-written; tied to the code by Corr/C05.v (hook traces of real
   runs must be accepted) and by the snapshot oracle of the harness. *)
From Coq Require Import List Arith Bool Lia.
Import ListNotations.

Inductive tmpstate := TNone | TTorn | TFull (bm : list bool).

Record fstate := mkf {
  written : list bool;        (* chunk i of the data file holds the source bytes *)
  mem : list bool;            (* in-memory bitmap *)
  disk : option (list bool);  (* sidecar file on disk *)
  tmp : tmpstate;             (* sidecar .tmp file *)
  flushing : option (list bool)  (* a Flush is in progress with this serialised bitmap *)
}.

Definition fresh (n : nat) : fstate := mkf (repeat false n) (repeat false n) None TNone None.

Inductive ev :=
| Write (f i : nat)            (* positional write of chunk i returned *)
| Mark (f i : nat)             (* markChunkComplete / MarkCompleteIfUnset *)
| FlushBegin (f : nat)         (* Flush: lock, serialise *)
| FlushTmpTorn (f : nat)       (* the process dies inside os.WriteFile(tmp) - state only observable after Kill *)
| FlushTmp (f : nat)           (* os.WriteFile(tmp) completed *)
| FlushRename (f : nat)        (* os.Rename(tmp, path) completed; unlock *)
| Restart (f : nat) (loads : bool).  (* process died; next run loads the sidecar (identity matches) or starts fresh *)

Fixpoint set_nth (i : nat) (l : list bool) : list bool :=
  match l, i with
  | [], _ => []
  | _ :: r, O => true :: r
  | x :: r, S j => x :: set_nth j r
  end.

Definition upd (f : nat) (g : fstate -> option fstate) (s : list fstate) : option (list fstate) :=
  match nth_error s f with
  | None => None
  | Some x => match g x with
              | None => None
              | Some y => Some (firstn f s ++ y :: skipn (S f) s)
              end
  end.

Definition step (s : list fstate) (e : ev) : option (list fstate) :=
  match e with
  | Write f i => upd f (fun x => Some (mkf (set_nth i (written x)) (mem x) (disk x) (tmp x) (flushing x))) s
  | Mark f i =>
    upd f (fun x =>
      match flushing x with
      | Some _ => None                                   (* the sidecar mutex is held by Flush *)
      | None => if nth i (written x) false               (* program order: write before mark *)
                then Some (mkf (written x) (set_nth i (mem x)) (disk x) (tmp x) None)
                else None
      end) s
  | FlushBegin f =>
    upd f (fun x => match flushing x with
                    | Some _ => None
                    | None => Some (mkf (written x) (mem x) (disk x) (tmp x) (Some (mem x)))
                    end) s
  | FlushTmpTorn f =>
    upd f (fun x => match flushing x with
                    | Some _ => Some (mkf (written x) (mem x) (disk x) TTorn (flushing x))
                    | None => None
                    end) s
  | FlushTmp f =>
    upd f (fun x => match flushing x with
                    | Some bm => Some (mkf (written x) (mem x) (disk x) (TFull bm) (flushing x))
                    | None => None
                    end) s
  | FlushRename f =>
    upd f (fun x => match flushing x, tmp x with
                    | Some _, TFull bm => Some (mkf (written x) (mem x) (Some bm) TNone None)
                    | _, _ => None
                    end) s
  | Restart f loads =>
    (* the kill: memory is lost, the disk stays; the .tmp file is never read *)
    upd f (fun x => Some (mkf (written x)
                              (match disk x with
                               | Some bm => if loads then bm else repeat false (length (written x))
                               | None => repeat false (length (written x))
                               end)
                              (if loads then disk x else None) (tmp x) None)) s
  end.

Fixpoint run (s : list fstate) (evs : list ev) : option (list fstate) :=
  match evs with
  | [] => Some s
  | e :: r => match step s e with Some s' => run s' r | None => None end
  end.

(* the sidecar found on disk claims only chunks that are in the file *)
Definition honest (x : fstate) : Prop :=
  forall bm i, disk x = Some bm -> nth i bm false = true -> nth i (written x) false = true.

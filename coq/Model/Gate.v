(* CLOSED model of a healthy transfer for the liveness property (C03): an honest
   sender with [par] stream workers, reliable FIFO streams (one control stream in
   each direction, [par] data streams), and the receiver - everything that can
   make one side WAIT for the other:

     sender   a file is activated only while fewer than [par] files are active;
              FileBegin is written at activation, before any of its chunks can be
              taken; FileEnd after the last chunk was written; the FileDone waiter
              exists only once FileEnd was written; End after every file was
              acknowledged.  (Which worker sends which chunk on which stream, and
              which pending file the scheduler picks, is free.)
     streams  FIFO per stream, no order between streams; a data stream becomes
              VISIBLE to the receiver only when its first frame is written (QUIC).
     receiver control records are handled in order; a data-stream reader handles
              the frame at the head of its stream only if the file has begun or is
              finished (otherwise it waits - head-of-line blocking); a file is
              finalized (FileDone sent) when its last missing chunk is handled, or
              at FileEnd if nothing is missing; a chunk of a finished file is
              dropped.  With [gated] = true the receiver is the one BEFORE fix
              ed4f108: it handles no control record until all [par] data streams
              are visible.

   Chunks are abstracted to their owner (indices do not matter for waiting).
   Hand-written; the program-order facts it builds in are re-read from the source
   on every run (Gen/GateSrc.v, Proofs/GateSrc.v) and the receiver's waiting
   conditions are those of Model/Recv.v (tied to the code by Corr/C02.v). *)
From Coq Require Import List Arith Bool.
Import ListNotations.

Record afile := { a_id : nat; a_total : nat; a_next : nat; a_end : bool }.
Inductive cmsg := GBegin (f total : nat) | GEnd (f : nat) | GEndAll.
Record rfile := { r_id : nat; r_rem : nat }.

Record gst := {
  g_par : nat;
  g_gated : bool;
  g_nfiles : nat;
  g_pending : list (nat * nat);      (* (file, chunk count), not yet activated *)
  g_active : list afile;
  g_acked : list nat;
  g_s2r : list cmsg;                 (* control stream sender -> receiver, head first *)
  g_r2s : list nat;                  (* FileDone records receiver -> sender, head first *)
  g_data : list (nat * nat);         (* (stream, owner) of every frame in flight, in emission order *)
  g_visible : list nat;              (* data streams the receiver can see *)
  g_rbegun : list rfile;             (* receiver: begun, not finalized *)
  g_rdone : list nat;                (* receiver: finalized *)
  g_sender_done : bool;
  g_recv_done : bool }.

Definition ginit (par : nat) (gated : bool) (files : list (nat * nat)) : gst :=
  {| g_par := par; g_gated := gated; g_nfiles := length files; g_pending := files; g_active := []; g_acked := [];
     g_s2r := []; g_r2s := []; g_data := []; g_visible := []; g_rbegun := []; g_rdone := [];
     g_sender_done := false; g_recv_done := false |}.

Inductive gev :=
| GActivate (f : nat)          (* the scheduler hands out pending file f: FileBegin is written *)
| GSendChunk (w f : nat)       (* worker w writes the next chunk of active file f on its stream *)
| GSendEnd (f : nat)           (* FileEnd of f is written *)
| GRecvCtl                     (* the receiver handles the next control record *)
| GRecvChunk (w : nat)         (* the reader of stream w handles the frame at the head of its stream *)
| GAck                         (* the sender's waiter takes the next FileDone *)
| GFinish.                     (* every file acknowledged: the sender writes End and returns *)

Definition memn (x : nat) (l : list nat) : bool := existsb (Nat.eqb x) l.

Fixpoint find_pending (f : nat) (l : list (nat * nat)) : option nat :=
  match l with [] => None | (g, t) :: r => if Nat.eqb g f then Some t else find_pending f r end.
Fixpoint remove_pending (f : nat) (l : list (nat * nat)) : list (nat * nat) :=
  match l with [] => [] | (g, t) :: r => if Nat.eqb g f then r else (g, t) :: remove_pending f r end.
Fixpoint find_afile (f : nat) (l : list afile) : option afile :=
  match l with [] => None | a :: r => if Nat.eqb (a_id a) f then Some a else find_afile f r end.
Fixpoint set_afile (a' : afile) (l : list afile) : list afile :=
  match l with [] => [] | a :: r => if Nat.eqb (a_id a) (a_id a') then a' :: r else a :: set_afile a' r end.
Fixpoint remove_afile (f : nat) (l : list afile) : list afile :=
  match l with [] => [] | a :: r => if Nat.eqb (a_id a) f then r else a :: remove_afile f r end.
Fixpoint find_rfile (f : nat) (l : list rfile) : option rfile :=
  match l with [] => None | a :: r => if Nat.eqb (r_id a) f then Some a else find_rfile f r end.
Fixpoint set_rfile (a' : rfile) (l : list rfile) : list rfile :=
  match l with [] => [] | a :: r => if Nat.eqb (r_id a) (r_id a') then a' :: r else a :: set_rfile a' r end.
Fixpoint remove_rfile (f : nat) (l : list rfile) : list rfile :=
  match l with [] => [] | a :: r => if Nat.eqb (r_id a) f then r else a :: remove_rfile f r end.

(* the frame at the head of stream w, and the queue without it *)
Fixpoint head_on (w : nat) (l : list (nat * nat)) : option nat :=
  match l with [] => None | (v, f) :: r => if Nat.eqb v w then Some f else head_on w r end.
Fixpoint drop_on (w : nat) (l : list (nat * nat)) : list (nat * nat) :=
  match l with [] => [] | (v, f) :: r => if Nat.eqb v w then r else (v, f) :: drop_on w r end.

Definition all_visible (s : gst) : bool :=
  forallb (fun w => memn w (g_visible s)) (seq 0 (g_par s)).

Definition upd (s : gst) pending active acked s2r r2s data visible rbegun rdone sdone rdn : gst :=
  {| g_par := g_par s; g_gated := g_gated s; g_nfiles := g_nfiles s; g_pending := pending; g_active := active;
     g_acked := acked; g_s2r := s2r; g_r2s := r2s; g_data := data; g_visible := visible; g_rbegun := rbegun;
     g_rdone := rdone; g_sender_done := sdone; g_recv_done := rdn |}.

(* None = the event is not enabled in s *)
Definition gstep (s : gst) (e : gev) : option gst :=
  match e with
  | GActivate f =>
      match find_pending f (g_pending s) with
      | Some t =>
          if length (g_active s) <? g_par s then
            Some (upd s (remove_pending f (g_pending s))
                        (g_active s ++ [{| a_id := f; a_total := t; a_next := 0; a_end := false |}])
                        (g_acked s) (g_s2r s ++ [GBegin f t]) (g_r2s s) (g_data s) (g_visible s)
                        (g_rbegun s) (g_rdone s) (g_sender_done s) (g_recv_done s))
          else None
      | None => None
      end
  | GSendChunk w f =>
      if w <? g_par s then
        match find_afile f (g_active s) with
        | Some a =>
            if a_next a <? a_total a then
              Some (upd s (g_pending s)
                          (set_afile {| a_id := f; a_total := a_total a; a_next := S (a_next a); a_end := a_end a |} (g_active s))
                          (g_acked s) (g_s2r s) (g_r2s s) (g_data s ++ [(w, f)])
                          (if memn w (g_visible s) then g_visible s else w :: g_visible s)
                          (g_rbegun s) (g_rdone s) (g_sender_done s) (g_recv_done s))
            else None
        | None => None
        end
      else None
  | GSendEnd f =>
      match find_afile f (g_active s) with
      | Some a =>
          if Nat.eqb (a_next a) (a_total a) && negb (a_end a) then
            Some (upd s (g_pending s)
                        (set_afile {| a_id := f; a_total := a_total a; a_next := a_next a; a_end := true |} (g_active s))
                        (g_acked s) (g_s2r s ++ [GEnd f]) (g_r2s s) (g_data s) (g_visible s)
                        (g_rbegun s) (g_rdone s) (g_sender_done s) (g_recv_done s))
          else None
      | None => None
      end
  | GRecvCtl =>
      if g_recv_done s then None else
      if g_gated s && negb (all_visible s) then None else
      match g_s2r s with
      | [] => None
      | GBegin f t :: rest =>
          Some (upd s (g_pending s) (g_active s) (g_acked s) rest (g_r2s s) (g_data s) (g_visible s)
                      (g_rbegun s ++ [{| r_id := f; r_rem := t |}]) (g_rdone s) (g_sender_done s) (g_recv_done s))
      | GEnd f :: rest =>
          match find_rfile f (g_rbegun s) with
          | Some r =>
              if Nat.eqb (r_rem r) 0 then
                Some (upd s (g_pending s) (g_active s) (g_acked s) rest (g_r2s s ++ [f]) (g_data s) (g_visible s)
                            (remove_rfile f (g_rbegun s)) (f :: g_rdone s) (g_sender_done s) (g_recv_done s))
              else
                Some (upd s (g_pending s) (g_active s) (g_acked s) rest (g_r2s s) (g_data s) (g_visible s)
                            (g_rbegun s) (g_rdone s) (g_sender_done s) (g_recv_done s))
          | None =>
              if memn f (g_rdone s) then
                Some (upd s (g_pending s) (g_active s) (g_acked s) rest (g_r2s s) (g_data s) (g_visible s)
                            (g_rbegun s) (g_rdone s) (g_sender_done s) (g_recv_done s))
              else None    (* "file end for unknown file": cannot happen with an honest sender *)
          end
      | GEndAll :: rest =>
          Some (upd s (g_pending s) (g_active s) (g_acked s) rest (g_r2s s) (g_data s) (g_visible s)
                      (g_rbegun s) (g_rdone s) (g_sender_done s) true)
      end
  | GRecvChunk w =>
      if g_recv_done s then None else
      match head_on w (g_data s) with
      | None => None
      | Some f =>
          match find_rfile f (g_rbegun s) with
          | Some r =>
              match r_rem r with
              | 0 => Some (upd s (g_pending s) (g_active s) (g_acked s) (g_s2r s) (g_r2s s) (drop_on w (g_data s))
                                 (g_visible s) (g_rbegun s) (g_rdone s) (g_sender_done s) (g_recv_done s))
              | 1 => Some (upd s (g_pending s) (g_active s) (g_acked s) (g_s2r s) (g_r2s s ++ [f]) (drop_on w (g_data s))
                                 (g_visible s) (remove_rfile f (g_rbegun s)) (f :: g_rdone s)
                                 (g_sender_done s) (g_recv_done s))
              | S n => Some (upd s (g_pending s) (g_active s) (g_acked s) (g_s2r s) (g_r2s s) (drop_on w (g_data s))
                                   (g_visible s) (set_rfile {| r_id := f; r_rem := n |} (g_rbegun s)) (g_rdone s)
                                   (g_sender_done s) (g_recv_done s))
              end
          | None =>
              if memn f (g_rdone s) then      (* late chunk of a finished file: dropped (fix a51b52c) *)
                Some (upd s (g_pending s) (g_active s) (g_acked s) (g_s2r s) (g_r2s s) (drop_on w (g_data s))
                            (g_visible s) (g_rbegun s) (g_rdone s) (g_sender_done s) (g_recv_done s))
              else None                       (* the reader waits for the file to begin *)
          end
      end
  | GAck =>
      match g_r2s s with
      | [] => None
      | f :: rest =>
          match find_afile f (g_active s) with
          | Some a =>
              if a_end a then
                Some (upd s (g_pending s) (remove_afile f (g_active s)) (f :: g_acked s) (g_s2r s) rest (g_data s)
                            (g_visible s) (g_rbegun s) (g_rdone s) (g_sender_done s) (g_recv_done s))
              else None                       (* no waiter yet: FileEnd not written *)
          | None => None
          end
      end
  | GFinish =>
      if g_sender_done s then None else
      match g_pending s, g_active s with
      | [], [] =>
          Some (upd s [] [] (g_acked s) (g_s2r s ++ [GEndAll]) (g_r2s s) (g_data s) (g_visible s)
                      (g_rbegun s) (g_rdone s) true (g_recv_done s))
      | _, _ => None
      end
  end.

(* both sides have returned successfully *)
Definition gfinal (s : gst) : bool := g_sender_done s && g_recv_done s.

Fixpoint grun (s : gst) (evs : list gev) : option gst :=
  match evs with
  | [] => Some s
  | e :: r => match gstep s e with Some s' => grun s' r | None => None end
  end.

Definition reachable (par : nat) (gated : bool) (files : list (nat * nat)) (s : gst) : Prop :=
  exists evs, grun (ginit par gated files) evs = Some s.

(* candidate events of a state (every enabled event is among them) *)
Definition candidates (s : gst) : list gev :=
  map (fun p => GActivate (fst p)) (g_pending s) ++
  flat_map (fun a => GSendEnd (a_id a) :: map (fun w => GSendChunk w (a_id a)) (seq 0 (g_par s))) (g_active s) ++
  [GRecvCtl; GAck; GFinish] ++ map GRecvChunk (seq 0 (g_par s)).

Definition enabled_events (s : gst) : list gev :=
  filter (fun e => match gstep s e with Some _ => true | None => false end) (candidates s).

Definition stuck (s : gst) : bool :=
  negb (gfinal s) && match enabled_events s with [] => true | _ => false end.

(* the decreasing measure: work left *)
Definition mu (s : gst) : nat :=
  fold_right (fun p acc => 5 + 2 * snd p + acc) 0 (g_pending s) +
  fold_right (fun a acc => 2 * (a_total a - a_next a) + (if a_end a then 0 else 2) + 1 + acc) 0 (g_active s) +
  length (g_s2r s) + length (g_data s) + (if g_sender_done s then 0 else 2).

(* Path validation of the receiver (internal/transfer/manifestproto.go
   validateRelPath), over byte strings.  Linux only: filepath.ToSlash is the
   identity and filepath.IsAbs is "starts with '/'", so the backslash clause of
   the Go function is subsumed by the ".." substring test. *)
From Coq Require Import ZArith List Bool Lia.
From TF Require Import Lib.GoInt Gen.Consts.
Import ListNotations.
Open Scope Z_scope.

Definition SLASH : Z := 47.
Definition DOT : Z := 46.

Fixpoint has_dotdot (l : list Z) : bool :=
  match l with
  | a :: t => match t with
              | b :: _ => ((a =? DOT) && (b =? DOT)) || has_dotdot t
              | [] => false
              end
  | [] => false
  end.

Definition is_abs (l : list Z) : bool :=
  match l with a :: _ => a =? SLASH | [] => false end.

Definition validate_rel_path (p : list Z) : bool :=
  (Z.of_nat (length p) <=? c_maxRelPathLength) && negb (has_dotdot p) && negb (is_abs p) &&
  negb (match p with [] => true | _ => false end).

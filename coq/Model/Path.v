(* Path validation of the receiver (internal/transfer/manifestproto.go
   validateRelPath), over byte strings.  Linux only: filepath.ToSlash is the
   identity and filepath.IsAbs is "starts with '/'", so the backslash clause of
   the Go function repeats the segment test on the same string.

   validateRelPath rejects a path iff it is longer than maxRelPathLength, or
   one of its '/'-separated segments is empty, "." or ".." (hasUnsafeSegment),
   or it is absolute, or it is empty. *)
From Coq Require Import ZArith List Bool Lia.
From TF Require Import Lib.GoInt Gen.Consts.
Import ListNotations.
Open Scope Z_scope.

Definition SLASH : Z := 47.
Definition DOT : Z := 46.

(* byte-string equality *)
Fixpoint beqb (a b : list Z) : bool :=
  match a, b with
  | [], [] => true
  | x :: a', y :: b' => (x =? y) && beqb a' b'
  | _, _ => false
  end.

(* strings.Split(p, "/"): never empty; "" gives [""] *)
Fixpoint split (l : list Z) : list (list Z) :=
  match l with
  | [] => [[]]
  | c :: t =>
    if c =? SLASH then [] :: split t
    else match split t with
         | s :: r => (c :: s) :: r
         | [] => [[c]]
         end
  end.

Definition is_empty (s : list Z) : bool := match s with [] => true | _ => false end.
Definition is_dot (s : list Z) : bool := beqb s [DOT].
Definition is_dotdot (s : list Z) : bool := beqb s [DOT; DOT].

(* a segment that is not a plain name *)
Definition unsafe_seg (s : list Z) : bool := is_empty s || is_dot s || is_dotdot s.

(* hasUnsafeSegment *)
Definition has_unsafe_segment (p : list Z) : bool := existsb unsafe_seg (split p).

Definition is_abs (l : list Z) : bool :=
  match l with a :: _ => a =? SLASH | [] => false end.

Definition validate_rel_path (p : list Z) : bool :=
  (Z.of_nat (length p) <=? c_maxRelPathLength) && negb (has_unsafe_segment p) && negb (is_abs p) &&
  negb (is_empty p).

(* Call-order skeletons of the functions that must authenticate before they
   transfer (property C08): syntax (Gen/AuthOrder.v is generated in it by
   tools/gotrans/gen_c08.go), path semantics, and the checker.  Definitions only.

   A skeleton keeps, of a Go function body: control flow (if/else, switch,
   select as choice; for/range as loop; return / exitWith / os.Exit as exit;
   break / continue), the successful-or-not calls of authenticateTransport
   (`if err := authenticateTransport(ctx, X, CODE, ROLE); err != nil { fail }`),
   the assignments to variables that can flow into a transfer call, and the
   transfer calls themselves ("sinks") with the connection-valued argument. *)
From Coq Require Import List String Bool Arith.
Import ListNotations.
Open Scope string_scope.

(* a connection-valued expression, flattened: the connections it may contain *)
Inductive atom :=
| AVar (x : string)      (* whatever variable x holds (field selectors, indexing, slicing of x included) *)
| ASrc (f : string)      (* result of a helper proved to return authenticated connections only *)
| AOpaque (f : string).  (* result of any other call / receive: arbitrary connections *)
Definition cexpr := list atom.   (* union; [] = holds no connection (nil, make(..)) *)

Inductive prog :=
| PSkip
| PSeq (s t : prog)
| PAssign (x : string) (e : cexpr)
| PUse (f : string) (e : cexpr)              (* call f with the connections e *)
| PAuth (x code role : string) (fail : prog) (* authenticateTransport on x; `fail` runs when it returns an error *)
| PIf (a b : prog)
| PLoop (body : prog)
| PBreak                                     (* break or continue *)
| PExit.                                     (* return, exitWith(..), os.Exit(..) *)

Definition sinks : list string :=
  ["SendManifestMultiStream"; "RecvManifestMultiStream"; "NewMultiConn";
   "sendDumbData"; "sendDumbDataMulti"; "recvDumbDiscard"; "recvDumbDiscardMulti";
   "SendManifest"; "RecvManifest"; "return"].
Definition sources : list string := ["dialExtraConns"; "acceptExtraConns"].

Definition mem (x : string) (A : list string) : bool := existsb (String.eqb x) A.
Definition is_sink (f : string) : bool := mem f sinks.
Definition is_source (f : string) : bool := mem f sources.

(* ---- path semantics ---- *)

(* connections are numbers; env: what each variable holds; auth: the
   connections on which an authenticateTransport call has returned nil *)
Record cstate := { env : string -> list nat; auth : list nat }.

Definition upd (ev : string -> list nat) (x : string) (v : list nat) : string -> list nat :=
  fun y => if String.eqb x y then v else ev y.

(* eval ev e ids fresh: e may evaluate to ids; `fresh` are the connections a
   source helper returned (it authenticated them itself) *)
Inductive eval (ev : string -> list nat) : cexpr -> list nat -> list nat -> Prop :=
| ev_nil : eval ev [] [] []
| ev_var x e ids fr : eval ev e ids fr -> eval ev (AVar x :: e) (ev x ++ ids) fr
| ev_src f e l ids fr : is_source f = true -> eval ev e ids fr -> eval ev (ASrc f :: e) (l ++ ids) (l ++ fr)
| ev_src_unlisted f e l ids fr : is_source f = false -> eval ev e ids fr -> eval ev (ASrc f :: e) (l ++ ids) fr
| ev_opaque f e l ids fr : eval ev e ids fr -> eval ev (AOpaque f :: e) (l ++ ids) fr.

Inductive outcome := ONorm | OBrk | OExit | OViol.

Section Sem.
  Variables exp_code exp_role : string.   (* the join-code expression and role constant an authentication must use *)

  Definition auth_counts (code role : string) : bool := String.eqb code exp_code && String.eqb role exp_role.

  Inductive exec : prog -> cstate -> outcome -> cstate -> Prop :=
  | x_skip s : exec PSkip s ONorm s
  | x_seq_n p q s s1 o s2 : exec p s ONorm s1 -> exec q s1 o s2 -> exec (PSeq p q) s o s2
  | x_seq_x p q s o s1 : exec p s o s1 -> o <> ONorm -> exec (PSeq p q) s o s1
  | x_assign x e s ids fr : eval (env s) e ids fr ->
      exec (PAssign x e) s ONorm {| env := upd (env s) x ids; auth := auth s ++ fr |}
  | x_use_ok f e s ids fr : eval (env s) e ids fr ->
      (is_sink f = false \/ forall i, In i ids -> In i (auth s ++ fr)) ->
      exec (PUse f e) s ONorm {| env := env s; auth := auth s ++ fr |}
  | x_use_viol f e s ids fr i : eval (env s) e ids fr ->
      is_sink f = true -> In i ids -> ~ In i (auth s ++ fr) ->
      exec (PUse f e) s OViol s          (* a transfer call on a connection that never passed authentication *)
  | x_auth_ok x code role fail s : auth_counts code role = true ->
      exec (PAuth x code role fail) s ONorm {| env := env s; auth := auth s ++ env s x |}
  | x_auth_other x code role fail s : auth_counts code role = false ->
      exec (PAuth x code role fail) s ONorm s       (* wrong code / role: proves nothing about x *)
  | x_auth_fail x code role fail s o s1 : exec fail s o s1 -> exec (PAuth x code role fail) s o s1
  | x_if_a a b s o s1 : exec a s o s1 -> exec (PIf a b) s o s1
  | x_if_b a b s o s1 : exec b s o s1 -> exec (PIf a b) s o s1
  | x_loop_done body s : exec (PLoop body) s ONorm s
  | x_loop_next body s o1 s1 o s2 : exec body s o1 s1 -> (o1 = ONorm \/ o1 = OBrk) ->
      exec (PLoop body) s1 o s2 -> exec (PLoop body) s o s2
  | x_loop_out body s o s1 : exec body s o s1 -> (o = OExit \/ o = OViol) -> exec (PLoop body) s o s1
  | x_break s : exec PBreak s OBrk s
  | x_exit s : exec PExit s OExit s.

  (* ---- the checker: forward analysis of "variables that hold authenticated connections only" ---- *)

  Definition aset := list string.
  Definition subset (A B : aset) : bool := forallb (fun x => mem x B) A.
  Definition inter (A B : aset) : aset := filter (fun x => mem x B) A.
  Definition remove (x : string) (A : aset) : aset := filter (fun y => negb (String.eqb x y)) A.

  Definition atom_ok (A : aset) (a : atom) : bool :=
    match a with AVar x => mem x A | ASrc f => is_source f | AOpaque _ => false end.
  Definition authd (A : aset) (e : cexpr) : bool := forallb (atom_ok A) e.

  (* None = unreachable *)
  Definition meet (a b : option aset) : option aset :=
    match a, b with
    | None, x | x, None => x
    | Some A, Some B => Some (inter A B)
    end.
  Definition below (I : aset) (a : option aset) : bool :=
    match a with None => true | Some A => subset I A end.

  Record res := { ok : bool; norm : option aset; brk : option aset }.

  Fixpoint iter_inv (f : aset -> res) (fuel : nat) (I : aset) : aset :=
    match fuel with
    | O => I
    | S k => let r := f I in
             let I' := match meet (Some I) (meet (norm r) (brk r)) with Some J => J | None => I end in
             iter_inv f k I'
    end.

  Fixpoint ai (p : prog) (A : aset) : res :=
    match p with
    | PSkip => {| ok := true; norm := Some A; brk := None |}
    | PSeq s t =>
      let r := ai s A in
      match norm r with
      | None => r
      | Some A1 => let r2 := ai t A1 in
                   {| ok := ok r && ok r2; norm := norm r2; brk := meet (brk r) (brk r2) |}
      end
    | PAssign x e => {| ok := true; norm := Some (if authd A e then x :: A else remove x A); brk := None |}
    | PUse f e => {| ok := negb (is_sink f) || authd A e; norm := Some A; brk := None |}
    | PAuth x code role fail =>
      let rf := ai fail A in
      {| ok := ok rf; norm := meet (Some (if auth_counts code role then x :: A else A)) (norm rf); brk := brk rf |}
    | PIf a b =>
      let ra := ai a A in let rb := ai b A in
      {| ok := ok ra && ok rb; norm := meet (norm ra) (norm rb); brk := meet (brk ra) (brk rb) |}
    | PLoop body =>
      let I := iter_inv (ai body) (S (List.length A)) A in
      let r := ai body I in
      {| ok := ok r && subset I A && below I (norm r) && below I (brk r); norm := Some I; brk := None |}
    | PBreak => {| ok := true; norm := None; brk := Some A |}
    | PExit => {| ok := true; norm := None; brk := None |}
    end.

  Definition check (p : prog) : bool := ok (ai p []).
End Sem.

(* the helpers must not themselves rely on a source (no circular trust) *)
Fixpoint src_free (p : prog) : bool :=
  let ef := forallb (fun a => match a with ASrc _ => false | _ => true end) in
  match p with
  | PSkip | PBreak | PExit => true
  | PSeq s t | PIf s t => src_free s && src_free t
  | PAssign _ e | PUse _ e => ef e
  | PAuth _ _ _ f => src_free f
  | PLoop b => src_free b
  end.

(* number of sink call sites / authentication sites in a skeleton *)
Fixpoint count_sinks (p : prog) : nat :=
  match p with
  | PSeq s t | PIf s t => count_sinks s + count_sinks t
  | PUse f _ => if is_sink f && negb (String.eqb f "return") then 1 else 0
  | PAuth _ _ _ f => count_sinks f
  | PLoop b => count_sinks b
  | _ => 0
  end.
Fixpoint count_auth (p : prog) : nat :=
  match p with
  | PSeq s t | PIf s t => count_auth s + count_auth t
  | PAuth _ _ _ f => 1 + count_auth f
  | PLoop b => count_auth b
  | _ => 0
  end.

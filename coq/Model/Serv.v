(* The signaling server's handling of connections and inbound frames
   (cmd/thruserv/main.go handleWebSocket) on top of the hub model: who receives
   which envelope, with which `from`.  Sequential histories (each operation runs
   to quiescence: writers drain before the next one), which is how the
   end-to-end correspondence drives the real thruserv binary.  Hand-written;
   tied to the code by Corr/C10.v. *)
From Coq Require Import List Arith Bool.
Import ListNotations.
From TF Require Import Model.Hub.

(* what a client reads from its socket *)
Inductive smsg :=
| MList (peers : list (nat * nat))              (* peer_list: (peer, role), from "server" *)
| MJoined (p role : nat)                        (* peer_joined, from "server" *)
| MLeft (p : nat)                               (* peer_left, from "server" *)
| MFwd (from : nat) (to : option nat) (sess : nat) (m : nat)   (* a forwarded client envelope *)
| MErr (to : nat).                              (* error peer_not_found, from "server", addressed to the author *)

Inductive frame :=
| FBinary                                       (* not a text frame: ignored *)
| FBadJson                                      (* ignored *)
| FInvalid                                      (* fails ValidateBasic: ignored *)
| FEnv (claim_from : nat) (claim_sess : option nat) (to : option nat) (m : nat).

Inductive sop :=
| Connect (sess peer role c : nat)
| Frame (c : nat) (f : frame)
| Disconnect (c : nat).

Record serv := mks {
  hubst : hub;
  roles : list (nat * nat);           (* conn -> role *)
  minfo : list (nat * smsg);          (* hub message id -> envelope *)
  logs : list (nat * list smsg);      (* conn -> what its socket carried, in order *)
  nextm : nat
}.

Definition sinit (cap : nat) : serv := mks (init cap) [] [] [] 0.

Fixpoint lookup {A} (k : nat) (l : list (nat * A)) : option A :=
  match l with [] => None | (k', v) :: r => if Nat.eqb k k' then Some v else lookup k r end.

Fixpoint log_add (c : nat) (ms : list smsg) (l : list (nat * list smsg)) : list (nat * list smsg) :=
  match l with
  | [] => [(c, ms)]
  | (c', old) :: r => if Nat.eqb c c' then (c', old ++ ms) :: r else (c', old) :: log_add c ms r
  end.

(* writers drain: every queued message goes to its socket, in queue order *)
Definition drain_conn (s : serv) (x : conn) : serv :=
  let ms := map (fun m => match lookup m (minfo s) with Some e => e | None => MErr 0 end) (cq x) in
  let h' := fold_left (fun h _ => fst (step h (Pop (cid x)))) (cq x) (hubst s) in
  mks h' (roles s) (minfo s) (match ms with [] => logs s | _ => log_add (cid x) ms (logs s) end) (nextm s).

Definition drain (s : serv) : serv := fold_left drain_conn (conns (hubst s)) s.

Definition with_hub (s : serv) (h : hub) : serv := mks h (roles s) (minfo s) (logs s) (nextm s).

Definition fresh_msg (s : serv) (e : smsg) : serv * nat :=
  (mks (hubst s) (roles s) ((nextm s, e) :: minfo s) (logs s) (S (nextm s)), nextm s).

Definition direct (s : serv) (c : nat) (e : smsg) : serv :=
  mks (hubst s) (roles s) (minfo s) (log_add c [e] (logs s)) (nextm s).

Definition peer_list (s : serv) (sess : nat) : list (nat * nat) :=
  match att_gen sess (maps (hubst s)) with
  | None => []
  | Some g => map (fun x => (cpeer x, match lookup (cid x) (roles s) with Some r => r | None => 0 end))
                  (filter (fun x => ogen_eqb (cgen x) g) (conns (hubst s)))
  end.

Definition sstep (s : serv) (o : sop) : serv :=
  match o with
  | Connect sess peer role c =>
    let s1 := mks (fst (step (hubst s) (Add sess peer c))) ((c, role) :: roles s) (minfo s) (logs s) (nextm s) in
    let s2 := direct s1 c (MList (peer_list s1 sess)) in
    let '(s3, m) := fresh_msg s2 (MJoined peer role) in
    drain (with_hub s3 (fst (step (hubst s3) (Bcast sess None m))))
  | Frame c f =>
    match find_conn c (conns (hubst s)), f with
    | Some a, FEnv _ claim to mid =>
      let sessfield := match claim with Some x => x | None => csid a end in
      let '(s1, m) := fresh_msg s (MFwd (cpeer a) to sessfield mid) in
      match to with
      | Some p =>
        let '(h', o) := step (hubst s1) (SendTo (csid a) p m) in
        match o with
        | OBool false => drain (direct (with_hub s1 h') c (MErr (cpeer a)))
        | _ => drain (with_hub s1 h')
        end
      | None => drain (with_hub s1 (fst (step (hubst s1) (Bcast (csid a) (Some (cpeer a)) m))))
      end
    | _, _ => s
    end
  | Disconnect c =>
    match find_conn c (conns (hubst s)) with
    | Some a =>
      (* deferred functions run last-in-first-out: peer_left is broadcast first, then the hub entry is removed *)
      let '(s1, m) := fresh_msg s (MLeft (cpeer a)) in
      let h1 := fst (step (hubst s1) (Bcast (csid a) None m)) in
      let s2 := drain (with_hub s1 h1) in
      let '(h2, r) := step (hubst s2) (Rm1 c) in
      match r with
      | OBool true => with_hub s2 (fst (step (fst (step h2 (Rm2 c))) (Rm3 c)))
      | _ => with_hub s2 h2          (* replaced or session gone: remove() returned at once *)
      end
    | None => s
    end
  end.

Definition srun (s : serv) (ops : list sop) : serv := fold_left sstep ops s.

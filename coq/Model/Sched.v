(* Model of internal/scheduler/hybrid.go (HybridScheduler) and of the way
   SendManifestMultiStream uses it (multistream.go: Add of every file, then
   activateNext = Next + Add with StartedAt set, Remove when the receiver's
   FileDone arrives).

   Keys: the Go map is keyed by FileKey{StreamID, RelPath}; every ordering
   decision looks at RelPath only.  The model's key is an integer whose order
   stands for the RelPath order (the harness uses order-preserving names); the
   file table is an association list kept sorted by key, which is the order
   pendingByClass / pendingWeighted sort into.

   Not modelled, and why it does not matter for what is proved: the float
   credits (they only choose AMONG the pending medium/large files: the model's
   [Next] takes that choice as an oracle index into the sorted pending list, so
   the theorems hold for every choice and the correspondence checks that the
   real choice is a member); SmallSlotFrac is a rational num/den (the harness
   uses dyadic fractions, exact in float64); Snapshot's top_candidates. *)
From Coq Require Import List ZArith Bool Lia.
Import ListNotations.
Open Scope Z_scope.

Inductive cls := Small | Medium | Large.

Definition cls_eqb (a b : cls) : bool :=
  match a, b with Small, Small | Medium, Medium | Large, Large => true | _, _ => false end.

Record meta := mkMeta {
  msize : Z;
  mrem : Z;
  mstarted : bool;      (* !StartedAt.IsZero() *)
  mlast : option Z;     (* LastScheduledAt; None = the zero time *)
  mclass : cls          (* the stored Class field *)
}.

Record cfg := mkCfg {
  parallel : Z; smallT : Z; medT : Z;
  fracNum : Z; fracDen : Z;        (* SmallSlotFrac = fracNum / fracDen, fracDen > 0 *)
  aging : Z
}.

(* NewHybridScheduler's defaulting *)
Definition norm_cfg (c : cfg) : cfg :=
  mkCfg (if parallel c <? 1 then 1 else parallel c)
        (if smallT c <=? 0 then 4 * 1024 * 1024 else smallT c)
        (if medT c <=? 0 then 64 * 1024 * 1024 else medT c)
        (if fracNum c <=? 0 then 1 else fracNum c)
        (if fracNum c <=? 0 then 4 else fracDen c)
        (if aging c <=? 0 then 5000000000 else aging c).

Record st := mkSt { conf : cfg; files : list (Z * meta) }.

Definition init (c : cfg) : st := mkSt (norm_cfg c) [].

(* remainingForFile *)
Definition remaining_for (m : meta) : Z :=
  if 0 <? mrem m then mrem m else if 0 <? msize m then msize m else 1.

Definition class_for (c : cfg) (r : Z) : cls :=
  if r <=? smallT c then Small else if r <=? medT c then Medium else Large.

Definition eff_class (c : cfg) (m : meta) (now : Z) : cls :=
  let k := class_for c (remaining_for m) in
  match mlast m with
  | Some t => if aging c <? now - t
              then match k with Large => Medium | Medium => Small | Small => Small end
              else k
  | None => k
  end.

Fixpoint lookup (k : Z) (l : list (Z * meta)) : option meta :=
  match l with
  | [] => None
  | (k', m) :: r => if k =? k' then Some m else lookup k r
  end.

(* files[k] = m on a list kept sorted by key *)
Fixpoint put (k : Z) (m : meta) (l : list (Z * meta)) : list (Z * meta) :=
  match l with
  | [] => [(k, m)]
  | (k', m') :: r => if k =? k' then (k, m) :: r
                     else if k <? k' then (k, m) :: (k', m') :: r
                     else (k', m') :: put k m r
  end.

Fixpoint del (k : Z) (l : list (Z * meta)) : list (Z * meta) :=
  match l with
  | [] => []
  | (k', m') :: r => if k =? k' then r else (k', m') :: del k r
  end.

Definition pending (l : list (Z * meta)) : list (Z * meta) :=
  filter (fun e => negb (mstarted (snd e))) l.
Definition started (l : list (Z * meta)) : list (Z * meta) :=
  filter (fun e => mstarted (snd e)) l.

Definition small_slots (c : cfg) : Z :=
  let s := (parallel c * fracNum c) / fracDen c in
  let s := if s <? 1 then 1 else s in
  if parallel c <? s then parallel c else s.

Definition active_small (l : list (Z * meta)) : Z :=
  Z.of_nat (length (filter (fun e => mstarted (snd e) && cls_eqb (mclass (snd e)) Small) l)).

Definition pending_small (c : cfg) (now : Z) (l : list (Z * meta)) : list (Z * meta) :=
  filter (fun e => negb (mstarted (snd e)) && cls_eqb (eff_class c (snd e) now) Small) l.

Definition pending_weighted (c : cfg) (now : Z) (l : list (Z * meta)) : list (Z * meta) :=
  filter (fun e => negb (mstarted (snd e)) && negb (cls_eqb (eff_class c (snd e) now) Small)) l.

(* pickSmallestRemaining over keys sorted by RelPath: the first entry with the
   least remaining (the tie clause of the Go code never fires on a sorted list
   of distinct paths) *)
Fixpoint pick_smallest (best : Z * meta) (l : list (Z * meta)) : Z * meta :=
  match l with
  | [] => best
  | e :: r => if remaining_for (snd e) <? remaining_for (snd best) then pick_smallest e r
              else pick_smallest best r
  end.

Definition mark (now : Z) (m : meta) : meta :=
  mkMeta (msize m) (mrem m) true (Some now) (mclass m).

Inductive op :=
| Add (k : Z) (size rem : Z) (isStarted : bool) (last : option Z)
| Update (k : Z) (rem : Z)
| Remove (k : Z)
| SetParallel (n : Z)
| Next (now : Z) (choice : nat).

Inductive out := OUnit | ONext (r : option Z).

Definition with_files (s : st) (l : list (Z * meta)) : st := mkSt (conf s) l.

Definition pick_weighted (s : st) (now : Z) (choice : nat) : st * option Z :=
  match pending_weighted (conf s) now (files s) with
  | [] => (s, None)
  | w :: ws =>
      let b := nth (Nat.modulo choice (length (w :: ws))) (w :: ws) w in
      (with_files s (put (fst b) (mark now (snd b)) (files s)), Some (fst b))
  end.

Definition next (s : st) (now : Z) (choice : nat) : st * option Z :=
  match pending_small (conf s) now (files s) with
  | e :: r =>
      if active_small (files s) <? small_slots (conf s) then
        let b := pick_smallest e r in
        (with_files s (put (fst b) (mark now (snd b)) (files s)), Some (fst b))
      else pick_weighted s now choice
  | [] => pick_weighted s now choice
  end.

Definition step (s : st) (o : op) : st * out :=
  match o with
  | Add k size rem isStarted last =>
      let rem' := if rem <? 0 then size else rem in
      let m0 := mkMeta size rem' isStarted last Small in
      let m := mkMeta size rem' isStarted last (class_for (conf s) (remaining_for m0)) in
      (with_files s (put k m (files s)), OUnit)
  | Update k rem =>
      match lookup k (files s) with
      | None => (s, OUnit)
      | Some m =>
          let m0 := mkMeta (msize m) rem (mstarted m) (mlast m) (mclass m) in
          let m' := mkMeta (msize m) rem (mstarted m) (mlast m) (class_for (conf s) (remaining_for m0)) in
          (with_files s (put k m' (files s)), OUnit)
      end
  | Remove k => (with_files s (del k (files s)), OUnit)
  | SetParallel n =>
      let c := conf s in
      (mkSt (mkCfg (if n <? 1 then 1 else n) (smallT c) (medT c) (fracNum c) (fracDen c) (aging c)) (files s), OUnit)
  | Next now choice => let '(s', r) := next s now choice in (s', ONext r)
  end.

Fixpoint run (s : st) (ops : list op) : st * list out :=
  match ops with
  | [] => (s, [])
  | o :: r => let '(s1, x) := step s o in let '(s2, xs) := run s1 r in (s2, x :: xs)
  end.

(* what Snapshot() reports: files per stored class, started files per stored class *)
Definition count_class (k : cls) (l : list (Z * meta)) : Z :=
  Z.of_nat (length (filter (fun e => cls_eqb (mclass (snd e)) k) l)).
Definition snapshot (s : st) : list Z :=
  [count_class Small (files s); count_class Medium (files s); count_class Large (files s);
   count_class Small (started (files s)); count_class Medium (started (files s)); count_class Large (started (files s))].

(* ---- the sender's use of the scheduler (SendManifestMultiStream) ---------- *)

(* manifest: (key, size) of every non-directory item, keys distinct *)
Definition add_all (s : st) (fs : list (Z * Z)) : st :=
  fold_left (fun s f => fst (step s (Add (fst f) (snd f) (snd f) false None))) fs s.

Record ust := mkU {
  sched : st;
  streams : nat;            (* parallelStreams: bound on len(activeFiles) *)
  sizes : list (Z * Z);     (* the manifest's files *)
  begun : list Z;           (* files for which activateNext wrote a FileBegin, latest first *)
  active : list Z           (* activeFiles *)
}.

Inductive uev :=
| UNext (now : Z) (choice : nat)   (* nextTask's fill loop calls activateNext once *)
| UDone (k : Z).                   (* FileDone(ok) for k arrives: removed from activeFiles, sched.Remove *)

Definition size_of (k : Z) (fs : list (Z * Z)) : Z :=
  match find (fun f => fst f =? k) fs with Some f => snd f | None => 0 end.

Definition ustep (u : ust) (e : uev) : ust :=
  match e with
  | UNext now choice =>
      if (length (active u) <? streams u)%nat then
        match next (sched u) now choice with
        | (s', Some k) =>
            (* activateNext: FileBegin written, then sched.Add(key, meta with StartedAt = LastScheduledAt = now') *)
            let s'' := fst (step s' (Add k (size_of k (sizes u)) (size_of k (sizes u)) true (Some now))) in
            mkU s'' (streams u) (sizes u) (k :: begun u) (k :: active u)
        | (_, None) => u
        end
      else u
  | UDone k =>
      if existsb (Z.eqb k) (active u) then
        mkU (fst (step (sched u) (Remove k))) (streams u) (sizes u) (begun u)
            (filter (fun x => negb (x =? k)) (active u))
      else u
  end.

Definition uinit (c : cfg) (nstreams : nat) (fs : list (Z * Z)) : ust :=
  mkU (add_all (init c) fs) nstreams fs [] [].

Definition urun (u : ust) (evs : list uev) : ust := fold_left ustep evs u.

(* Model of the host's admission bookkeeping (internal/app/snapshot_sender.go:
   handlePeerJoined, handleManifestAccept, handlePeerLeft, maybeStartTransfers,
   the tail of runTransfer, cleanup).  One event per method call of the real
   object; the transfer function itself is abstract: a transfer is launched with
   a context and later ends (End) with success or failure.  Contexts form a tree
   (each transfer's context is a child of the context maybeStartTransfers was
   called with), so that "started with an already-cancelled context" is
   observable.  Hand-written; tied to the code by Corr/C12.v. *)
From Coq Require Import ZArith List Bool Arith Lia.
Import ListNotations.
Open Scope Z_scope.

Inductive status := Joined | Queued | Transferring | Done | Failed.

Definition status_eqb (a b : status) : bool :=
  match a, b with
  | Joined, Joined | Queued, Queued | Transferring, Transferring | Done, Done | Failed, Failed => true
  | _, _ => false
  end.

Definition CTX_MAIN : nat := 0%nat.
Definition CTX_BG : nat := 1%nat.

Record st := mk {
  maxr : Z;                              (* max-receivers *)
  ttl : Z;                               (* receiver TTL *)
  now : Z;                               (* the clock *)
  recvs : list (nat * (status * Z));     (* receiver -> (status, last seen); keys unique *)
  queue : list nat;
  slots : list (nat * nat);              (* receiver -> context id of its slot; keys unique *)
  parents : list nat;                    (* parents[k] = parent context of transfer k+1 (context id k+2) *)
  cancelled : list nat;                  (* cancelled context ids *)
  transfers : list (nat * bool);         (* launch order: (receiver, context already dead at launch) *)
  running : list nat                     (* transfer ids (1-based) whose function has not returned *)
}.

Definition init (maxr ttl : Z) : st := mk maxr ttl 0 [] [] [] [] [] [] [].

Inductive ev :=
| Join (p : nat)
| AcceptEnq (p : nat)      (* handleManifestAccept *)
| Kick                     (* maybeStartTransfers(main context) *)
| Leave (p : nat)
| End (tid : nat) (ok : bool)
| Tick (d : Z)
| Cleanup.

(* ---- association-list helpers ---- *)
Fixpoint lookup {A} (k : nat) (l : list (nat * A)) : option A :=
  match l with
  | [] => None
  | (k', v) :: r => if Nat.eqb k k' then Some v else lookup k r
  end.

Fixpoint upsert {A} (k : nat) (v : A) (l : list (nat * A)) : list (nat * A) :=
  match l with
  | [] => [(k, v)]
  | (k', v') :: r => if Nat.eqb k k' then (k, v) :: r else (k', v') :: upsert k v r
  end.

Fixpoint remove_key {A} (k : nat) (l : list (nat * A)) : list (nat * A) :=
  match l with
  | [] => []
  | (k', v') :: r => if Nat.eqb k k' then remove_key k r else (k', v') :: remove_key k r
  end.

Definition mem (k : nat) (l : list nat) : bool := existsb (Nat.eqb k) l.

(* ---- contexts ---- *)
Definition ctx_of_tid (tid : nat) : nat := S tid.     (* transfer 1 has context 2 *)

Definition parent_of (s : st) (c : nat) : nat := nth (c - 2) (parents s) CTX_MAIN.

Fixpoint ctx_dead_fuel (fuel : nat) (s : st) (c : nat) : bool :=
  if mem c (cancelled s) then true else
  if (c <=? 1)%nat then false else
  match fuel with
  | O => false
  | S f => ctx_dead_fuel f s (parent_of s c)
  end.

Definition ctx_dead (s : st) (c : nat) : bool := ctx_dead_fuel (S (length (parents s))) s c.

(* ---- setters ---- *)
Definition set_recvs s v := mk (maxr s) (ttl s) (now s) v (queue s) (slots s) (parents s) (cancelled s) (transfers s) (running s).
Definition set_queue s v := mk (maxr s) (ttl s) (now s) (recvs s) v (slots s) (parents s) (cancelled s) (transfers s) (running s).
Definition set_slots s v := mk (maxr s) (ttl s) (now s) (recvs s) (queue s) v (parents s) (cancelled s) (transfers s) (running s).
Definition set_now s v := mk (maxr s) (ttl s) v (recvs s) (queue s) (slots s) (parents s) (cancelled s) (transfers s) (running s).
Definition set_cancelled s v := mk (maxr s) (ttl s) (now s) (recvs s) (queue s) (slots s) (parents s) v (transfers s) (running s).
Definition set_running s v := mk (maxr s) (ttl s) (now s) (recvs s) (queue s) (slots s) (parents s) (cancelled s) (transfers s) v.

(* launching a transfer for p under context c *)
Definition launch (s : st) (p c : nat) : st :=
  let tid := S (length (transfers s)) in
  mk (maxr s) (ttl s) (now s)
     (upsert p (Transferring, now s) (recvs s))
     (queue s)
     (upsert p (ctx_of_tid tid) (slots s))
     (parents s ++ [c])
     (cancelled s)
     (transfers s ++ [(p, ctx_dead s c)])
     (running s ++ [tid]).

(* maybeStartTransfers(ctx): every iteration pops the queue head *)
Fixpoint maybe_start (fuel : nat) (s : st) (c : nat) : st :=
  match fuel with
  | O => s
  | S f =>
    if (maxr s <=? Z.of_nat (length (slots s))) then s else
    match queue s with
    | [] => s
    | p :: q =>
      let s1 := set_queue s q in
      match lookup p (recvs s1) with
      | None => maybe_start f s1 c
      | Some (stt, _) =>
        if status_eqb stt Transferring then maybe_start f s1 c
        else maybe_start f (launch s1 p c) c
      end
    end
  end.

Definition start_all (s : st) (c : nat) : st := maybe_start (S (length (queue s))) s c.

Definition peer_of_tid (s : st) (tid : nat) : option nat :=
  match nth_error (transfers s) (tid - 1) with Some (p, _) => Some p | None => None end.

Definition step (s : st) (e : ev) : st :=
  match e with
  | Join p =>
    set_recvs s (upsert p (Joined, now s) (recvs s))
  | AcceptEnq p =>
    match lookup p (recvs s) with
    | Some (Transferring, _) => set_recvs s (upsert p (Transferring, now s) (recvs s))
    | _ =>
      let s1 := set_recvs s (upsert p (Queued, now s) (recvs s)) in
      if mem p (queue s1) then s1 else set_queue s1 (queue s1 ++ [p])
    end
  | Kick => start_all s CTX_MAIN
  | Leave p =>
    let s1 := match lookup p (recvs s) with
              | Some (Done, _) | None => s
              | Some _ => set_recvs s (upsert p (Failed, now s) (recvs s))
              end in
    let s2 := match lookup p (slots s1) with
              | Some c => set_slots (set_cancelled s1 (c :: cancelled s1)) (remove_key p (slots s1))
              | None => s1
              end in
    let s3 := set_queue s2 (filter (fun q => negb (Nat.eqb q p)) (queue s2)) in
    start_all s3 CTX_BG
  | End tid ok =>
    if negb (mem tid (running s)) then s else
    match peer_of_tid s tid with
    | None => s
    | Some p =>
      let s0 := set_running s (filter (fun t => negb (Nat.eqb t tid)) (running s)) in
      let s1 := match lookup p (recvs s0) with
                | Some _ => set_recvs s0 (upsert p ((if ok then Done else Failed), now s0) (recvs s0))
                | None => s0
                end in
      let s2 := set_slots s1 (remove_key p (slots s1)) in
      start_all s2 CTX_BG   (* context.WithoutCancel(ctx): detached from the ended transfer *)
    end
  | Tick d => set_now s (now s + d)
  | Cleanup =>
    let keep := filter (fun kv => match kv with (_, (stt, seen)) =>
                   status_eqb stt Transferring || negb (ttl s <? now s - seen) end) (recvs s) in
    if (length keep =? length (recvs s))%nat then s else
    let s1 := set_recvs s keep in
    set_queue s1 (filter (fun q => match lookup q keep with Some _ => true | None => false end) (queue s1))
  end.

Definition run (s : st) (evs : list ev) : st := fold_left step evs s.

(* ---- observables compared with the implementation ---- *)
Definition status_code (o : option (status * Z)) : Z :=
  match o with
  | None => 0
  | Some (Joined, _) => 1 | Some (Queued, _) => 2 | Some (Transferring, _) => 3
  | Some (Done, _) => 4 | Some (Failed, _) => 5
  end.

Definition observe (npeers : nat) (s : st) : list nat * list (Z * bool) * list (nat * bool) * list bool :=
  (queue s,
   map (fun p => (status_code (lookup p (recvs s)), match lookup p (slots s) with Some _ => true | None => false end)) (seq 0 npeers),
   transfers s,
   map (fun tid => ctx_dead s (ctx_of_tid tid)) (seq 1 (length (transfers s)))).

(* Model of connection racing (internal/ice/ice.go ProbeAndDial /
   probeWithTransport) together with the accepting side's choice of its primary
   connection (internal/app/snapshot_receiver.go runTransfer: acceptOnce).

   Dialing side, per phase (direct candidates first, then relay candidates): one
   dial goroutine per distinct candidate; `tr.Dial` returns a connection
   (DialOk) or an error (DialFail); a goroutine that holds a connection then
   executes its hand-over (Deliver): the first one of the phase (compare-and-swap
   on `won`) puts the connection into the result channel of capacity 1, every
   later one closes its connection ("race_lost").  The caller sits in a select
   with three arms: the result channel (Take), the context (CtxArm) and allDone
   (AllDoneArm, enabled once every dial goroutine of the phase has finished; it
   re-checks the channel).  Leaving through CtxArm starts a drainer (Drain) that
   closes whatever connection is or will be parked in the channel once all dials
   are over.  Returning cancels the context (deferred cancel).

   `fx = true` is the code as it stands (after the fix commits); `fx = false`
   is the code before them: hand-over by a non-blocking send into the channel
   (so a late winner is parked in the empty buffer after the winner was taken),
   no re-check in the allDone arm, no drainer.  Theorems are about fx = true; the
   fx = false machine only serves the recorded refutations.

   Accepting side: the listener's accept queue holds connections in the order in
   which their SERVER-side handshakes complete (SrvUp), independent of the order
   in which the client-side dials return; acceptOnce commits to the head
   (Accept).

   A connection is identified by (phase index, candidate id).  Everything that is
   nondeterministic (which dial returns when and how, when goroutines run, which
   select arm fires, when the outer context is cancelled, server-side completion
   order) is an event; "all schedules" = all event lists accepted by `step`.
   Hand-written; tied to the code by Corr/C09.v. *)
From Coq Require Import ZArith List Bool Arith.
Import ListNotations.
Open Scope Z_scope.

Definition memz (x : Z) (l : list Z) : bool := existsb (Z.eqb x) l.

(* ---- candidate lists: a candidate is 2*address + (1 if "turn:"-prefixed) ---- *)
Definition is_turn (c : Z) : bool := Z.odd c.

Fixpoint dedup (l : list Z) : list Z :=
  match l with
  | [] => []
  | x :: r => if memz x r then dedup r else x :: dedup r
  end.

Definition isnil {A} (l : list A) : bool := match l with [] => true | _ => false end.

(* the phases ProbeAndDial runs, in order *)
Definition plan (turn_only : bool) (cs : list Z) : list (list Z) :=
  let u := dedup cs in
  let d := filter (fun c => negb (is_turn c)) u in
  let t := filter is_turn u in
  (if turn_only || isnil d then [] else [d]) ++ (if isnil t then [] else [t]).

(* ---- the machine ---- *)
Inductive gst :=
| GDial      (* in tr.Dial (or not started yet) *)
| GHave      (* tr.Dial returned a connection; hand-over not yet executed *)
| GFail      (* tr.Dial returned an error (unreachable, invalid, cancelled) *)
| GPush      (* connection handed to the result channel *)
| GClosed.   (* connection closed by the dialing side *)

Definition g_done (g : gst) : bool := match g with GDial | GHave => false | _ => true end.

Inductive dr := DNone | DPending | DDone.

Record phase := mkP {
  pc : list Z;          (* candidates of the phase *)
  gs : Z -> gst;        (* state of each dial goroutine / its connection *)
  pwon : bool;          (* a connection has been handed over *)
  pch : option Z;       (* content of the result channel (capacity 1) *)
  pdr : dr              (* drainer started when the caller left through the context arm *)
}.

Definition p0 (c : list Z) : phase := mkP c (fun _ => GDial) false None DNone.

Definition all_done (p : phase) : bool := forallb (fun i => g_done (gs p i)) (pc p).

Definition conn := (nat * Z)%type.
Definition conn_eqb (a b : conn) : bool := Nat.eqb (fst a) (fst b) && (snd a =? snd b).

Inductive caller := Sel | Ret (r : option conn).

Record st := mkS {
  ph : nat -> phase;
  nph : nat;              (* number of phases *)
  cur : nat;              (* phase the caller is in (the last one started) *)
  call : caller;
  cancelled : bool;       (* the dial context is cancelled *)
  srvq : list conn;       (* listener's accept queue, server-side completion order *)
  srvup : list conn;      (* every connection whose server side ever completed *)
  prim : option conn      (* the connection acceptOnce committed to *)
}.

Definition init (phases : list (list Z)) : st :=
  mkS (fun k => p0 (nth k phases [])) (length phases) 0%nat
      (if isnil phases then Ret None else Sel) (isnil phases) [] [] None.

Inductive ev :=
| DialOk (k : nat) (i : Z)
| DialFail (k : nat) (i : Z)
| Deliver (k : nat) (i : Z)
| Take
| CtxArm
| AllDoneArm
| Cancel
| Drain (k : nat)
| SrvUp (k : nat) (i : Z)
| Accept.

Definition updg (f : Z -> gst) (i : Z) (g : gst) : Z -> gst := fun j => if j =? i then g else f j.
Definition setp (s : st) (k : nat) (p : phase) : st :=
  mkS (fun j => if Nat.eqb j k then p else ph s j) (nph s) (cur s) (call s) (cancelled s) (srvq s) (srvup s) (prim s).
Definition set_gs (p : phase) (i : Z) (g : gst) : phase := mkP (pc p) (updg (gs p) i g) (pwon p) (pch p) (pdr p).

Definition gst_eqb (a b : gst) : bool :=
  match a, b with
  | GDial, GDial | GHave, GHave | GFail, GFail | GPush, GPush | GClosed, GClosed => true
  | _, _ => false
  end.

(* the caller leaves the select of the current phase without a connection *)
Definition advance (s : st) : st :=
  if (S (cur s) <? nph s)%nat
  then mkS (ph s) (nph s) (S (cur s)) Sel (cancelled s) (srvq s) (srvup s) (prim s)
  else mkS (ph s) (nph s) (cur s) (Ret None) true (srvq s) (srvup s) (prim s).

(* the caller returns connection i of the current phase *)
Definition take (s : st) (i : Z) : st :=
  let p := ph s (cur s) in
  let s' := setp s (cur s) (mkP (pc p) (gs p) (pwon p) None (pdr p)) in
  mkS (ph s') (nph s) (cur s) (Ret (Some (cur s, i))) true (srvq s) (srvup s) (prim s).

Definition is_sel (c : caller) : bool := match c with Sel => true | _ => false end.

Definition step (fx : bool) (s : st) (e : ev) : option st :=
  match e with
  | DialOk k i =>
      let p := ph s k in
      if (k <=? cur s)%nat && memz i (pc p) && gst_eqb (gs p i) GDial
      then Some (setp s k (set_gs p i GHave)) else None
  | DialFail k i =>
      let p := ph s k in
      if (k <=? cur s)%nat && memz i (pc p) && gst_eqb (gs p i) GDial
      then Some (setp s k (set_gs p i GFail)) else None
  | Deliver k i =>
      let p := ph s k in
      if (k <=? cur s)%nat && memz i (pc p) && gst_eqb (gs p i) GHave then
        let push := mkP (pc p) (updg (gs p) i GPush) true (Some i) (pdr p) in
        let close := set_gs p i GClosed in
        if fx then Some (setp s k (if pwon p then close else push))
        else Some (setp s k (match pch p with None => push | Some _ => close end))
      else None
  | Take =>
      if is_sel (call s) then
        match pch (ph s (cur s)) with Some i => Some (take s i) | None => None end
      else None
  | CtxArm =>
      if is_sel (call s) && cancelled s then
        let p := ph s (cur s) in
        Some (advance (if fx then setp s (cur s) (mkP (pc p) (gs p) (pwon p) (pch p) DPending) else s))
      else None
  | AllDoneArm =>
      if is_sel (call s) && all_done (ph s (cur s)) then
        if fx then
          match pch (ph s (cur s)) with Some i => Some (take s i) | None => Some (advance s) end
        else Some (advance s)
      else None
  | Cancel => Some (mkS (ph s) (nph s) (cur s) (call s) true (srvq s) (srvup s) (prim s))
  | Drain k =>
      let p := ph s k in
      if fx && (k <=? cur s)%nat && all_done p then
        match pdr p with
        | DPending =>
            match pch p with
            | Some i => Some (setp s k (mkP (pc p) (updg (gs p) i GClosed) (pwon p) None DDone))
            | None => Some (setp s k (mkP (pc p) (gs p) (pwon p) None DDone))
            end
        | _ => None
        end
      else None
  | SrvUp k i =>
      if (k <=? cur s)%nat && memz i (pc (ph s k)) && negb (existsb (conn_eqb (k, i)) (srvup s))
      then Some (mkS (ph s) (nph s) (cur s) (call s) (cancelled s) (srvq s ++ [(k, i)]) ((k, i) :: srvup s) (prim s))
      else None
  | Accept =>
      match prim s, srvq s with
      | None, c :: q => Some (mkS (ph s) (nph s) (cur s) (call s) (cancelled s) q (srvup s) (Some c))
      | _, _ => None
      end
  end.

Fixpoint run (fx : bool) (s : st) (evs : list ev) : option st :=
  match evs with
  | [] => Some s
  | e :: r => match step fx s e with Some s' => run fx s' r | None => None end
  end.

(* ---- observables ---- *)
Definition returned (s : st) : option conn := match call s with Ret r => r | Sel => None end.

(* dialing-side view of connection (k,i): 0 never established, 1 established and
   open, 2 established and closed by the dialing side *)
Definition conn_class (s : st) (k : nat) (i : Z) : Z :=
  match gs (ph s k) i with
  | GDial | GFail => 0
  | GHave | GPush => 1
  | GClosed => 2
  end.

(* nothing left to run on the dialing side *)
Definition phase_quiet (p : phase) : bool :=
  all_done p && match pdr p with DPending => false | _ => true end.

Fixpoint upto (n : nat) : list nat := match n with O => [] | S m => upto m ++ [m] end.

Definition quiescent (s : st) : bool :=
  negb (is_sel (call s)) && forallb (fun k => phase_quiet (ph s k)) (upto (S (cur s))).

(* connection (k,i) is established, not closed by the dialing side and not the
   one the caller got: a leaked connection *)
Definition leaked (s : st) (k : nat) (i : Z) : bool :=
  match gs (ph s k) i with
  | GHave | GPush => negb (match returned s with Some c => conn_eqb c (k, i) | None => false end)
  | _ => false
  end.

(* ---- progress measure of the dialing side ---- *)
(* events of the dialing side (the others: the outer Cancel and the accepting side) *)
Definition dial_side (e : ev) : bool :=
  match e with Cancel | SrvUp _ _ | Accept => false | _ => true end.

Definition gw (g : gst) : nat := match g with GDial => 2 | GHave => 1 | _ => 0 end.
Fixpoint gsum (f : Z -> gst) (l : list Z) : nat :=
  match l with [] => 0 | i :: r => gw (f i) + gsum f r end.
Definition pm (p : phase) : nat :=
  gsum (gs p) (pc p) + match pdr p with DPending => 1 | _ => 0 end.
Fixpoint psumn (f : nat -> phase) (n : nat) : nat :=
  match n with O => 0 | S m => psumn f m + pm (f m) end.
Definition span (s : st) : nat := Nat.max (nph s) (S (cur s)).
Definition measure (s : st) : nat :=
  (match call s with Sel => 2 * (span s - cur s) | Ret _ => 0 end) + psumn (ph s) (span s).

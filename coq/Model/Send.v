(* The sender's completion logic (internal/transfer/multistream.go
   SendManifestMultiStream: the acknowledgement reader, the per-file FileDone
   waiters started by sendFileEnd, setErr, and the decision after wg.Wait) as an
   event-list machine.  What the workers send is Model/Dispatch.v (C17); this
   model is about WHEN the function may return nil.  Tied to the code by
   Corr/C02.v (send cases): the real sender runs against a scripted receiver. *)
From Coq Require Import ZArith List Bool.
Import ListNotations.
Open Scope Z_scope.

Inductive sev :=
| SEndSent (k : Z)            (* FileEnd of file k written; a waiter for its FileDone starts *)
| SAck (k : Z) (ok : bool)    (* acknowledgement reader: FileDone{k, ok} delivered to the registry *)
| SWaiter (k : Z)             (* the waiter of k takes its FileDone *)
| SReaderStops (silent : bool)(* the reader ends: io.EOF / Canceled (silently) or any other error (setErr) *)
| SFail                       (* a worker, a control write or a resume exchange fails: setErr *)
| SCancel                     (* the caller's context is cancelled or its deadline passes *)
| SReturn (end_ok : bool).    (* every worker has left its loop (wg.Wait returns); end_ok: writing End works *)

Inductive sres := SSuccess | SFailed.

Record sst := {
  s_files : list Z;              (* keys of the manifest's files *)
  s_pending : list (Z * bool);   (* registry: FileDone delivered, not yet taken *)
  s_waiting : list Z;            (* waiters started, not yet served *)
  s_acked : list Z;              (* files whose FileDone{ok} a waiter has taken: completedCount = length *)
  s_acks_seen : list (Z * bool); (* GHOST: every FileDone the reader delivered *)
  s_err : bool; s_cancelled : bool; s_reader_gone : bool;
  s_result : option sres }.

Definition sinit (files : list Z) : sst :=
  {| s_files := files; s_pending := []; s_waiting := []; s_acked := []; s_acks_seen := [];
     s_err := false; s_cancelled := false; s_reader_gone := false; s_result := None |}.

Fixpoint lookup_ack (k : Z) (l : list (Z * bool)) : option bool :=
  match l with [] => None | (k', ok) :: r => if k' =? k then Some ok else lookup_ack k r end.
Fixpoint remove_ack (k : Z) (l : list (Z * bool)) : list (Z * bool) :=
  match l with [] => [] | (k', ok) :: r => if k' =? k then remove_ack k r else (k', ok) :: remove_ack k r end.
Fixpoint removeZ (k : Z) (l : list Z) : list Z :=
  match l with [] => [] | x :: r => if x =? k then r else x :: removeZ k r end.
Definition memZ (x : Z) (l : list Z) : bool := existsb (Z.eqb x) l.

Definition nfiles (s : sst) : Z := Z.of_nat (length (s_files s)).

(* the workers leave nextTask only when the transfer context is done (error or
   cancellation), when every file was acknowledged, or when there is no file *)
Definition workers_can_leave (s : sst) : bool :=
  s_err s || s_cancelled s || (nfiles s <=? Z.of_nat (length (s_acked s))).

Definition sstep (s : sst) (e : sev) : sst :=
  match s_result s with
  | Some _ => s
  | None =>
    match e with
    | SEndSent k =>
        {| s_files := s_files s; s_pending := s_pending s; s_waiting := s_waiting s ++ [k]; s_acked := s_acked s;
           s_acks_seen := s_acks_seen s; s_err := s_err s; s_cancelled := s_cancelled s;
           s_reader_gone := s_reader_gone s; s_result := None |}
    | SAck k ok =>
        if s_reader_gone s then s else
        {| s_files := s_files s; s_pending := (k, ok) :: remove_ack k (s_pending s); s_waiting := s_waiting s;
           s_acked := s_acked s; s_acks_seen := (k, ok) :: s_acks_seen s; s_err := s_err s;
           s_cancelled := s_cancelled s; s_reader_gone := false; s_result := None |}
    | SWaiter k =>
        if negb (memZ k (s_waiting s)) then s else
        match lookup_ack k (s_pending s) with
        | None => s
        | Some ok =>
            {| s_files := s_files s; s_pending := remove_ack k (s_pending s); s_waiting := removeZ k (s_waiting s);
               s_acked := if ok then k :: s_acked s else s_acked s; s_acks_seen := s_acks_seen s;
               s_err := s_err s || negb ok; s_cancelled := s_cancelled s; s_reader_gone := s_reader_gone s;
               s_result := None |}
        end
    | SReaderStops silent =>
        {| s_files := s_files s; s_pending := s_pending s; s_waiting := s_waiting s; s_acked := s_acked s;
           s_acks_seen := s_acks_seen s; s_err := s_err s || negb silent; s_cancelled := s_cancelled s;
           s_reader_gone := true; s_result := None |}
    | SFail =>
        {| s_files := s_files s; s_pending := s_pending s; s_waiting := s_waiting s; s_acked := s_acked s;
           s_acks_seen := s_acks_seen s; s_err := true; s_cancelled := s_cancelled s;
           s_reader_gone := s_reader_gone s; s_result := None |}
    | SCancel =>
        {| s_files := s_files s; s_pending := s_pending s; s_waiting := s_waiting s; s_acked := s_acked s;
           s_acks_seen := s_acks_seen s; s_err := s_err s; s_cancelled := true;
           s_reader_gone := s_reader_gone s; s_result := None |}
    | SReturn end_ok =>
        if negb (workers_can_leave s) then s else
        let r := if s_err s then SFailed
                 else if s_cancelled s then SFailed
                 else if Z.of_nat (length (s_acked s)) <? nfiles s then SFailed
                 else if end_ok then SSuccess else SFailed in
        {| s_files := s_files s; s_pending := s_pending s; s_waiting := s_waiting s; s_acked := s_acked s;
           s_acks_seen := s_acks_seen s; s_err := s_err s; s_cancelled := s_cancelled s;
           s_reader_gone := s_reader_gone s; s_result := Some r |}
    end
  end.

Definition srun (s : sst) (evs : list sev) : sst := fold_left sstep evs s.

(* the keys for which FileEnd was written, in order *)
Fixpoint ends_of (evs : list sev) : list Z :=
  match evs with [] => [] | SEndSent k :: r => k :: ends_of r | _ :: r => ends_of r end.

(* the sender can never return any more: no error, no cancellation, files
   unacknowledged, and the acknowledgement reader is gone *)
Definition stuck_forever (s : sst) : bool :=
  match s_result s with
  | Some _ => false
  | None => negb (workers_can_leave s) && s_reader_gone s &&
            forallb (fun k => match lookup_ack k (s_pending s) with None => true | Some _ => false end) (s_waiting s)
  end.

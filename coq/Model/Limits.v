(* cmd/thruserv/main.go: the server's limits and the life of a session as the
   handlers drive it.  One event per ATOMIC action of a handler goroutine (a
   mutex-protected method of Store / Hub / connLimiter / tokenBucket); the limit
   checks that the code performs as check-then-act are TWO events, so an event
   list is an arbitrary interleaving of any number of concurrent requests.
   Hand-written; tied to the code by Corr/C14.v.  Definitions only. *)
From Coq Require Import ZArith List Bool.
Import ListNotations.
From TF Require Import Model.Session.
Open Scope Z_scope.

(* ---- connLimiter (Acquire / Release, each under l.mu) ---- *)
Definition acquire (limit inuse : Z) : Z * bool :=
  if (limit >? 0) && (inuse >=? limit) then (inuse, false) else (inuse + 1, true).
Definition release (inuse : Z) : Z := if inuse >? 0 then inuse - 1 else inuse.

(* ---- tokenBucket.Allow, exact: rate = rn/rd tokens per time unit, the token
   count is kept as the numerator over rd (tokens = tk/rd) ---- *)
Record bucket := mkBucket { tk : Z; last : Z; rn : Z; rd : Z; burst : Z }.

Definition new_bucket (rate_n rate_d b now : Z) : bucket :=
  let b' := if b <? 1 then 1 else b in
  mkBucket (b' * rate_d) now (if rate_n <? 0 then 0 else rate_n) rate_d b'.

Definition allow (b : bucket) (now : Z) : bucket * bool :=
  let t1 := tk b + (now - last b) * rn b in
  let t2 := if t1 >? burst b * rd b then burst b * rd b else t1 in
  if t2 <? rd b then (mkBucket t2 now (rn b) (rd b) (burst b), false)
  else (mkBucket (t2 - rd b) now (rn b) (rd b) (burst b), true).

Fixpoint allow_all (b : bucket) (times : list Z) : bucket * list bool :=
  match times with
  | [] => (b, [])
  | t :: r => let '(b1, a) := allow b t in let '(b2, l) := allow_all b1 r in (b2, a :: l)
  end.

Definition allowed (l : list bool) : Z := Z.of_nat (length (filter (fun x => x) l)).

(* the server only consults a bucket when the configured rate is positive *)
Definition rate_allow (b : bucket) (now : Z) : bucket * bool :=
  if rn b >? 0 then allow b now else (b, true).

(* ---- message size: conn.SetReadLimit(max) when max > 0, and the read loop's
   `maxMessageSize` which falls back to 64 KiB when max <= 0 ---- *)
Definition msg_accepted (max_bytes len : Z) : bool :=
  if max_bytes >? 0 then len <=? max_bytes else len <=? 65536.

(* ---- the handlers ---- *)
Inductive role := Sender | Receiver.
Definition role_eqb (a b : role) : bool :=
  match a, b with Sender, Sender => true | Receiver, Receiver => true | _, _ => false end.

Record cfg := mkCfg {
  max_sessions : Z;      (* --max-sessions, 0 disables *)
  max_receivers : Z;     (* --max-receivers-per-sender, 0 disables *)
  max_conns : Z;         (* --max-ws-connections, 0 disables *)
  session_ttl : Z        (* --session-timeout, 0 disables *)
}.

(* where a /ws handler goroutine stands *)
Inductive wpc :=
| PLooked      (* store.GetByJoinCode succeeded *)
| PAcquired    (* wsConnLimiter.Acquire succeeded (or the limiter is off) *)
| PChecked     (* the receiver count was below the limit (or not checked) *)
| POpen.       (* upgraded, hub.Add done, in the read loop *)
Definition wpc_eqb (a b : wpc) : bool :=
  match a, b with
  | PLooked, PLooked | PAcquired, PAcquired | PChecked, PChecked | POpen, POpen => true
  | _, _ => false
  end.

Record handler := mkH {
  h_id : Z; h_sid : Z; h_peer : Z; h_role : role; h_pc : wpc; h_slot : bool
}.

(* hub entry: connection (= handler id), session, peer id, role *)
Record hconn := mkHC { hc_h : Z; hc_sid : Z; hc_peer : Z; hc_role : role }.

Record st := mkSt {
  stor : Session.store;
  hub : list hconn;
  inuse : Z;                 (* wsConnLimiter.inUse *)
  timers : list Z;           (* session ids with an armed expiry timer *)
  ws : list handler;         (* /ws handlers in flight *)
  pend : list Z              (* /session handlers between the limit check and store.Create *)
}.

Definition init (c : cfg) : st := mkSt (new_store (session_ttl c)) [] 0 [] [] [].

Fixpoint get_h (h : Z) (l : list handler) : option handler :=
  match l with [] => None | x :: r => if h_id x =? h then Some x else get_h h r end.
Fixpoint del_h (h : Z) (l : list handler) : list handler :=
  match l with [] => [] | x :: r => if h_id x =? h then r else x :: del_h h r end.
Fixpoint set_h (y : handler) (l : list handler) : list handler :=
  match l with [] => [] | x :: r => if h_id x =? h_id y then y :: r else x :: set_h y r end.

Fixpoint memz (x : Z) (l : list Z) : bool :=
  match l with [] => false | y :: r => (x =? y) || memz x r end.
Fixpoint remz (x : Z) (l : list Z) : list Z :=
  match l with [] => [] | y :: r => if x =? y then r else y :: remz x r end.

Definition receivers_in (sid : Z) (hb : list hconn) : Z :=
  Z.of_nat (length (filter (fun c => (hc_sid c =? sid) && role_eqb (hc_role c) Receiver) hb)).

(* hub.Add: last-write-wins per (session, peer id) *)
Definition hub_add (c : hconn) (hb : list hconn) : list hconn :=
  filter (fun x => negb ((hc_sid x =? hc_sid c) && (hc_peer x =? hc_peer c))) hb ++ [c].
Definition hub_remove (h : Z) (hb : list hconn) : list hconn :=
  filter (fun x => negb (hc_h x =? h)) hb.
Definition hub_close_session (sid : Z) (hb : list hconn) : list hconn :=
  filter (fun x => negb (hc_sid x =? sid)) hb.

Inductive ev :=
| SCheck (h : Z)                                        (* POST /session: `store.Count() >= maxSessions` *)
| SCreate (h now id c0 : Z) (cands : list Z)            (* store.Create() + expiry.schedule *)
| WLookup (h code peer : Z) (r : role) (now : Z)        (* GET /ws: store.GetByJoinCode *)
| WAcquire (h : Z)                                      (* wsConnLimiter.Acquire *)
| WCheck (h : Z)                                        (* count receivers in hub.List *)
| WAdd (h : Z)                                          (* upgrade + hub.Add *)
| WFail (h : Z)                                         (* upgrade failed: handler returns *)
| WClose (h : Z)                                        (* socket closed: deferred cleanup *)
| Expire (sid : Z).                                     (* the expiry timer of sid fires *)

Inductive resp :=
| RCreated (ss : session)    (* 201 *)
| RTooMany                   (* 429 *)
| RNotFound                  (* 404 *)
| RCont                      (* no response yet: the handler goes on *)
| RUpgraded                  (* 101 *)
| RDone.                     (* handler / timer finished, nothing sent *)

Definition with_store (s : st) (x : Session.store) : st := mkSt x (hub s) (inuse s) (timers s) (ws s) (pend s).
Definition with_ws (s : st) (l : list handler) : st := mkSt (stor s) (hub s) (inuse s) (timers s) l (pend s).

Definition step (c : cfg) (s : st) (e : ev) : option (st * resp) :=
  match e with
  | SCheck h =>
    if memz h (pend s) then None
    else if (max_sessions c >? 0) && (count (stor s) >=? max_sessions c) then Some (s, RTooMany)
    else Some (mkSt (stor s) (hub s) (inuse s) (timers s) (ws s) (h :: pend s), RCont)
  | SCreate h now id c0 cands =>
    if memz h (pend s) then
      match create (stor s) now id c0 cands with
      | None => None
      | Some (x, ss) =>
        let tm := match s_expires ss with Some _ => id :: timers s | None => timers s end in
        Some (mkSt x (hub s) (inuse s) tm (ws s) (remz h (pend s)), RCreated ss)
      end
    else None
  | WLookup h code peer r now =>
    match get_h h (ws s) with
    | Some _ => None
    | None =>
      let '(x, res) := get_by_code (stor s) code now in
      match res with
      | None => Some (with_store s x, RNotFound)
      | Some ss => Some (mkSt x (hub s) (inuse s) (timers s) (mkH h (s_id ss) peer r PLooked false :: ws s) (pend s), RCont)
      end
    end
  | WAcquire h =>
    match get_h h (ws s) with
    | Some x =>
      if wpc_eqb (h_pc x) PLooked then
        if max_conns c >? 0 then
          let '(n, ok) := acquire (max_conns c) (inuse s) in
          if ok then Some (mkSt (stor s) (hub s) n (timers s)
                             (set_h (mkH h (h_sid x) (h_peer x) (h_role x) PAcquired true) (ws s)) (pend s), RCont)
          else Some (with_ws s (del_h h (ws s)), RTooMany)
        else Some (with_ws s (set_h (mkH h (h_sid x) (h_peer x) (h_role x) PAcquired false) (ws s)), RCont)
      else None
    | None => None
    end
  | WCheck h =>
    match get_h h (ws s) with
    | Some x =>
      if wpc_eqb (h_pc x) PAcquired then
        if (max_receivers c >? 0) && role_eqb (h_role x) Receiver
           && (receivers_in (h_sid x) (hub s) >=? max_receivers c)
        then Some (mkSt (stor s) (hub s) (if h_slot x then release (inuse s) else inuse s) (timers s)
                        (del_h h (ws s)) (pend s), RTooMany)
        else Some (with_ws s (set_h (mkH h (h_sid x) (h_peer x) (h_role x) PChecked (h_slot x)) (ws s)), RCont)
      else None
    | None => None
    end
  | WAdd h =>
    match get_h h (ws s) with
    | Some x =>
      if wpc_eqb (h_pc x) PChecked then
        Some (mkSt (stor s) (hub_add (mkHC h (h_sid x) (h_peer x) (h_role x)) (hub s)) (inuse s) (timers s)
                   (set_h (mkH h (h_sid x) (h_peer x) (h_role x) POpen (h_slot x)) (ws s)) (pend s), RUpgraded)
      else None
    | None => None
    end
  | WFail h =>
    match get_h h (ws s) with
    | Some x =>
      if wpc_eqb (h_pc x) PChecked then
        Some (mkSt (stor s) (hub s) (if h_slot x then release (inuse s) else inuse s) (timers s)
                   (del_h h (ws s)) (pend s), RDone)
      else None
    | None => None
    end
  | WClose h =>
    match get_h h (ws s) with
    | Some x =>
      if wpc_eqb (h_pc x) POpen then
        let sender := role_eqb (h_role x) Sender in
        Some (mkSt (if sender then delete (stor s) (h_sid x) else stor s)
                   (hub_remove h (hub s))
                   (if h_slot x then release (inuse s) else inuse s)
                   (if sender then remz (h_sid x) (timers s) else timers s)
                   (del_h h (ws s)) (pend s), RDone)
      else None
    | None => None
    end
  | Expire sid =>
    if memz sid (timers s) then
      Some (mkSt (delete (stor s) sid) (hub_close_session sid (hub s)) (inuse s)
                 (remz sid (timers s)) (ws s) (pend s), RDone)
    else None
  end.

Fixpoint run (c : cfg) (s : st) (evs : list ev) : option (st * list resp) :=
  match evs with
  | [] => Some (s, [])
  | e :: r =>
    match step c s e with
    | None => None
    | Some (s1, o) =>
      match run c s1 r with
      | None => None
      | Some (s2, os) => Some (s2, o :: os)
      end
    end
  end.

(* measures *)
Definition cnt (f : handler -> bool) (l : list handler) : Z := Z.of_nat (length (filter f l)).
Definition open_conns (s : st) : Z := cnt (fun x => wpc_eqb (h_pc x) POpen) (ws s).
Definition slot_holders (s : st) : Z := cnt h_slot (ws s).
Definition pending_recv (sid : Z) (s : st) : Z :=
  cnt (fun x => wpc_eqb (h_pc x) PChecked && role_eqb (h_role x) Receiver && (h_sid x =? sid)) (ws s).
Definition pending_creates (s : st) : Z := Z.of_nat (length (pend s)).

(* how many handlers stand between a check and its act, at most, along a run *)
Fixpoint creates_overlap (c : cfg) (p : Z) (s : st) (evs : list ev) : Prop :=
  match evs with
  | [] => True
  | e :: r =>
    match step c s e with
    | None => True
    | Some (s1, _) => pending_creates s1 <= p /\ creates_overlap c p s1 r
    end
  end.

Fixpoint joins_overlap (c : cfg) (sid p : Z) (s : st) (evs : list ev) : Prop :=
  match evs with
  | [] => True
  | e :: r =>
    match step c s e with
    | None => True
    | Some (s1, _) => pending_recv sid s1 <= p /\ joins_overlap c sid p s1 r
    end
  end.

(* session ids are never handed out twice (crypto/rand, 128 bit): explicit premise *)
Fixpoint fresh (used : list Z) (evs : list ev) : Prop :=
  match evs with
  | [] => True
  | SCreate _ _ id _ _ :: r => ~ In id used /\ fresh (id :: used) r
  | _ :: r => fresh used r
  end.

(* ---- the property's reading of "the session has ended" ----
   the code ends a session when ANY sender-role socket of it closes or its timer fires: *)
Definition ended_by (s : st) (e : ev) : option Z :=
  match e with
  | WClose h =>
    match get_h h (ws s) with
    | Some x => if wpc_eqb (h_pc x) POpen && role_eqb (h_role x) Sender then Some (h_sid x) else None
    | None => None
    end
  | Expire sid => if memz sid (timers s) then Some sid else None
  | _ => None
  end.

(* the property ends it when the host is gone: no sender-role connection of the
   session stays open after the event *)
Definition host_connected_after (s : st) (h sid : Z) : bool :=
  existsb (fun x => negb (h_id x =? h) && (h_sid x =? sid) && role_eqb (h_role x) Sender && wpc_eqb (h_pc x) POpen) (ws s).

Definition ended_by_prop (s : st) (e : ev) : option Z :=
  match e with
  | WClose h =>
    match ended_by s e with
    | Some sid => if host_connected_after s h sid then None else Some sid
    | None => None
    end
  | _ => ended_by s e
  end.

(* ghost: the sessions that exist according to the history (created, not ended) *)
Definition ghost_step (endf : st -> ev -> option Z) (s : st) (g : list session) (e : ev) (o : resp) : list session :=
  let g1 := match endf s e with
            | Some sid => filter (fun x => negb (s_id x =? sid)) g
            | None => g
            end in
  match o with RCreated ss => ss :: g1 | _ => g1 end.

Definition ev_time (e : ev) : option Z :=
  match e with SCreate _ now _ _ _ => Some now | WLookup _ _ _ _ now => Some now | _ => None end.

Fixpoint grun (endf : st -> ev -> option Z) (c : cfg) (s : st) (g : list session) (clk : Z) (evs : list ev)
  : option (st * list session * Z) :=
  match evs with
  | [] => Some (s, g, clk)
  | e :: r =>
    match step c s e with
    | None => None
    | Some (s1, o) =>
      grun endf c s1 (ghost_step endf s g e o)
           (match ev_time e with Some t => Z.max clk t | None => clk end) r
    end
  end.

(* R: a sender-role socket never closes while another sender-role connection of
   the same session is open (a host does not reconnect over a stale socket) *)
Fixpoint single_host (c : cfg) (s : st) (evs : list ev) : Prop :=
  match evs with
  | [] => True
  | e :: r =>
    match step c s e with
    | None => True
    | Some (s1, _) => ended_by_prop s e = ended_by s e /\ single_host c s1 r
    end
  end.

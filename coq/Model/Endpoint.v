(* C15, part 2: what the ENDPOINTS do with each decoded or undecodable record,
   stage by stage (internal/transfer/multistream.go RecvManifestMultiStream and
   the acknowledgement reader of SendManifestMultiStream), as total functions
   of the bytes of one stream:

     recv_ctl_run   the receiver's control stream after the header: wait for
                    DataStreams, then FileBegin / ResumeRequest / FileEnd / End;
     data_run       one data stream of the receiver (readDataStream) against the
                    table of announced files;
     ack_run        the sender's reader of FileDone / FileResumeInfo.

   Each says how the endpoint ends when that stream's input has ENDED and the
   other streams are silent: returns nil, returns an error, panics, or keeps
   waiting although nothing can arrive any more (a hang).  Go panics are values
   (bufpool.New(0)); nothing is a totalisation default: fuel exhaustion is its
   own outcome and proved unreachable.

   Hand-written, follows the code AFTER the fixes "receiver rejects a FileBegin
   whose chunk size is zero or above 64 MiB", "receiver rejects a ResumeRequest
   for a file that was never announced", "sender fails when the receiver closes
   the control stream ..." and a51b52c (late chunks of finished files are
   discarded).  Tied to the code by Corr/C15.v. *)
From Coq Require Import ZArith List Bool Lia.
From TF Require Import Lib.GoInt Lib.Bytes Gen.Consts Gen.C15 Gen.Geometry Model.Path Model.Wire Model.WireDec.
Import ListNotations.
Open Scope Z_scope.

(* a non-directory item of the manifest; the key is fileKeyForItem (FNV-1a of
   the id or path), computed by the implementation and given here *)
Record mitem := { mi_path : list Z; mi_size : Z; mi_key : Z; mi_id : list Z }.

(* recvFileStateMux *)
Record fstate := {
  fs_key : Z; fs_id : list Z; fs_cs : Z; fs_total : Z; fs_remaining : Z;
  fs_sidecar : bool; fs_got : list Z }.

Record rstate := { active : list fstate; finished : list Z; completed : Z }.

Definition st0 : rstate := {| active := []; finished := []; completed := 0 |}.

Definition find_item (p : list Z) (items : list mitem) : option mitem :=
  find (fun it => list_eqb (mi_path it) p) (rev items).   (* maps keyed by path: the last one wins *)

Definition find_state (k : Z) (st : rstate) : option fstate :=
  find (fun f => fs_key f =? k) (active st).

Definition is_finished (k : Z) (st : rstate) : bool := existsb (Z.eqb k) (finished st).

Definition drop_state (k : Z) (l : list fstate) : list fstate :=
  filter (fun f => negb (fs_key f =? k)) l.

(* finalizeFile(state, ok, _) *)
Definition finalize (f : fstate) (ok : bool) (st : rstate) : rstate :=
  {| active := drop_state (fs_key f) (active st);
     finished := fs_key f :: finished st;
     completed := if ok then completed st + 1 else completed st |}.

Definition put_state (f : fstate) (st : rstate) : rstate :=
  {| active := f :: drop_state (fs_key f) (active st); finished := finished st; completed := completed st |}.

(* handleFileBegin / handleResumeRequest / handleFileEnd; Err = the handler
   returns an error (the receiver then returns it).  File-system calls are
   assumed to succeed except Truncate of a negative length. *)
Definition handle_ctl (resume : bool) (items : list mitem) (st : rstate) (m : ctl) : res rstate :=
  match m with
  | FileBegin p size cs sid _ _ _ _ _ =>
    if negb (validate_rel_path p) then Err else
    match find_item p items with
    | None => Err
    | Some it =>
      if negb (mi_size it =? i64 size) then Err else
      if negb ((sid =? 0) || (sid =? mi_key it)) then Err else
      if (cs =? 0) || (c_maxChunkSize <? cs) then Err else
      if existsb (fun f => fs_key f =? mi_key it) (active st) then Err else
      if mi_size it <? 0 then Err else
      match recvTotalChunks size cs with
      | Ret total =>
        Ret (put_state {| fs_key := mi_key it; fs_id := mi_id it; fs_cs := cs; fs_total := total;
                          fs_remaining := total;
                          fs_sidecar := resume && negb (list_eqb (mi_id it) []);
                          fs_got := [] |} st)
      | Err => Err
      | Panic => Panic
      end
    end
  | ResumeRequest fid sid =>
    match find_state sid st with
    | Some f =>
      if negb (list_eqb fid []) && negb (list_eqb (fs_id f) []) && negb (list_eqb fid (fs_id f)) then Err
      else Ret st
    | None => if is_finished sid st then Ret st else Err
    end
  | FileEnd sid _ =>
    match find_state sid st with
    | Some f => if fs_remaining f =? 0 then Ret (finalize f true st) else Ret st
    | None => if is_finished sid st then Ret st else Err
    end
  | EndRec => Ret st
  | _ => Err       (* "unexpected control message type" *)
  end.

Inductive rout :=
| ROk            (* returns nil *)
| RErr           (* returns an error *)
| REofDone       (* the stream ended after every file had completed: nil, or the EOF error if it is seen first *)
| RPanic
| RHangEnd       (* End before all files completed: the control reader has stopped, nothing else is read *)
| RFuel.

(* records queued before DataStreams arrived are handled first (End among them is ignored) *)
Fixpoint run_pending (resume : bool) (items : list mitem) (st : rstate) (ms : list ctl) : res rstate :=
  match ms with
  | [] => Ret st
  | m :: r => bind (handle_ctl resume items st m) (fun st' => run_pending resume items st' r)
  end.

(* the rest of the stream decodes record by record up to a clean end and holds
   no End record: the control reader will report io.EOF, which the main loop may
   pick up BEFORE the records still queued in front of it *)
Definition clean_tail (rest : list Z) : bool :=
  match dec_all (length rest) rest with
  | Some ms => negb (existsb (fun m => match m with EndRec => true | _ => false end) ms)
  | None => false
  end.

Fixpoint recv_ctl_main (fuel : nat) (resume : bool) (items : list mitem) (st : rstate) (l : list Z) : rout * rstate :=
  let total := Z.of_nat (length items) in
  match l with
  | [] => (if total <=? completed st then REofDone else RErr, st)
  | _ =>
    match fuel with
    | O => (RFuel, st)
    | S f =>
      match dec_ctl l with
      | DShort => (if total <=? completed st then REofDone else RErr, st)
      | DBad => (RErr, st)
      | DOk EndRec _ => (if total <=? completed st then ROk else RHangEnd, st)
      | DOk m rest =>
        match handle_ctl resume items st m with
        | Ret st' => recv_ctl_main f resume items st' rest
        | Err =>
          (* once every file has completed, a pending io.EOF turns into "return nil";
             it races with the handling of this record *)
          (if (total <=? completed st) && clean_tail rest then REofDone else RErr, st)
        | Panic => (RPanic, st)
        end
      end
    end
  end.

(* before DataStreams{n>0}: everything else is queued; the reader goroutine
   stops at End, so an End here means DataStreams can never be seen *)
Fixpoint recv_ctl_pre (fuel : nat) (resume : bool) (items : list mitem) (pending : list ctl) (l : list Z) : rout * rstate :=
  match fuel with
  | O => (RFuel, st0)
  | S f =>
    match dec_ctl l with
    | DShort => (RErr, st0)
    | DBad => (RErr, st0)
    | DOk EndRec _ => (RHangEnd, st0)
    | DOk (DataStreams n) rest =>
      if n =? 0 then recv_ctl_pre f resume items pending rest
      else match run_pending resume items st0 (rev pending) with
           | Ret st => recv_ctl_main f resume items st rest
           | Err => (RErr, st0)
           | Panic => (RPanic, st0)
           end
    | DOk m rest => recv_ctl_pre f resume items (m :: pending) rest
    end
  end.

Definition recv_ctl_run (resume : bool) (items : list mitem) (l : list Z) : rout * rstate :=
  recv_ctl_pre (S (length l)) resume items [] l.

(* ---- one data stream (readDataStream) ---- *)
Inductive dout :=
| DQuiet          (* the stream ended at or inside a frame header: the reader exits without an error *)
| DFail           (* the reader reports an error (the receiver returns it) *)
| DPanicked       (* bufpool.New(0) *)
| DWaitsFile      (* frame for a file key not announced yet: waits for the control stream *)
| DFuel.

Definition mark_chunk (f : fstate) (idx : Z) : fstate :=
  if fs_sidecar f then
    if existsb (Z.eqb idx) (fs_got f) then f
    else {| fs_key := fs_key f; fs_id := fs_id f; fs_cs := fs_cs f; fs_total := fs_total f;
            fs_remaining := if 0 <? fs_remaining f then fs_remaining f - 1 else 0;
            fs_sidecar := true; fs_got := idx :: fs_got f |}
  else {| fs_key := fs_key f; fs_id := fs_id f; fs_cs := fs_cs f; fs_total := fs_total f;
          fs_remaining := if 0 <? fs_remaining f then fs_remaining f - 1 else 0;
          fs_sidecar := false; fs_got := fs_got f |}.

Section Data.
  Variable crc : list Z -> Z.      (* CRC32C of the payload *)

  (* result: outcome, state afterwards, the pool buffers requested (each is
     returned to the pool before the next one is requested or the reader ends) *)
  Fixpoint data_loop (fuel : nat) (st : rstate) (l : list Z) (bufs : list Z) : dout * rstate * list Z :=
    match fuel with
    | O => (DFuel, st, bufs)
    | S fu =>
      match dec_frame_header l with
      | DShort => (DQuiet, st, bufs)
      | DBad => (DQuiet, st, bufs)
      | DOk (key, idx, clen, want) rest =>
        if clen =? 0 then (DFail, st, bufs) else
        match find_state key st with
        | None =>
          if is_finished key st then
            match rdbz clen rest with
            | DOk _ rest' => data_loop fu st rest' bufs     (* late chunk of a finished file: discarded *)
            | _ => (DFail, st, bufs)
            end
          else (DWaitsFile, st, bufs)
        | Some f =>
          if (0 <? fs_total f) && (fs_total f <=? idx) then (DFail, finalize f false st, bufs) else
          if (0 <? fs_cs f) && (fs_cs f <? clen) then (DFail, finalize f false st, bufs) else
          if fs_cs f =? 0 then (DPanicked, st, bufs) else
          let bufs' := bufs ++ [fs_cs f] in
          match rdbz clen rest with
          | DOk data rest' =>
            if negb (crc data =? want) then (DFail, finalize f false st, bufs') else
            let f' := mark_chunk f idx in
            let st' := if fs_remaining f' =? 0 then finalize f' true st else put_state f' st in
            data_loop fu st' rest' bufs'
          | _ => (DFail, finalize f false st, bufs')
          end
        end
      end
    end.

  Definition data_run (st : rstate) (l : list Z) : dout * rstate * list Z :=
    data_loop (S (length l)) st l [].
End Data.

(* every announced file has a chunk size the receiver accepted *)
Definition wf_state (st : rstate) : Prop :=
  Forall (fun f => fs_cs f <> 0 /\ fs_cs f <= c_maxChunkSize) (active st).

(* ---- the sender's acknowledgement reader ---- *)
Inductive aout :=
| AErr          (* reports an error: the transfer fails *)
| AFuel.

(* FileDone / FileResumeInfo are delivered to their waiters; anything else, an
   undecodable record, or the end of the stream (since the fix) is an error.
   The reader never decides that the transfer succeeded: that happens when the
   sender has seen FileDone{ok} for every file, before the stream ends. *)
Fixpoint ack_run (fuel : nat) (l : list Z) : aout * list ctl :=
  match fuel with
  | O => (AFuel, [])
  | S f =>
    match dec_ctl l with
    | DOk (FileDone sid ok e) rest => let r := ack_run f rest in (fst r, FileDone sid ok e :: snd r)
    | DOk (FileResumeInfo a b c d e g) rest => let r := ack_run f rest in (fst r, FileResumeInfo a b c d e g :: snd r)
    | _ => (AErr, [])
    end
  end.
